(* Executable model for property C17 "display attributes travel from markup to the
   terminal unchanged".  Four small parts, each mirroring the code named above it:

   (1) urwid/util.py  decompose_tagmarkup / _tagmarkup_recurse on an inductive markup tree;
   (2) urwid/canvas.py apply_text_layout: arange / attrrange / the segment loop and the
       attribute padding done by TextCanvas.__init__, for a layout given as DATA;
       a character is (encoded byte length, screen columns), both data;
   (2b) urwid/util.py calc_trim_text / trim_text_attr_cs / rle_subseg / rle_prepend_modify: the
       clipping TextCanvas.content(trim_left, cols) applies to a rendered row given as DATA;
   (3) urwid/canvas.py CompositeCanvas.fill_attr_apply, the attr_map of a cview applied by
       TextCanvas/SolidCanvas/BlankCanvas.content, and urwid/widget/attr_map.py AttrMap.render;
   (4) urwid/display/_raw_display_base.py _attrspec_to_escape, _on_update_palette_entry,
       set_terminal_properties, draw_screen.attr_to_escape, and urwid/display/common.py
       register_palette / register_palette_entry (colour PARSING is not modelled here: an
       AttrSpec arrives as its integer fields), plus an SGR decoder written from the
       ECMA-48 / xterm meaning of the parameters, independently of the encoder.

   No proofs in this file.  Attribute names are integers, None is [None]. *)
From Coq Require Import ZArith List Bool Lia.
Import ListNotations.
From Urwid Require Import PyBase PyList.
Open Scope Z_scope.

Definition attr := option Z.
Definition attr_eqb (a b : attr) : bool :=
  match a, b with
  | None, None => true
  | Some x, Some y => x =? y
  | _, _ => false
  end.
Definition run := (attr * Z)%type.
Definition rle := list run.

(* ------------------------------------------------------------------------------------ *)
(* util.py run-length helpers                                                            *)

(* rle_len *)
Fixpoint rle_len (r : rle) : Z :=
  match r with [] => 0 | (_, n) :: t => n + rle_len t end.

(* rle_get_at *)
Fixpoint rle_get_at_from (x : Z) (r : rle) (pos : Z) : attr :=
  match r with
  | [] => None
  | (a, n) :: t => if pos <? x + n then a else rle_get_at_from (x + n) t pos
  end.
Definition rle_get_at (r : rle) (pos : Z) : attr :=
  if pos <? 0 then None else rle_get_at_from 0 r pos.

(* rle_append_modify: "if not r: return"; otherwise append (a, r), merging with the LAST run
   when its attribute is equal *)
Fixpoint rle_append_nz (r : rle) (ar : run) : rle :=
  match r with
  | [] => [ar]
  | [(la, lr)] => if attr_eqb la (fst ar) then [(fst ar, lr + snd ar)] else [(la, lr); ar]
  | x :: t => x :: rle_append_nz t ar
  end.
Definition rle_append_modify (r : rle) (ar : run) : rle :=
  if snd ar =? 0 then r else rle_append_nz r ar.

(* ------------------------------------------------------------------------------------ *)
(* (1) util.py: _tagmarkup_recurse, decompose_tagmarkup                                  *)

Inductive markup :=
  | Str (isb : bool) (cs : list Z)      (* str (isb = false) or bytes (isb = true) *)
  | Tagged (a : attr) (m : markup)      (* (attr, markup) *)
  | Lst (ms : list markup)              (* [markup, ...] *)
  | Bad.                                (* anything else: TagMarkupException *)

Definition piece := (bool * list Z)%type.

(* the "merge attributes when possible" step: ral[-1] and al[0] *)
Fixpoint merge_last (ral : rle) (ta : attr) (tr : Z) (al' : rle) : rle :=
  match ral with
  | [] => (ta, tr) :: al'
  | [(la, lr)] => if attr_eqb la ta then (ta, lr + tr) :: al' else (la, lr) :: (ta, tr) :: al'
  | x :: t => x :: merge_last t ta tr al'
  end.

Definition merge_runs (ral al : rle) : result rle :=
  match ral with
  | [] => Ok al
  | _ => match al with
         | [] => Err IndexError                   (* al[0] on an empty list *)
         | (ta, tr) :: al' => Ok (merge_last ral ta tr al')
         end
  end.

(* _tagmarkup_recurse(tm, attr) *)
Fixpoint tagmarkup_recurse (tm : markup) (a : attr) : result (list piece * rle) :=
  match tm with
  | Lst ms =>
      (fix loop (ms : list markup) (rtl : list piece) (ral : rle) : result (list piece * rle) :=
         match ms with
         | [] => Ok (rtl, ral)
         | e :: rest =>
             match tagmarkup_recurse e a with
             | Err x => Err x
             | Ok (tl, al) =>
                 match merge_runs ral al with
                 | Err x => Err x
                 | Ok ral' => loop rest (rtl ++ tl) ral'
                 end
             end
         end) ms [] []
  | Tagged a' e => tagmarkup_recurse e a'
  | Bad => Err OtherError
  | Str isb cs => Ok ([(isb, cs)], [(a, zlen cs)])
  end.

(* tl[0][:0].join(tl): str.join / bytes.join refuse a piece of the other type *)
Definition join_pieces (tl : list piece) : result (bool * list Z) :=
  match tl with
  | [] => Ok (false, [])
  | (b0, _) :: _ =>
      if forallb (fun p => Bool.eqb (fst p) b0) tl then Ok (b0, flat_map snd tl) else Err TypeError
  end.

(* if al and al[-1][0] is None: del al[-1] *)
Fixpoint trim_none_tail (al : rle) : rle :=
  match al with
  | [] => []
  | [(None, _)] => []
  | x :: t => x :: trim_none_tail t
  end.

Definition decompose_tagmarkup (tm : markup) : result (bool * list Z * rle) :=
  match tagmarkup_recurse tm None with
  | Err e => Err e
  | Ok (tl, al) =>
      match join_pieces tl with
      | Err e => Err e
      | Ok (b, text) => Ok (b, text, trim_none_tail al)
      end
  end.

(* ------------------------------------------------------------------------------------ *)
(* (2) canvas.py: apply_text_layout                                                      *)

(* one character of the text: bytes it occupies after apply_target_encoding, the columns of
   those bytes on the canvas, whether str.isascii() holds of it, and the columns the layout
   functions (calc_text_pos / calc_width on the TEXT) count for it *)
Record chr := Chr { c_enc : Z; c_wid : Z; c_ascii : bool; c_lw : Z }.

(* one displayed character of a byte string (a canvas row, an insert text): bytes and columns *)
Record rchr := RC { r_len : Z; r_wid : Z }.
Fixpoint rc_len (l : list rchr) : Z := match l with [] => 0 | c :: t => r_len c + rc_len t end.
Fixpoint rc_wid (l : list rchr) : Z := match l with [] => 0 | c :: t => r_wid c + rc_wid t end.

Inductive seg :=
  | SText (sc offs e : Z)                     (* (sc, offs, end) *)
  | SIns (sc offs : Z) (txt : list rchr) (ilen : Z)   (* (sc, offs, b"text"): its characters, encoded length *)
  | SPad (sc : Z) (offs : oz).                (* (sc, offs) / (sc, None) *)

Definition seg_sc (s : seg) : Z :=
  match s with SText sc _ _ => sc | SIns sc _ _ _ => sc | SPad sc _ => sc end.

(* text[a:b] with Python slice semantics *)
Definition py_slice {A} (l : list A) (a b : Z) : list A :=
  let '(s, e, _) := slice_indices (zlen l) (Some a) (Some b) None in
  takez (e - s) (dropz s l).

Fixpoint sum_enc (l : list chr) : Z := match l with [] => 0 | c :: t => c_enc c + sum_enc t end.
Fixpoint sum_wid (l : list chr) : Z := match l with [] => 0 | c :: t => c_wid c + sum_wid t end.

(* rle_len(cs) of apply_target_encoding(text[a:b]) = number of bytes that remain *)
Definition enc_len (text : list chr) (a b : Z) : Z := sum_enc (py_slice text a b).

(* _AttrWalk: (counter, offset) *)
Definition awstate := (Z * Z)%type.

(* the while loop of arange; [rest] = attr[counter:] *)
Fixpoint arange_loop (rest : rle) (counter offset start e : Z) {struct rest} : rle * awstate :=
  if e <? offset then ([], (counter, offset)) else
  match rest with
  | [] => ([(None, e - Z.max start offset)], (counter, offset))           (* run out of attributes *)
  | (at_, rn) :: rest' =>
      if offset + rn <=? start then arange_loop rest' (counter + 1) (offset + rn) start e
      else if e <=? offset + rn then ([(at_, e - Z.max start offset)], (counter, offset))
      else let '(o, st) := arange_loop rest' (counter + 1) (offset + rn) start e in
           ((at_, offset + rn - Z.max start offset) :: o, st)
  end.

(* arange(start_offs, end_offs) *)
Definition arange (attrs : rle) (st : awstate) (start e : Z) : rle * awstate :=
  let '(counter, offset) := if start <? snd st then (0, 0) else st in
  arange_loop (dropz counter attrs) counter offset start e.

(* attrrange, third branch: "encoded version has different width" *)
Fixpoint attrrange_slow (text : list chr) (runs : rle) (o e destw : Z) (linea : rle) : rle :=
  match runs with
  | [] => linea
  | (at_, rn) :: t =>
      if o + rn =? e then rle_append_modify linea (at_, destw)
      else let segw := enc_len text o (o + rn) in
           attrrange_slow text t (o + rn) e (destw - segw) (rle_append_modify linea (at_, segw))
  end.

(* attrrange(start_offs, end_offs, destw) *)
Definition attrrange (isb : bool) (text : list chr) (attrs : rle) (st : awstate) (linea : rle) (start e destw : Z)
  : result (rle * awstate) :=
  let '(runs, st') := arange attrs st start e in
  if start =? e then
    match runs with
    | [(at_, _)] => Ok (rle_append_modify linea (at_, destw), st')
    | _ => Err ValueError                          (* [(at, run)] = ... unpacking *)
    end
  else if (destw =? e - start) && (isb || forallb c_ascii (py_slice text start e)) then
    (* ... and (isinstance(text, bytes) or text[start_offs:end_offs].isascii()) *)
    Ok (fold_left rle_append_modify runs linea, st')
  else Ok (attrrange_slow text runs start e destw linea, st').

(* LayoutSegment.__init__ *)
Definition seg_check (s : seg) : result unit :=
  match s with
  | SText sc _ _ => if sc <=? 0 then Err ValueError else Ok tt
  | SIns sc _ _ _ => if sc <=? 0 then Err ValueError else Ok tt
  | SPad sc (Some _) => if sc <? 0 then Err ValueError else Ok tt
  | SPad _ None => Ok tt
  end.

(* ---- trim_line / LayoutSegment.subseg (text_layout.py) ---- *)

(* str_util.calc_text_pos on a row from a character boundary: walk whole characters while the
   next one still fits in pref_col ("if w + sc > pref_col: return i, sc") *)
Fixpoint text_pos (cs : list rchr) (i sc pref : Z) : Z * Z :=
  match cs with
  | [] => (i, sc)
  | c :: t => if pref <? r_wid c + sc then (i, sc) else text_pos t (i + r_len c) (sc + r_wid c) pref
  end.

(* the characters of the row from byte offset n on (n a character boundary) *)
Fixpoint drop_bytes (cs : list rchr) (n : Z) : list rchr :=
  match cs with
  | [] => []
  | c :: t => if n <=? 0 then cs else drop_bytes t (n - r_len c)
  end.

(* calc_trim_text(text, 0, len(text), start_col, end_col) -> (spos, epos, pad_left, pad_right) *)
Definition calc_trim_text (cs : list rchr) (start_col end_col : Z) : Z * Z * Z * Z :=
  let '(spos, pl) :=
    if 0 <? start_col then
      let '(sp, sc) := text_pos cs 0 0 start_col in
      if sc <? start_col then (fst (text_pos cs 0 0 (start_col + 1)), 1) else (sp, 0)
    else (0, 0) in
  let run := end_col - start_col - pl in
  let '(pos, sc) := text_pos (drop_bytes cs spos) spos 0 run in
  (spos, pos, pl, if sc <? run then 1 else 0).

(* the first n bytes of a character list (n a character boundary) *)
Fixpoint take_bytes (cs : list rchr) (n : Z) : list rchr :=
  match cs with
  | [] => []
  | c :: t => if n <=? 0 then [] else c :: take_bytes t (n - r_len c)
  end.

(* the characters of text[offs:end] as calc_text_pos walks them: one offset each *)
Definition text_rchars (text : list chr) (offs e : Z) : list rchr :=
  map (fun c => RC 1 (c_lw c)) (py_slice text offs e).

(* LayoutSegment.subseg(text, start, end).  An insert that is cut is assumed to hold no SO/SI
   (its encoded length is its length). *)
Definition subseg (text : list chr) (s : seg) (start e : Z) : result (list seg) :=
  let start := Z.max start 0 in
  let e := Z.min e (seg_sc s) in
  if e <=? start then Ok [] else
  match s with
  | SIns sc offs txt ilen =>
      if negb (rc_len txt =? 0) then
        let '(spos, epos, pl, pr) := calc_trim_text txt start e in
        let txt' := repeat (RC 1 1) (Z.to_nat pl) ++ take_bytes (drop_bytes txt spos) (epos - spos)
                    ++ repeat (RC 1 1) (Z.to_nat pr) in
        Ok [SIns (e - start) offs txt' (rc_len txt')]
      else Ok [SPad (e - start) (Some offs)]
  | SText sc offs en =>
      if negb (en =? 0) then
        if (offs <? 0) || (en <? offs) || (zlen text <? en) then Err OtherError   (* outside the modelled domain *)
        else
        let '(spos0, epos0, pl, pr) := calc_trim_text (text_rchars text offs en) start e in
        let spos := offs + spos0 in
        let epos := offs + epos0 in
        Ok ((if negb (pl =? 0) then [SPad 1 (Some (spos - 1))] else []) ++
            (if negb (e - start - pl - pr =? 0) then [SText (e - start - pl - pr) spos epos] else []) ++
            (if negb (pr =? 0) then [SPad 1 (Some epos)] else []))
      else Ok [SPad (e - start) (Some offs)]
  | SPad sc o => Ok [SPad (e - start) o]
  end.

(* trim_line(segs, text, start, end): note that x is only advanced while start is being consumed *)
Fixpoint trim_line_go (text : list chr) (segs : list seg) (start x e : Z) (acc : list seg) : result (list seg) :=
  match segs with
  | [] => Ok acc
  | s :: r =>
      let sc := seg_sc s in
      if negb (start =? 0) || (sc <? 0) then
        if sc <=? start then trim_line_go text r (start - sc) (x + sc) e acc
        else match seg_check s with
             | Err er => Err er
             | Ok _ =>
                 if e <=? x + sc then subseg text s start (e - x)          (* return s.subseg(...) *)
                 else match subseg text s start sc with
                      | Err er => Err er
                      | Ok l => trim_line_go text r 0 (x + sc) e (acc ++ l)
                      end
             end
      else if e <=? x then Ok acc
      else if e <? x + sc then
        match seg_check s with
        | Err er => Err er
        | Ok _ => match subseg text s 0 (e - x) with Err er => Err er | Ok l => Ok (acc ++ l) end
        end
      else trim_line_go text r start x e (acc ++ [s])
  end.
Definition trim_line (text : list chr) (segs : list seg) (maxcol : Z) : result (list seg) :=
  trim_line_go text segs 0 0 maxcol [].

(* accumulated line: attribute runs, bytes so far, columns so far *)
Record lstate := LS { l_attr : rle; l_bytes : Z; l_cols : Z; l_aw : awstate }.

(* one iteration of "for seg in line_layout" *)
Definition do_seg (isb : bool) (text : list chr) (attrs : rle) (ls : lstate) (s : seg) : result lstate :=
  match seg_check s with
  | Err x => Err x
  | Ok _ =>
    let s_end := match s with SText _ _ e => e | _ => 0 end in
    let s_text := match s with SIns _ _ txt _ => rc_len txt | _ => 0 end in
    let s_offs := match s with SText _ o _ => o | SIns _ o _ _ => o | SPad _ (Some o) => o | SPad _ None => 0 end in
    let sc := seg_sc s in
    if negb (s_end =? 0) then                                       (* if s.end: *)
      let destw := enc_len text s_offs s_end in
      match attrrange isb text attrs (l_aw ls) (l_attr ls) s_offs s_end destw with
      | Err x => Err x
      | Ok (la, aw) => Ok (LS la (l_bytes ls + destw) (l_cols ls + sum_wid (py_slice text s_offs s_end)) aw)
      end
    else if negb (s_text =? 0) then                                 (* elif s.text: *)
      let '(ilen, iw) := match s with SIns _ _ txt ilen => (ilen, rc_wid txt) | _ => (0, 0) end in
      match attrrange isb text attrs (l_aw ls) (l_attr ls) s_offs s_offs ilen with
      | Err x => Err x
      | Ok (la, aw) => Ok (LS la (l_bytes ls + ilen) (l_cols ls + iw) aw)
      end
    else if match s with SPad _ None => false | _ => true end then   (* elif s.offs is not None: *)
      if negb (sc =? 0) then                                        (*   if s.sc: *)
        match attrrange isb text attrs (l_aw ls) (l_attr ls) s_offs s_offs sc with
        | Err x => Err x
        | Ok (la, aw) => Ok (LS la (l_bytes ls + Z.max 0 sc) (l_cols ls + Z.max 0 sc) aw)
        end
      else Ok ls
    else if negb (sc =? 0) then                                     (* elif s.sc: linea.append((None, sc)) *)
      Ok (LS (l_attr ls ++ [(None, sc)]) (l_bytes ls + Z.max 0 sc) (l_cols ls + Z.max 0 sc) (l_aw ls))
    else Ok ls
  end.

Fixpoint do_segs (isb : bool) (text : list chr) (attrs : rle) (ls : lstate) (segs : list seg) : result lstate :=
  match segs with
  | [] => Ok ls
  | s :: r => match do_seg isb text attrs ls s with Err x => Err x | Ok ls' => do_segs isb text attrs ls' r end
  end.

(* the "for line_layout in ls" loop: the walker state is shared by all lines *)
Fixpoint do_lines (isb : bool) (text : list chr) (attrs : rle) (maxcol : Z) (aw : awstate) (lines : list (list seg))
  : result (list lstate) :=
  match lines with
  | [] => Ok []
  | l :: r =>
      match trim_line text l maxcol with                    (* line_layout = trim_line(line_layout, text, 0, maxcol) *)
      | Err x => Err x
      | Ok l' =>
        match do_segs isb text attrs (LS [] 0 0 aw) l' with
        | Err x => Err x
        | Ok ls => match do_lines isb text attrs maxcol (l_aw ls) r with
                   | Err x => Err x
                   | Ok rs => Ok (ls :: rs)
                   end
        end
      end
  end.

(* TextCanvas.__init__, attribute part, one line *)
Definition canvas_line (maxcol : Z) (ls : lstate) : result rle :=
  let w := l_cols ls in
  if maxcol <? w then Err CanvasError else
  let nbytes := if w <? maxcol then l_bytes ls + (maxcol - w) else l_bytes ls in
  let a_gap := nbytes - rle_len (l_attr ls) in
  if a_gap <? 0 then Err CanvasError
  else if a_gap =? 0 then Ok (l_attr ls)
  else Ok (rle_append_modify (l_attr ls) (None, a_gap)).

Fixpoint canvas_lines (maxcol : Z) (l : list lstate) : result (list rle) :=
  match l with
  | [] => Ok []
  | x :: r => match canvas_line maxcol x with
              | Err e => Err e
              | Ok a => match canvas_lines maxcol r with Err e => Err e | Ok rs => Ok (a :: rs) end
              end
  end.

Definition apply_text_layout (isb : bool) (text : list chr) (attrs : rle) (lines : list (list seg)) (maxcol : Z)
  : result (list rle) :=
  match do_lines isb text attrs maxcol (0, 0) lines with
  | Err x => Err x
  | Ok ls => canvas_lines maxcol ls
  end.

(* ------------------------------------------------------------------------------------ *)
(* (2b) clipping a rendered row: util.py calc_trim_text / trim_text_attr_cs (attribute part),
   rle_subseg, rle_prepend_modify, as used by TextCanvas.content(trim_left, cols) for every
   partially shown canvas (CompositeCanvas.pad_trim_left_right, Overlay, Padding/Columns clip) *)

(* rle_subseg(rle, start, end) *)
Fixpoint rle_subseg_go (r : rle) (x start e : Z) : rle :=
  match r with
  | [] => []
  | (a, rn) :: t =>
      if negb (start =? 0) && (rn <=? start) then rle_subseg_go t (x + rn) (start - rn) e
      else
        let x1 := if negb (start =? 0) then x + start else x in
        let rn1 := if negb (start =? 0) then rn - start else rn in
        if e <=? x1 then []
        else let rn2 := if e <? x1 + rn1 then e - x1 else rn1 in
             (a, rn2) :: rle_subseg_go t (x1 + rn2) 0 e
  end.
Definition rle_subseg (r : rle) (start e : Z) : rle := rle_subseg_go r 0 start e.

(* rle_prepend_modify *)
Definition rle_prepend_modify (r : rle) (ar : run) : rle :=
  match r with
  | [] => [ar]
  | (al, rn) :: t => if attr_eqb (fst ar) al then (fst ar, rn + snd ar) :: t else ar :: r
  end.

(* trim_text_attr_cs, the attribute list *)
Definition trim_attr (cs : list rchr) (attrs : rle) (start_col end_col : Z) : rle :=
  let '(spos, epos, pl, pr) := calc_trim_text cs start_col end_col in
  let a0 := rle_subseg attrs spos epos in
  let a1 := if negb (pl =? 0) then rle_prepend_modify a0 (rle_get_at attrs (spos - 1), 1) else a0 in
  if negb (pr =? 0) then rle_append_modify a1 (rle_get_at attrs epos, 1) else a1.

(* ------------------------------------------------------------------------------------ *)
(* (3) attribute maps                                                                    *)

Definition amap := list (attr * attr).      (* a dict in insertion order, keys unique *)

Fixpoint lookup (k : attr) (m : amap) : option attr :=
  match m with
  | [] => None
  | (k', v) :: t => if attr_eqb k' k then Some v else lookup k t
  end.

(* d[k] = v *)
Fixpoint dict_set (m : amap) (k v : attr) : amap :=
  match m with
  | [] => [(k, v)]
  | (k', v') :: t => if attr_eqb k' k then (k', v) :: t else (k', v') :: dict_set t k v
  end.

(* mapping.get(k, d) *)
Definition dict_get (m : amap) (k d : attr) : attr :=
  match lookup k m with Some v => v | None => d end.

(* combined = mapping.copy(); combined.update([(k, mapping.get(v, v)) for k, v in cv[4].items()]) *)
Definition combine_maps (mapping cv4 : amap) : amap :=
  fold_left (fun acc kv => dict_set acc (fst kv) (dict_get mapping (snd kv) (snd kv))) cv4 mapping.

(* CompositeCanvas.fill_attr_apply, on the attr_map slot of one cview *)
Definition fill_attr_apply_cv (mapping : amap) (cv4 : option amap) : option amap :=
  match cv4 with
  | None => Some mapping
  | Some m => Some (combine_maps mapping m)
  end.

(* TextCanvas.content: "if attr and a in attr: a = attr[a]";
   SolidCanvas/BlankCanvas.content: "if attr and None in attr: def_attr = attr[None]" is the same at None *)
Definition apply_map (m : option amap) (a : attr) : attr :=
  match m with
  | None => a
  | Some [] => a
  | Some d => match lookup a d with Some v => v | None => a end
  end.

(* AttrMap.render: which map *)
Definition choose_map (am : amap) (fm : option amap) (focus : bool) : amap :=
  if focus then match fm with Some f => f | None => am end else am.

(* a widget tree: Text leaves, AttrMap/AttrWrap, and Pile/Columns ("box": the child at the
   focus position is rendered with the box's focus flag, the others without); a Columns child
   shorter than its siblings is followed by a blank padding view (pad = true) *)
Inductive wtree :=
  | WLeaf (id : Z)
  | WAttr (am : amap) (fm : option amap) (c : wtree)
  | WBox (fpos : Z) (cs : list (wtree * bool)).

Definition cview := (option amap * Z)%type.     (* (attr_map, canvas id); id -1 = blank padding *)

Fixpoint render (t : wtree) (focus : bool) : list cview :=
  match t with
  | WLeaf id => [(None, id)]
  | WAttr am fm c =>
      map (fun cv : cview => (fill_attr_apply_cv (choose_map am fm focus) (fst cv), snd cv)) (render c focus)
  | WBox fpos cs =>
      (fix go (cs : list (wtree * bool)) (i : Z) : list cview :=
         match cs with
         | [] => []
         | (c, pad) :: r =>
             render c (focus && (i =? fpos)) ++ (if pad then [(None, -1)] else []) ++ go r (i + 1)
         end) cs 0
  end.

(* ------------------------------------------------------------------------------------ *)
(* (4) palette and SGR                                                                   *)

(* an AttrSpec as its decoded fields *)
Record aspec := ASpec {
  fg_true : bool; fg_high : bool; fg_basic : bool; fg_num : Z;
  bg_true : bool; bg_high : bool; bg_basic : bool; bg_num : Z;
  a_bold : bool; a_italics : bool; a_underline : bool; a_blink : bool; a_standout : bool; a_strike : bool }.

Definition default_spec : aspec :=
  ASpec false false false 0 false false false 0 false false false false false false.

(* get_rgb_values for a true-colour number: f"{n:06x}" cut in three *)
Definition rgb_of (n : Z) : list Z := [n / 65536; (n / 256) mod 256; n mod 256].

Definition flag (b : bool) (p : Z) : list Z := if b then [p] else [].

(* _attrspec_to_escape (TERM is not fbterm): the SGR parameters between ESC[ and m *)
Definition attrspec_to_escape (bib bbb : bool) (a : aspec) : list Z :=
  let fg :=
    if fg_true a then 38 :: 2 :: rgb_of (fg_num a)
    else if fg_high a then [38; 5; fg_num a]
    else if fg_basic a then
      (if 7 <? fg_num a then (if bib then [1; fg_num a - 8 + 30] else [fg_num a - 8 + 90])
       else [fg_num a + 30])
    else [39] in
  let st := flag (a_bold a) 1 ++ flag (a_italics a) 3 ++ flag (a_underline a) 4
            ++ flag (a_blink a) 5 ++ flag (a_standout a) 7 ++ flag (a_strike a) 9 in
  let bg :=
    if bg_true a then 48 :: 2 :: rgb_of (bg_num a)
    else if bg_high a then [48; 5; bg_num a]
    else if bg_basic a then
      (if 7 <? bg_num a then (if bbb then [5; bg_num a - 8 + 40] else [bg_num a - 8 + 100])
       else [bg_num a + 40])
    else [49] in
  0 :: fg ++ st ++ bg.

(* --- a terminal's reading of SGR parameters (ECMA-48 8.3.117, xterm ctlseqs) --- *)
Inductive colour := CDefault | CIdx (n : Z) | CRgb (r g b : Z).
Record tstate := TS { t_fg : colour; t_bg : colour;
                      t_bold : bool; t_italic : bool; t_underline : bool; t_blink : bool;
                      t_reverse : bool; t_strike : bool }.
Definition t_reset : tstate := TS CDefault CDefault false false false false false false.

Definition byte_ok (v : Z) : bool := (0 <=? v) && (v <=? 255).

Definition set_fg (s : tstate) (c : colour) : tstate :=
  TS c (t_bg s) (t_bold s) (t_italic s) (t_underline s) (t_blink s) (t_reverse s) (t_strike s).
Definition set_bg (s : tstate) (c : colour) : tstate :=
  TS (t_fg s) c (t_bold s) (t_italic s) (t_underline s) (t_blink s) (t_reverse s) (t_strike s).

(* one simple parameter *)
Definition sgr_simple (s : tstate) (p : Z) : tstate :=
  if p =? 0 then t_reset
  else if p =? 1 then TS (t_fg s) (t_bg s) true (t_italic s) (t_underline s) (t_blink s) (t_reverse s) (t_strike s)
  else if p =? 3 then TS (t_fg s) (t_bg s) (t_bold s) true (t_underline s) (t_blink s) (t_reverse s) (t_strike s)
  else if p =? 4 then TS (t_fg s) (t_bg s) (t_bold s) (t_italic s) true (t_blink s) (t_reverse s) (t_strike s)
  else if (p =? 5) || (p =? 6) then TS (t_fg s) (t_bg s) (t_bold s) (t_italic s) (t_underline s) true (t_reverse s) (t_strike s)
  else if p =? 7 then TS (t_fg s) (t_bg s) (t_bold s) (t_italic s) (t_underline s) (t_blink s) true (t_strike s)
  else if p =? 9 then TS (t_fg s) (t_bg s) (t_bold s) (t_italic s) (t_underline s) (t_blink s) (t_reverse s) true
  else if p =? 22 then TS (t_fg s) (t_bg s) false (t_italic s) (t_underline s) (t_blink s) (t_reverse s) (t_strike s)
  else if p =? 23 then TS (t_fg s) (t_bg s) (t_bold s) false (t_underline s) (t_blink s) (t_reverse s) (t_strike s)
  else if p =? 24 then TS (t_fg s) (t_bg s) (t_bold s) (t_italic s) false (t_blink s) (t_reverse s) (t_strike s)
  else if p =? 25 then TS (t_fg s) (t_bg s) (t_bold s) (t_italic s) (t_underline s) false (t_reverse s) (t_strike s)
  else if p =? 27 then TS (t_fg s) (t_bg s) (t_bold s) (t_italic s) (t_underline s) (t_blink s) false (t_strike s)
  else if p =? 29 then TS (t_fg s) (t_bg s) (t_bold s) (t_italic s) (t_underline s) (t_blink s) (t_reverse s) false
  else if (30 <=? p) && (p <=? 37) then set_fg s (CIdx (p - 30))
  else if p =? 39 then set_fg s CDefault
  else if (40 <=? p) && (p <=? 47) then set_bg s (CIdx (p - 40))
  else if p =? 49 then set_bg s CDefault
  else if (90 <=? p) && (p <=? 97) then set_fg s (CIdx (p - 90 + 8))
  else if (100 <=? p) && (p <=? 107) then set_bg s (CIdx (p - 100 + 8))
  else s.

(* the parameter list, left to right; 38/48 take "5;n" or "2;r;g;b" *)
Fixpoint decode_from (s : tstate) (ps : list Z) {struct ps} : tstate :=
  match ps with
  | [] => s
  | p :: rest =>
      if (p =? 38) || (p =? 48) then
        match rest with
        | sel :: rest1 =>
            if sel =? 5 then
              match rest1 with
              | n :: rest' =>
                  let s' := if byte_ok n then (if p =? 38 then set_fg s (CIdx n) else set_bg s (CIdx n)) else s in
                  decode_from s' rest'
              | [] => s
              end
            else if sel =? 2 then
              match rest1 with
              | r :: g :: b :: rest' =>
                  let s' := if byte_ok r && byte_ok g && byte_ok b
                            then (if p =? 38 then set_fg s (CRgb r g b) else set_bg s (CRgb r g b)) else s in
                  decode_from s' rest'
              | _ => s
              end
            else s                                   (* malformed: the rest is dropped *)
        | [] => s
        end
      else decode_from (sgr_simple s p) rest
  end.

(* ESC [ ps m from a reset pen *)
Definition decode_sgr (ps : list Z) : tstate := decode_from t_reset ps.

(* --- palette (common.py BaseScreen + _raw_display_base.py Screen) --- *)
Record pentry := PE { p_basic : aspec; p_mono : aspec; p_88 : aspec; p_256 : aspec; p_true : aspec }.

Record screen := Scr {
  s_palette : list (attr * pentry);            (* self._palette *)
  s_escape : list (attr * list Z);             (* self._pal_escape *)
  s_colors : Z; s_bib : bool; s_bbb : bool; s_hasul : bool }.

Fixpoint plookup {V} (k : attr) (m : list (attr * V)) : option V :=
  match m with
  | [] => None
  | (k', v) :: t => if attr_eqb k' k then Some v else plookup k t
  end.
Fixpoint pset {V} (m : list (attr * V)) (k : attr) (v : V) : list (attr * V) :=
  match m with
  | [] => [(k, v)]
  | (k', v') :: t => if attr_eqb k' k then (k', v) :: t else (k', v') :: pset t k v
  end.

(* attrspecs[{16: 0, 1: 1, 88: 2, 256: 3, 2**24: 4}[self.colors]] *)
Definition select_spec (colors : Z) (e : pentry) : result aspec :=
  if colors =? 16 then Ok (p_basic e)
  else if colors =? 1 then Ok (p_mono e)
  else if colors =? 88 then Ok (p_88 e)
  else if colors =? 256 then Ok (p_256 e)
  else if colors =? 16777216 then Ok (p_true e)
  else Err KeyErrorK.

(* _on_update_palette_entry *)
Definition on_update (s : screen) (name : attr) (e : pentry) : result screen :=
  match select_spec (s_colors s) e with
  | Err x => Err x
  | Ok a => Ok (Scr (s_palette s) (pset (s_escape s) name (attrspec_to_escape (s_bib s) (s_bbb s) a))
                    (s_colors s) (s_bib s) (s_bbb s) (s_hasul s))
  end.

Inductive pop :=
  | RegEntry (name : attr) (large_h : bool) (e : pentry)   (* register_palette_entry, specs already parsed *)
  | RegAlias (name like : attr)                            (* register_palette([(name, like_name)]) *)
  | SetProps (colors : Z) (bib hasul : bool).              (* set_terminal_properties *)

(* register_palette_entry: high_88 = basic when a 'hN' colour with N > 15 is used;
   the signal runs _on_update_palette_entry first, then the palette is stored *)
Definition reg_entry (s : screen) (name : attr) (large_h : bool) (e : pentry) : result screen :=
  let e' := PE (p_basic e) (p_mono e) (if large_h then p_basic e else p_88 e) (p_256 e) (p_true e) in
  match on_update s name e' with
  | Err x => Err x
  | Ok s1 => Ok (Scr (pset (s_palette s1) name e') (s_escape s1) (s_colors s1) (s_bib s1) (s_bbb s1) (s_hasul s1))
  end.

(* register_palette, a 2-tuple item: the palette entry is copied, then the signal runs
   _on_update_palette_entry (which can only fail for a colour depth no Screen accepts) *)
Definition reg_alias (s : screen) (name like : attr) : result screen :=
  match plookup like (s_palette s) with
  | None => Err OtherError                                  (* ScreenError *)
  | Some e =>
      on_update (Scr (pset (s_palette s) name e) (s_escape s) (s_colors s) (s_bib s) (s_bbb s) (s_hasul s)) name e
  end.

(* set_terminal_properties *)
Fixpoint rebuild (s : screen) (pal : list (attr * pentry)) : result screen :=
  match pal with
  | [] => Ok s
  | (n, e) :: r => match on_update s n e with Err x => Err x | Ok s' => rebuild s' r end
  end.
Definition set_props (s : screen) (colors : Z) (bib hasul : bool) : result screen :=
  if (colors =? s_colors s) && Bool.eqb bib (s_bib s) && Bool.eqb hasul (s_hasul s) then Ok s
  else rebuild (Scr (s_palette s) [] colors bib (s_bbb s) hasul) (s_palette s).

Definition pstep (s : screen) (o : pop) : result screen :=
  match o with
  | RegEntry n lh e => reg_entry s n lh e
  | RegAlias n l => reg_alias s n l
  | SetProps c b u => set_props s c b u
  end.

(* an operation that raises leaves the screen as it was *)
Fixpoint prun (s : screen) (ops : list pop) : screen * list Z :=
  match ops with
  | [] => (s, [])
  | o :: r =>
      match pstep s o with
      | Ok s' => let '(sf, errs) := prun s' r in (sf, 0 :: errs)
      | Err x => let '(sf, errs) := prun s r in (sf, errcode x :: errs)
      end
  end.

(* Screen.__init__: colors = 16, register_palette_entry(None, "default", "default") *)
Definition pentry_default : pentry := PE default_spec default_spec default_spec default_spec default_spec.
Definition screen_init (bib bbb : bool) : screen :=
  match reg_entry (Scr [] [] 16 bib bbb true) None false pentry_default with
  | Ok s => s
  | Err _ => Scr [] [] 16 bib bbb true
  end.

(* draw_screen.attr_to_escape *)
Inductive dattr := DName (n : attr) | DSpec (a : aspec).
Definition attr_to_escape (s : screen) (d : dattr) : list Z :=
  match d with
  | DName n =>
      match plookup n (s_escape s) with
      | Some ps => ps
      | None => attrspec_to_escape (s_bib s) (s_bbb s) default_spec
      end
  | DSpec a => attrspec_to_escape (s_bib s) (s_bbb s) a      (* an AttrSpec instance is never a palette key here *)
  end.

(* ------------------------------------------------------------------------------------ *)
(* wire format                                                                            *)

Definition enc_attr (a : attr) : list Z := enc_oz a.
Definition enc_rle (r : rle) : list Z := zlen r :: flat_map (fun x : run => enc_attr (fst x) ++ [snd x]) r.

Definition err_reply (e : errkind) : list Z := [-1; errcode e].

Definition dec_bool (v : Z) : bool := negb (v =? 0).

(* markup:  0 isb n c*  |  1 attr m  |  2 n m*  |  3 *)
Fixpoint dec_markup (fuel : nat) (l : list Z) : option (markup * list Z) :=
  match fuel with
  | O => None
  | S k =>
    match l with
    | 0 :: b :: r => match dec_list r with Some (cs, r) => Some (Str (dec_bool b) cs, r) | None => None end
    | 1 :: r => match dec_oz r with
                | Some (a, r) => match dec_markup k r with Some (m, r) => Some (Tagged a m, r) | None => None end
                | None => None end
    | 2 :: n :: r =>
        match (fix items (cnt : nat) (r : list Z) : option (list markup * list Z) :=
                 match cnt with
                 | O => Some ([], r)
                 | S c => match dec_markup k r with
                          | Some (m, r) => match items c r with Some (ms, r) => Some (m :: ms, r) | None => None end
                          | None => None end
                 end) (Z.to_nat n) r with
        | Some (ms, r) => Some (Lst ms, r)
        | None => None
        end
    | 3 :: r => Some (Bad, r)
    | _ => None
    end
  end.

Definition run_markup (l : list Z) : list Z :=
  match dec_markup (S (length l)) l with
  | Some (m, _) =>
      match decompose_tagmarkup m with
      | Ok (b, text, al) => 0 :: enc_bool b :: enc_list text ++ enc_rle al
      | Err e => err_reply e
      end
  | None => [-2]
  end.

(* n (enc wid ascii lw)* *)
Fixpoint dec_chars (n : nat) (l : list Z) : option (list chr * list Z) :=
  match n with
  | O => Some ([], l)
  | S k => match l with
           | e :: w :: a :: lw :: r => match dec_chars k r with Some (cs, r) => Some (Chr e w (dec_bool a) lw :: cs, r) | None => None end
           | _ => None
           end
  end.
Fixpoint dec_runs (n : nat) (l : list Z) : option (rle * list Z) :=
  match n with
  | O => Some ([], l)
  | S k => match dec_oz l with
           | Some (a, rn :: r) => match dec_runs k r with Some (rs, r) => Some ((a, rn) :: rs, r) | None => None end
           | _ => None
           end
  end.
Fixpoint dec_rchars (n : nat) (l : list Z) : option (list rchr * list Z) :=
  match n with
  | O => Some ([], l)
  | S k => match l with
           | b :: w :: r => match dec_rchars k r with Some (cs, r) => Some (RC b w :: cs, r) | None => None end
           | _ => None
           end
  end.
Definition dec_seg (l : list Z) : option (seg * list Z) :=
  match l with
  | 0 :: sc :: o :: e :: r => Some (SText sc o e, r)
  | 1 :: sc :: o :: ilen :: n :: r =>
      match dec_rchars (Z.to_nat n) r with Some (txt, r) => Some (SIns sc o txt ilen, r) | None => None end
  | 2 :: sc :: r => match dec_oz r with Some (o, r) => Some (SPad sc o, r) | None => None end
  | _ => None
  end.
Fixpoint dec_segs (n : nat) (l : list Z) : option (list seg * list Z) :=
  match n with
  | O => Some ([], l)
  | S k => match dec_seg l with
           | Some (s, r) => match dec_segs k r with Some (ss, r) => Some (s :: ss, r) | None => None end
           | None => None
           end
  end.
Fixpoint dec_lines (n : nat) (l : list Z) : option (list (list seg) * list Z) :=
  match n with
  | O => Some ([], l)
  | S k => match l with
           | m :: r => match dec_segs (Z.to_nat m) r with
                       | Some (ss, r) => match dec_lines k r with Some (ls, r) => Some (ss :: ls, r) | None => None end
                       | None => None
                       end
           | [] => None
           end
  end.

(* maxcol isb nchars (enc wid ascii)* nattr (attr run)* nlines (nsegs seg* )* *)
Definition run_layout (l : list Z) : list Z :=
  match l with
  | maxcol :: isb :: nc :: r =>
      match dec_chars (Z.to_nat nc) r with
      | Some (text, na :: r) =>
          match dec_runs (Z.to_nat na) r with
          | Some (attrs, nl :: r) =>
              match dec_lines (Z.to_nat nl) r with
              | Some (lines, _) =>
                  match apply_text_layout (dec_bool isb) text attrs lines maxcol with
                  | Ok rows => 0 :: zlen rows :: flat_map enc_rle rows
                  | Err e => err_reply e
                  end
              | None => [-2]
              end
          | _ => [-2]
          end
      | _ => [-2]
      end
  | _ => [-2]
  end.

(* Text(markup).render((maxcol,)): maxcol nchars (enc wid ascii)* markup nlines (nsegs seg* )* *)
Definition run_text (l : list Z) : list Z :=
  match l with
  | maxcol :: nc :: r =>
      match dec_chars (Z.to_nat nc) r with
      | Some (text, r) =>
          match dec_markup (S (length r)) r with
          | Some (m, nl :: r) =>
              match decompose_tagmarkup m with
              | Err e => err_reply e
              | Ok (isb, _, al) =>
                  match dec_lines (Z.to_nat nl) r with
                  | Some (lines, _) =>
                      match apply_text_layout isb text al lines maxcol with
                      | Ok rows => 0 :: zlen rows :: flat_map enc_rle rows
                      | Err e => err_reply e
                      end
                  | None => [-2]
                  end
              end
          | _ => [-2]
          end
      | None => [-2]
      end
  | _ => [-2]
  end.

(* a dict literal: n (k v)*, later duplicates override as in Python *)
Fixpoint dec_pairs (n : nat) (l : list Z) : option (amap * list Z) :=
  match n with
  | O => Some ([], l)
  | S k => match dec_oz l with
           | Some (a, r) => match dec_oz r with
                            | Some (b, r) => match dec_pairs k r with Some (m, r) => Some ((a, b) :: m, r) | None => None end
                            | None => None end
           | None => None
           end
  end.
Definition dict_of (l : amap) : amap := fold_left (fun acc kv => dict_set acc (fst kv) (snd kv)) l [].
Definition dec_dict (l : list Z) : option (amap * list Z) :=
  match l with
  | n :: r => match dec_pairs (Z.to_nat n) r with Some (m, r) => Some (dict_of m, r) | None => None end
  | [] => None
  end.

(* tree: 0 id | 1 dict (0 | 1 dict) tree | 2 fpos n (tree pad)* *)
Fixpoint dec_tree (fuel : nat) (l : list Z) : option (wtree * list Z) :=
  match fuel with
  | O => None
  | S k =>
    match l with
    | 0 :: id :: r => Some (WLeaf id, r)
    | 1 :: r =>
        match dec_dict r with
        | Some (am, 0 :: r) =>
            match dec_tree k r with Some (c, r) => Some (WAttr am None c, r) | None => None end
        | Some (am, 1 :: r) =>
            match dec_dict r with
            | Some (fm, r) => match dec_tree k r with Some (c, r) => Some (WAttr am (Some fm) c, r) | None => None end
            | None => None
            end
        | _ => None
        end
    | 2 :: fpos :: n :: r =>
        match (fix items (cnt : nat) (r : list Z) : option (list (wtree * bool) * list Z) :=
                 match cnt with
                 | O => Some ([], r)
                 | S c => match dec_tree k r with
                          | Some (t, p :: r) =>
                              match items c r with Some (ts, r) => Some ((t, dec_bool p) :: ts, r) | None => None end
                          | _ => None
                          end
                 end) (Z.to_nat n) r with
        | Some (cs, r) => Some (WBox fpos cs, r)
        | None => None
        end
    | _ => None
    end
  end.

Definition enc_omap (m : option amap) : list Z :=
  match m with
  | None => [0]
  | Some d => 1 :: zlen d :: flat_map (fun kv : attr * attr => enc_attr (fst kv) ++ enc_attr (snd kv)) d
  end.

(* focus tree nprobe probe* -> per cview: id map  probe results *)
Definition run_maps (l : list Z) : list Z :=
  match l with
  | f :: r =>
      match dec_tree (S (length r)) r with
      | Some (t, np :: r) =>
          (* probes are encoded as oz values one after another *)
          let probes := (fix pr (n : nat) (r : list Z) : list attr :=
                           match n with
                           | O => []
                           | S k => match dec_oz r with Some (a, r) => a :: pr k r | None => [] end
                           end) (Z.to_nat np) r in
          let cvs := render t (dec_bool f) in
          0 :: zlen cvs ::
            flat_map (fun cv : cview =>
                        snd cv :: enc_omap (fst cv) ++ flat_map (fun a => enc_attr (apply_map (fst cv) a)) probes) cvs
      | _ => [-2]
      end
  | [] => [-2]
  end.

(* aspec: 14 integers *)
Definition dec_spec (l : list Z) : option (aspec * list Z) :=
  match l with
  | ft :: fh :: fb :: fn :: bt :: bh :: bb :: bn :: bo :: it :: un :: bl :: so :: sk :: r =>
      Some (ASpec (dec_bool ft) (dec_bool fh) (dec_bool fb) fn (dec_bool bt) (dec_bool bh) (dec_bool bb) bn
                  (dec_bool bo) (dec_bool it) (dec_bool un) (dec_bool bl) (dec_bool so) (dec_bool sk), r)
  | _ => None
  end.

Definition enc_colour (c : colour) : list Z :=
  match c with CDefault => [0] | CIdx n => [1; n] | CRgb r g b => [2; r; g; b] end.
Definition enc_tstate (s : tstate) : list Z :=
  enc_colour (t_fg s) ++ enc_colour (t_bg s)
    ++ [enc_bool (t_bold s); enc_bool (t_italic s); enc_bool (t_underline s); enc_bool (t_blink s);
        enc_bool (t_reverse s); enc_bool (t_strike s)].

(* bib bbb spec -> params, then the model terminal's reading of them *)
Definition run_escape (l : list Z) : list Z :=
  match l with
  | bib :: bbb :: r =>
      match dec_spec r with
      | Some (a, _) =>
          let ps := attrspec_to_escape (dec_bool bib) (dec_bool bbb) a in
          0 :: enc_list ps ++ enc_tstate (decode_sgr ps)
      | None => [-2]
      end
  | _ => [-2]
  end.

(* decode only: n p* *)
Definition run_decode (l : list Z) : list Z :=
  match dec_list l with
  | Some (ps, _) => 0 :: enc_tstate (decode_sgr ps)
  | None => [-2]
  end.

Definition dec_pentry (l : list Z) : option (pentry * list Z) :=
  match dec_spec l with Some (a, r) =>
  match dec_spec r with Some (b, r) =>
  match dec_spec r with Some (c, r) =>
  match dec_spec r with Some (d, r) =>
  match dec_spec r with Some (e, r) => Some (PE a b c d e, r)
  | None => None end | None => None end | None => None end | None => None end | None => None end.

(* op: 1 name large_h pentry | 2 name like | 3 colors bib hasul | 4 (a registration whose AttrSpec parsing raised) *)
Inductive wop := WOp (o : pop) | WFail.
Definition dec_pop (l : list Z) : option (wop * list Z) :=
  match l with
  | 1 :: r => match dec_oz r with
              | Some (n, lh :: r) => match dec_pentry r with Some (e, r) => Some (WOp (RegEntry n (dec_bool lh) e), r) | None => None end
              | _ => None end
  | 2 :: r => match dec_oz r with
              | Some (n, r) => match dec_oz r with Some (k, r) => Some (WOp (RegAlias n k), r) | None => None end
              | None => None end
  | 3 :: c :: b :: u :: r => Some (WOp (SetProps c (dec_bool b) (dec_bool u)), r)
  | 4 :: r => Some (WFail, r)
  | _ => None
  end.
Fixpoint dec_pops (n : nat) (l : list Z) : option (list wop * list Z) :=
  match n with
  | O => Some ([], l)
  | S k => match dec_pop l with
           | Some (o, r) => match dec_pops k r with Some (os, r) => Some (o :: os, r) | None => None end
           | None => None
           end
  end.
Fixpoint wrun (s : screen) (ops : list wop) : screen * list Z :=
  match ops with
  | [] => (s, [])
  | WFail :: r => let '(sf, errs) := wrun s r in (sf, errcode AttrSpecError :: errs)
  | WOp o :: r =>
      match pstep s o with
      | Ok s' => let '(sf, errs) := wrun s' r in (sf, 0 :: errs)
      | Err x => let '(sf, errs) := wrun s r in (sf, errcode x :: errs)
      end
  end.
(* query: 0 name(oz) | 1 spec *)
Definition dec_query (l : list Z) : option (dattr * list Z) :=
  match l with
  | 0 :: r => match dec_oz r with Some (n, r) => Some (DName n, r) | None => None end
  | 1 :: r => match dec_spec r with Some (a, r) => Some (DSpec a, r) | None => None end
  | _ => None
  end.
Fixpoint dec_queries (n : nat) (l : list Z) : list dattr :=
  match n with
  | O => []
  | S k => match dec_query l with Some (q, r) => q :: dec_queries k r | None => [] end
  end.

(* bib bbb nops op* nq query* -> errs, then per query the parameters *)
Definition run_palette (l : list Z) : list Z :=
  match l with
  | bib :: bbb :: n :: r =>
      match dec_pops (Z.to_nat n) r with
      | Some (ops, nq :: r) =>
          let '(s, errs) := wrun (screen_init (dec_bool bib) (dec_bool bbb)) ops in
          let qs := dec_queries (Z.to_nat nq) r in
          0 :: enc_list errs ++ flat_map (fun q => enc_list (attr_to_escape s q)) qs
      | _ => [-2]
      end
  | _ => [-2]
  end.

(* clips: nq (start_col end_col nchars (len wid)* nruns (attr run)* )* -> per query spos epos pl pr runs *)
Fixpoint run_clips (n : nat) (l : list Z) : list Z :=
  match n with
  | O => []
  | S k =>
    match l with
    | sc :: ec :: nc :: r =>
        match dec_rchars (Z.to_nat nc) r with
        | Some (cs, na :: r) =>
            match dec_runs (Z.to_nat na) r with
            | Some (attrs, r) =>
                let '(spos, epos, pl, pr) := calc_trim_text cs sc ec in
                spos :: epos :: pl :: pr :: enc_rle (trim_attr cs attrs sc ec) ++ run_clips k r
            | None => [-2]
            end
        | _ => [-2]
        end
    | _ => [-2]
    end
  end.
Definition run_clip (l : list Z) : list Z :=
  match l with
  | nq :: r => 0 :: run_clips (Z.to_nat nq) r
  | [] => [-2]
  end.

Definition run_case_attr (l : list Z) : list Z :=
  match l with
  | 1 :: r => run_markup r
  | 2 :: r => run_layout r
  | 3 :: r => run_maps r
  | 4 :: r => run_escape r
  | 5 :: r => run_palette r
  | 6 :: r => run_decode r
  | 7 :: r => run_text r
  | 8 :: r => run_clip r
  | _ => [-3]
  end.
