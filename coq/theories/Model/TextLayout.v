(* Executable model of urwid/text_layout.py (StandardTextLayout and the line helpers), of
   canvas.apply_text_layout (text rows only) and of Text.rows/pack/render, for [str] text.
   Text = list of code points; the display width of a character is the Section variable [cw]
   (str_util.get_char_width).  Every definition names the Python function it mirrors.
   Exceptions: [lres] = LOk | LCant (CanNotDisplayText) | LErr kind.  The model raises in a
   SUPERSET of the situations where Python raises (a negative index is an error here).
   No proofs in this file (see Proofs/TextLayoutFacts.v, Proofs/TextLayoutProofs.v). *)
From Coq Require Import ZArith List Bool Lia.
Import ListNotations.
From Urwid Require Import PyBase.
Open Scope Z_scope.

Inductive wrapmode := WAny | WSpace | WClip | WEllipsis.
Inductive alignmode := AlLeft | AlCenter | AlRight.

(* layout segment tuples *)
Inductive seg :=
  | SText (sc offs e : Z)                (* (sc, offs, end)      text[offs:end], sc columns *)
  | SIns (sc offs : Z) (txt : list Z)    (* (sc, offs, b"text")  inserted text (ellipsis)   *)
  | SPad (sc offs : Z)                   (* (sc, offs)           sc spaces / removed-character hint *)
  | SShift (sc : Z).                     (* (sc, None)           alignment shift             *)
Definition line := list seg.

Inductive lres (A : Type) := LOk (a : A) | LCant | LErr (e : errkind).
Arguments LOk {A} a.
Arguments LCant {A}.
Arguments LErr {A} e.

Definition lbind {A B} (r : lres A) (f : A -> lres B) : lres B :=
  match r with LOk a => f a | LCant => LCant | LErr e => LErr e end.
Notation "x <- r ;; k" := (lbind r (fun x => k)) (at level 61, r at next level, right associativity).
Notation "' p <- r ;; k" := (lbind r (fun x => match x with p => k end))
  (at level 61, p pattern, r at next level, right associativity).

Definition NL : Z := 10.
Definition SP : Z := 32.

Definition slice (t : list Z) (a b : Z) : list Z := takez (b - a) (dropz a t).

(* text[i] *)
Definition get (t : list Z) (i : Z) : lres Z :=
  match nthz t i with Some c => LOk c | None => LErr IndexError end.

(* text.find(c, pos0) on the suffix l that starts at pos0 *)
Fixpoint find_from (l : list Z) (c : Z) (pos : Z) : option Z :=
  match l with
  | [] => None
  | x :: r => if x =? c then Some pos else find_from r c (pos + 1)
  end.

(* nl_pos = text.find(nl, idx); if nl_pos == -1: nl_pos = len(text) *)
Definition find_nl (t : list Z) (idx : Z) : Z :=
  match find_from (dropz idx t) NL idx with Some p => p | None => zlen t end.

Fixpoint repeatz (n : nat) (c : Z) : list Z := match n with O => [] | S k => c :: repeatz k c end.
Definition spaces (n : Z) : list Z := repeatz (Z.to_nat n) SP.   (* b"".rjust(n): empty for n <= 0 *)

Section WithWidth.
Variable cw : Z -> Z.     (* str_util.get_char_width *)

Fixpoint sumw (l : list Z) : Z := match l with [] => 0 | c :: r => cw c + sumw r end.

(* str_util.calc_width (str branch) *)
Definition calc_width (t : list Z) (a b : Z) : lres Z :=
  if b <? a then LErr ValueError else LOk (sumw (slice t a b)).

(* str_util.calc_string_text_pos: the for loop over range(start_offs, end_offs) *)
Fixpoint ctp (l : list Z) (pos cols pref : Z) : Z * Z :=
  match l with
  | [] => (pos, cols)
  | c :: r => if pref <? cw c + cols then (pos, cols) else ctp r (pos + 1) (cols + cw c) pref
  end.
Definition calc_text_pos (t : list Z) (a b pref : Z) : lres (Z * Z) :=
  if b <? a then LErr ValueError else LOk (ctp (slice t a b) a 0 pref).

(* util.calc_trim_text *)
Definition calc_trim_text (t : list Z) (start_offs end_offs start_col end_col : Z) : lres (Z * Z * Z * Z) :=
  '(spos, pad_left) <-
     (if 0 <? start_col then
        '(spos1, sc1) <- calc_text_pos t start_offs end_offs start_col ;;
        if sc1 <? start_col then
          '(spos2, _) <- calc_text_pos t start_offs end_offs (start_col + 1) ;;
          LOk (spos2, 1)
        else LOk (spos1, 0)
      else LOk (start_offs, 0)) ;;
  let run := end_col - start_col - pad_left in
  '(pos, sc) <- calc_text_pos t spos end_offs run ;;
  LOk (spos, pos, pad_left, if sc <? run then 1 else 0).

(* ---------- StandardTextLayout._calculate_trimmed_segments ---------- *)

(* while width - 1 < ellipsis_width and ellipsis_string: ellipsis_string = ellipsis_string[:-1]
   (on the reversed string; the width of a string does not depend on the order) *)
Fixpoint trim_ell_rev (width : Z) (r : list Z) : list Z :=
  match r with
  | [] => []
  | _ :: r' => if width - 1 <? sumw r then trim_ell_rev width r' else r
  end.
Definition trim_ell (width : Z) (ell : list Z) : list Z := rev (trim_ell_rev width (rev ell)).

(* one iteration of  while idx <= len(text)  *)
Definition step_trim (t : list Z) (width : Z) (wrap : wrapmode) (ell : list Z) (idx : Z) : lres (line * Z) :=
  let ew := sumw ell in
  let nl_pos := find_nl t idx in
  sc0 <- calc_width t idx nl_pos ;;
  '(trimmed, sc, end_off, pad_right) <-
     (if (match wrap with WEllipsis => true | _ => false end) && (width <? sc0) && negb (ew =? 0) then
        '(start_off, end_off, pad_left, pad_right) <- calc_trim_text t idx nl_pos 0 (width - ew) ;;
        if negb (pad_left =? 0) then LErr ValueError
        else if negb (start_off =? idx) then LErr ValueError
        else LOk (true, width - ew - pad_right, end_off, pad_right)
      else LOk (false, sc0, nl_pos, 0)) ;;
  LOk ((if sc =? 0 then [] else [SText sc idx end_off])
         ++ (if trimmed : bool then [SIns ew end_off ell] else [])
         ++ [SPad pad_right end_off],
       nl_pos + 1).

Fixpoint trim_loop (fuel : nat) (t : list Z) (width : Z) (wrap : wrapmode) (ell : list Z)
         (segs : list line) (idx : Z) : lres (list line) :=
  match fuel with
  | O => if idx <=? zlen t then LErr RuntimeErrorK else LOk (rev segs)
  | S k =>
      if idx <=? zlen t then
        '(ln, idx') <- step_trim t width wrap ell idx ;;
        trim_loop k t width wrap ell (ln :: segs) idx'
      else LOk (rev segs)
  end.

(* ---------- StandardTextLayout.calculate_text_segments, wrap in {any, space} ---------- *)

(* prev = pos; while prev > idx: prev = move_prev_char(text, idx, prev)  [= prev - 1 for str];
   if text[prev] == sp_o: ... break ; if is_wide_char(text, prev): ... break ; else: (not found)
   [n] = prev - idx  *)
Inductive scan_res := ScanSpace (prev : Z) | ScanWide (prev : Z) | ScanNone | ScanErr.
Fixpoint scan_back (t : list Z) (idx : Z) (n : nat) : scan_res :=
  match n with
  | O => ScanNone
  | S n' =>
      let prev := idx + Z.of_nat n' in
      match nthz t prev with
      | None => ScanErr
      | Some c => if c =? SP then ScanSpace prev
                  else if cw c =? 2 then ScanWide prev
                  else scan_back t idx n'
      end
  end.

(* segments and (len(segments[-1]) == 2 or (len(segments[-1]) == 1 and len(segments[-1][0]) == 2)),
   then the tuple unpacking of segments[-1] *)
Inductive ucand := UCand (p_sc p_off h_sc h_off : Z) (rest : list line) | UNone | UErr.
Definition unwrap_candidate (segs : list line) : ucand :=
  match segs with
  | [SPad h_sc h_off] :: rest => UCand 0 h_off h_sc h_off rest
  | [SText p_sc p_off _; SPad h_sc h_off] :: rest => UCand p_sc p_off h_sc h_off rest
  | [_; _] :: _ => UErr                      (* unpacking would fail *)
  | _ => UNone
  end.

(* one iteration of  while idx <= len(text);  segs is the list built so far, LAST LINE FIRST *)
Definition step_wrap (t : list Z) (width : Z) (wrap : wrapmode) (segs : list line) (idx : Z)
  : lres (list line * Z) :=
  let nl_pos := find_nl t idx in
  sc0 <- calc_width t idx nl_pos ;;
  if sc0 =? 0 then LOk ([SPad 0 nl_pos] :: segs, nl_pos + 1)
  else if sc0 <=? width then LOk ([SText sc0 idx nl_pos; SPad 0 nl_pos] :: segs, nl_pos + 1)
  else
    '(pos, sc) <- calc_text_pos t idx nl_pos width ;;
    if pos =? idx then LCant
    else
      match wrap with
      | WAny => LOk ([SText sc idx pos] :: segs, pos)
      | WSpace =>
          c <- get t pos ;;
          if c =? SP then LOk ([SText sc idx pos; SPad 0 pos] :: segs, pos + 1)   (* perfect space wrap *)
          else if cw c =? 2 then LOk ([SText sc idx pos] :: segs, pos)            (* perfect next wide *)
          else
            match scan_back t idx (Z.to_nat (pos - idx)) with
            | ScanErr => LErr IndexError
            | ScanSpace prev =>
                sc' <- calc_width t idx prev ;;
                (* line = [(0, prev)]; if screen_columns: line = [(screen_columns, idx, prev), *line] *)
                LOk ((if sc' =? 0 then [SPad 0 prev] else [SText sc' idx prev; SPad 0 prev]) :: segs,
                     prev + 1)
            | ScanWide prev =>
                (* next_char = move_next_char(text, prev, pos) = prev + 1 *)
                if pos <=? prev then LErr ValueError
                else
                  let next_char := prev + 1 in
                  sc' <- calc_width t idx next_char ;;
                  LOk ([SText sc' idx next_char] :: segs, next_char)
            | ScanNone =>
                let force := LOk ([SText sc idx pos] :: segs, pos) in               (* force any char wrap *)
                match unwrap_candidate segs with
                | UErr => LErr ValueError
                | UNone => force
                | UCand p_sc p_off h_sc h_off rest =>
                    if (p_sc <? width) && (h_sc =? 0) then
                      ch <- get t h_off ;;
                      if ch =? SP then
                        (* combine with the previous line *)
                        '(pos2, sc2) <- calc_text_pos t p_off nl_pos width ;;
                        if pos2 <? zlen t then
                          c2 <- get t pos2 ;;
                          if (c2 =? SP) || (c2 =? NL)
                          then LOk ([SText sc2 p_off pos2; SPad 0 pos2] :: rest, pos2 + 1)
                          else LOk ([SText sc2 p_off pos2] :: rest, pos2)
                        else LOk ([SText sc2 p_off pos2] :: rest, pos2)
                      else force
                    else force
                end
            end
      | _ => LErr ValueError
      end.

Fixpoint wrap_loop (fuel : nat) (t : list Z) (width : Z) (wrap : wrapmode)
         (segs : list line) (idx : Z) : lres (list line) :=
  match fuel with
  | O => if idx <=? zlen t then LErr RuntimeErrorK else LOk (rev segs)
  | S k =>
      if idx <=? zlen t then
        '(segs', idx') <- step_wrap t width wrap segs idx ;;
        wrap_loop k t width wrap segs' idx'
      else LOk (rev segs)
  end.

(* fuel: the 'space' mode "unwrap" branch may leave idx where it was once; 2*len+3 always
   suffices (Proofs: wrap_loop_fuel_enough), len+2 for the trimmed modes *)
Definition calculate_text_segments (t : list Z) (width : Z) (wrap : wrapmode) (ell : list Z)
  : lres (list line) :=
  match wrap with
  | WClip | WEllipsis => trim_loop (Z.to_nat (zlen t + 2)) t width wrap (trim_ell width ell) [] 0
  | _ => wrap_loop (Z.to_nat (2 * zlen t + 3)) t width wrap [] 0
  end.

(* ---------- line_width, align_layout, layout, pack ---------- *)
Definition seg_sc (s : seg) : Z :=
  match s with SText sc _ _ => sc | SIns sc _ _ => sc | SPad sc _ => sc | SShift sc => sc end.

(* line_width *)
Definition line_width (l : line) : Z :=
  match l with
  | SShift _ :: r => fold_left (fun a s => a + seg_sc s) r 0
  | _ => fold_left (fun a s => a + seg_sc s) l 0
  end.

(* StandardTextLayout.align_layout, one line *)
Definition align_line (width : Z) (align : alignmode) (l : line) : line :=
  let sc := line_width l in
  if (sc =? width) || (match align with AlLeft => true | _ => false end) then l
  else match align with
       | AlRight => SShift (width - sc) :: l
       | _ => let pad_trim_left := (width - sc + 1) / 2 in
              if pad_trim_left =? 0 then l else SShift pad_trim_left :: l
       end.
Definition align_layout (width : Z) (align : alignmode) (segs : list line) : list line :=
  map (align_line width align) segs.

(* StandardTextLayout.layout *)
Definition layout (t : list Z) (width : Z) (align : alignmode) (wrap : wrapmode) (ell : list Z)
  : result (list line) :=
  match calculate_text_segments t width wrap ell with
  | LOk segs => Ok (align_layout width align segs)
  | LCant => Ok [[]]
  | LErr e => Err e
  end.

(* StandardTextLayout.pack *)
Fixpoint pack_loop (maxcol maxwidth : Z) (ls : list line) : Z :=
  match ls with
  | [] => maxwidth
  | l :: r => let lw := line_width l in
              if maxcol <=? lw then maxcol else pack_loop maxcol (Z.max maxwidth lw) r
  end.
Definition layout_pack (maxcol : Z) (ls : list line) : result Z :=
  match ls with [] => Err ValueError | _ => Ok (pack_loop maxcol 0 ls) end.

(* ---------- LayoutSegment, subseg, trim_line ---------- *)
(* LayoutSegment.__init__: the checks that can raise for well-typed tuples *)
Definition seg_valid (s : seg) : bool :=
  match s with
  | SText sc _ _ => 0 <? sc
  | SIns sc _ _ => 0 <? sc
  | SPad sc _ => 0 <=? sc
  | SShift _ => true
  end.

(* LayoutSegment.subseg *)
Definition subseg (t : list Z) (s : seg) (start end_ : Z) : lres line :=
  let sc := seg_sc s in
  let start := Z.max start 0 in
  let end_ := Z.min end_ sc in
  if end_ <=? start then LOk []
  else
    let as_pad := match s with
                  | SShift _ => LOk [SShift (end_ - start)]
                  | SText _ offs _ | SIns _ offs _ | SPad _ offs => LOk [SPad (end_ - start) offs]
                  end in
    match s with
    | SIns _ offs (_ :: _ as txt) =>
        '(spos, epos, pad_left, pad_right) <- calc_trim_text txt 0 (zlen txt) start end_ ;;
        LOk [SIns (end_ - start) offs (spaces pad_left ++ slice txt spos epos ++ spaces pad_right)]
    | SText _ offs e =>
        if e =? 0 then as_pad                                 (* if self.end: *)
        else
          '(spos, epos, pad_left, pad_right) <- calc_trim_text t offs e start end_ ;;
          LOk ((if pad_left =? 0 then [] else [SPad 1 (spos - 1)])
                 ++ (if end_ - start - pad_left - pad_right =? 0 then []
                     else [SText (end_ - start - pad_left - pad_right) spos epos])
                 ++ (if pad_right =? 0 then [] else [SPad 1 epos]))
    | _ => as_pad
    end.

(* trim_line: the for loop, state (start, x, result) *)
Fixpoint trim_line_loop (t : list Z) (segs : line) (start end_ x : Z) (acc : line) : lres line :=
  match segs with
  | [] => LOk acc
  | s :: r =>
      let sc := seg_sc s in
      if negb (start =? 0) || (sc <? 0) then
        if sc <=? start then trim_line_loop t r (start - sc) end_ (x + sc) acc
        else if negb (seg_valid s) then LErr ValueError
        else if end_ <=? x + sc then subseg t s start (end_ - x)        (* can all be done at once *)
        else
          sub <- subseg t s start sc ;;
          trim_line_loop t r 0 end_ (x + sc) (acc ++ sub)
      else if end_ <=? x then LOk acc                                     (* break *)
      else if end_ <? x + sc then
        if negb (seg_valid s) then LErr ValueError
        else sub <- subseg t s 0 (end_ - x) ;; LOk (acc ++ sub)          (* break *)
      else trim_line_loop t r start end_ x (acc ++ [s])
  end.
Definition trim_line (t : list Z) (segs : line) (start end_ : Z) : lres line :=
  trim_line_loop t segs start end_ 0 [].

(* ---------- canvas.apply_text_layout + TextCanvas (text rows only) ---------- *)
(* the  for seg in line_layout  body: the characters one segment contributes *)
Definition render_seg (t : list Z) (s : seg) : lres (list Z) :=
  if negb (seg_valid s) then LErr ValueError                              (* LayoutSegment(seg) *)
  else
    (* if s.end: text[s.offs:s.end]  elif s.text: s.text  elif s.offs: (if s.sc:) spaces  elif s.sc: spaces
       -- the last arms all contribute b"".rjust(s.sc) (nothing when s.sc == 0) *)
    match s with
    | SText sc offs e => if e =? 0 then LOk (spaces sc) else LOk (slice t offs e)
    | SIns sc offs txt => match txt with [] => LOk (spaces sc) | _ => LOk txt end
    | SPad sc _ => LOk (spaces sc)
    | SShift sc => LOk (spaces sc)
    end.

Fixpoint render_segs (t : list Z) (l : line) : lres (list Z) :=
  match l with
  | [] => LOk []
  | s :: r => a <- render_seg t s ;; b <- render_segs t r ;; LOk (a ++ b)
  end.

(* one row: trim_line(line_layout, text, 0, maxcol), the segments, then TextCanvas pads to maxcol *)
Definition render_line (t : list Z) (maxcol : Z) (l : line) : lres (list Z) :=
  tl <- trim_line t l 0 maxcol ;;
  row <- render_segs t tl ;;
  let w := sumw row in
  if maxcol <? w then LErr CanvasError else LOk (row ++ spaces (maxcol - w)).

Fixpoint render_lines (t : list Z) (maxcol : Z) (ls : list line) : lres (list (list Z)) :=
  match ls with
  | [] => LOk []
  | l :: r => a <- render_line t maxcol l ;; b <- render_lines t maxcol r ;; LOk (a :: b)
  end.

Definition to_lres {A} (r : result A) : lres A := match r with Ok a => LOk a | Err e => LErr e end.

(* Text.rows((maxcol,)) *)
Definition text_rows (t : list Z) (maxcol : Z) (align : alignmode) (wrap : wrapmode) (ell : list Z) : lres Z :=
  ls <- to_lres (layout t maxcol align wrap ell) ;; LOk (zlen ls).

(* Text.render((maxcol,)) *)
Definition text_render (t : list Z) (maxcol : Z) (align : alignmode) (wrap : wrapmode) (ell : list Z)
  : lres (list (list Z)) :=
  ls <- to_lres (layout t maxcol align wrap ell) ;; render_lines t maxcol ls.

(* Text.pack((maxcol,)) *)
Definition text_pack (t : list Z) (maxcol : Z) (align : alignmode) (wrap : wrapmode) (ell : list Z)
  : lres (Z * Z) :=
  ls <- to_lres (layout t maxcol align wrap ell) ;;
  cols <- to_lres (layout_pack maxcol ls) ;;
  LOk (cols, zlen ls).

(* Text.pack(()):  max(calc_width(line) for line in text.split("\n")), text.count("\n") + 1 *)
Fixpoint split_widths (l : list Z) (cur : Z) : list Z :=
  match l with
  | [] => [cur]
  | c :: r => if c =? NL then cur :: split_widths r 0 else split_widths r (cur + cw c)
  end.
Definition text_pack_fixed (t : list Z) : Z * Z :=
  match t with
  | [] => (0, 1)
  | _ => let ws := split_widths t 0 in (fold_left Z.max ws 0, zlen ws)
  end.

End WithWidth.

(* ---------- wire format (harness <-> extracted model) ----------
   case  = wrap align width ntable (cp w)* ntext cp* nell cp*
   reply = layout | rows | pack cols rows | pack() cols rows | render | rows at natural width | render at natural width
     layout = 1 nlines (nsegs seg* )*  |  0 errcode       seg = 1 sc offs end | 2 sc offs n cp* | 3 sc offs | 4 sc
     rows   = 1 n | 0 errcode           pack = 1 c r | 0 errcode
     render = 1 nrows (n cp* )* | 0 errcode                                  *)
Fixpoint lookup (tbl : list (Z * Z)) (c : Z) : Z :=
  match tbl with
  | [] => 0
  | (k, w) :: r => if k =? c then w else lookup r c
  end.

Fixpoint dec_pairs (n : nat) (l : list Z) : option (list (Z * Z) * list Z) :=
  match n with
  | O => Some ([], l)
  | S k => match l with
           | a :: b :: r => match dec_pairs k r with Some (ps, r') => Some ((a, b) :: ps, r') | None => None end
           | _ => None
           end
  end.

Definition enc_seg (s : seg) : list Z :=
  match s with
  | SText sc o e => [1; sc; o; e]
  | SIns sc o txt => 2 :: sc :: o :: enc_list txt
  | SPad sc o => [3; sc; o]
  | SShift sc => [4; sc]
  end.
Definition enc_line (l : line) : list Z := zlen l :: flat_map enc_seg l.
Definition enc_lres {A} (f : A -> list Z) (r : lres A) : list Z :=
  match r with LOk a => 1 :: f a | LCant => [0; 99] | LErr e => [0; errcode e] end.

Definition dec_wrap (z : Z) : wrapmode :=
  if z =? 0 then WAny else if z =? 1 then WSpace else if z =? 2 then WClip else WEllipsis.
Definition dec_align (z : Z) : alignmode :=
  if z =? 0 then AlLeft else if z =? 1 then AlCenter else AlRight.

Definition run_case_str (l : list Z) : list Z :=
  match l with
  | w :: a :: width :: nt :: r =>
      if nt <? 0 then [-1] else
      match dec_pairs (Z.to_nat nt) r with
      | Some (tbl, r) =>
          match dec_list r with
          | Some (t, r) =>
              match dec_list r with
              | Some (ell, _) =>
                  let cw := lookup tbl in
                  let wrap := dec_wrap w in
                  let align := dec_align a in
                  enc_lres (fun ls => zlen ls :: flat_map enc_line ls) (to_lres (layout cw t width align wrap ell))
                  ++ enc_lres (fun n => [n]) (text_rows cw t width align wrap ell)
                  ++ enc_lres (fun p => [fst p; snd p]) (text_pack cw t width align wrap ell)
                  ++ (let p := text_pack_fixed cw t in [1; fst p; snd p])
                  ++ enc_lres (fun rows => zlen rows :: flat_map enc_list rows) (text_render cw t width align wrap ell)
                  (* natural size: rows((cols,)) and render(()) at cols = pack(())[0] *)
                  ++ (let w0 := fst (text_pack_fixed cw t) in
                      enc_lres (fun n => [n]) (text_rows cw t w0 align wrap ell)
                      ++ enc_lres (fun rows => zlen rows :: flat_map enc_list rows) (text_render cw t w0 align wrap ell))
              | None => [-1]
              end
          | None => [-1]
          end
      | None => [-1]
      end
  | _ => [-1]
  end.
