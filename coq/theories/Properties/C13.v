(* C13 - Every event loop honours the alarm, file-watch, idle and exception contract.

   This file: the theorems about the executable models of SelectEventLoop (Model/SelectLoop.v)
   and ZMQEventLoop (Model/ZmqLoop.v, second half of this file), tied to
   urwid/event_loop/select_loop.py and zmq_loop.py by the virtual-clock correspondence of
   harness/props/c13.py.  Only statements; every proof is [exact]/[apply] of a lemma of
   Proofs/SelectLoopProofs.v / Proofs/ZmqLoopProofs.v / Proofs/AdapterLoopProofs.v.  Third part:
   the AsyncioEventLoop WRAPPER (Model/AdapterLoop.v) over ANY host runtime, relative to a host
   specification (theorems named _partial: the host specification is a hypothesis).  tornado,
   twisted, trio and the loops on their real selector/poller are contract-tested on the real
   runtimes by the harness (oracle only).

   Every theorem is quantified over
     setup : any list of calls made before run() (alarm / remove_alarm / watch_file / ...),
     beh   : any behaviour of the callbacks (what each callback does on its n-th call: any
             sequence of calls back into the loop, clock advances, raising ExitMainLoop or
             another exception),
     env   : any environment trace (which descriptors are readable at each select(), how
             late each select() returns), of any length.
   A history is a list of events NEWEST FIRST: in  history = newer ++ e :: older,  [older] is
   what happened before the event e and [newer] what happened after it.
   Environment assumptions built into the model (Model/SelectLoop.v, do_select): select()
   never returns an empty list before its timeout has elapsed on the clock that time.time()
   reads, and that clock never goes backwards. *)
From Coq Require Import ZArith List Bool.
Import ListNotations.
From Urwid Require Import PyBase SelectLoop ZmqLoop AdapterLoop SelectLoopSpec SelectLoopFacts SelectLoopProofs ZmqLoopSpec ZmqLoopProofs AdapterLoopSpec AdapterLoopProofs AdapterCheck AdapterCheckProofs TornadoLoop TornadoLoopSpec TornadoLoopProofs.
Open Scope Z_scope.

Definition history (setup : list action) (beh : behaviour) (env : list step) : list event :=
  rtrace (fst (scenario setup beh env)).
Definition result (setup : list action) (beh : behaviour) (env : list step) : outcome :=
  snd (scenario setup beh env).

(* --- clause 1: an alarm's callback runs at most once, not before its due time, only after it
       was set with this callback, not after a successful removal, and when it runs every alarm
       still pending is due no earlier (ties broken by creation order), i.e. every alarm that
       was set before and is due earlier has already run or been removed.  That it DOES run is
       [alarm_not_overslept] below: the loop never waits past the due time of a pending alarm. *)
Theorem alarm_once_not_early_in_order :
  forall setup beh env newer k id t older,
    history setup beh env = newer ++ EAlarmCall k id t :: older ->
    (exists due,
        aset k due id older /\ due <= t /\ ~ acalled k older /\ ~ aremoved k older /\
        (forall k' d' i', pending k' d' i' older -> due < d' \/ (due = d' /\ k <= k')) /\
        (forall k' d' i', aset k' d' i' older -> d' < due \/ (d' = due /\ k' < k) ->
            acalled k' older \/ aremoved k' older)) /\
    ~ acalled k newer /\ ~ aremoved k newer.
Proof. intros. eapply alarm_call_facts; [apply scenario_hist_ok|eassumption]. Qed.
Print Assumptions alarm_once_not_early_in_order.

Theorem alarm_not_overslept :
  forall setup beh env newer to regs t ready older,
    history setup beh env = newer ++ ESelect to regs t ready :: older ->
    match to with
    | None => forall k d i, ~ pending k d i older
    | Some d => 0 <= d /\ (0 < d -> forall k due i, pending k due i older -> t + d <= due)
    end.
Proof.
  intros setup beh env newer to regs t ready older E.
  pose proof (proj1 (hist_ok_split _ _) (scenario_hist_ok setup beh env) _ _ _ E) as H. apply H.
Qed.
Print Assumptions alarm_not_overslept.

(* --- clause 2: remove_alarm reports True exactly when the alarm is still pending; after a
       successful removal the alarm never runs and every further removal reports False --- *)
Theorem remove_alarm_result :
  forall setup beh env newer k ok older,
    history setup beh env = newer ++ ERmAlarm k ok :: older ->
    (ok = true <-> exists d i, pending k d i older).
Proof.
  intros setup beh env newer k ok older E.
  exact (proj1 (hist_ok_split _ _) (scenario_hist_ok setup beh env) _ _ _ E).
Qed.
Print Assumptions remove_alarm_result.

Theorem removed_alarm_never_runs :
  forall setup beh env newer k older,
    history setup beh env = newer ++ ERmAlarm k true :: older ->
    (exists d i, pending k d i older) /\
    ~ acalled k newer /\
    (forall ok, In (ERmAlarm k ok) newer -> ok = false).
Proof. intros. eapply alarm_removed_facts; [apply scenario_hist_ok|eassumption]. Qed.
Print Assumptions removed_alarm_never_runs.

(* --- clause 3: a watch callback runs only while its descriptor is registered, only for a
       descriptor that the most recent select() reported readable, with the callback that
       was registered at that select(); never after remove_watch_file (until registered again),
       also within the same ready batch; and every descriptor reported readable is served
       before the next select() unless its watch was removed meanwhile --- *)
Theorem watch_until_removed :
  forall setup beh env newer fd id t older,
    history setup beh env = newer ++ EWatchCall fd id t :: older ->
    watched fd older <> None /\
    exists batch to regs t0 rdy rest,
      older = batch ++ ESelect to regs t0 rdy :: rest /\
      (forall e, In e batch -> is_select e = false) /\ In fd rdy /\ watched fd rest = Some id.
Proof.
  intros setup beh env newer fd id t older E.
  pose proof (proj1 (hist_ok_split _ _) (scenario_hist_ok setup beh env) _ _ _ E) as [H1 H2].
  split; [exact H1|now apply ready_reg_explicit].
Qed.
Print Assumptions watch_until_removed.

Theorem watch_never_after_removal :
  forall setup beh env newer fd older,
    history setup beh env = newer ++ ERmWatch fd true :: older ->
    forall n2 id t n1, newer = n2 ++ EWatchCall fd id t :: n1 -> exists id', In (EWatchSet fd id') n1.
Proof. intros until older. intros E. eapply watch_removed_facts; [apply scenario_hist_ok|eassumption]. Qed.
Print Assumptions watch_never_after_removal.

Theorem remove_watch_result :
  forall setup beh env newer fd ok older,
    history setup beh env = newer ++ ERmWatch fd ok :: older ->
    (ok = true <-> watched fd older <> None).
Proof.
  intros setup beh env newer fd ok older E.
  exact (proj1 (hist_ok_split _ _) (scenario_hist_ok setup beh env) _ _ _ E).
Qed.
Print Assumptions remove_watch_result.

Theorem watch_served_when_readable :
  forall setup beh env newer to regs t ready older,
    history setup beh env = newer ++ ESelect to regs t ready :: older ->
    (* this select registers exactly the watched descriptors and reports only registered ones *)
    (forall fd, In fd regs <-> watched fd older <> None) /\
    (forall fd, In fd ready -> In fd regs) /\
    (* and the batch reported by the previous select has been served *)
    forall batch to0 regs0 t0 rdy0 rest,
      older = batch ++ ESelect to0 regs0 t0 rdy0 :: rest -> (forall e, In e batch -> is_select e = false) ->
      forall fd, In fd rdy0 -> (exists id t', In (EWatchCall fd id t') batch) \/ In (ERmWatch fd true) batch.
Proof.
  intros setup beh env newer to regs t ready older E.
  pose proof (proj1 (hist_ok_split _ _) (scenario_hist_ok setup beh env) _ _ _ E) as [H1 [H2 [_ [_ H5]]]].
  split; [exact H1|split; [exact H2|]]. intros. eapply batch_done_explicit; eauto.
Qed.
Print Assumptions watch_served_when_readable.

(* --- clause 4: the loop goes quiescent (a select() without timeout or with a positive
       timeout) only after an idle round: the history before it splits at a select(0) that
       returned nothing, no alarm or watch callback ran after that select, and every idle
       callback registered before it and not removed since has been called after it.  Hence
       after any alarm / watch callback the idle callbacks run before the next blocking wait. --- *)
Theorem idle_before_quiescent :
  forall setup beh env newer to regs t ready older,
    history setup beh env = newer ++ ESelect to regs t ready :: older ->
    quiescent to ->
    exists batch regs0 t0 rest,
      older = batch ++ ESelect (Some 0) regs0 t0 [] :: rest /\
      (forall e, In e batch -> is_aw_call e = false) /\
      (forall h id, iset h id rest -> ~ iremoved h older -> exists t', In (EIdleCall h id t') batch).
Proof.
  intros setup beh env newer to regs t ready older E Q.
  pose proof (proj1 (hist_ok_split _ _) (scenario_hist_ok setup beh env) _ _ _ E) as [_ [_ [_ [H4 _]]]].
  exact (H4 Q).
Qed.
Print Assumptions idle_before_quiescent.

(* --- clause 5: an idle callback is called only while registered; once removed it is not
       called again and removing it again reports False --- *)
Theorem idle_called_only_while_registered :
  forall setup beh env newer h id t older,
    history setup beh env = newer ++ EIdleCall h id t :: older ->
    iset h id older /\ ~ iremoved h older.
Proof.
  intros setup beh env newer h id t older E.
  exact (proj1 (hist_ok_split _ _) (scenario_hist_ok setup beh env) _ _ _ E).
Qed.
Print Assumptions idle_called_only_while_registered.

Theorem removed_idle_not_called :
  forall setup beh env newer h older,
    history setup beh env = newer ++ ERmIdle h true :: older ->
    (forall id t, ~ In (EIdleCall h id t) newer) /\ (forall ok, In (ERmIdle h ok) newer -> ok = false).
Proof. intros. eapply idle_removed_facts; [apply scenario_hist_ok|eassumption]. Qed.
Print Assumptions removed_idle_not_called.

Theorem remove_idle_result :
  forall setup beh env newer h ok older,
    history setup beh env = newer ++ ERmIdle h ok :: older ->
    (ok = true <-> ((exists id, iset h id older) /\ ~ iremoved h older)).
Proof.
  intros setup beh env newer h ok older E.
  exact (proj1 (hist_ok_split _ _) (scenario_hist_ok setup beh env) _ _ _ E).
Qed.
Print Assumptions remove_idle_result.

(* --- clause 6: an exception raised in a callback stops the loop at once (the raise is the
       newest event and the only raise of the history); run() returns normally exactly for
       ExitMainLoop and lets the other exception out exactly once otherwise; in every other
       outcome (environment exhausted, blocked, nothing to do) no callback raised. --- *)
Theorem exception_stops_loop :
  forall setup beh env,
    (forall a, In a setup -> action_raises a = false) ->
    match result setup beh env with
    | OReturned => exists r, history setup beh env = ERaise true :: r /\ no_raise r
    | ORaised => exists r, history setup beh env = ERaise false :: r /\ no_raise r
    | _ => no_raise (history setup beh env)
    end.
Proof. exact scenario_exceptions. Qed.
Print Assumptions exception_stops_loop.

(* --- the state/history invariant behind all of the above (sortedness of the heap, the
       dictionaries are exactly what the history says is registered) --- *)
Theorem state_matches_history :
  forall setup beh env, Inv (fst (scenario setup beh env)).
Proof. exact scenario_inv. Qed.
Print Assumptions state_matches_history.

(* ---------- non-vacuity: concrete scenarios computed by the model ---------- *)
(* two alarms (due 5 and 2), a watch on fd 7 whose callback removes the watch on its 2nd call,
   an idle callback; the alarm due 2 adds an alarm whose callback raises ExitMainLoop *)
Definition ex_setup := [AddAlarm 5 1; AddAlarm 2 2; AddWatch 7 3; AddIdle 4].
Definition ex_beh : behaviour := fun id n =>
  if id =? 3 then (if n =? 1 then [RemoveWatch 7] else [])
  else if id =? 2 then [AddAlarm 1 5]
  else if id =? 5 then [RaiseExit] else [].
Definition ex_env := [mkStep 0 []; mkStep 1 [7]; mkStep 0 []; mkStep 0 [7]; mkStep 0 []; mkStep 0 [];
                      mkStep 0 []; mkStep 0 []; mkStep 0 []; mkStep 0 []].

Example ex_outcome : result ex_setup ex_beh ex_env = OReturned.
Proof. vm_compute. reflexivity. Qed.

Example ex_history :
  rev (history ex_setup ex_beh ex_env) =
  [EAlarmSet 0 5 1; EAlarmSet 1 2 2; EWatchSet 7 3; EIdleSet 1 4;
   ESelect (Some 0) [7] 0 []; EIdleCall 1 4 0;
   ESelect (Some 2) [7] 0 [7]; EWatchCall 7 3 1;
   ESelect (Some 0) [7] 1 []; EIdleCall 1 4 1;
   ESelect (Some 1) [7] 1 [7]; EWatchCall 7 3 1; ERmWatch 7 true;
   ESelect (Some 0) [] 1 []; EIdleCall 1 4 1;
   ESelect (Some 1) [] 1 []; EAlarmCall 1 2 2; EAlarmSet 2 3 5;
   ESelect (Some 0) [] 2 []; EIdleCall 1 4 2;
   ESelect (Some 1) [] 2 []; EAlarmCall 2 5 3; ERaise true].
Proof. vm_compute. reflexivity. Qed.

(* a quiescent select does occur (hypothesis of idle_before_quiescent is satisfiable), and a
   pending alarm exists at that point (alarm_not_overslept speaks about something) *)
Example ex_quiescent :
  exists newer older, history ex_setup ex_beh ex_env = newer ++ ESelect (Some 2) [7] 0 [7] :: older /\
    quiescent (Some 2) /\ pending 1 2 2 older.
Proof.
  exists [ERaise true; EAlarmCall 2 5 3; ESelect (Some 1) [] 2 []; EIdleCall 1 4 2; ESelect (Some 0) [] 2 [];
          EAlarmSet 2 3 5; EAlarmCall 1 2 2; ESelect (Some 1) [] 1 []; EIdleCall 1 4 1; ESelect (Some 0) [] 1 [];
          ERmWatch 7 true; EWatchCall 7 3 1; ESelect (Some 1) [7] 1 [7]; EIdleCall 1 4 1; ESelect (Some 0) [7] 1 [];
          EWatchCall 7 3 1],
         [EIdleCall 1 4 0; ESelect (Some 0) [7] 0 []; EIdleSet 1 4; EWatchSet 7 3; EAlarmSet 1 2 2; EAlarmSet 0 5 1].
  split; [vm_compute; reflexivity|]. split; [reflexivity|].
  split; [cbn; tauto|]. split.
  - intros [id [t H]]. cbn in H. intuition discriminate.
  - intros H. cbn in H. intuition discriminate.
Qed.

(* the other exception leaves run(); a removed alarm is reported True then False *)
Example ex_raise :
  scenario [AddAlarm 3 1; AddAlarm 4 2; RemoveAlarm 1; RemoveAlarm 1] (fun id _ => if id =? 1 then [RaiseOther] else [])
           [mkStep 0 []; mkStep 0 []; mkStep 0 []; mkStep 0 []]
  = (mkState [] 2 [] 0 [] false 3
       [ERaise false; EAlarmCall 0 1 3; ESelect (Some 3) [] 0 []; ESelect (Some 0) [] 0 [];
        ERmAlarm 1 false; ERmAlarm 1 true; EAlarmSet 1 4 2; EAlarmSet 0 3 1], ORaised).
Proof. vm_compute. reflexivity. Qed.


(* ======================================================================================
   ZMQEventLoop (Model/ZmqLoop.v, the loop as repaired by fix 49c6c9d).  Same quantifiers.  All
   clauses hold; the watch clause is stated with [zwatched] (remove_watch_file pops the callback
   whatever it returns) and says nothing about the poller's registrations (see ZmqLoopSpec.v).
   ====================================================================================== *)
Definition zhistory (setup : list action) (beh : behaviour) (env : list step) : list event :=
  rtrace (zs (fst (zscenario setup beh env))).
Definition zresult (setup : list action) (beh : behaviour) (env : list step) : outcome :=
  snd (zscenario setup beh env).

Theorem zmq_alarm_once_not_early_in_order :
  forall setup beh env newer k id t older,
    zhistory setup beh env = newer ++ EAlarmCall k id t :: older ->
    (exists due,
        aset k due id older /\ due <= t /\ ~ acalled k older /\ ~ aremoved k older /\
        (forall k' d' i', pending k' d' i' older -> due < d' \/ (due = d' /\ k <= k')) /\
        (forall k' d' i', aset k' d' i' older -> d' < due \/ (d' = due /\ k' < k) ->
            acalled k' older \/ aremoved k' older)) /\
    ~ acalled k newer /\ ~ aremoved k newer.
Proof. intros. eapply zalarm_call_facts; [apply zscenario_hist_ok|eassumption]. Qed.
Print Assumptions zmq_alarm_once_not_early_in_order.

Theorem zmq_alarm_not_overslept_and_idle_before_quiescent :
  forall setup beh env newer to regs t ready older,
    zhistory setup beh env = newer ++ ESelect to regs t ready :: older ->
    match to with
    | None => forall k d i, ~ pending k d i older
    | Some d => 0 <= d /\ (0 < d -> forall k due i, pending k due i older -> t + d <= due)
    end /\
    (quiescent to ->
     exists batch regs0 t0 rest,
       older = batch ++ ESelect (Some 0) regs0 t0 [] :: rest /\
       (forall e, In e batch -> is_aw_call e = false) /\
       (forall h id, iset h id rest -> ~ iremoved h older -> exists t', In (EIdleCall h id t') batch)).
Proof.
  intros setup beh env newer to regs t ready older E.
  pose proof (proj1 (hist_ok_split _ _) (zscenario_hist_ok setup beh env) _ _ _ E) as [H1 [H2 _]].
  split; [exact H1|exact H2].
Qed.
Print Assumptions zmq_alarm_not_overslept_and_idle_before_quiescent.

Theorem zmq_remove_alarm_result :
  forall setup beh env newer k ok older,
    zhistory setup beh env = newer ++ ERmAlarm k ok :: older ->
    (ok = true <-> exists d i, pending k d i older).
Proof.
  intros setup beh env newer k ok older E.
  exact (proj1 (hist_ok_split _ _) (zscenario_hist_ok setup beh env) _ _ _ E).
Qed.
Print Assumptions zmq_remove_alarm_result.

Theorem zmq_removed_alarm_never_runs :
  forall setup beh env newer k older,
    zhistory setup beh env = newer ++ ERmAlarm k true :: older ->
    (exists d i, pending k d i older) /\
    ~ acalled k newer /\
    (forall ok, In (ERmAlarm k ok) newer -> ok = false).
Proof. intros. eapply zalarm_removed_facts; [apply zscenario_hist_ok|eassumption]. Qed.
Print Assumptions zmq_removed_alarm_never_runs.

Theorem zmq_idle_called_only_while_registered :
  forall setup beh env newer h id t older,
    zhistory setup beh env = newer ++ EIdleCall h id t :: older ->
    iset h id older /\ ~ iremoved h older.
Proof.
  intros setup beh env newer h id t older E.
  exact (proj1 (hist_ok_split _ _) (zscenario_hist_ok setup beh env) _ _ _ E).
Qed.
Print Assumptions zmq_idle_called_only_while_registered.

Theorem zmq_removed_idle_not_called :
  forall setup beh env newer h older,
    zhistory setup beh env = newer ++ ERmIdle h true :: older ->
    (forall id t, ~ In (EIdleCall h id t) newer) /\ (forall ok, In (ERmIdle h ok) newer -> ok = false).
Proof. intros. eapply zidle_removed_facts; [apply zscenario_hist_ok|eassumption]. Qed.
Print Assumptions zmq_removed_idle_not_called.

(* watch clause: a watch callback runs only as the callback currently registered for its descriptor
   and only for a descriptor that the most recent poll reported readable *)
Theorem zmq_watch_until_removed :
  forall setup beh env newer fd id t older,
    zhistory setup beh env = newer ++ EWatchCall fd id t :: older ->
    zwatched fd older = Some id /\
    exists batch to regs t0 rdy rest,
      older = batch ++ ESelect to regs t0 rdy :: rest /\
      (forall e, In e batch -> is_select e = false) /\ In fd rdy.
Proof.
  intros setup beh env newer fd id t older E.
  pose proof (proj1 (hist_ok_split _ _) (zscenario_hist_ok setup beh env) _ _ _ E) as [H1 H2].
  split; [exact H1|now apply zready_in_explicit].
Qed.
Print Assumptions zmq_watch_until_removed.

(* after remove_watch_file(fd), whatever it returned, no callback of fd runs until fd is registered
   again: also inside the same ready batch *)
Theorem zmq_watch_never_after_removal :
  forall setup beh env newer fd ok older,
    zhistory setup beh env = newer ++ ERmWatch fd ok :: older ->
    forall n2 id t n1, newer = n2 ++ EWatchCall fd id t :: n1 -> exists id', In (EWatchSet fd id') n1.
Proof. intros until older. intros E. eapply zwatch_removed_facts; [apply zscenario_hist_ok|eassumption]. Qed.
Print Assumptions zmq_watch_never_after_removal.

(* every descriptor reported readable by a poll is served before the next poll, unless its callback
   was removed meanwhile or it had no callback when the poll was made *)
Theorem zmq_watch_served_when_readable :
  forall setup beh env newer to regs t ready older,
    zhistory setup beh env = newer ++ ESelect to regs t ready :: older ->
    forall batch to0 regs0 t0 rdy0 rest,
      older = batch ++ ESelect to0 regs0 t0 rdy0 :: rest -> (forall e, In e batch -> is_select e = false) ->
      forall fd, In fd rdy0 ->
        (exists id t', In (EWatchCall fd id t') batch) \/ (exists ok, In (ERmWatch fd ok) batch) \/
        zwatched fd rest = None.
Proof.
  intros setup beh env newer to regs t ready older E.
  pose proof (proj1 (hist_ok_split _ _) (zscenario_hist_ok setup beh env) _ _ _ E) as [_ [_ H3]].
  intros. eapply zbatch_done_explicit; eauto.
Qed.
Print Assumptions zmq_watch_served_when_readable.

(* exception clause: a raise is the last event; ExitMainLoop <-> run() returns, other exception <->
   it leaves run(); in every other outcome no callback raised; and run() never ends by an exception
   that no callback raised (the KeyError of the same-batch removal is gone) *)
Theorem zmq_exception_stops_loop :
  forall setup beh env,
    (forall a, In a setup -> action_raises a = false) ->
    match zresult setup beh env with
    | OReturned => exists r, zhistory setup beh env = ERaise true :: r /\ no_raise r
    | ORaised => exists r, zhistory setup beh env = ERaise false :: r /\ no_raise r
    | OKeyError => False
    | _ => no_raise (zhistory setup beh env)
    end.
Proof. exact zscenario_exceptions. Qed.
Print Assumptions zmq_exception_stops_loop.

Theorem zmq_run_ends_only_by_callback_exception :
  forall setup beh env, (forall a, In a setup -> action_raises a = false) ->
    zresult setup beh env <> OKeyError.
Proof.
  intros setup beh env Hs E. pose proof (zscenario_exceptions setup beh env Hs) as H.
  unfold zresult in E. rewrite E in H. exact H.
Qed.
Print Assumptions zmq_run_ends_only_by_callback_exception.

(* the scenario that used to kill run() with KeyError (a callback removes the sibling watch that is
   ready in the same batch): the sibling is skipped and the loop goes on *)
Example zmq_same_batch_removal :
  let r := zscenario [AddWatch 7 20; AddWatch 8 21] (fun id _ => if id =? 20 then [RemoveWatch 8] else []) [mkStep 0 [7; 8]; mkStep 0 []] in
  snd r = OEnvEnd /\
  rev (rtrace (zs (fst r))) =
    [EWatchSet 7 20; EWatchSet 8 21; ESelect (Some 0) [7; 8] 0 [7; 8]; EWatchCall 7 20 0; ERmWatch 8 true;
     ESelect (Some 0) [7] 0 []; ESelect None [7] 0 []].
Proof. vm_compute. split; reflexivity. Qed.

Example zmq_ex_history :
  rev (zhistory ex_setup ex_beh ex_env) =
  [EAlarmSet 0 5 1; EAlarmSet 1 2 2; EWatchSet 7 3; EIdleSet 1 4;
   ESelect (Some 0) [7] 0 []; EIdleCall 1 4 0;
   ESelect (Some 2) [7] 0 [7]; EWatchCall 7 3 1;
   ESelect (Some 0) [7] 1 []; EIdleCall 1 4 1;
   ESelect (Some 1) [7] 1 [7]; EWatchCall 7 3 1; ERmWatch 7 true;
   ESelect (Some 0) [] 1 []; EIdleCall 1 4 1;
   ESelect (Some 1) [] 1 []; EAlarmCall 1 2 2; EAlarmSet 2 3 5;
   ESelect (Some 0) [] 2 []; EIdleCall 1 4 2;
   ESelect (Some 1) [] 2 []; EAlarmCall 2 5 3; ERaise true]
  /\ zresult ex_setup ex_beh ex_env = OReturned.
Proof. vm_compute. split; reflexivity. Qed.


(* ======================================================================================
   The adapter wrapper (Model/AdapterLoop.v: AsyncioEventLoop.alarm / remove_alarm / watch_file /
   remove_watch_file / enter_idle / remove_enter_idle / _also_call_idle / _entering_idle /
   _exception_handler / run) over ANY host: H is any type of host states, hst any record of host
   operations, h0 any initial host state; setup, beh, env as above; fuel = any bound on the number
   of host decisions.  HYPOTHESIS of every theorem (hence _partial): the log of what the host
   answered during this run satisfies the host specification [host_ok] (AdapterLoopSpec.v):
   handles are fresh and due at now + delay; a timer runs at most once, not when cancelled, not
   before it is due; the clock does not go backwards; a reader runs only while registered;
   remove_reader / cancelled() answer truthfully; the host never polls past a pending timer, never
   polls after stop(), and run_forever() returns only after stop().
   The model is tied to asyncio_loop.py on the real asyncio.SelectorEventLoop (virtual clock,
   scripted selector) by the correspondence of harness/props/c13.py, with the concrete host model
   [asyncio_host]; that [asyncio_host] satisfies [host_ok] on every run is NOT proved.
   ====================================================================================== *)
Section Adapter.
Variable H : Type.
Variable hst : host H.
Variable h0 : H.

Definition ghistory (setup : list action) (beh : behaviour) (env : list step) (fuel : nat) : list event :=
  a_trace H (fst (gscenario H hst h0 setup beh env fuel)).
Definition ghostlog (setup : list action) (beh : behaviour) (env : list step) (fuel : nat) : list hcall :=
  a_hlog H (fst (gscenario H hst h0 setup beh env fuel)).
Definition gresult (setup : list action) (beh : behaviour) (env : list step) (fuel : nat) : outcome :=
  snd (gscenario H hst h0 setup beh env fuel).

(* clause 1+2: an alarm callback runs only for an alarm that was set with this callback, not before
   its due time, not twice, not after a successful removal; remove_alarm reports True exactly for an
   alarm that was created and not removed before (like asyncio's TimerHandle: also after it ran) *)
Theorem adapter_alarm_once_not_early_partial :
  forall setup beh env fuel newer k id t older,
    (forall a, In a setup -> action_raises a = false) -> host_ok (ghostlog setup beh env fuel) ->
    ghistory setup beh env fuel = newer ++ EAlarmCall k id t :: older ->
    exists due, aset k due id older /\ due <= t /\ ~ acalled k older /\ ~ aremoved k older.
Proof.
  intros setup beh env fuel newer k id t older Hs Hok E.
  destruct (adapter_contract H hst h0 setup beh env fuel Hs Hok) as [Hh _].
  destruct (proj1 (hist_ok_split _ _) Hh _ _ _ E) as [due [[P1 [P2 P3]] Hd]]. exists due. auto.
Qed.

Theorem adapter_remove_alarm_result_partial :
  forall setup beh env fuel newer k ok older,
    (forall a, In a setup -> action_raises a = false) -> host_ok (ghostlog setup beh env fuel) ->
    ghistory setup beh env fuel = newer ++ ERmAlarm k ok :: older ->
    (ok = true <-> ((exists d i, aset k d i older) /\ ~ aremoved k older)).
Proof.
  intros setup beh env fuel newer k ok older Hs Hok E.
  destruct (adapter_contract H hst h0 setup beh env fuel Hs Hok) as [Hh _].
  exact (proj1 (hist_ok_split _ _) Hh _ _ _ E).
Qed.

(* clause 3: a watch callback runs only as the callback currently registered for its descriptor
   (never after remove_watch_file); remove_watch_file reports True exactly for a registered one *)
Theorem adapter_watch_until_removed_partial :
  forall setup beh env fuel newer fd id t older,
    (forall a, In a setup -> action_raises a = false) -> host_ok (ghostlog setup beh env fuel) ->
    ghistory setup beh env fuel = newer ++ EWatchCall fd id t :: older ->
    watched fd older = Some id.
Proof.
  intros setup beh env fuel newer fd id t older Hs Hok E.
  destruct (adapter_contract H hst h0 setup beh env fuel Hs Hok) as [Hh _].
  exact (proj1 (hist_ok_split _ _) Hh _ _ _ E).
Qed.

Theorem adapter_remove_watch_result_partial :
  forall setup beh env fuel newer fd ok older,
    (forall a, In a setup -> action_raises a = false) -> host_ok (ghostlog setup beh env fuel) ->
    ghistory setup beh env fuel = newer ++ ERmWatch fd ok :: older ->
    (ok = true <-> watched fd older <> None).
Proof.
  intros setup beh env fuel newer fd ok older Hs Hok E.
  destruct (adapter_contract H hst h0 setup beh env fuel Hs Hok) as [Hh _].
  exact (proj1 (hist_ok_split _ _) Hh _ _ _ E).
Qed.

(* clause 4 + alarm liveness + clause 6 (first half): every poll of the host happens while no callback
   has raised; it never extends past the due time of a pending alarm; and a poll that can really wait
   happens only after an idle round that followed the last alarm / watch callback: the history
   splits so that no alarm or watch callback ran after the split and every idle callback registered
   before it and not removed since has been called after it *)
Theorem adapter_idle_before_quiescent_partial :
  forall setup beh env fuel newer to regs t ready older,
    (forall a, In a setup -> action_raises a = false) -> host_ok (ghostlog setup beh env fuel) ->
    ghistory setup beh env fuel = newer ++ ESelect to regs t ready :: older ->
    no_raise older /\
    match to with
    | None => forall k d i, ~ pending k d i older
    | Some d => 0 < d -> forall k due i, pending k due i older -> t + d <= due
    end /\
    (quiescent to ->
     exists batch rest, older = batch ++ rest /\
       (forall e, In e batch -> is_aw_call e = false) /\
       (forall h id, iset h id rest -> ~ iremoved h older -> exists t', In (EIdleCall h id t') batch)).
Proof.
  intros setup beh env fuel newer to regs t ready older Hs Hok E.
  destruct (adapter_contract H hst h0 setup beh env fuel Hs Hok) as [Hh _].
  exact (proj1 (hist_ok_split _ _) Hh _ _ _ E).
Qed.

(* clause 5: an idle callback is called only while registered *)
Theorem adapter_idle_called_only_while_registered_partial :
  forall setup beh env fuel newer h id t older,
    (forall a, In a setup -> action_raises a = false) -> host_ok (ghostlog setup beh env fuel) ->
    ghistory setup beh env fuel = newer ++ EIdleCall h id t :: older ->
    iset h id older /\ ~ iremoved h older.
Proof.
  intros setup beh env fuel newer h id t older Hs Hok E.
  destruct (adapter_contract H hst h0 setup beh env fuel Hs Hok) as [Hh _].
  exact (proj1 (hist_ok_split _ _) Hh _ _ _ E).
Qed.

(* clause 6: run() re-raises exactly when a callback raised the other exception, returns normally only
   when some callback raised and none raised the other exception (ExitMainLoop); when the run ends
   because the environment is exhausted or the poll blocks for ever, no callback raised.  (A host may
   finish the handles that were already queued before it stops: callbacks of the same batch can still
   run after a raise; no further poll happens, see adapter_idle_before_quiescent_partial.) *)
Theorem adapter_exception_partial :
  forall setup beh env fuel,
    (forall a, In a setup -> action_raises a = false) -> host_ok (ghostlog setup beh env fuel) ->
    match gresult setup beh env fuel with
    | ORaised => In (ERaise false) (ghistory setup beh env fuel)
    | OReturned => (exists b, In (ERaise b) (ghistory setup beh env fuel)) /\ ~ In (ERaise false) (ghistory setup beh env fuel)
    | OEnvEnd | OBlocked => no_raise (ghistory setup beh env fuel)
    | OSpin => True          (* out of fuel *)
    | OKeyError => False
    end.
Proof.
  intros setup beh env fuel Hs Hok.
  destruct (adapter_contract H hst h0 setup beh env fuel Hs Hok) as [_ Ho]. exact Ho.
Qed.
End Adapter.
Print Assumptions adapter_alarm_once_not_early_partial.
Print Assumptions adapter_remove_alarm_result_partial.
Print Assumptions adapter_watch_until_removed_partial.
Print Assumptions adapter_remove_watch_result_partial.
Print Assumptions adapter_idle_before_quiescent_partial.
Print Assumptions adapter_idle_called_only_while_registered_partial.
Print Assumptions adapter_exception_partial.

(* For the asyncio host model the hypothesis is CHECKED run by run: the extracted model evaluates the
   boolean checker [hostok_b] (Model/AdapterCheck.v) on the host log of every case of the correspondence
   and reports the verdict (a 0 would show up as a correspondence difference).  The checker is sound,
   so for every run on which it says true the whole contract is proved for that run of the model: *)
Theorem asyncio_checked_run_contract_partial :
  forall setup beh env,
    (forall a, In a setup -> action_raises a = false) ->
    hostok_b (a_hlog ahost (fst (ascenario setup beh env))) = true ->
    hist_ok aev_ok (a_trace ahost (fst (ascenario setup beh env))) /\
    match snd (ascenario setup beh env) with
    | ORaised => In (ERaise false) (a_trace ahost (fst (ascenario setup beh env)))
    | OReturned => (exists b, In (ERaise b) (a_trace ahost (fst (ascenario setup beh env)))) /\
                   ~ In (ERaise false) (a_trace ahost (fst (ascenario setup beh env)))
    | OEnvEnd | OBlocked => no_raise (a_trace ahost (fst (ascenario setup beh env)))
    | OSpin => True
    | OKeyError => False
    end.
Proof.
  intros setup beh env Hs Hb. rewrite ascenario_generic in *.
  apply (adapter_contract ahost asyncio_host ah_init setup beh env _ Hs). now apply hostok_b_sound.
Qed.
Print Assumptions asyncio_checked_run_contract_partial.

Theorem host_checker_sound : forall hl, hostok_b hl = true -> host_ok hl.
Proof. exact hostok_b_sound. Qed.
Print Assumptions host_checker_sound.

(* the checker accepts the log of the example run and rejects a log in which a timer that was never
   created fires, and one in which the host polls after stop() *)
Example checker_accepts : hostok_b (a_hlog ahost (fst (ascenario ex_setup ex_beh ex_env))) = true.
Proof. vm_compute. reflexivity. Qed.
Example checker_rejects_unknown_timer : hostok_b [CNext 0 (HTimer 5 TIdle)] = false.
Proof. vm_compute. reflexivity. Qed.
Example checker_rejects_poll_after_stop : hostok_b [CNext 0 (HSelect (Some 0) [] 0 []); CStop] = false.
Proof. vm_compute. reflexivity. Qed.

(* the FULL statements would drop the hypothesis [host_ok] for the asyncio host model; stated, not proved *)
Definition asyncio_host_meets_spec_full : Prop :=
  forall setup beh env, (forall a, In a setup -> action_raises a = false) ->
    host_ok (a_hlog ahost (fst (ascenario setup beh env))).

(* non-vacuity: on the example scenario the asyncio host model does satisfy the hypothesis shape
   (the run ends by ExitMainLoop, the history is the expected one) *)
Example asyncio_ex :
  snd (ascenario ex_setup ex_beh ex_env) = OReturned /\
  rev (a_trace ahost (fst (ascenario ex_setup ex_beh ex_env))) =
  [EAlarmSet 0 5 1; EAlarmSet 1 2 2; EWatchSet 7 3; EIdleSet 1 4;
   ESelect (Some 2) [7] 0 []; EAlarmCall 1 2 2; EAlarmSet 2 3 5;
   ESelect (Some 0) [7] 2 [7]; EWatchCall 7 3 2; EIdleCall 1 4 2;
   ESelect (Some 1) [7] 2 []; EAlarmCall 2 5 3; ERaise true].
Proof. vm_compute. split; reflexivity. Qed.


(* ======================================================================================
   The TornadoEventLoop wrapper (Model/TornadoLoop.v: alarm with _pending_alarms, remove_alarm,
   watch_file / remove_watch_file with the watch-handle table, enter_idle / remove_enter_idle,
   _also_call_idle, _entering_idle, handle_exit incl. BaseException, run) over ANY host, under the
   same hypothesis [host_ok] on the log of the host's answers.  The contract is the adapter contract
   except that remove_alarm reports True exactly for a PENDING alarm (as the select loop does).
   Tied to tornado_loop.py by correspondence on a real tornado AsyncIOLoop over the virtual asyncio
   loop; the hypothesis is checked run by run by hostok_b as for asyncio.
   ====================================================================================== *)
Section Tornado.
Variable H : Type.
Variable hst : host H.
Variable h0 : H.

Definition thistory (setup : list action) (beh : behaviour) (env : list step) (fuel : nat) : list event :=
  t_trace H (fst (tgscenario H hst h0 setup beh env fuel)).
Definition thostlog (setup : list action) (beh : behaviour) (env : list step) (fuel : nat) : list hcall :=
  t_hlog H (fst (tgscenario H hst h0 setup beh env fuel)).
Definition tresult (setup : list action) (beh : behaviour) (env : list step) (fuel : nat) : outcome :=
  snd (tgscenario H hst h0 setup beh env fuel).

Theorem tornado_alarm_once_not_early_partial :
  forall setup beh env fuel newer k id t older,
    (forall a, In a setup -> action_raises a = false) -> host_ok (thostlog setup beh env fuel) ->
    thistory setup beh env fuel = newer ++ EAlarmCall k id t :: older ->
    exists due, aset k due id older /\ due <= t /\ ~ acalled k older /\ ~ aremoved k older.
Proof.
  intros setup beh env fuel newer k id t older Hs Hok E.
  destruct (tornado_contract H hst h0 setup beh env fuel Hs Hok) as [Hh _].
  destruct (proj1 (hist_ok_split _ _) Hh _ _ _ E) as [due [[P1 [P2 P3]] Hd]]. exists due. auto.
Qed.

(* remove_alarm: True exactly when the alarm is still pending; hence True once, then False, and False
   after the alarm has run *)
Theorem tornado_remove_alarm_result_partial :
  forall setup beh env fuel newer k ok older,
    (forall a, In a setup -> action_raises a = false) -> host_ok (thostlog setup beh env fuel) ->
    thistory setup beh env fuel = newer ++ ERmAlarm k ok :: older ->
    (ok = true <-> exists d i, pending k d i older).
Proof.
  intros setup beh env fuel newer k ok older Hs Hok E.
  destruct (tornado_contract H hst h0 setup beh env fuel Hs Hok) as [Hh _].
  exact (proj1 (hist_ok_split _ _) Hh _ _ _ E).
Qed.

Theorem tornado_watch_until_removed_partial :
  forall setup beh env fuel newer fd id t older,
    (forall a, In a setup -> action_raises a = false) -> host_ok (thostlog setup beh env fuel) ->
    thistory setup beh env fuel = newer ++ EWatchCall fd id t :: older ->
    watched fd older = Some id.
Proof.
  intros setup beh env fuel newer fd id t older Hs Hok E.
  destruct (tornado_contract H hst h0 setup beh env fuel Hs Hok) as [Hh _].
  exact (proj1 (hist_ok_split _ _) Hh _ _ _ E).
Qed.

Theorem tornado_remove_watch_result_partial :
  forall setup beh env fuel newer fd ok older,
    (forall a, In a setup -> action_raises a = false) -> host_ok (thostlog setup beh env fuel) ->
    thistory setup beh env fuel = newer ++ ERmWatch fd ok :: older ->
    (ok = true <-> watched fd older <> None).
Proof.
  intros setup beh env fuel newer fd ok older Hs Hok E.
  destruct (tornado_contract H hst h0 setup beh env fuel Hs Hok) as [Hh _].
  exact (proj1 (hist_ok_split _ _) Hh _ _ _ E).
Qed.

Theorem tornado_idle_before_quiescent_partial :
  forall setup beh env fuel newer to regs t ready older,
    (forall a, In a setup -> action_raises a = false) -> host_ok (thostlog setup beh env fuel) ->
    thistory setup beh env fuel = newer ++ ESelect to regs t ready :: older ->
    no_raise older /\
    match to with
    | None => forall k d i, ~ pending k d i older
    | Some d => 0 < d -> forall k due i, pending k due i older -> t + d <= due
    end /\
    (quiescent to ->
     exists batch rest, older = batch ++ rest /\
       (forall e, In e batch -> is_aw_call e = false) /\
       (forall h id, iset h id rest -> ~ iremoved h older -> exists t', In (EIdleCall h id t') batch)).
Proof.
  intros setup beh env fuel newer to regs t ready older Hs Hok E.
  destruct (tornado_contract H hst h0 setup beh env fuel Hs Hok) as [Hh _].
  exact (proj1 (hist_ok_split _ _) Hh _ _ _ E).
Qed.

Theorem tornado_idle_called_only_while_registered_partial :
  forall setup beh env fuel newer h id t older,
    (forall a, In a setup -> action_raises a = false) -> host_ok (thostlog setup beh env fuel) ->
    thistory setup beh env fuel = newer ++ EIdleCall h id t :: older ->
    iset h id older /\ ~ iremoved h older.
Proof.
  intros setup beh env fuel newer h id t older Hs Hok E.
  destruct (tornado_contract H hst h0 setup beh env fuel Hs Hok) as [Hh _].
  exact (proj1 (hist_ok_split _ _) Hh _ _ _ E).
Qed.

(* an exception raised in any callback (alarm, watch or idle; the model does not distinguish Exception
   from BaseException, and handle_exit catches BaseException) stops the loop and is re-raised *)
Theorem tornado_exception_partial :
  forall setup beh env fuel,
    (forall a, In a setup -> action_raises a = false) -> host_ok (thostlog setup beh env fuel) ->
    match tresult setup beh env fuel with
    | ORaised => In (ERaise false) (thistory setup beh env fuel)
    | OReturned => (exists b, In (ERaise b) (thistory setup beh env fuel)) /\ ~ In (ERaise false) (thistory setup beh env fuel)
    | OEnvEnd | OBlocked => no_raise (thistory setup beh env fuel)
    | OSpin => True
    | OKeyError => False
    end.
Proof.
  intros setup beh env fuel Hs Hok.
  destruct (tornado_contract H hst h0 setup beh env fuel Hs Hok) as [_ Ho]. exact Ho.
Qed.
End Tornado.
Print Assumptions tornado_alarm_once_not_early_partial.
Print Assumptions tornado_remove_alarm_result_partial.
Print Assumptions tornado_watch_until_removed_partial.
Print Assumptions tornado_remove_watch_result_partial.
Print Assumptions tornado_idle_before_quiescent_partial.
Print Assumptions tornado_idle_called_only_while_registered_partial.
Print Assumptions tornado_exception_partial.

(* on the asyncio host model the hypothesis is checked run by run (as for asyncio) *)
Theorem tornado_checked_run_contract_partial :
  forall setup beh env,
    (forall a, In a setup -> action_raises a = false) ->
    hostok_b (t_hlog ahost (fst (tscenario setup beh env))) = true ->
    hist_ok taev_ok (t_trace ahost (fst (tscenario setup beh env))) /\
    match snd (tscenario setup beh env) with
    | ORaised => In (ERaise false) (t_trace ahost (fst (tscenario setup beh env)))
    | OReturned => (exists b, In (ERaise b) (t_trace ahost (fst (tscenario setup beh env)))) /\
                   ~ In (ERaise false) (t_trace ahost (fst (tscenario setup beh env)))
    | OEnvEnd | OBlocked => no_raise (t_trace ahost (fst (tscenario setup beh env)))
    | OSpin => True
    | OKeyError => False
    end.
Proof.
  intros setup beh env Hs Hb. rewrite tscenario_generic in *.
  apply (tornado_contract ahost asyncio_host ah_init setup beh env _ Hs). now apply hostok_b_sound.
Qed.
Print Assumptions tornado_checked_run_contract_partial.

Example tornado_ex :
  snd (tscenario ex_setup ex_beh ex_env) = OReturned /\
  hostok_b (t_hlog ahost (fst (tscenario ex_setup ex_beh ex_env))) = true /\
  rev (t_trace ahost (fst (tscenario ex_setup ex_beh ex_env))) =
  [EAlarmSet 0 5 1; EAlarmSet 1 2 2; EWatchSet 7 3; EIdleSet 1 4;
   ESelect (Some 2) [7] 0 []; EAlarmCall 1 2 2; EAlarmSet 2 3 5;
   ESelect (Some 0) [7] 2 [7]; EWatchCall 7 3 2; EIdleCall 1 4 2;
   ESelect (Some 1) [7] 2 []; EAlarmCall 2 5 3; ERaise true].
Proof. vm_compute. repeat split; reflexivity. Qed.
