(* C05 - Terminal input decodes to the same events however it is fragmented.
   Only statements here; every proof is [exact <lemma>] into Proofs/KeyInputProofs.v.
   The model (Model/KeyInput.v) follows escape.py / _raw_display_base.py line by line; its key
   table [input_sequences], [_keyconv] and the MOUSE_* constants are regenerated from
   /repo/urwid/display/escape.py on every run (Gen/escape_table_gen.v) and the trie is built from
   the table inside Coq by the model of KeyqueueTrie.add.
   [em] ranges over the three encoding modes, [more] over more_available, codes over all lists. *)
From Coq Require Import ZArith List Bool.
Import ListNotations.
From Urwid Require Import PyBase escape_table_gen KeyInput KeyInputProofs KeyInputSgr KeyInputTrie KeyInputWide KeyInputStream.
Open Scope Z_scope.

(* ---------- clause 1: terminates, consumes strictly left to right ---------- *)

(* every successful process_keyqueue call reports at least one event and consumes a non-empty
   prefix: what it returns as remaining codes is a proper suffix of what it was given *)
Theorem progress :
  forall em c more evs rest,
    process_keyqueue em c more = OOk (evs, rest) ->
    evs <> [] /\ exists p, p <> [] /\ c = p ++ rest.
Proof. exact process_progress. Qed.
Print Assumptions progress.

(* hence parse_input's `while codes:` loop ends within len(codes) iterations, for every input *)
Theorem decoding_terminates :
  forall em codes more, parse_loop (length codes) em codes more [] <> PFuel.
Proof. intros em codes more. exact (decode_not_fuel em more codes). Qed.
Print Assumptions decoding_terminates.

(* the raw codes handed to the callback followed by the codes kept pending are the input *)
Theorem parse_input_left_to_right :
  forall em codes more c p, parse_input em codes more = Ok (c, p) -> c_raw c ++ p = codes.
Proof. exact parse_input_raw. Qed.
Print Assumptions parse_input_left_to_right.

(* KeyqueueTrie(input_sequences) does not raise "trie conflict detected" for the current table *)
Theorem trie_builds : trie_build input_sequences = Ok input_trie.
Proof. exact trie_build_ok. Qed.
Print Assumptions trie_builds.

(* The trie IS the declared table.  For ANY table on which KeyqueueTrie.__init__/add succeeds and ALL
   key lists: the table is prefix-free (no empty sequence, none a prefix of or equal to another), so at
   most one entry is a prefix of the keys ("longest match" = the only match) and
   - if entry (s, n) is a prefix of the keys, get_recurse gives that entry's result on the remaining keys
     (the key name, or the mouse / sgrmouse reader);
   - if no entry is a prefix of the keys, get_recurse wants more input exactly when the keys are a proper
     prefix of some entry (or there are no keys at all) and otherwise answers None;
   - a leaf is only ever reached through an entry that is a prefix of the keys. *)
Theorem trie_lookup_is_table_lookup :
  forall tbl t, trie_build tbl = Ok t ->
    table_prefix_free tbl /\
    forall keys more,
      (forall s n, In (s, n) tbl -> is_prefix s keys = true ->
         get_recurse t keys more = leaf_result n (skipn (length s) keys) more) /\
      ((forall s n, In (s, n) tbl -> is_prefix s keys = false) ->
         get_recurse t keys more =
           if existsb (fun e => pprefix keys (fst e)) tbl || match keys with [] => true | _ => false end
           then (if more then OMore else OOk None) else OOk None) /\
      (forall n rest, tlookup t keys = LLeaf n rest -> exists s, In (s, n) tbl /\ keys = s ++ rest).
Proof. exact trie_lookup_is_table_lookup_gen. Qed.
Print Assumptions trie_lookup_is_table_lookup.

(* instance: the table generated from escape.py is prefix-free, and a key name reported by its trie is
   always the name of a table entry whose sequence was just consumed (no invented names, no other
   sequence decodes to a key) *)
Theorem input_table_prefix_free : table_prefix_free input_sequences.
Proof. exact (proj1 (trie_lookup_is_table_lookup_gen _ _ input_trie_built)). Qed.
Print Assumptions input_table_prefix_free.

Theorem key_names_come_from_table :
  forall keys more name rest,
    get_recurse input_trie keys more = OOk (Some (Key name, rest)) ->
    exists s, In (s, name) input_sequences /\ keys = s ++ rest.
Proof. exact key_names_come_from_table_proof. Qed.
Print Assumptions key_names_come_from_table.

(* ---------- clause 1: without raising ---------- *)

(* every non-empty byte string, every encoding, more_available or not: process_keyqueue returns
   events or raises MoreInputRequired, never anything else.  (Was refuted before fix 228c9b3: ESC in
   front of a cursor position report raised AttributeError; the corpus keeps those inputs.) *)
Theorem never_raises :
  forall em c more e, Forall is_byte c -> c <> [] -> process_keyqueue em c more <> OErr e.
Proof. intros em c more e Hb Hne. exact (process_no_err em more c e Hb Hne). Qed.
Print Assumptions never_raises.

(* a hooked Screen never raises, for every schedule of reads and completion alarms *)
Theorem screen_never_raises :
  forall em ops st,
    Forall is_byte (st ++ concat (map feed_bytes ops)) ->
    snd (run em st ops) = None.
Proof. exact run_no_err. Qed.
Print Assumptions screen_never_raises.

(* ---------- clause 2: fragmentation ---------- *)

(* a result reached while more input was allowed is final: any bytes appended stay untouched *)
Theorem decisive :
  forall em c evs rest,
    process_keyqueue em c true = OOk (evs, rest) ->
    forall d, process_keyqueue em (c ++ d) true = OOk (evs, rest ++ d).
Proof. exact decisive_proof. Qed.
Print Assumptions decisive.

(* MoreInputRequired is prefix-closed: it is answered only while the codes seen so far are an
   incomplete sequence *)
Theorem more_is_prefix :
  forall em c,
    process_keyqueue em c true = OMore ->
    forall c' d, c = c' ++ d -> c' <> [] -> process_keyqueue em c' true = OMore.
Proof. exact more_is_prefix_proof. Qed.
Print Assumptions more_is_prefix.

(* more_available only matters when the answer is MoreInputRequired, which False never gives *)
Theorem more_flag :
  forall em c,
    process_keyqueue em c false <> OMore /\
    (forall r, process_keyqueue em c true = OOk r -> process_keyqueue em c false = OOk r).
Proof. intros em c. split; [apply process_false_not_more | apply decided_ignores_flag_proof]. Qed.
Print Assumptions more_flag.

(* any cutting of a stream into successive reads, no alarm firing in between, gives the same
   events, the same raw codes and the same pending codes as one read of the whole stream *)
Theorem fragmentation_invariant :
  forall em pieces calls_w p,
    run em [] [Feed (concat pieces)] = (calls_w, p, None) ->
    exists calls, run em [] (map Feed pieces) = (calls, p, None) /\
      keys_of calls = keys_of calls_w /\ raw_of calls = raw_of calls_w.
Proof. intros em pieces calls_w p. exact (fragmentation_from_pending em pieces [] calls_w p (or_introl eq_refl)). Qed.
Print Assumptions fragmentation_invariant.

(* the same from any state reached by earlier reads (codes pending) *)
Theorem fragmentation_invariant_from_pending :
  forall em pieces st calls_w p,
    pending_ok em st ->
    run em st [Feed (concat pieces)] = (calls_w, p, None) ->
    exists calls, run em st (map Feed pieces) = (calls, p, None) /\
      keys_of calls = keys_of calls_w /\ raw_of calls = raw_of calls_w.
Proof. exact fragmentation_from_pending. Qed.
Print Assumptions fragmentation_invariant_from_pending.

(* ... and whatever happens afterwards (more reads, the completion alarm) gives the same events *)
Theorem fragmentation_invariant_then :
  forall em pieces later calls_w p,
    run em [] (Feed (concat pieces) :: later) = (calls_w, p, None) ->
    exists calls, run em [] (map Feed pieces ++ later) = (calls, p, None) /\
      keys_of calls = keys_of calls_w /\ raw_of calls = raw_of calls_w.
Proof. exact fragmentation_then. Qed.
Print Assumptions fragmentation_invariant_then.

(* ---------- clause 2: the timeout ---------- *)

(* when the alarm fires with codes pending: one callback whose raw codes are exactly the pending
   codes and whose events are those codes decoded with more_available = False (as they stand);
   nothing stays pending (the PErr branch is impossible by never_raises; kept so that the statement
   does not depend on it) *)
Theorem timeout_flushes :
  forall em st, st <> [] ->
    match parse_loop (length st) em st false [] with
    | PDone d => step em st Timeout = Ok ([mkcall d st], [])
    | PErr e => step em st Timeout = Err e
    | PMore _ _ => False
    | PFuel => False
    end.
Proof. exact timeout_step. Qed.
Print Assumptions timeout_flushes.

(* over any schedule of reads and alarms: raw codes of all callbacks, in order, followed by the
   pending codes = the bytes read, in order.  Nothing lost, duplicated or reordered. *)
Theorem nothing_lost :
  forall em ops st calls p,
    run em st ops = (calls, p, None) -> raw_of calls ++ p = st ++ concat (map feed_bytes ops).
Proof. exact run_conserves. Qed.
Print Assumptions nothing_lost.

(* ---------- clause 3: unknown bytes ---------- *)

(* a byte that can start nothing in the current encoding (not ESC, not a multi-byte lead) is
   reported as exactly one event and the following codes are returned untouched *)
Theorem unknown_bytes_pass_through :
  forall em b tl more,
    passthrough_byte em b = true -> exists ev, process_keyqueue em (b :: tl) more = OOk ([ev], tl).
Proof. exact unknown_bytes_pass_through_proof. Qed.
Print Assumptions unknown_bytes_pass_through.

(* a run of such bytes in front of anything: one event each, then what follows is decoded exactly
   as it would be alone *)
Theorem unknown_prefix_does_not_disturb :
  forall em more s g, forallb (passthrough_byte em) g = true ->
    exists evs, length evs = length g /\
      parse_loop (length (g ++ s)) em (g ++ s) more [] = padd evs (parse_loop (length s) em s more []).
Proof. exact unknown_prefix_proof. Qed.
Print Assumptions unknown_prefix_does_not_disturb.

(* ---------- clause 1: documented names and coordinates ---------- *)

(* every entry of the generated table decodes to exactly its name, once, whatever follows and
   whatever more_available says (vm_compute over the whole table + decisive) *)
Theorem table_entries_decode :
  forall em s name rest more,
    In (s, name) input_sequences ->
    zs_eqb name str_mouse = false -> zs_eqb name str_sgrmouse = false ->
    process_keyqueue em (27 :: s ++ rest) more = OOk ([Key name], rest).
Proof. exact table_entries_decode_proof. Qed.
Print Assumptions table_entries_decode.

(* X10 mouse report ESC [ M b x y: one event, coordinates (x - 33) mod 256, (y - 33) mod 256 *)
Theorem x10_mouse_decodes :
  forall em b x y rest more,
    process_keyqueue em (27 :: 91 :: 77 :: b :: x :: y :: rest) more = OOk ([x10_event b x y], rest) /\
    exists name button, x10_event b x y = Mouse name button ((x - 33) mod 256) ((y - 33) mod 256).
Proof. intros. split; [apply x10_mouse_decodes_proof | apply x10_event_coords]. Qed.
Print Assumptions x10_mouse_decodes.

(* cursor position report ESC [ y ; x R, y and x decimal numerals without leading zero, when the
   table has no entry for it (ESC [ 1 ; n R with n <= 8 is a modified F3 there) *)
Theorem cursor_position_decodes :
  forall em ys xs rest more,
    numeral ys = true -> numeral xs = true ->
    get_recurse input_trie (91 :: ys ++ 59 :: xs ++ 82 :: rest) more = OOk None ->
    process_keyqueue em (27 :: 91 :: ys ++ 59 :: xs ++ 82 :: rest) more
      = OOk ([CursorPos (digits_val xs - 1) (digits_val ys - 1)], rest).
Proof. exact cursor_position_decodes_proof. Qed.
Print Assumptions cursor_position_decodes.

(* the documented names and buttons of X10 reports in the xterm range: modifiers 'shift '/'meta '/
   'ctrl ' for bits 4/8/16 of b, 'mouse drag' for bit 32 else 'mouse press', button (b & 3) + 1,
   + 3 for the wheel bit 64 (docs/manual/userinput.rst) *)
Theorem x10_mouse_documented :
  forall b x y, 0 <= b < 128 -> Z.land b 3 <> 3 ->
    x10_event (b + 32) x y
      = Mouse (x10_doc_name b) (Z.land b 3 + 1 + (if Z.land b 64 =? 0 then 0 else 3))
              ((x - 33) mod 256) ((y - 33) mod 256).
Proof. exact x10_documented_proof. Qed.
Print Assumptions x10_mouse_documented.

(* SGR (1006) mouse report ESC [ < b ; x ; y M|m with decimal parameters (leading zeros allowed, as
   int() allows them; at most 4300 digits each, CPython's int() limit): exactly one mouse event,
   the documented one (sgr_doc_event: modifiers, press/drag/release, button, coordinates x-1, y-1),
   what follows untouched.  Goes through the model of the M/m scan, split(";") and int(). *)
Theorem sgr_mouse_decodes :
  forall em bs xs ys t rest more,
    digits bs -> digits xs -> digits ys -> (t = 77 \/ t = 109) ->
    (length bs <= 4300)%nat -> (length xs <= 4300)%nat -> (length ys <= 4300)%nat ->
    process_keyqueue em (27 :: 91 :: 60 :: bs ++ 59 :: xs ++ 59 :: ys ++ t :: rest) more
      = OOk ([sgr_doc_event (digits_val bs) (digits_val xs) (digits_val ys) t], rest).
Proof. exact sgr_mouse_decodes_proof. Qed.
Print Assumptions sgr_mouse_decodes.

(* a structurally well-formed 2-4 byte character (lead byte announcing n continuation bytes, all
   10xxxxxx) that the decoder table accepts (utf8_decode: not overlong, not a surrogate, at most
   U+10FFFF) is reported as exactly that character in utf8 mode, what follows untouched.
   That [utf8_decode] IS CPython's strict decoder on such input is trusted (correspondence:
   boundary code points, all overlong/surrogate/out-of-range forms, all lead x second bytes). *)
Theorem utf8_char_decodes :
  forall code n conts cp rest more,
    utf8_check n (conts ++ rest) = U8Good -> length conts = n ->
    utf8_decode code n conts = Some cp ->
    127 < code < 256 ->
    (Z.land code 224 =? 192) = (n =? 1)%nat -> (Z.land code 240 =? 224) = (n =? 2)%nat ->
    (Z.land code 248 =? 240) = (n =? 3)%nat ->
    process_keyqueue Utf8 (code :: conts ++ rest) more = OOk ([Key [cp]], rest).
Proof. exact utf8_char_decodes_proof. Qed.
Print Assumptions utf8_char_decodes.

(* ---------- the non-UTF-8 encoding modes ---------- *)
(* In "wide" mode the decision is made by str_util.within_double_byte; the model uses its py2v
   translation (Gen/str_loops_gen.v), and its value on every one- and two-byte string is computed
   inside Coq (65536 pairs) on every run. *)

(* a high byte followed by any byte: ONE two-byte character exactly when the pair is a double-byte
   character (trail >= 0x80, or lead >= 0x81 and trail in 0x40..0x7E), else the high byte alone and
   the following byte left untouched *)
Theorem wide_pair_decodes :
  forall a b rest more, 128 <= a < 256 -> 0 <= b < 256 ->
    process_keyqueue Wide (a :: b :: rest) more =
      if dbcs_trail a b then OOk ([Key [a; b]], rest) else OOk ([Key [a]], b :: rest).
Proof. exact wide_pair_decodes_proof. Qed.
Print Assumptions wide_pair_decodes.

(* a high byte at the end of a read is kept pending; the completion timeout reports it alone *)
Theorem wide_lead_alone :
  forall a, 128 <= a < 256 ->
    process_keyqueue Wide [a] true = OMore /\ process_keyqueue Wide [a] false = OOk ([Key [a]], []).
Proof. exact wide_lead_alone_proof. Qed.
Print Assumptions wide_lead_alone.

(* any text of printable ASCII and double-byte characters decodes to one event per character
   (with fragmentation_invariant: however it is cut into reads) *)
Theorem wide_text_decodes :
  forall more ws, forallb wchar_ok ws = true ->
    parse_loop (length (flat_map wbytes ws)) Wide (flat_map wbytes ws) more [] = PDone (map wevent ws).
Proof. exact wide_text_decodes_proof. Qed.
Print Assumptions wide_text_decodes.

(* narrow mode: every high byte is its own character *)
Theorem narrow_high_byte :
  forall a rest more, 128 <= a < 256 -> process_keyqueue Narrow (a :: rest) more = OOk ([Key [a]], rest).
Proof. exact narrow_high_byte_proof. Qed.
Print Assumptions narrow_high_byte.

(* ---------- whole streams of recognised items ---------- *)
(* [item]: a table key, an X10 report, an SGR report with decimal parameters, a cursor position report
   the table does not shadow, a printable ASCII character, a well-formed UTF-8 character (utf8 mode),
   a double-byte character (wide mode).  [item_ok] collects the well-formedness conditions of the
   per-item theorems above; [table_blind k] says no table entry is a prefix of k or has k as a proper
   prefix - by trie_lookup_is_table_lookup the trie then answers None on k ++ anything. *)
Theorem table_blind_falls_through :
  forall k rest more, table_blind k = true -> k <> [] -> get_recurse input_trie (k ++ rest) more = OOk None.
Proof. exact trie_blind. Qed.
Print Assumptions table_blind_falls_through.

(* each recognised item is reported exactly once, as its documented event, whatever follows *)
Theorem recognised_item_decodes :
  forall em i, item_ok em i ->
    item_bytes i <> [] /\
    forall rest more, process_keyqueue em (item_bytes i ++ rest) more = OOk ([item_event i], rest).
Proof. exact item_decodes. Qed.
Print Assumptions recognised_item_decodes.

(* a stream of recognised items decodes to exactly their events, in order, nothing pending *)
Theorem recognised_stream_decodes :
  forall em more items, Forall (item_ok em) items ->
    parse_loop (length (flat_map item_bytes items)) em (flat_map item_bytes items) more []
      = PDone (map item_event items).
Proof. exact decode_items. Qed.
Print Assumptions recognised_stream_decodes.

(* ... and so it does when the bytes arrive cut into successive reads at ARBITRARY points (inside
   escape sequences, inside multi-byte characters), the rest arriving before the timeout: the
   callbacks receive exactly one event per item, in order; raw codes = the stream; nothing pending *)
Theorem recognised_stream_any_fragmentation :
  forall em items pieces,
    Forall (item_ok em) items -> concat pieces = flat_map item_bytes items ->
    exists calls, run em [] (map Feed pieces) = (calls, [], None) /\
      keys_of calls = map item_event items /\ raw_of calls = flat_map item_bytes items.
Proof. exact recognised_stream_fragmented. Qed.
Print Assumptions recognised_stream_any_fragmentation.

(* ---------- non-vacuity: the model computes, the hypotheses are satisfiable ---------- *)
From Coq Require Import String.
Example decodes_up_then_x :
  process_keyqueue Utf8 [27; 91; 65; 120] true = OOk ([Key (s2z "up"%string)], [120]).
Proof. vm_compute. reflexivity. Qed.

Example table_has_entries :
  In ([91; 65], s2z "up"%string) input_sequences /\ (400 <= List.length input_sequences)%nat.
Proof. split; [vm_compute; tauto | vm_compute; repeat constructor]. Qed.

Example pending_then_completed :
  run Utf8 [] [Feed [27; 91]; Feed [49; 59]; Feed [53; 65; 195]; Feed [169]; Feed [27]; Timeout]
  = ([mkcall [] []; mkcall [] []; mkcall [Key (s2z "ctrl up"%string)] [27; 91; 49; 59; 53; 65];
      mkcall [Key [233]] [195; 169]; mkcall [] []; mkcall [Key (s2z "esc"%string)] [27]], [], None).
Proof. vm_compute. reflexivity. Qed.

Example sgr_and_x10_and_cpr :
  keys_of (fst (fst (run Wide [] [Feed [27; 91; 60; 54; 53; 59; 49; 50; 59; 51; 109; 27; 91; 77; 32; 43; 53;
                                         27; 91; 50; 52; 59; 56; 48; 82]])))
  = [Mouse (s2z "mouse release"%string) 5 11 2; Mouse (s2z "mouse press"%string) 1 10 20; CursorPos 79 23].
Proof. vm_compute. reflexivity. Qed.

Example cpr_hypothesis_satisfiable :
  numeral [50; 52] = true /\ numeral [56; 48] = true /\
  get_recurse input_trie (91 :: [50; 52] ++ 59 :: [56; 48] ++ 82 :: []) true = OOk None.
Proof. vm_compute. auto. Qed.

Example passthrough_examples :
  passthrough_byte Utf8 128 = true /\ passthrough_byte Utf8 255 = true /\ passthrough_byte Utf8 195 = false /\
  passthrough_byte Wide 161 = false /\ passthrough_byte Narrow 161 = true /\ passthrough_byte Narrow 27 = false.
Proof. vm_compute. auto 10. Qed.

Example utf8_hypotheses_satisfiable :
  utf8_check 2 ([184; 150] ++ [97]) = U8Good /\ utf8_decode 228 2 [184; 150] = Some 19990 /\
  (Z.land 228 240 =? 224) = true.
Proof. vm_compute. auto. Qed.

Example sgr_hypotheses_satisfiable :
  digits [48; 48; 54; 53] /\ digits_val [48; 48; 54; 53] = 65 /\
  sgr_doc_event 65 12 3 109 = Mouse (s2z "mouse release") 5 11 2.
Proof. repeat split; try discriminate; vm_compute; reflexivity. Qed.

Example esc_before_cursor_position_report :
  process_keyqueue Utf8 [27; 27; 91; 53; 59; 53; 82] false = OOk ([Key (s2z "esc"); CursorPos 4 4], []) /\
  process_keyqueue Utf8 [27; 27; 27; 91; 53; 59; 53; 82; 65] true
    = OOk ([Key (s2z "esc"); Key (s2z "esc"); CursorPos 4 4], [65]).
Proof. vm_compute. auto. Qed.

Example table_lookup_cases :
  (* an entry is a prefix / the keys are a proper prefix of entries / neither *)
  get_recurse input_trie [91; 49; 59; 53; 65; 120] true = OOk (Some (Key (s2z "ctrl up"), [120])) /\
  get_recurse input_trie [91; 49; 59] true = OMore /\ get_recurse input_trie [91; 49; 59] false = OOk None /\
  get_recurse input_trie [91; 120] true = OOk None /\
  existsb (fun e => pprefix [91; 49; 59] (fst e)) input_sequences = true.
Proof. vm_compute. auto. Qed.

Example wide_examples :
  dbcs_trail 161 234 = true /\ dbcs_trail 129 64 = true /\ dbcs_trail 128 64 = false /\ dbcs_trail 161 32 = false /\
  forallb wchar_ok [WDouble 176 161; WAscii 97; WDouble 129 64] = true /\
  within_double_byte [176; 161] 0 1 = Ok 2.
Proof. vm_compute. auto 10. Qed.

Example recognised_items_exist :
  Forall (item_ok Utf8) example_items_utf8 /\ Forall (item_ok Wide) example_items_wide.
Proof. exact example_items_ok. Qed.

Example recognised_items_compute :
  map item_event example_items_utf8
  = [Key (s2z "ctrl up"); Mouse (s2z "mouse press") 1 10 20; Mouse (s2z "mouse press") 1 11 2; CursorPos 79 23;
     Key [97]; Key [19990]].
Proof. vm_compute. reflexivity. Qed.

Example timeout_needed_for_lone_esc :
  process_keyqueue Utf8 [27] true = OMore /\ process_keyqueue Utf8 [27] false = OOk ([Key (s2z "esc"%string)], []).
Proof. vm_compute. auto. Qed.
