(* placeholder while the proofs are being written *)
From Coq Require Import ZArith.
From Urwid Require Import Scrollable.
Theorem placeholder_c20 : (0 <= 0)%Z. Proof. apply Z.le_refl. Qed.
Print Assumptions placeholder_c20.
