(* C20 - Scrollable views show the right slice and scrollbars reflect the position.
   Only statements here; every proof is [exact <lemma>] into Proofs/Scroll*.v and Proofs/ThumbPrimCheck.v.

   Model: Model/Scrollable.v (hand-written, tied to the code by the extracted-model correspondence on every run);
   its position arithmetic [adjust_trim_top_gen] is regenerated from urwid/widget/scrollable.py on every run.
   The wrapped widget is external: its canvas size, cursor, selectable(), key and mouse answers are universally
   quantified observations ([cobs], [kobs], [bobs]).  Floats: Model/ScrollFloat.v (exact rationals + proved rounding). *)
From Coq Require Import ZArith QArith List Bool.
Import ListNotations.
(* C02's canvas models (read-only) come first so that the C20 names win where both define one (step, coords, ...) *)
From Urwid Require Import Canvas CanvasGrid CanvasHeap CanvasProg CanvasHeapFrame CanvasHeapScope.
From Urwid Require Import PyBase ScrollBase scrollable_gen ScrollFloat Scrollable ScrollCanvas
  ScrollableProofs ScrollFloatProofs ScrollBarProofs ThumbPrimCheck
  ScrollHistoryProofs ScrollProtoProofs ScrollCanvasProofs ScrollGridProofs ScrollCanvasTotal.
Open Scope Z_scope.

(* ================================================================== Scrollable *)

(* --- scroll_pos_range + scroll_shows_slice, every state, every wrapped canvas, view height >= 1:
       render never raises; it shows rows [p, p+height) of the wrapped widget's full rendering [full] with
       0 <= p <= max 0 (total - height), followed by blank rows only when total < height; the result has exactly
       [maxrow] rows.  No hypothesis on the state: it covers every history (any set_scrollpos value, any keys). *)
Theorem scroll_pos_range_and_shows_slice :
  forall (A : Type) (blank : A) st maxcol maxrow ob (full : list A),
    1 <= maxrow -> ob_ok ob -> zlen full = c_rows ob ->
    exists st' v,
      s_render st maxcol maxrow ob = Ok (st', v) /\
      0 <= v_top v <= Z.max 0 (zlen full - maxrow) /\
      view_rows blank full v = spec_rows blank full (v_top v) maxrow /\
      zlen (view_rows blank full v) = maxrow.
Proof. exact @s_render_rows. Qed.
Print Assumptions scroll_pos_range_and_shows_slice.

(* --- the same with the column bookkeeping: blank columns only when the content is narrower, columns cut only
       when it is wider; and the link between the window shown and the state left behind *)
Theorem scroll_view_geometry :
  forall st maxcol maxrow ob,
    1 <= maxrow -> ob_ok ob ->
    exists st' v,
      s_render st maxcol maxrow ob = Ok (st', v) /\
      0 <= v_top v <= Z.max 0 (c_rows ob - maxrow) /\
      v_shown v = Z.min maxrow (c_rows ob - v_top v) /\
      v_blank v = Z.max 0 (maxrow - c_rows ob) /\
      v_padr v = Z.max 0 (maxcol - c_cols ob) /\
      v_trimr v = Z.max 0 (c_cols ob - maxcol) /\
      trim_top st' = v_top v /\
      action st' = ANone /\
      rows_cached st' = rows_cached st /\
      (fits ob maxcol maxrow = true -> st' = fit_state st ob).
Proof. exact s_render_total. Qed.
Print Assumptions scroll_view_geometry.

(* --- scroll_reports_p: after EVERY render (content fitting or not) the reported position (get_scrollpos =
       _trim_top) is the p of the window shown, lies in range, and no scroll action is left pending.
       (Until fix: commit 886d649 this was refuted for content that fits the view: render returned before touching
       _trim_top; regression inputs: corpus/C20/known_stale_pos.json, corpus/C20/repro_stale_scrollpos.py.) *)
Theorem scroll_reports_p :
  forall st maxcol maxrow ob st' v,
    1 <= maxrow -> ob_ok ob -> s_render st maxcol maxrow ob = Ok (st', v) ->
    trim_top st' = v_top v /\ 0 <= trim_top st' <= Z.max 0 (c_rows ob - maxrow) /\ action st' = ANone.
Proof. exact s_render_reports. Qed.
Print Assumptions scroll_reports_p.

(* the render that has to trim - the content is higher or wider than the view - in one statement: the reported
   position is the p shown, it is in range, the pending action is consumed, exactly [maxrow] rows of content are
   shown when there are that many *)
Theorem scroll_render_when_trimming :
  forall st maxcol maxrow ob,
    1 <= maxrow -> ob_ok ob -> fits ob maxcol maxrow = false ->
    exists st' v,
      s_render st maxcol maxrow ob = Ok (st', v) /\
      0 <= trim_top st' <= Z.max 0 (c_rows ob - maxrow) /\
      action st' = ANone /\
      rows_cached st' = rows_cached st /\
      v_top v = trim_top st' /\
      v_shown v = Z.min maxrow (c_rows ob) /\
      v_blank v = Z.max 0 (maxrow - c_rows ob) /\
      v_padr v = Z.max 0 (maxcol - c_cols ob) /\
      v_trimr v = Z.max 0 (c_cols ob - maxcol).
Proof. exact s_render_trims. Qed.
Print Assumptions scroll_render_when_trimming.

(* --- histories: after ANY sequence of renders/resizes, keys, mouse events and set_scrollpos(any integer)
       (with any answers of the wrapped widget along the way) the next render is right.  [run_state] folds [step]. *)
Theorem scroll_after_any_history :
  forall w ops maxcol maxrow ob,
    has_bar w = false -> 1 <= maxrow -> ob_ok (o_canvas ob) ->
    let w1 := run_state w ops in
    exists st' v,
      s_render (w_inner w1) maxcol maxrow (o_canvas ob) = Ok (st', v) /\
      w_inner (fst (step w1 (ORender maxcol maxrow ob))) = st' /\
      0 <= v_top v <= Z.max 0 (c_rows (o_canvas ob) - maxrow) /\
      v_shown v = Z.min maxrow (c_rows (o_canvas ob) - v_top v) /\
      v_blank v = Z.max 0 (maxrow - c_rows (o_canvas ob)) /\
      trim_top st' = v_top v /\ action st' = ANone.
Proof. exact history_then_render. Qed.
Print Assumptions scroll_after_any_history.

(* --- rendering again with nothing changed shows the same window and reports the same position *)
Theorem scroll_render_stable :
  forall st maxcol maxrow ob st' v,
    1 <= maxrow -> ob_ok ob ->
    s_render st maxcol maxrow ob = Ok (st', v) ->
    s_render st' maxcol maxrow ob = Ok (st', v).
Proof. exact s_render_stable. Qed.
Print Assumptions scroll_render_stable.

(* the translated arithmetic on its own: any stored position, action, remembered cursor *)
Theorem adjust_trim_top_in_range :
  forall tp act old rows cur maxcol maxrow,
    1 <= maxrow -> cursor_ok cur rows ->
    match adjust_trim_top_gen tp act old rows cur (maxcol, maxrow) with
    | (tp', act', old') => act' = ANone /\ 0 <= tp' <= Z.max 0 (rows - maxrow)
    end.
Proof. exact adjust_spec. Qed.
Print Assumptions adjust_trim_top_in_range.

(* --- THE INVARIANT over all histories, by induction over the operation list: every list of renders/resizes, keys,
       mouse/wheel events and set_scrollpos(any integer), every wrapped-widget answer along the way (content may change
       size between any two operations), bare or under a ScrollBar.  [op_okb] is a BOOLEAN well-formedness predicate on
       each operation's observations (view of >= 1 row, sane wrapped canvas; under a bar: heights < 2^53, rows() agrees
       with the canvas).  After EVERY render: no exception, 0 <= position <= max 0 (rows - maxrow), nothing pending. *)
Theorem scroll_invariant_all_histories :
  forall ops w, forallb (op_okb (has_bar w)) ops = true -> all_steps_good w ops.
Proof. exact run_invariant. Qed.
Print Assumptions scroll_invariant_all_histories.

(* --- cursor following: when the wrapped widget moved its cursor with the last forwarded key (old cursor remembered,
       different from the new one), the position chosen keeps the cursor row in the window ... *)
Theorem cursor_following_keeps_cursor_row_visible :
  forall tp act old rows c r maxcol maxrow,
    1 <= maxrow -> 0 <= r < rows -> cursor_moved old (Some (c, r)) = true ->
    match adjust_trim_top_gen tp act old rows (Some (c, r)) (maxcol, maxrow) with
    | (tp', _, old') => tp' <= r < tp' + maxrow /\ (maxrow < rows -> old' = None)
    end.
Proof. exact adjust_follows_cursor. Qed.
Print Assumptions cursor_following_keeps_cursor_row_visible.

(* ... and the render shows the cursor (at view row r - p, column c) and turns key forwarding on *)
Theorem cursor_following_render :
  forall st maxcol maxrow ob c r,
    1 <= maxrow -> ob_ok ob -> fits ob maxcol maxrow = false ->
    c_cursor ob = Some (c, r) -> 0 <= c < Z.min (c_cols ob) maxcol ->
    cursor_moved (old_cursor st) (Some (c, r)) = true ->
    exists st' v,
      s_render st maxcol maxrow ob = Ok (st', v) /\
      trim_top st' <= r < trim_top st' + maxrow /\
      v_cursor v = Some (c, r - trim_top st') /\
      forward st' = true /\ (maxrow < c_rows ob -> old_cursor st' = None).
Proof. exact s_render_follows_cursor. Qed.
Print Assumptions cursor_following_render.

(* ================================================================== keys and mouse events *)

(* --- handled_keys_not_scrolled: a key the wrapped widget handles (it is offered the key because forwarding is
       on or forced, and answers None) is reported handled, records no scroll action and moves nothing *)
Theorem handled_keys_not_scrolled :
  forall st force cmd ko,
    (forward st || force) = true -> k_handled ko = true ->
    let '(st', r) := s_keypress st force cmd ko in
    kr_forwarded r = true /\ kr_none r = true /\
    action st' = action st /\ trim_top st' = trim_top st /\ forward st' = forward st.
Proof. exact s_keypress_handled. Qed.
Print Assumptions handled_keys_not_scrolled.

(* ... so the next render of a cursor-less wrapped canvas shows exactly what it would have shown without the key
   (with a cursor, the view may follow the cursor the wrapped widget moved - that is not scrolling by the key) *)
Theorem handled_key_then_same_view :
  forall st force cmd ko maxcol maxrow ob,
    (forward st || force) = true -> k_handled ko = true -> c_cursor ob = None ->
    let st1 := fst (s_keypress st force cmd ko) in
    match s_render st maxcol maxrow ob, s_render st1 maxcol maxrow ob with
    | Ok (sa, va), Ok (sb, vb) => va = vb /\ trim_top sa = trim_top sb
    | Err e1, Err e2 => e1 = e2
    | _, _ => False
    end.
Proof. exact handled_key_same_view. Qed.
Print Assumptions handled_key_then_same_view.

(* keypress itself never moves the position, and offers the key exactly when forwarding is on or forced *)
Theorem keypress_defers_to_render :
  forall st force cmd ko,
    trim_top (fst (s_keypress st force cmd ko)) = trim_top st /\
    kr_forwarded (snd (s_keypress st force cmd ko)) = (forward st || force).
Proof. intros. split; [apply s_keypress_position | apply s_keypress_forwarded]. Qed.
Print Assumptions keypress_defers_to_render.

(* --- mouse: an event the wrapped widget handles leaves the ScrollBar/Scrollable state untouched (the row it was
       given is the view row plus the position); otherwise wheel up/down move the stored position by one *)
Theorem handled_mouse_not_scrolled :
  forall bs button row, b_mouse bs true button row true = (bs, (row + trim_top (inner bs), true)).
Proof. exact b_mouse_handled. Qed.
Print Assumptions handled_mouse_not_scrolled.

Theorem wheel_scrolls_by_one_when_unhandled :
  forall bs hm button row ch,
    (hm && ch) = false ->
    trim_top (inner (fst (b_mouse bs hm button row ch))) =
      if button =? 4 then Z.max (trim_top (inner bs) - 1) 0
      else if button =? 5 then trim_top (inner bs) + 1
      else trim_top (inner bs).
Proof. exact b_mouse_wheel. Qed.
Print Assumptions wheel_scrolls_by_one_when_unhandled.

(* ================================================================== ScrollBar *)

(* --- bar_iff_overflow (no-bar half) + child_width: content needing at most [maxrow] rows at the full width is
       rendered at the full size, no bar *)
Theorem bar_absent_when_content_fits :
  forall bs maxcol maxrow ob,
    1 <= maxrow -> ob_ok (o_canvas ob) -> o_rows_full ob <= maxrow ->
    exists bs' v,
      b_render bs maxcol maxrow ob = Ok (bs', (maxcol, None, v)) /\
      s_render (s_rows_max (inner bs) (o_rows_full ob)) maxcol maxrow (o_canvas ob) = Ok (inner bs', v) /\
      ow_size bs' = (maxcol, maxrow).
Proof. exact b_render_no_bar. Qed.
Print Assumptions bar_absent_when_content_fits.

(* --- bar_iff_overflow (bar half), child_width, bar_parts_nonneg_sum, thumb_leaves_top_iff, for every state (so
       after every history), heights below 2^53: the content needs more rows than the view => a bar is drawn, never
       an exception; the wrapped widget gets maxcol - bar width columns; the reported position is the window shown
       and in range; top/thumb/bottom are >= 0 (thumb >= 1) and sum to the height; the thumb is off the top
       exactly when the position is positive and the thumb is shorter than the view. *)
Theorem bar_drawn_parts_and_thumb :
  forall bs maxcol maxrow ob,
    1 <= maxrow < 2 ^ 53 -> o_rows_w ob < 2 ^ 53 -> bobs_ok ob -> maxrow < o_rows_full ob ->
    exists bs' b v,
      b_render bs maxcol maxrow ob = Ok (bs', (Z.max 0 (maxcol - bar_width_raw bs), Some b, v)) /\
      b_width b = maxcol - Z.max 0 (maxcol - bar_width_raw bs) /\
      ow_size bs' = (Z.max 0 (maxcol - bar_width_raw bs), maxrow) /\
      v_top v = trim_top (inner bs') /\
      0 <= trim_top (inner bs') <= c_rows (o_canvas ob) - maxrow /\
      v_shown v = maxrow /\ v_blank v = 0 /\
      0 <= b_top b /\ 1 <= b_thumb b <= maxrow /\ 0 <= b_bottom b /\
      b_top b + b_thumb b + b_bottom b = maxrow /\
      (0 < b_top b <-> 0 < trim_top (inner bs') /\ b_thumb b < maxrow) /\
      (b_top b, b_thumb b, b_bottom b) =
        thumb_geom maxrow (trim_top (inner bs')) (o_rows_w ob - maxrow) (thumb_weight_of maxrow (o_rows_w ob)).
Proof. exact b_render_bar. Qed.
Print Assumptions bar_drawn_parts_and_thumb.

(* ... and the thumb IS shorter than the view as soon as the view has two rows (heights up to 2^49): together with
   the previous theorem, "the thumb leaves the top exactly when the first row is scrolled out of view".
   (A one-row view has no room: the thumb fills it; ScrollBar.render then keeps top = 0, the fix: commit.) *)
Theorem thumb_has_room_to_move :
  forall maxrow rows pos,
    2 <= maxrow <= 2 ^ 49 -> maxrow < rows ->
    snd (fst (thumb_geom maxrow pos (rows - maxrow) (thumb_weight_of maxrow rows))) < maxrow.
Proof. exact bar_thumb_has_room. Qed.
Print Assumptions thumb_has_room_to_move.

(* --- thumb_monotone: same view and content, larger position => the thumb does not move up *)
Theorem thumb_monotone :
  forall maxrow rows p1 p2,
    1 <= maxrow < 2 ^ 53 -> rows < 2 ^ 53 -> 0 <= p1 <= p2 -> p2 <= Z.max 1 (rows - maxrow) ->
    fst (fst (thumb_geom maxrow p1 (rows - maxrow) (thumb_weight_of maxrow rows))) <=
    fst (fst (thumb_geom maxrow p2 (rows - maxrow) (thumb_weight_of maxrow rows))).
Proof. exact bar_top_monotone. Qed.
Print Assumptions thumb_monotone.

(* --- the arithmetic alone, any thumb weight in [0,1] (covers the relative mode used for ListBox as well) *)
Theorem bar_parts_nonneg_sum :
  forall h pos pm tw,
    1 <= h < 2 ^ 53 -> (0 <= tw <= 1)%Q -> 0 <= pos <= Z.max 1 pm -> Z.max 1 pm < 2 ^ 53 ->
    let '(top, th, bot) := thumb_geom h pos pm tw in
    0 <= top /\ 1 <= th <= h /\ 0 <= bot /\ top + th + bot = h.
Proof. exact thumb_parts. Qed.
Print Assumptions bar_parts_nonneg_sum.

Theorem thumb_leaves_top_iff :
  forall h pos pm tw,
    1 <= h < 2 ^ 53 -> (0 <= tw <= 1)%Q -> 0 <= pos <= Z.max 1 pm -> Z.max 1 pm < 2 ^ 53 ->
    let '(top, th, bot) := thumb_geom h pos pm tw in
    (0 < top <-> 0 < pos /\ th < h).
Proof. exact thumb_top_iff. Qed.
Print Assumptions thumb_leaves_top_iff.

(* --- ScrollBar over ANY widget speaking the scrolling protocol - ListBox included, absolute and relative mode.
       [proto_okb] is the protocol's contract as a boolean (relative: first + visible <= length; absolute:
       0 <= get_scrollpos <= max 1 (rows_max - maxrow); counts < 2^53).  For ALL answers satisfying it: a bar is drawn
       iff the mode wants one, render never raises, parts >= 0 (thumb >= 1) summing to the height, thumb off the top iff
       the effective position is positive (given room), and the parts are thumb_geom of the effective position. *)
Theorem scrollbar_over_protocol_widget :
  forall bw maxcol maxrow po,
    proto_okb maxrow po = true ->
    if wants_bar maxrow po then
      exists b,
        pb_render bw maxcol maxrow po = Ok (Z.max 0 (maxcol - bw), Some b) /\
        b_width b = maxcol - Z.max 0 (maxcol - bw) /\
        0 <= b_top b /\ 1 <= b_thumb b <= maxrow /\ 0 <= b_bottom b /\
        b_top b + b_thumb b + b_bottom b = maxrow /\
        (0 < b_top b <-> 0 < eff_pos maxrow po /\ b_thumb b < maxrow) /\
        (b_top b, b_thumb b, b_bottom b) =
          thumb_geom maxrow (eff_pos maxrow po) (eff_posmax maxrow po) (snd (eff maxrow po))
    else pb_render bw maxcol maxrow po = Ok (maxcol, None).
Proof. exact pb_render_ok. Qed.
Print Assumptions scrollbar_over_protocol_widget.

(* the bar drawn over a Scrollable is this generic bar for the answers a Scrollable gives (not relative-capable,
   rows_max as observed, get_scrollpos = the position render left) *)
Theorem scrollbar_over_scrollable_is_protocol_bar :
  forall bs maxcol maxrow ob bs' cw b v,
    b_render bs maxcol maxrow ob = Ok (bs', (cw, b, v)) ->
    pb_render (bar_width_raw bs) maxcol maxrow
      (PObs false false 0 0 0 (o_rows_full ob) (o_rows_w ob) (trim_top (inner bs'))) = Ok (cw, b).
Proof. exact b_render_is_proto. Qed.
Print Assumptions scrollbar_over_scrollable_is_protocol_bar.

(* ================================================================== the canvas objects (through C02's canvas models) *)

(* Scrollable.render written once over an abstract canvas ([render_skel]); its sizes-only instance IS the model the
   correspondence ties to the code *)
Theorem canvas_skeleton_is_the_size_model :
  forall st maxcol maxrow ob,
    render_skel dims_ops st maxcol maxrow (c_selectable ob) (c_cursor ob) (dims_of ob) =
    match s_render st maxcol maxrow ob with
    | Ok (st', v) => Ok (st', dims_of_view ob v)
    | Err e => Err e
    end.
Proof. exact dims_is_s_render. Qed.
Print Assumptions canvas_skeleton_is_the_size_model.

(* --- render never modifies the wrapped widget's canvas.  On C02's heap layer (list objects with identity; the wrapped
       canvas's shards list is SHARED by "canv = CompositeCanvas(canv_full)"): whenever render returns, (1) it computed
       what the CompositeCanvas model computes, (2) every list object that existed before still has its contents
       ([hext]), (3) the wrapped canvas [v] denotes the same value, internal shards included.  Every state, size,
       position, wrapped canvas - no hypothesis beyond the wrapped canvas's references being valid. *)
Theorem render_never_modifies_wrapped_canvas :
  forall st maxcol maxrow sel h v st' h' c',
    vscoped h v ->
    sh_render st maxcol maxrow sel h v = Ok (st', (h', c')) ->
    sc_render st maxcol maxrow sel (to_value h v) = Ok (st', to_comp h' c') /\
    hext h h' /\
    to_value h' v = to_value h v.
Proof. exact sh_render_frame. Qed.
Print Assumptions render_never_modifies_wrapped_canvas.

(* --- everything together, total: for every state, every view of at least 1x1, every well-formed wrapped canvas
       (a C02 canvas value denoting a rectangular grid of clean rows, cursor inside): render on the heap NEVER raises,
       modifies no pre-existing list object, returns a canvas whose cells are EXACTLY rows [p, p+maxrow) x columns
       [0, maxcol) of the wrapped grid padded with blanks ([spec_grid]), with p in range, and leaves the state - and
       reports the p - that Model/Scrollable.s_render computes from the sizes alone. *)
Theorem render_on_canvas_objects :
  forall st maxcol maxrow sel h v gv,
    1 <= maxrow -> 1 <= maxcol ->
    vscoped h v -> vrel (to_value h v) gv ->
    grect (gg gv) -> gclean (gg gv) -> cursor_ok (cur (gco gv)) (gheight (gg gv)) ->
    exists st' h' c' vw,
      sh_render st maxcol maxrow sel h v = Ok (st', (h', c')) /\
      hext h h' /\ to_value h' v = to_value h v /\
      content (deref h' (hid c')) = Ok (spec_grid (gg gv) (trim_top st') maxcol maxrow) /\
      0 <= trim_top st' <= Z.max 0 (gheight (gg gv) - maxrow) /\
      s_render st maxcol maxrow (ob_of_grid gv sel) = Ok (st', vw) /\ v_top vw = trim_top st'.
Proof. exact sh_render_total. Qed.
Print Assumptions render_on_canvas_objects.

(* the same on plain grids (C02's reference semantics), without any canvas machinery *)
Theorem render_on_grids :
  forall st maxcol maxrow sel g co fi lf,
    1 <= maxrow -> 1 <= maxcol -> grect g -> gclean g -> cursor_ok (cur co) (gheight g) ->
    exists st' g',
      sg_render st maxcol maxrow sel (GV g co fi lf) = Ok (st', g') /\
      gg g' = spec_grid g (trim_top st') maxcol maxrow /\
      0 <= trim_top st' <= Z.max 0 (gheight g - maxrow).
Proof. exact sg_render_spec. Qed.
Print Assumptions render_on_grids.

(* ================================================================== the float model *)

(* what the thumb theorems use about binary64 rounding - proved of the rational model, not assumed *)
Theorem float_rounding_laws :
  (forall x y, (0 <= x)%Q -> (x <= y)%Q -> (rn x <= rn y)%Q) /\
  (forall n, 0 <= n < 2 ^ 53 -> (rn (inject_Z n) == inject_Z n)%Q) /\
  (forall x, (0 < x)%Q -> (0 < rn x)%Q) /\
  (forall x, (0 < x)%Q -> (rn x <= x * (1 + pow2 (-53)))%Q) /\
  (forall x y, (x <= y)%Q -> rhe x <= rhe y) /\
  (forall n, rhe (inject_Z n) = n).
Proof.
  repeat split.
  - exact rn_mono. - exact rn_inject. - exact rn_positive. - exact rn_rel_err. - exact rhe_mono. - exact rhe_inject.
Qed.
Print Assumptions float_rounding_laws.

(* the rational model against the kernel's primitive binary64 floats, whole finite grids (vm_compute):
   the complete thumb computation, correctly rounded int/int division, float*int multiplication *)
Theorem thumb_soft_float_agrees_with_primitive_floats :
  (forall h r pos, 1 <= h <= 10 -> h < r <= 30 -> 0 <= pos <= r - h ->
     thumb_prim h pos (r - h) h r = thumb_soft h pos (r - h) h r) /\
  (forall a b, 0 <= a <= 100 -> 1 <= b <= 100 ->
     (pf_to_Q (PrimFloat.div (pf_of_Z a) (pf_of_Z b)) == f_div_int_int a b)%Q) /\
  (forall a b k, 0 <= a <= 20 -> 1 <= b <= 20 -> 0 <= k <= 12 ->
     (pf_to_Q (PrimFloat.mul (PrimFloat.div (pf_of_Z a) (pf_of_Z b)) (pf_of_Z k))
      == f_mul (f_div_int_int a b) (f_of_int k))%Q).
Proof.
  split; [exact thumb_prim_agrees|]. split; [exact prim_div_is_rn | exact prim_mul_is_rn].
Qed.
Print Assumptions thumb_soft_float_agrees_with_primitive_floats.

(* ================================================================== non-vacuity *)

(* 10 rows of content in a 4x3 view after set_scrollpos(-1): bottom-relative, clamped to 7, rows 7..9 shown *)
Example ex_bottom_relative :
  s_render (s_set_scrollpos sinit (-1)) 4 3 (CObs 4 10 None false)
  = Ok (SState 7 ANone false None 0, View 7 3 0 0 0 None).
Proof. vm_compute. reflexivity. Qed.

(* content that fits: a stale position (5) and a pending action are reset, keys go to a selectable child *)
Example ex_fit_resets :
  s_render (SState 5 ALineDown false None 0) 4 3 (CObs 4 1 None true)
  = Ok (SState 0 ANone true None 0, View 0 1 2 0 0 None).
Proof. vm_compute. reflexivity. Qed.

(* page down from 2 in a 3-row view moves by 2; a huge position clamps to the end *)
Example ex_page_down :
  fst (fst (adjust_trim_top_gen 2 APageDown None 10 None (4, 3))) = 4 /\
  fst (fst (adjust_trim_top_gen (2 ^ 60) ANone None 10 None (4, 3))) = 7.
Proof. vm_compute. split; reflexivity. Qed.

(* the hypotheses of the bar theorem are satisfiable, and the bar it computes is not trivial:
   12 rows in a 6x5 view with a 1-column bar, position 3 of 7: top 1, thumb 2, bottom 2 *)
Example ex_bar :
  bobs_ok (BObs 12 (CObs 5 12 None false) 12) /\
  b_render (BState (s_set_scrollpos sinit 3) 1 (0, 0)) 6 5 (BObs 12 (CObs 5 12 None false) 12)
  = Ok (BState (SState 3 ANone false None 12) 1 (5, 5), (5, Some (Bar 1 1 2 2), View 3 5 0 0 0 None)).
Proof. split; [unfold bobs_ok, ob_ok, cursor_ok; cbn; repeat split; discriminate || reflexivity | vm_compute; reflexivity]. Qed.

(* floats: 49 * (1/49) is 0.9999999999999999 in binary64, so int() gives 0 where exact arithmetic gives 1 -
   the rational model reproduces it (the forced 1-row top trough then applies) *)
Example ex_float_inexact :
  qtrunc (f_mul (f_of_int 49) (f_div (f_of_int 1) (f_of_int 49))) = 0 /\
  thumb_geom 50 1 49 (thumb_weight_of 50 99) = (1, 25, 24).
Proof. vm_compute. split; reflexivity. Qed.

(* a wrapped widget that takes 'down' keeps the view where it is; one that does not lets it scroll *)
Example ex_handled_key :
  let st := SState 2 ANone true None 0 in
  action (fst (s_keypress st false KDown (KObs false None true KOther))) = ANone /\
  action (fst (s_keypress st false KDown (KObs false None false KDown))) = ALineDown.
Proof. vm_compute. split; reflexivity. Qed.

(* the canvas-object theorems are not vacuous: a 3x5 text canvas wrapped in a CompositeCanvas (as a Pile would return it),
   rendered in a 2x2 view at position 2: the hypotheses hold, render allocates a NEW shards list (id differs), the wrapped
   canvas's own list object is unchanged, and the cells are rows 2..3, columns 0..1 *)
Definition ex_rows : list row := map (fun i => [Cell KN 0 0 [65 + i]; Cell KN 0 0 [97 + i]; Cell KN 0 0 [48 + i]]) [0; 1; 2; 3; 4].
Definition ex_leaf : hvalue := HLeaf (Canvas 1 (LText ex_rows 3)) None.
Definition ex_wrapped : heap * hcomp := match h_wrap empty_heap ex_leaf with Ok x => x | Err _ => (empty_heap, HC 0 no_coords false) end.
Example ex_canvas_objects :
  let h0 := fst ex_wrapped in let c0 := snd ex_wrapped in
  vscoped h0 (HComp c0) /\ grect ex_rows /\ gclean ex_rows /\
  match sh_render (s_set_scrollpos sinit 2) 2 2 false h0 (HComp c0) with
  | Ok (st', (h', c')) =>
      trim_top st' = 2 /\ hid c' <> hid c0 /\ deref h' (hid c0) = deref h0 (hid c0) /\
      content (deref h' (hid c')) = Ok (spec_grid ex_rows 2 2 2)
  | Err _ => False
  end.
Proof.
  cbv zeta. split.
  - change (fst ex_wrapped) with (fst ex_wrapped). vm_compute. repeat split; try discriminate. repeat constructor; discriminate.
  - split; [|split].
    + unfold grect. vm_compute. repeat split; try reflexivity. repeat constructor.
    + unfold gclean. repeat constructor.
    + vm_compute. repeat split; try reflexivity. discriminate.
Qed.

(* a ListBox-like widget in relative mode, one in absolute mode; a history with a huge position, keys, a wheel event,
   a resize and content changes satisfies the boolean well-formedness predicate and visits positions 7, 3, 4, 0, 37 *)
Example ex_protocol_relative_mode :
  let po := PObs true true 40 5 12 40 40 12 in
  proto_okb 5 po = true /\ wants_bar 5 po = true /\ pb_render 1 7 5 po = Ok (6, Some (Bar 1 1 1 3)).
Proof. exact ex_proto_relative. Qed.
Example ex_history_well_formed : forallb (op_okb true) ex_history = true.
Proof. exact (proj1 ex_history_ok). Qed.
