(* C17 - Display attributes travel from markup to the terminal unchanged.
   Only statements here; every proof is [exact <lemma>] into Proofs/AttrFlow*.v (or a closed
   vm_compute witness).  The model is Model/AttrFlow.v, tied to the Python code by the
   extracted-model correspondence of harness/props/c17.py on every run. *)
From Coq Require Import ZArith List Bool Lia.
Import ListNotations.
From Urwid Require Import PyBase PyList attrspec_escape_gen TermRef DrawScreen PaintSpec.
From Urwid Require Import AttrFlow AttrFlowBasics AttrFlowMarkup AttrFlowLayout AttrFlowClip
  AttrFlowTrim AttrFlowCells AttrFlowMaps AttrFlowSgr AttrFlowPalette AttrFlowE2E AttrFlowE2EProofs.
Open Scope Z_scope.

(* ================= clause 1a: markup =================
   [flat m] is the concatenation of the strings of the markup, [tags m None] the innermost
   enclosing tag of every character (both by plain structural recursion, AttrFlowMarkup.v).
   For EVERY markup tree that decompose_tagmarkup accepts: the text is the concatenation,
   the run lengths are non-negative and sum to at most the text length (a trailing None run
   is dropped), and the attribute the run list gives character i is its innermost tag. *)
Theorem markup_innermost :
  forall m b text al, decompose_tagmarkup m = Ok (b, text, al) ->
    text = flat m /\
    nonneg al /\ rle_len al <= zlen text /\
    (exists k, expand al ++ repeat None k = tags m None) /\
    (forall i, 0 <= i < zlen text -> rle_get_at al i = nth (Z.to_nat i) (tags m None) None).
Proof. exact decompose_innermost. Qed.
Print Assumptions markup_innermost.

(* ================= clause 1b: layout =================
   apply_text_layout first cuts every line with trim_line (clip mode and right/centre aligned
   overlong lines rely on it), then runs the segment loop.  [trimmed_lines text maxcol lines tl]
   says that trim_line turns each line into the well-formed line of [tl].
   [seg_spec text attrs s] (AttrFlowLayout.v) is what the property demands of the bytes a
   segment puts on the line: every byte of displayed character i carries rle_get_at attrs i;
   alignment padding carries None.  The only premise on the text is the data condition
   [enc_ok]: encoded lengths are not negative, and a byte of a bytes text / an ASCII character
   of a str text becomes at most one byte (0 for SO/SI); nothing is assumed of non-ASCII
   characters.  For EVERY such text (str or bytes), EVERY attribute list with non-negative runs
   and EVERY layout (any order, any repetition, any number of lines - the attribute walker state
   is shared): each canvas row is exactly the concatenation of the demands of its trimmed
   segments followed by None fill, and it contains no zero-length run. *)
Theorem layout_keeps_attr_full :
  forall isb text attrs lines tl maxcol rows,
    enc_ok isb text -> nonneg attrs -> trimmed_lines text maxcol lines tl ->
    apply_text_layout isb text attrs lines maxcol = Ok rows ->
    Forall2 (fun segs row =>
               (exists k, expand row = flat_map (seg_spec text attrs) segs ++ repeat None k) /\ nozero row)
            tl rows.
Proof. exact layout_rows_spec. Qed.
Print Assumptions layout_keeps_attr_full.

(* the premise [trimmed_lines] holds (i) for every line that fits - trim_line is the identity,
   whatever the characters are - *)
Theorem trim_line_identity_when_fits :
  forall text segs maxcol,
    Forall (fun s => 0 <= seg_sc s <= maxcol) segs -> 0 < maxcol -> trim_line text segs maxcol = Ok segs.
Proof. exact trim_line_fits. Qed.
Print Assumptions trim_line_identity_when_fits.

(* (ii) and for EVERY line of segments [wf_pre] (text segments in range whose characters are 1 or
   2 columns wide and which do not claim more columns than their text has; inserts likewise; any
   alignment pad, negative ones included), overlong or not: trim_line succeeds and hands on
   well-formed segments.  So for such layouts the theorem above needs no premise on trimming. *)
Theorem trim_line_keeps_wellformed :
  forall text segs maxcol, Forall (wf_pre text) segs ->
    exists l, trim_line text segs maxcol = Ok l /\ Forall (wf_seg text) l.
Proof. exact trim_line_wf. Qed.
Print Assumptions trim_line_keeps_wellformed.

Theorem layout_keeps_attr_through_trim :
  forall isb text attrs lines maxcol rows,
    enc_ok isb text -> nonneg attrs -> Forall (Forall (wf_pre text)) lines ->
    apply_text_layout isb text attrs lines maxcol = Ok rows ->
    exists tl, trimmed_lines text maxcol lines tl /\
      Forall2 (fun segs row =>
                 (exists k, expand row = flat_map (seg_spec text attrs) segs ++ repeat None k) /\ nozero row)
              tl rows.
Proof.
  intros isb text attrs lines maxcol rows Hok Hn Hp Ha.
  destruct (trimmed_lines_exist text maxcol lines Hp) as [tl Ht].
  exists tl. split; [exact Ht|]. now apply (layout_rows_spec isb text attrs lines tl maxcol rows).
Qed.
Print Assumptions layout_keeps_attr_through_trim.

(* LayoutSegment.subseg on a text segment, window start <= column < e: the emitted segments are
   well-formed and show, column by column, exactly the columns of the window; a blank standing
   for half of a double-width character carries that character's attribute - the character at
   text offset 0 included (apply_text_layout tests "s.offs is not None"). *)
Theorem subseg_shows_window :
  forall text attrs sc o en start e,
    wf_pre text (SText sc o en) -> 0 <= start -> start < e -> e <= sc ->
    exists l, subseg text (SText sc o en) start e = Ok l /\ Forall (wf_seg text) l /\
      flat_map (seg_cols text attrs) l = sub (seg_cols text attrs (SText sc o en)) start e.
Proof. exact subseg_text_spec. Qed.
Print Assumptions subseg_shows_window.

(* regression for a repaired defect: two double-width characters tagged 1, right-aligned clip
   to 3 columns cuts the first one at text offset 0: its blank keeps attribute 1; and the
   1-column window at the start of a text whose first character is double-width *)
Example offset_zero_half :
  let text := [Chr 3 2 false 2; Chr 3 2 false 2] in
  (apply_text_layout false text [(Some 1, 2)] [[SPad (-1) None; SText 4 0 2]] 3,
   apply_text_layout false text [(Some 1, 2)] [[SText 4 0 2]] 1)
  = (Ok [[(Some 1, 4)]], Ok [[(Some 1, 1)]]).
Proof. vm_compute. reflexivity. Qed.

(* a well-formed layout never raises ValueError out of the segment loop *)
Theorem layout_wellformed_no_error :
  forall isb text attrs lines tl maxcol,
    enc_ok isb text -> nonneg attrs -> trimmed_lines text maxcol lines tl ->
    exists lss, do_lines isb text attrs maxcol (0, 0) lines = Ok lss.
Proof. exact layout_no_value_error. Qed.
Print Assumptions layout_wellformed_no_error.

(* one segment appended to any accumulated line *)
Theorem layout_segment_keeps_attr :
  forall isb text attrs ls s,
    enc_ok isb text -> nonneg attrs -> wf_seg text s -> ls_ok attrs ls ->
    exists ls', do_seg isb text attrs ls s = Ok ls' /\
      expand (l_attr ls') = expand (l_attr ls) ++ seg_spec text attrs s /\ ls_ok attrs ls'.
Proof. exact do_seg_spec. Qed.
Print Assumptions layout_segment_keeps_attr.

(* ================= the per-COLUMN statement =================
   Every canvas row is the byte string of a sequence of displayed characters [shown] followed by
   k fill blanks; reading that sequence per screen column gives [seg_cells]: for every character
   of a text segment as many columns as it is wide, ALL carrying that character's attribute
   (both columns of a double-width character); one column per blank - None for alignment padding
   and fill, the attribute at its offset for a blank standing for half a character; an insert's
   columns carry the attribute at its offset.  (Inserts are plain: no SO/SI inside.) *)
Theorem layout_cells :
  forall isb text attrs lines tl maxcol rows,
    enc_ok isb text -> nonneg attrs -> trimmed_lines text maxcol lines tl -> Forall (Forall ins_plain) tl ->
    apply_text_layout isb text attrs lines maxcol = Ok rows ->
    Forall2 (fun segs row => exists (shown : crow) (k : nat),
               expand row = rbytes (shown ++ repeat (blank None) k) /\
               colattrs (shown ++ repeat (blank None) k) = flat_map (seg_cells text attrs) segs ++ repeat None k)
            tl rows.
Proof. exact layout_cells_lemma. Qed.
Print Assumptions layout_cells.

Theorem trimming_keeps_inserts_plain :
  forall text maxcol lines tl,
    trimmed_lines text maxcol lines tl -> Forall (Forall ins_plain) lines -> Forall (Forall ins_plain) tl.
Proof. exact trimmed_lines_plain. Qed.
Print Assumptions trimming_keeps_inserts_plain.

(* the premise enc_ok cannot be dropped: if an ASCII character could become two bytes the shortcut
   of attrrange would misplace the boundary (data that no supported encoding produces) *)
Example enc_ok_needed :
  apply_text_layout false [Chr 2 1 true 1; Chr 0 0 true 0] [(Some 1, 1); (Some 2, 1)] [[SText 1 0 2]] 1
  = Ok [[(Some 1, 1); (Some 2, 1)]].
Proof. vm_compute. reflexivity. Qed.

(* regression for a repaired defect: e-acute (2 bytes, not ASCII) tagged 1 then SO (0 bytes)
   tagged 2: both bytes of the first character carry 1 and no zero-length run is left *)
Example so_next_to_multibyte :
  apply_text_layout false [Chr 2 1 false 1; Chr 0 0 true 0] [(Some 1, 1); (Some 2, 1)] [[SText 1 0 2]] 1
  = Ok [[(Some 1, 2)]].
Proof. vm_compute. reflexivity. Qed.

(* clip mode, right aligned: 'x' tagged 1, a wide character tagged 2, 'y' tagged 3 in 3 columns:
   the line [(-1, None), (4, 0, 3)] is cut through... nothing here; and in 2 columns through the
   wide character, whose blank keeps attribute 2 *)
Example trim_somewhere :
  let text := [Chr 1 1 true 1; Chr 3 2 false 2; Chr 1 1 true 1] in
  let attrs := [(Some 1, 1); (Some 2, 1); (Some 3, 1)] in
  (trim_line text [SPad (-2) None; SText 4 0 3] 2,
   apply_text_layout false text attrs [[SPad (-2) None; SText 4 0 3]] 2)
  = (Ok [SPad 1 (Some 1); SText 1 2 3], Ok [[(Some 2, 1); (Some 3, 1)]]).
Proof. vm_compute. reflexivity. Qed.

(* ================= clause 1c: clipping a rendered row =================
   TextCanvas.content(trim_left, cols) -> trim_text_attr_cs: what every partially shown canvas
   goes through (CompositeCanvas.pad_trim_left_right with negative values, Overlay, Padding and
   Columns clipping).  A row is its displayed characters (bytes >= 1, 1 or 2 columns), each with
   the attribute all its bytes carry.  For EVERY such row and EVERY window 0 <= sc < ec <= width:
   the row splits as P ++ M ++ R at the byte offsets calc_trim_text returns; M is shown with its
   own attributes; pad_left = 1 exactly when the cut runs through the double-width last
   character of P, and the blank that replaces it carries the attribute of THAT character
   (last_attr P); likewise pad_right and the first character of R. *)
Theorem clip_keeps_attr :
  forall row attrs sc ec,
    row_wf row -> nonneg attrs -> expand attrs = rbytes row -> 0 <= sc -> sc < ec -> ec <= wd row ->
    clip_result row sc ec (expand (trim_attr (map fst row) attrs sc ec)).
Proof. exact clip_keeps_attr_lemma. Qed.
Print Assumptions clip_keeps_attr.

(* read per screen column: the clipped row is the bytes of some characters [shown] whose
   columns carry exactly the attributes of columns sc .. ec-1 of the unclipped row; nothing
   moves onto a neighbouring cell *)
Theorem clip_columns_unchanged :
  forall row attrs sc ec,
    row_wf row -> nonneg attrs -> expand attrs = rbytes row -> 0 <= sc -> sc < ec -> ec <= wd row ->
    exists shown : crow,
      rbytes shown = expand (trim_attr (map fst row) attrs sc ec) /\
      colattrs shown = sub (colattrs row) sc ec.
Proof.
  intros row attrs sc ec Hwf Hn He H0 H1 H2.
  apply (clip_columns row sc ec); try assumption. now apply clip_keeps_attr.
Qed.
Print Assumptions clip_columns_unchanged.

(* 'x' tagged 1, a wide 3-byte character tagged 1, 'y','z' tagged 2, one blank: cut through the
   wide character on the left (columns 2..6) and on the right (columns 0..2) *)
Example clip_somewhere :
  let cs := [RC 1 1; RC 3 2; RC 1 1; RC 1 1; RC 1 1] in
  let attrs := [(Some 1, 4); (Some 2, 2); (None, 1)] in
  (calc_trim_text cs 2 6, trim_attr cs attrs 2 6, calc_trim_text cs 0 2, trim_attr cs attrs 0 2)
  = ((4, 7, 1, 0), [(Some 1, 1); (Some 2, 2); (None, 1)], (0, 1, 0, 1), [(Some 1, 2)]).
Proof. vm_compute. reflexivity. Qed.

(* ================= clause 2: attribute maps ================= *)
(* fill_attr_apply on a view that already has a map (unique keys, as in a dict) or none:
   the new map acts as the outer map applied to the result of the inner one *)
Theorem fill_attr_compose :
  forall outer cv4 a, uniq_opt cv4 ->
    apply_map (fill_attr_apply_cv outer cv4) a = apply_map (Some outer) (apply_map cv4 a).
Proof. exact fill_attr_compose_lemma. Qed.
Print Assumptions fill_attr_compose.

Theorem attrmap_replaces_exactly_listed :
  forall m, uniq m ->
    (forall a v, In (a, v) m -> apply_map (Some m) a = v) /\
    (forall a, ~ In a (map fst m) -> apply_map (Some m) a = a).
Proof. intros m Hu. split; [intros a v; now apply apply_map_listed | apply apply_map_unlisted]. Qed.
Print Assumptions attrmap_replaces_exactly_listed.

(* AttrMap.render uses the focus map exactly when rendered in focus and one is set *)
Theorem attrmap_focus_choice :
  forall am fm focus,
    choose_map am fm focus = match focus, fm with true, Some f => f | _, _ => am end.
Proof. exact choose_map_focus. Qed.
Print Assumptions attrmap_focus_choice.

(* EVERY widget tree (AttrMap/AttrWrap, Pile/Columns, leaves, blank padding views): the map a
   view ends up with acts as the maps on its path applied one after the other, innermost
   first, each being the attr_map or focus_map according to the focus flag reaching it *)
Theorem nested_maps_compose :
  forall t focus a, tree_uniq t ->
    Forall2 (fun (cv : cview) (ch : list amap * Z) =>
               snd cv = snd ch /\ uniq_opt (fst cv) /\ apply_map (fst cv) a = seq_apply (fst ch) a)
            (render t focus) (chains t focus).
Proof. exact render_chains. Qed.
Print Assumptions nested_maps_compose.

(* ================= clause 3: SGR ================= *)
(* [visual bib bbb a] (AttrFlowSgr.v) is the pen the entry specifies: its colours and flags,
   a bright basic colour being "bold + colour-8" on a bright-is-bold terminal (resp. blink on
   a bright-is-blink one).  For EVERY AttrSpec with colour numbers in range - every depth
   (mono, 16, 88, 256: indexes 0..255; true colour: 0..2^24-1), every flag combination, both
   terminal quirks on or off - the decoder reads back exactly that pen. *)
Theorem sgr_roundtrip :
  forall bib bbb a, valid_spec a -> decode_sgr (attrspec_to_escape bib bbb a) = visual bib bbb a.
Proof. exact sgr_roundtrip_lemma. Qed.
Print Assumptions sgr_roundtrip.

(* without the quirks the pen is literally the entry *)
Theorem sgr_roundtrip_exact :
  forall a, valid_spec a -> decode_sgr (attrspec_to_escape false false a) = exact_state a.
Proof. intros a V. rewrite sgr_roundtrip by assumption. apply visual_plain. Qed.
Print Assumptions sgr_roundtrip_exact.

(* with bright-is-bold, what the terminal shows as foreground is the specified colour, except
   for the pair the terminal itself cannot tell apart (bold + a colour index below 8) *)
Theorem sgr_foreground_perceived :
  forall bib bbb a, valid_spec a ->
    (bib && a_bold a && negb (fg_true a) && (fg_high a || fg_basic a) && (fg_num a <? 8) = false) ->
    perceived_colour (t_fg (decode_sgr (attrspec_to_escape bib bbb a)))
                     (t_bold (decode_sgr (attrspec_to_escape bib bbb a))) bib = t_fg (exact_state a).
Proof. intros bib bbb a V H. rewrite sgr_roundtrip by assumption. now apply perceived_fg_lemma. Qed.
Print Assumptions sgr_foreground_perceived.

(* arithmetic for true colour: the three components written are the colour number *)
Theorem sgr_truecolour_components :
  forall n, 0 <= n < 16777216 ->
    (n / 65536) * 65536 + ((n / 256) mod 256) * 256 + n mod 256 = n /\
    0 <= n / 65536 <= 255 /\ 0 <= (n / 256) mod 256 <= 255 /\ 0 <= n mod 256 <= 255.
Proof. intros n H. split; [now apply rgb_number | now apply rgb_range]. Qed.
Print Assumptions sgr_truecolour_components.

(* ================= clause 3: palette resolution ================= *)
(* EVERY history of register_palette_entry / register_palette aliases / set_terminal_properties
   from a new Screen: a name present in the palette - registered or an alias - resolves to the
   escape of its entry for the active depth.  (An operation that raises leaves the screen as it
   was; no premise on the history.) *)
Theorem palette_resolves_full :
  forall ops bib bbb name e a,
    let s := fst (prun (screen_init bib bbb) ops) in
    plookup name (s_palette s) = Some e -> select_spec (s_colors s) e = Ok a ->
    attr_to_escape s (DName name) = attrspec_to_escape (s_bib s) (s_bbb s) a.
Proof.
  intros ops bib bbb name e a s. apply resolve_registered.
  apply prun_consistent. apply init_consistent.
Qed.
Print Assumptions palette_resolves_full.

(* ... and, chained with the round trip: the terminal reads back the pen that entry specifies *)
Theorem palette_name_to_terminal :
  forall ops bib bbb name e a,
    let s := fst (prun (screen_init bib bbb) ops) in
    plookup name (s_palette s) = Some e -> select_spec (s_colors s) e = Ok a -> valid_spec a ->
    decode_sgr (attr_to_escape s (DName name)) = visual (s_bib s) (s_bbb s) a.
Proof.
  intros ops bib bbb name e a s Hp Hs V.
  unfold s in *. rewrite (palette_resolves_full ops bib bbb name e a Hp Hs). now apply sgr_roundtrip.
Qed.
Print Assumptions palette_name_to_terminal.

(* a name without an escape entry (in particular: never registered) gets default/default,
   which the terminal reads as a reset pen *)
Theorem undefined_name_defaults :
  forall s name, plookup name (s_escape s) = None ->
    attr_to_escape s (DName name) = attrspec_to_escape (s_bib s) (s_bbb s) default_spec /\
    decode_sgr (attr_to_escape s (DName name)) = t_reset.
Proof. exact resolve_undefined_escape. Qed.
Print Assumptions undefined_name_defaults.

Theorem unregistered_name_defaults :
  forall ops bib bbb name,
    let s := fst (prun (screen_init bib bbb) ops) in
    plookup name (s_palette s) = None ->
    decode_sgr (attr_to_escape s (DName name)) = t_reset.
Proof.
  intros ops bib bbb name s Hp. apply resolve_undefined; [|exact Hp].
  apply prun_consistent. apply init_consistent.
Qed.
Print Assumptions unregistered_name_defaults.

Definition red_on_blue : aspec :=
  ASpec false false true 9 false false true 4 false false false false false false.
Definition red_entry : pentry := PE red_on_blue default_spec red_on_blue red_on_blue red_on_blue.

(* regression for the repaired defect: register 'a' = light red on dark blue, then ('b', 'a') *)
Example alias_gets_escape :
  let s := fst (prun (screen_init false false) [RegEntry (Some 0) false red_entry; RegAlias (Some 1) (Some 0)]) in
  attr_to_escape s (DName (Some 1)) = [0; 91; 44].
Proof. vm_compute. reflexivity. Qed.

(* ================= end to end: markup -> ... -> terminal =================
   Composition with property C04 (Model/DrawScreen.v, Model/TermRef.v, Model/PaintSpec.v and the
   theorem draw_paints, imported read-only).  [cfg_of s ntab utf8 bce] (Model/AttrFlowE2E.v) is the
   attribute table draw_screen's model works with, built from the Screen state of THIS property's
   palette model: id 0 is None, id i+1 the name i; a name with a palette entry carries the entry
   for the active colour depth ([spec_for]), any other name is undefined. *)

(* this property's hand model of Screen._attrspec_to_escape IS the function that py2v translates from
   urwid/display/_raw_display_base.py on every run (Gen/attrspec_escape_gen.v; translator module of
   property C04): the AttrSpec properties it reads are this record's fields, the rgb components those
   get_rgb_values() computes for a true-colour number *)
Theorem attrspec_to_escape_is_translated_source :
  forall bib bbb a,
    attrspec_escape_gen.attrspec_to_sgr_gen
      (fg_true a) (fg_high a) (fg_basic a) (fg_num a)
      (fg_num a / 65536) ((fg_num a / 256) mod 256) (fg_num a mod 256)
      (a_bold a) (a_italics a) (a_underline a) (a_blink a) (a_standout a) (a_strike a)
      (bg_true a) (bg_high a) (bg_basic a) (bg_num a)
      (bg_num a / 65536) ((bg_num a / 256) mod 256) (bg_num a mod 256) bib bbb
    = AttrFlow.attrspec_to_escape bib bbb a.
Proof. exact escape_is_translated. Qed.
Print Assumptions attrspec_to_escape_is_translated_source.

(* hence the two models of Screen._attrspec_to_escape are the same function *)
Theorem attrspec_to_escape_models_agree :
  forall bib bbb a, DrawScreen.spec_to_sgr bib bbb (conv a) = AttrFlow.attrspec_to_escape bib bbb a.
Proof. exact enc_agree. Qed.
Print Assumptions attrspec_to_escape_models_agree.

(* after EVERY palette history, what draw_screen's model sends for a name is exactly the escape
   this property's model keeps in _pal_escape for it (the default escape for an undefined name):
   C04's model may recompute the escape from the AttrSpec because of palette_resolves_full *)
Theorem draw_screen_sends_resolved_escape :
  forall ops bib bbb ntab u b a,
    let s := fst (prun (screen_init bib bbb) ops) in
    0 <= ntab -> name_ok a -> table_covers s ntab ->
    DrawScreen.attr_to_escape (cfg_of s ntab u b) (id_of_attr a) = [TSgr (AttrFlow.attr_to_escape s (DName a))].
Proof.
  intros ops bib bbb ntab u b a s. apply attr_to_escape_agree.
  apply prun_consistent. apply init_consistent.
Qed.
Print Assumptions draw_screen_sends_resolved_escape.

(* every cell of the cells C04 expects for a canvas row carries the pen of the run covering it *)
Theorem expected_cells_carry_run_pens :
  forall c row, Forall (run_ok c) row -> map c_at (row_cells c row) = map (attr_vis c) (row_cols c row).
Proof. exact row_pens. Qed.
Print Assumptions expected_cells_carry_run_pens.

(* THE END-TO-END STATEMENT.  For EVERY markup tree (names >= 0), text data, layout and width,
   EVERY palette history (entries, aliases, set_terminal_properties at any depth) and EVERY state in
   which the Screen object and the terminal agree: draw_screen of the rendered canvas succeeds, and
   for every row y and column x the terminal cell (x, y) is visually equal ([vis_eq], C04) to a cell
   whose pen is [PaintSpec.visual] of the palette entry, at the active depth, of the attribute that
   the MARKUP gives the character occupying that column ([seg_cells_f (tag_at m)]: the innermost tag
   of that character, both columns of a double-width one; None for alignment padding and fill) - the
   default pen when that name has no entry.
   Premises: this property's ([enc_ok], [trimmed_lines], plain and solid inserts/characters), C04's
   ([canvas_ok]: rows of runs as wide as the screen; [Sync]), valid AttrSpecs in the palette, and
   [canvas_row_reads]: the part of the canvas neither model covers - the TEXT of a row is the
   characters of its segments plus fill blanks, and TextCanvas.content() gives every column the
   attribute of the first byte of its character (checked on every generated case by the harness). *)
Theorem markup_to_terminal :
  forall ops bib bbb m isb codes al text lines tl maxcol rows ntab bce content sc t,
    let s := fst (prun (screen_init bib bbb) ops) in
    let c := cfg_of s ntab true bce in
    decompose_tagmarkup m = Ok (isb, codes, al) -> names_ok m ->
    enc_ok isb text -> trimmed_lines text maxcol lines tl -> Forall (Forall ins_plain) tl ->
    Forall (Forall (fun sg => Forall solid (seg_chars text sg))) tl ->
    apply_text_layout isb text al lines maxcol = Ok rows ->
    palette_valid s -> 0 <= ntab -> table_covers s ntab ->
    canvas_ok c maxcol (zlen content) content ->
    Forall2 (fun (sr : list seg * rle) crow_ => canvas_row_reads c text (fst sr) (snd sr) crow_) (combine tl rows) content ->
    Sync c sc t -> t_cols t = maxcol -> t_rows t = zlen content ->
    exists toks sc',
      draw_screen c sc maxcol (zlen content) content None false false = Ok (toks, sc') /\
      forall y segs, nth_error tl y = Some segs ->
        exists k, forall x a,
          nth_error (flat_map (seg_cells_f (tag_at m) text) segs ++ repeat None k) x = Some a ->
          exists e g, nth_error (get_row (t_grid (TermRef.run t toks)) (Z.of_nat y)) x = Some g /\ vis_eq e g /\
                      c_at e = PaintSpec.visual (s_bib s) (s_bbb s) (pen_spec s a).
Proof. exact e2e_lemma. Qed.
Print Assumptions markup_to_terminal.

(* non-vacuity, computed: [("a" -> name 0, "x"), (name 1, wide char)] in 4 columns; name 0 = light
   red on dark blue, name 1 unregistered; a fresh screen and terminal.  The pipeline runs and the
   terminal cells carry: light red/dark blue, default, default (right half), default (fill). *)
Example e2e_somewhere :
  let m := Lst [Tagged (Some 0) (Str false [120]); Tagged (Some 1) (Str false [19990])] in
  let text := [Chr 1 1 true 1; Chr 3 2 false 2] in
  let s := fst (prun (screen_init false false) [RegEntry (Some 0) false red_entry]) in
  let c := cfg_of s 3 true true in
  let content := [[(1, 0, [(120, 1)]); (2, 0, [(19990, 2)]); (0, 0, [(32, 1)])]] in
  match decompose_tagmarkup m with
  | Ok (isb, _, al) =>
      apply_text_layout isb text al [[SText 3 0 2]] 4 = Ok [[(Some 0, 1); (Some 1, 3); (None, 1)]] /\
      match draw_screen c (init_scr false) 4 1 content None false false with
      | Ok (toks, _) =>
          map (fun cl => (c_cp cl, a_fg (c_at cl), a_bg (c_at cl)))
              (get_row (t_grid (TermRef.run (new_term 4 1) toks)) 0)
          = [(120, CBasic 9, CBasic 4); (19990, CDef, CDef); (-1, CDef, CDef); (32, CDef, CDef)]
      | Err _ => False
      end
  | Err _ => False
  end.
Proof. vm_compute. split; reflexivity. Qed.

Example e2e_premises_satisfiable :
  let text := [Chr 1 1 true 1; Chr 3 2 false 2] in
  let s := fst (prun (screen_init false false) [RegEntry (Some 0) false red_entry]) in
  let c := cfg_of s 3 true true in
  canvas_row_reads c text [SText 3 0 2] [(Some 0, 1); (Some 1, 3); (None, 1)]
                   [(1, 0, [(120, 1)]); (2, 0, [(19990, 2)]); (0, 0, [(32, 1)])] /\
  table_covers s 3 /\ palette_valid s.
Proof.
  cbn zeta. set (s := fst (prun (screen_init false false) [RegEntry (Some 0) false red_entry])).
  vm_compute in s. split; [|split].
  - exists [RC 1 1; RC 3 2; RC 1 1], 1%nat. split; [vm_compute; reflexivity|]. split; vm_compute; reflexivity.
  - intros a Ha Hge. destruct a as [n|]; cbn [id_of_attr] in Hge; [|lia].
    unfold spec_for, s. cbn [s_palette plookup attr_eqb].
    destruct (0 =? n)%Z eqn:E; [lia | reflexivity].
  - intros a sp H. unfold spec_for, s in H. cbn [s_palette plookup attr_eqb s_colors] in H.
    destruct a as [n|].
    + destruct (0 =? n)%Z eqn:E; [|discriminate]. vm_compute in H. inversion H; subst.
      unfold valid_spec; cbn; repeat split; intros; try discriminate; lia.
    + vm_compute in H. inversion H; subst. unfold valid_spec; cbn; repeat split; intros; try discriminate; lia.
Qed.

(* ================= non-vacuity ================= *)
(* ("a", ["xy", ("b", "z"), (None, "w")]) : text, runs with the trailing None run dropped *)
Example markup_somewhere :
  decompose_tagmarkup (Tagged (Some 1) (Lst [Str false [120; 121]; Tagged (Some 2) (Str false [122]);
                                            Tagged None (Str false [119])]))
  = Ok (false, [120; 121; 122; 119], [(Some 1, 2); (Some 2, 1)]).
Proof. vm_compute. reflexivity. Qed.

(* ["a", []] raises IndexError (al[0] on an empty list) *)
Example markup_empty_list_error :
  decompose_tagmarkup (Lst [Str false [97]; Lst []]) = Err IndexError.
Proof. vm_compute. reflexivity. Qed.

(* "a" + 2-byte char + wide 3-byte char, tags 1,1,2; right-aligned in 6 columns, then an
   out-of-order second line re-reading from offset 0 (walker reset) *)
Example layout_somewhere :
  apply_text_layout false [Chr 1 1 true 1; Chr 2 1 false 1; Chr 3 2 false 2] [(Some 1, 2); (Some 2, 1)]
                    [[SPad 2 None; SText 4 0 3]; [SText 1 0 1; SIns 1 1 [RC 3 1] 3]] 6
  = Ok [[(None, 2); (Some 1, 3); (Some 2, 3)]; [(Some 1, 4); (None, 4)]].
Proof. vm_compute. reflexivity. Qed.

Example layout_hypotheses_satisfiable :
  let text := [Chr 1 1 true 1; Chr 2 1 false 1; Chr 3 2 false 2] in
  enc_ok false text /\ nonneg [(Some 1, 2); (Some 2, 1)] /\
  Forall (Forall (wf_pre text)) [[SPad 2 None; SText 4 0 3]; [SText 1 0 1; SIns 1 1 [RC 3 1] 3]; [SPad (-1) None; SText 4 0 3]].
Proof.
  cbn zeta. unfold enc_ok, rchars_ok.
  repeat (first [apply Forall_nil | apply Forall_cons | split]); cbn; unfold zlen; cbn;
    try lia; try (intros [?|?]; (discriminate || lia)); try exact I.
  all: vm_compute; try discriminate; repeat (constructor; [split; discriminate|]); try constructor.
Qed.

(* AttrMap({1:3, None:4}, focus_map {1:5}) around AttrMap({2:1}) around a leaf, in a Pile at focus *)
Example maps_somewhere :
  let t := WBox 0 [(WAttr [(Some 1, Some 3); (None, Some 4)] (Some [(Some 1, Some 5)])
                          (WAttr [(Some 2, Some 1)] None (WLeaf 0)), false)] in
  (map (fun cv => map (apply_map (fst cv)) [Some 1; Some 2; None]) (render t true),
   map (fun cv => map (apply_map (fst cv)) [Some 1; Some 2; None]) (render t false))
  = ([[Some 5; Some 5; None]], [[Some 3; Some 3; Some 4]]).
Proof. vm_compute. reflexivity. Qed.

(* light red, bold+underline on dark blue: plain terminal, and bright-is-bold terminal *)
Example escape_somewhere :
  attrspec_to_escape false false (ASpec false false true 9 false false true 4 true false true false false false)
    = [0; 91; 1; 4; 44] /\
  attrspec_to_escape true false (ASpec false false true 9 false false true 4 false false false false false false)
    = [0; 1; 31; 44] /\
  decode_sgr [0; 38; 2; 18; 52; 86; 4; 48; 5; 200]
    = TS (CRgb 18 52 86) (CIdx 200) false false true false false false.
Proof. vm_compute. repeat split. Qed.

Example valid_spec_somewhere :
  valid_spec (ASpec true false false 1193046 false true false 200 false false true false false false).
Proof. unfold valid_spec; cbn; repeat split; intros; try discriminate; lia. Qed.

(* register, switch to 256 colours, resolve *)
Example palette_somewhere :
  let e := PE red_on_blue default_spec red_on_blue
              (ASpec false true false 196 false true false 17 false false false false false false) red_on_blue in
  let s := fst (prun (screen_init false false) [RegEntry (Some 0) false e; SetProps 256 true true]) in
  (attr_to_escape s (DName (Some 0)), attr_to_escape s (DName (Some 7)), attr_to_escape s (DName None))
  = ([0; 38; 5; 196; 48; 5; 17], [0; 39; 49], [0; 39; 49]).
Proof. vm_compute. reflexivity. Qed.
