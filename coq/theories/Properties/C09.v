(* C09 - cursor position and mouse hit-testing agree with what is drawn (statements; under construction) *)
From Coq Require Import ZArith List Bool.
Import ListNotations.
From Urwid Require Import PyBase geo_padfill_gen Geometry.
Open Scope Z_scope.

Example model_computes :
  run_case [3; 0; 0; 0; 0; 0; 0; 1; 0; 1; 1; 1; 1; 0; 0; 1] <> [-1].
Proof. vm_compute. discriminate. Qed.
Print Assumptions model_computes.
