(* C09 - Cursor position and mouse hit-testing agree with what is drawn.
   Only statements here; every proof is [exact <lemma>] into Proofs/GeometryProofs.v.
   The model (Model/Geometry.v) writes, for every container, the FOUR methods from their own code
   paths: [place] (render), [cursor_coords] (get_cursor_coords), [mouse_route] / [mouse_leaf]
   (mouse_event) and [move_cursor] (move_cursor_to_coords); [fits w s] says that no widget on the way
   is hidden or clipped at size [s].  The padding / filler arithmetic is [geo_padfill_gen], regenerated
   from /repo on every run.

   Proved for EVERY tree built from: Leaf (spy / Edit-like leaf given by data), Pile, Columns, Padding, Filler,
   Frame, BoxAdapter, AttrMap, Overlay (top widget hit-tested, bottom widget = background) and LineBox (a
   composition of Pile and Columns: [linebox]).  The two Overlay statements that were refuted by witnesses in the
   first round (Overlay.get_cursor_coords, Overlay hit-testing of a flow top widget) hold now that urwid is
   repaired (fix: ebf9945, f18097d); the former witnesses are kept as regression Examples and corpus cases. *)
From Coq Require Import ZArith List Bool.
Import ListNotations.
From Urwid Require Import PyBase geo_padfill_gen Geometry GeometryFacts GeometryProofs GeometryMoveProofs GeometryMoveFull.
From Urwid Require GeometryX GeometryXProofs GeometryXMove.
From Urwid Require layout_gen Layout LayoutArith LayoutColumns GeometryLayoutTie.
Open Scope Z_scope.

(* ------------------------------------------------------------------------------------------ *)
(* clause 1: the cursor a widget reports without rendering = the cursor of its focused rendering *)
(* ------------------------------------------------------------------------------------------ *)

(* the cursor of a rendering is the (last) cursor of the children as placed by [place], translated by the
   child's offset; children are rendered with focus only when they are the container's focus *)
Theorem render_cursor_from_place :
  forall w s focus,
    render_cursor w s focus =
    match w with
    | Leaf l => if focus then leaf_cursor l s else None
    | _ => fold_left (fun acc p =>
                        match v_rcursor (child_view w (p_idx p)) (p_size p) (focus && p_isfocus p) with
                        | Some (x, y) => Some (x + p_x p, y + p_y p)
                        | None => acc
                        end) (place w s) None
    end.
Proof. intros w s focus. unfold render_cursor, place. rewrite view_eq. destruct w; reflexivity. Qed.
Print Assumptions render_cursor_from_place.

(* every tree, every size at which it fits *)
Theorem cursor_agree :
  forall w s, fits w s = true ->
    cursor_coords w s = of_oxy (render_cursor w s true).
Proof. intros w s Hf. exact (cursor_deep_all w s Hf). Qed.
Print Assumptions cursor_agree.

(* regression: the first-round witness against Overlay.get_cursor_coords (TypeError on a top widget without
   cursor); the repaired code reports no cursor, like the rendering *)
Definition overlay_witness_1 : widget :=
  Overlay (Leaf (LeafD 0 true 1 0 true true None [] 1 0)) (border_leaf true)
          GLeft 0 GRelative 100 None 0 0 GTop 0 GRelative 100 None 0 0.

Example overlay_witness_1_repaired :
  fits overlay_witness_1 (1, Some 1) = true /\ render_cursor overlay_witness_1 (1, Some 1) true = None /\
  cursor_coords overlay_witness_1 (1, Some 1) = CNone.
Proof. vm_compute. auto. Qed.

(* ------------------------------------------------------------------------------------------ *)
(* clause 2: a mouse event on a cell where a child is drawn goes to that child, with coordinates *)
(* relative to the child's top-left corner, and to no other child                               *)
(* ------------------------------------------------------------------------------------------ *)

(* one level, every widget class: for every child rectangle of
   [place] and every cell inside it, mouse_event hands the event to exactly that child, with the
   size render handed to it and the cell translated by the child's offset *)
Theorem mouse_hits_drawn_child :
  forall w s p col row focus,
    fits w s = true ->
    In p (place w s) -> p_bg p = false ->
    in_rect (p_x p) (p_y p) (fst (p_size p)) (crows (child_info w (p_idx p)) (p_size p)) col row ->
    exists f, mouse_route w s col row focus = Some (Routed (p_idx p) (p_size p) (col - p_x p) (row - p_y p) f).
Proof. exact mouse_route_hits_child. Qed.
Print Assumptions mouse_hits_drawn_child.

(* ... and to no other child: two drawn children whose rectangles contain the cell are the same child *)
Theorem mouse_to_no_other_child :
  forall w s p q col row,
    fits w s = true ->
    In p (place w s) -> p_bg p = false -> In q (place w s) -> p_bg q = false ->
    in_rect (p_x p) (p_y p) (fst (p_size p)) (crows (child_info w (p_idx p)) (p_size p)) col row ->
    in_rect (p_x q) (p_y q) (fst (p_size q)) (crows (child_info w (p_idx q)) (p_size q)) col row ->
    p_idx p = p_idx q /\ p_size p = p_size q /\ p_x p = p_x q /\ p_y p = p_y q.
Proof. exact mouse_route_unique. Qed.
Print Assumptions mouse_to_no_other_child.

(* all the way down (structural induction over the tree): a press on any cell of the rectangle in which
   a leaf is drawn reaches that leaf, with coordinates relative to the leaf's top-left corner and the size
   the leaf was rendered with; whatever the focus flags of the rendering and of the event *)
Theorem mouse_reaches_drawn_leaf :
  forall w s f1 f2 r col row,
    fits w s = true ->
    In r (leaf_rects w s f1) -> rc_bg r = false ->
    in_rect (rc_x r) (rc_y r) (rc_cols r) (rc_rows r) col row ->
    exists f, mouse_leaf w s col row f2 = Some (Hit (rc_id r) (col - rc_x r) (row - rc_y r) f (rc_size r)).
Proof. intros w s f1 f2 r col row Hf. exact (mouse_deep_all w s f1 f2 r col row Hf). Qed.
Print Assumptions mouse_reaches_drawn_leaf.

(* the drawn rectangles lie inside the canvas of the widget (what "cell of the rendered area" means) *)
Theorem leaf_rects_inside_canvas :
  forall w s f r, fits w s = true -> In r (leaf_rects w s f) ->
    0 <= rc_x r /\ rc_x r + rc_cols r <= fst s /\ 0 <= rc_y r /\ rc_y r + rc_rows r <= canvas_rows w s.
Proof. intros w s f r Hf Hr. destruct (view_good w) as [_ [H _]]. exact (H s f r Hf Hr). Qed.
Print Assumptions leaf_rects_inside_canvas.

(* regression: the first-round witness against Overlay hit-testing (height of a flow top widget taken at the
   overlay's full width): the leaf wraps to 2 rows at its width 2; both rows receive the press now *)
Definition overlay_witness_2 : widget :=
  Overlay (Leaf (LeafD 0 false 1 3 true true (Some (0, 0)) [] 1 0)) (border_leaf true)
          GLeft 0 GGiven 2 None 0 0 GTop 0 GPack 0 None 0 0.

Example overlay_witness_2_repaired :
  fits overlay_witness_2 (4, Some 3) = true /\
  In (Rect 0 0 0 2 2 true (2, None) false) (leaf_rects overlay_witness_2 (4, Some 3) true) /\
  mouse_leaf overlay_witness_2 (4, Some 3) 0 1 true = Some (Hit 0 0 1 true (2, None)).
Proof. vm_compute. auto. Qed.

(* about the translated code: for a given height that fits, top + height + bottom is the whole area; this is what
   makes the hit area of an Overlay cover every row of a flow top widget *)
Theorem filler_given_height_exact :
  forall maxrow vt vamt h t0 b0,
    let tb := calculate_top_bottom_filler maxrow vt vamt GGiven h None t0 b0 in
    fst tb + h <= maxrow -> fst tb + h + snd tb = maxrow.
Proof. exact ctbf_given_exact. Qed.
Print Assumptions filler_given_height_exact.

(* ------------------------------------------------------------------------------------------ *)
(* clause 3: move_cursor_to_coords succeeds exactly when the wrapped widget accepts the          *)
(* correspondingly translated cell                                                               *)
(* ------------------------------------------------------------------------------------------ *)
Theorem move_cursor_iff_child :
  forall w s p col row,
    fits w s = true -> In p (place w s) -> p_bg p = false ->
    in_rect (p_x p) (p_y p) (fst (p_size p)) (crows (child_info w (p_idx p)) (p_size p)) col row ->
    i_hasmove (info w) = true ->
    i_sel (child_info w (p_idx p)) = true -> i_hasmove (child_info w (p_idx p)) = true ->
    m_ok (move_cursor w s col row)
    = m_ok (v_move (child_view w (p_idx p)) (p_size p) (col - p_x p) (row - p_y p)) /\
    m_asked (move_cursor w s col row)
    = m_asked (v_move (child_view w (p_idx p)) (p_size p) (col - p_x p) (row - p_y p)).
Proof. exact move_iff_child. Qed.
Print Assumptions move_cursor_iff_child.

(* the children [child_view w i] are the views of the sub-widgets *)
Theorem child_view_is_subwidget :
  forall items fp i o c, nthz items i = Some (o, c) -> child_view (Pile items fp) i = view c.
Proof.
  intros items fp i o c H. unfold child_view, nth_view. cbn [kidviews kids_with].
  rewrite nthz_map, H. reflexivity.
Qed.
Print Assumptions child_view_is_subwidget.

(* ... and afterwards the reported cursor is on the requested row.  [m_asked m <> None]: the request went down
   to a leaf (every widget on the way implements move_cursor_to_coords).  Structural induction over the tree,
   every class, including moves that change the focus of a Pile or of a Columns; the tree still fits afterwards. *)
Theorem cursor_on_requested_row :
  forall w s col row,
    fits w s = true -> i_hasmove (info w) = true ->
    let m := move_cursor w s col row in
    m_ok m = true -> m_asked m <> None ->
    fits (m_w m) s = true /\ exists x, cursor_coords (m_w m) s = CSome x row.
Proof.
  intros w s col row Hf Hm m Hok Hasked.
  destruct (move_okf_all w s col row Hf Hm Hok) as [_ [H1 H2]].
  split; [exact H1|]. destruct (H2 Hasked) as [_ [_ H3]]. exact H3.
Qed.
Print Assumptions cursor_on_requested_row.

(* what makes this work for a Columns whose focus moves: when the static needs of the columns fit (part of
   [fits]), Columns.column_widths - which drops the columns right of the focus first - does not depend on
   focus_position at all *)
Theorem column_widths_focus_independent :
  forall opts fp fp' dc mw maxcol,
    0 <= dc -> Forall (fun o => 0 <= static_w o mw) opts ->
    zsum (map (fun o => static_w o mw + dc) opts) <= maxcol + dc ->
    column_widths opts fp dc mw maxcol = column_widths opts fp' dc mw maxcol.
Proof. exact column_widths_fp. Qed.
Print Assumptions column_widths_focus_independent.

(* ------------------------------------------------------------------------------------------ *)
(* the arithmetic of this model is the arithmetic C19 proves its partition theorems about        *)
(* (C19's files Model/Layout.v, Proofs/LayoutArith.v, Proofs/LayoutColumns.v, imported read-only) *)
(* ------------------------------------------------------------------------------------------ *)
(* both properties translate calculate_left_right_padding / calculate_top_bottom_filler from the source with
   py2v (own constructor names): the two translations are the same function *)
Theorem padding_translation_is_c19s :
  forall maxcol at_ aa wt wa minw l r,
    calculate_left_right_padding maxcol at_ aa wt wa minw l r
    = layout_gen.calculate_left_right_padding maxcol (GeometryLayoutTie.cv_at at_) aa (GeometryLayoutTie.cv_wt wt) wa minw l r.
Proof. exact GeometryLayoutTie.clrp_same. Qed.
Print Assumptions padding_translation_is_c19s.

Theorem filler_translation_is_c19s :
  forall maxrow vt va ht ha minh t b,
    calculate_top_bottom_filler maxrow vt va ht ha minh t b
    = layout_gen.calculate_top_bottom_filler maxrow (GeometryLayoutTie.cv_vt vt) va (GeometryLayoutTie.cv_wt ht) ha minh t b.
Proof. exact GeometryLayoutTie.ctbf_same. Qed.
Print Assumptions filler_translation_is_c19s.

(* the hand-written mirror of Columns.column_widths in Model/Geometry.v and the one in C19's Model/Layout.v are the
   same function (whenever C19's does not raise ZeroDivisionError, i.e. always with weights >= 1) *)
Theorem column_widths_is_c19s :
  forall opts fp dc mw maxcol F,
    Layout.column_widths (map GeometryLayoutTie.cv_col opts) dc mw fp maxcol = Ok F ->
    column_widths opts fp dc mw maxcol = F.
Proof. exact GeometryLayoutTie.column_widths_same. Qed.
Print Assumptions column_widths_is_c19s.

(* hence C19's theorems cw_total / cw_nonneg / cw_fits speak about the widths this model hands to the columns:
   no width is negative, the focus column is in the list, the visible columns and their dividers fit *)
Theorem column_widths_partition :
  forall opts fp dc mw maxcol,
    Forall GeometryLayoutTie.copt_ok opts -> 0 <= dc -> 0 <= mw -> 0 <= maxcol -> 0 <= fp < zlen opts ->
    let F := column_widths opts fp dc mw maxcol in
    Layout.column_widths (map GeometryLayoutTie.cv_col opts) dc mw fp maxcol = Ok F /\
    Forall (fun w => 0 <= w) F /\ fp < zlen F <= zlen opts /\ LayoutColumns.vis_need dc F <= maxcol.
Proof. exact GeometryLayoutTie.column_widths_c19. Qed.
Print Assumptions column_widths_partition.

(* C19's clrp_partition for this model's translation: outside 'clip' the child of a Padding gets
   min(requested, available) columns *)
Theorem padding_child_width :
  forall maxcol at_ aamt wt wamt minw l r, wt <> GClip ->
    let lr := calculate_left_right_padding maxcol at_ aamt wt wamt minw l r in
    0 <= fst lr /\ 0 <= snd lr /\
    maxcol - fst lr - snd lr = Z.min (LayoutArith.clrp_width maxcol (GeometryLayoutTie.cv_wt wt) wamt minw l r) maxcol.
Proof. exact GeometryLayoutTie.clrp_partition_c19. Qed.
Print Assumptions padding_child_width.

(* ------------------------------------------------------------------------------------------ *)
(* about the translated code (regenerated from padding.py / filler.py on every run): unless the  *)
(* width type is 'clip', the margins a Padding / Filler / Overlay computes are never negative,   *)
(* i.e. these decorations never trim their child; the margin part of [fits] always holds.        *)
(* Since extension round 2 these are C19's theorems clrp_partition / ctbf_partition carried over  *)
(* (Proofs/GeometryLayoutTie.v), no longer proved a second time here.                            *)
(* ------------------------------------------------------------------------------------------ *)
Theorem padding_margins_nonneg :
  forall maxcol at_ aamt wt wamt minw l r, wt <> GClip ->
    0 <= fst (calculate_left_right_padding maxcol at_ aamt wt wamt minw l r) /\
    0 <= snd (calculate_left_right_padding maxcol at_ aamt wt wamt minw l r).
Proof. exact clrp_nonneg. Qed.
Print Assumptions padding_margins_nonneg.

Theorem filler_margins_nonneg :
  forall maxrow vt vamt ht hamt minh t b,
    0 <= fst (calculate_top_bottom_filler maxrow vt vamt ht hamt minh t b) /\
    0 <= snd (calculate_top_bottom_filler maxrow vt vamt ht hamt minh t b).
Proof. exact ctbf_nonneg. Qed.
Print Assumptions filler_margins_nonneg.

(* ------------------------------------------------------------------------------------------ *)
(* non-vacuity: the hypotheses are met by an ordinary tree and the model computes                *)
(* ------------------------------------------------------------------------------------------ *)
Definition lf (id : Z) (h : Z) (cur : option xy) : widget := Leaf (LeafD id false h 0 true true cur [] 1 0).
Definition example_tree : widget :=
  linebox (Pile [(PPack, Columns [(CWeight 1, false, lf 0 1 (Some (1, 0))); (CGiven 3, false, lf 1 2 None)] 0 1 1);
                 (PPack, Padding (lf 2 1 (Some (0, 0))) GCenter 0 GGiven 3 None 1 0)] 1) true true.

Example example_fits : fits example_tree (9, None) = true.
Proof. vm_compute. auto. Qed.

Example example_cursor :
  cursor_coords example_tree (9, None) = CSome 3 3 /\ render_cursor example_tree (9, None) true = Some (3, 3).
Proof. vm_compute. auto. Qed.

Example example_rects :
  map (fun r => (rc_id r, rc_x r, rc_y r, rc_cols r, rc_rows r))
      (filter (fun r => 0 <=? rc_id r) (leaf_rects example_tree (9, None) true))
  = [(0, 1, 1, 3, 1); (1, 5, 1, 3, 2); (2, 3, 3, 3, 1)].
Proof. vm_compute. reflexivity. Qed.

Example example_mouse_and_move :
  mouse_leaf example_tree (9, None) 6 2 true = Some (Hit 1 1 1 false (3, None)) /\
  let m := move_cursor example_tree (9, None) 6 2 in
  m_ok m = true /\ m_asked m = Some (1, 1, 1, (3, None)) /\ cursor_coords (m_w m) (9, None) = CSome 6 2.
Proof. vm_compute. auto. Qed.

Example example_move_same_columns_focus :
  let m := move_cursor example_tree (9, None) 4 3 in
  m_ok m = true /\ m_asked m = Some (2, 1, 0, (3, None)) /\
  i_hasmove (info example_tree) = true /\ cursor_coords (m_w m) (9, None) = CSome 4 3.
Proof. vm_compute. auto. Qed.

Example example_place :
  place (Pile [(PPack, lf 0 2 None); (PGiven 3, Leaf (LeafD 1 true 1 0 false false None [] 1 0))] 0) (4, None)
  = [Placed 0 0 0 (4, None) true false; Placed 1 0 2 (4, Some 3) false false].
Proof. vm_compute. reflexivity. Qed.

(* ------------------------------------------------------------------------------------------ *)
(* the extended model (Model/GeometryX.v): the same widgets PLUS everything rendered at size () *)
(* - fixed leaves, Padding / Overlay width 'pack' around them, 'pack' columns, Pile and Columns   *)
(* rendered fixed.  Size () is written [fixed_size] = (-1, None).  [xview w] is the pair of the   *)
(* extended view (the four methods and [v_fits]) and the extended info ([x_pack]: the size the     *)
(* widget packs to, which is its canvas size when it is rendered fixed).                         *)
(* ------------------------------------------------------------------------------------------ *)
Module X.
Import GeometryX GeometryXProofs GeometryXMove.

(* the bridge: on a tree without fixed parts the extended view IS the proved view, so every theorem above
   speaks about the extended model too (before this round the agreement was only tested in [run_case]) *)
Theorem extended_view_is_view_on_sized_trees :
  forall w, sized_tree w = true -> fst (xview w) = view w /\ xc (snd (xview w)) = info w.
Proof. exact xview_sized. Qed.
Print Assumptions extended_view_is_view_on_sized_trees.

(* [size_pos] generalised: a size at which an extended view fits is () or has positive entries *)
Theorem fits_size_kind :
  forall w s, v_fits (fst (xview w)) s = true -> is_fixed s = true \/ size_pos s.
Proof. exact xfits_size_ok. Qed.
Print Assumptions fits_size_kind.

(* clause 1 for EVERY tree of the extended model and every size including () *)
Theorem cursor_agree_x :
  forall w s, v_fits (fst (xview w)) s = true ->
    v_cursor (fst (xview w)) s = of_oxy (v_rcursor (fst (xview w)) s true).
Proof. exact xcursor_agree. Qed.
Print Assumptions cursor_agree_x.

(* clause 2, whole tree: every cell of a drawn leaf reaches that leaf with translated coordinates *)
Theorem mouse_reaches_drawn_leaf_x :
  forall w s f1 f2 r col row,
    v_fits (fst (xview w)) s = true ->
    In r (v_rects (fst (xview w)) s f1) -> rc_bg r = false ->
    in_rect (rc_x r) (rc_y r) (rc_cols r) (rc_rows r) col row ->
    exists f, v_mouse (fst (xview w)) s col row f2 = Some (Hit (rc_id r) (col - rc_x r) (row - rc_y r) f (rc_size r)).
Proof. exact xmouse_reaches_drawn_leaf. Qed.
Print Assumptions mouse_reaches_drawn_leaf_x.

(* the drawn leaves lie inside the canvas: [xw] / [xh] are the packed size when s = (), else (fst s, rows) *)
Theorem leaf_rects_inside_canvas_x :
  forall w s f r, v_fits (fst (xview w)) s = true -> In r (v_rects (fst (xview w)) s f) ->
    0 <= rc_x r /\ rc_x r + rc_cols r <= xw (snd (xview w)) s /\ 0 <= rc_y r /\ rc_y r + rc_rows r <= xh (snd (xview w)) s.
Proof. exact xleaf_rects_inside. Qed.
Print Assumptions leaf_rects_inside_canvas_x.

(* clause 2, one level, for a widget with fixed parts (for the others: the bridge and the theorems above):
   a cell inside the area of a placed child is routed to exactly that child, translated by its offset *)
Theorem mouse_hits_drawn_child_x :
  forall w s p col row focus,
    sized_tree w = false ->
    v_fits (fst (xview w)) s = true -> In p (v_place (fst (xview w)) s) -> p_bg p = false ->
    in_rect (p_x p) (p_y p) (xw (xkid_info w (p_idx p)) (p_size p)) (xh (xkid_info w (p_idx p)) (p_size p)) col row ->
    exists f, n_route (xnodeof w) s col row focus = Some (Routed (p_idx p) (p_size p) (col - p_x p) (row - p_y p) f).
Proof. exact xmouse_route_hits_child. Qed.
Print Assumptions mouse_hits_drawn_child_x.

Theorem mouse_to_no_other_child_x :
  forall w s p q col row,
    sized_tree w = false ->
    v_fits (fst (xview w)) s = true ->
    In p (v_place (fst (xview w)) s) -> p_bg p = false -> In q (v_place (fst (xview w)) s) -> p_bg q = false ->
    in_rect (p_x p) (p_y p) (xw (xkid_info w (p_idx p)) (p_size p)) (xh (xkid_info w (p_idx p)) (p_size p)) col row ->
    in_rect (p_x q) (p_y q) (xw (xkid_info w (p_idx q)) (p_size q)) (xh (xkid_info w (p_idx q)) (p_size q)) col row ->
    p_idx p = p_idx q /\ p_size p = p_size q /\ p_x p = p_x q /\ p_y p = p_y q.
Proof. exact xmouse_route_unique. Qed.
Print Assumptions mouse_to_no_other_child_x.

(* clause 3, one level: the move request at a cell of a selectable child that implements the method is that
   child's answer at the translated cell *)
Theorem move_cursor_iff_child_x :
  forall w s p col row,
    sized_tree w = false ->
    v_fits (fst (xview w)) s = true -> In p (v_place (fst (xview w)) s) -> p_bg p = false ->
    in_rect (p_x p) (p_y p) (xw (xkid_info w (p_idx p)) (p_size p)) (xh (xkid_info w (p_idx p)) (p_size p)) col row ->
    i_hasmove (v_info (fst (xview w))) = true ->
    i_sel (xc (xkid_info w (p_idx p))) = true -> i_hasmove (xc (xkid_info w (p_idx p))) = true ->
    m_ok (v_move (fst (xview w)) s col row)
    = m_ok (v_move (nth_view w (map fst (xkids w)) (p_idx p)) (p_size p) (col - p_x p) (row - p_y p)) /\
    m_asked (v_move (fst (xview w)) s col row)
    = m_asked (v_move (nth_view w (map fst (xkids w)) (p_idx p)) (p_size p) (col - p_x p) (row - p_y p)).
Proof. exact xmove_iff_child. Qed.
Print Assumptions move_cursor_iff_child_x.

(* clause 3, whole tree, EVERY tree of the extended model and every size including (): after a successful
   move_cursor_to_coords that went down to a leaf the tree still fits and the reported cursor is on the requested row.
   Structural induction (Proofs/GeometryXMove.v): a move changes focus positions and leaf cursors only, so sizing()
   and the packed width of every widget stay; the rows() / packed height a container reads of the child it asked are
   the ones at the size it renders that child with; Columns.column_widths with 'pack' columns does not depend on the
   focus when the static needs fit. *)
Theorem cursor_on_requested_row_x :
  forall w s col row,
    v_fits (fst (xview w)) s = true -> i_hasmove (v_info (fst (xview w))) = true ->
    let m := v_move (fst (xview w)) s col row in
    m_ok m = true -> m_asked m <> None ->
    v_fits (fst (xview (m_w m))) s = true /\ exists x, v_cursor (fst (xview (m_w m))) s = CSome x row.
Proof. exact xcursor_on_requested_row. Qed.
Print Assumptions cursor_on_requested_row_x.

(* what a move leaves unchanged *)
Theorem move_keeps_shape :
  forall w s col row, same_shape w (m_w (move_cursor w s col row)).
Proof. exact move_same_shape. Qed.
Print Assumptions move_keeps_shape.

(* non-vacuity at size (): a Pile rendered fixed of a Columns with a 'pack' column around a fixed leaf and a
   given column with a cursor leaf, and a Padding width 'pack' around a fixed leaf (both items 8 columns wide: Pile.render(())
   does not pad a narrower fixed item, such a Pile never fits) *)
Definition fl (id w h : Z) : widget := Leaf (LeafD id false h 0 true false None [] 1 w).
Definition example_fixed : widget :=
  Pile [(PPack, Columns [(CPack, false, fl 0 3 2); (CGiven 4, false, lf 1 1 (Some (2, 0)))] 1 1 1);
        (PPack, Padding (fl 2 7 1) GCenter 0 GPack 0 None 1 0)] 0.

Example example_fixed_fits :
  sized_tree example_fixed = false /\ v_fits (fst (xview example_fixed)) fixed_size = true /\
  x_pack (snd (xview example_fixed)) = (8, 3).
Proof. vm_compute. auto. Qed.

Example example_fixed_cursor :
  v_cursor (fst (xview example_fixed)) fixed_size = CSome 6 0 /\
  v_rcursor (fst (xview example_fixed)) fixed_size true = Some (6, 0).
Proof. vm_compute. auto. Qed.

Example example_fixed_rects :
  map (fun r => (rc_id r, rc_x r, rc_y r, rc_cols r, rc_rows r)) (v_rects (fst (xview example_fixed)) fixed_size true)
  = [(0, 0, 0, 3, 2); (1, 4, 0, 4, 1); (2, 1, 2, 7, 1)].
Proof. vm_compute. reflexivity. Qed.

Example example_fixed_mouse_and_move :
  v_mouse (fst (xview example_fixed)) fixed_size 2 2 true = Some (Hit 2 1 0 true fixed_size) /\
  v_mouse (fst (xview example_fixed)) fixed_size 5 0 true = Some (Hit 1 1 0 true (4, None)) /\
  let m := v_move (fst (xview example_fixed)) fixed_size 6 0 in
  m_ok m = true /\ m_asked m = Some (1, 2, 0, (4, None)) /\ v_cursor (fst (xview (m_w m))) fixed_size = CSome 6 0.
Proof. vm_compute. auto. Qed.
(* regression: the witness of extension round 2 against Padding rendered as a fixed widget with a GIVEN width (render
   handed (width,) to the child, the other methods ()): repaired by fix ba33666 - all methods hand (width,) - and
   modelled so; a Padding with a given width counts as a tree with fixed parts now ([sized_tree]) *)
Definition padding_given_fixed : widget :=
  Columns [(CPack, false, Padding (lf 0 1 (Some (3, 0))) GLeft 0 GGiven 5 None 2 0);
           (CPack, false, Padding (Leaf (LeafD 1 false 1 0 false false None [] 1 0)) GLeft 0 GGiven 2 None 0 0)] 0 0 1.

Example padding_given_fixed_repaired :
  sized_tree padding_given_fixed = false /\ v_fits (fst (xview padding_given_fixed)) fixed_size = true /\
  x_pack (snd (xview padding_given_fixed)) = (9, 1) /\
  v_cursor (fst (xview padding_given_fixed)) fixed_size = CSome 5 0 /\
  v_rcursor (fst (xview padding_given_fixed)) fixed_size true = Some (5, 0) /\
  v_mouse (fst (xview padding_given_fixed)) fixed_size 3 0 true = Some (Hit 0 1 0 true (5, None)) /\
  let m := v_move (fst (xview padding_given_fixed)) fixed_size 4 0 in
  m_ok m = true /\ m_asked m = Some (0, 2, 0, (5, None)) /\ v_cursor (fst (xview (m_w m))) fixed_size = CSome 4 0.
Proof. vm_compute. repeat split; reflexivity. Qed.
End X.
