(* C06 - The canvas cache is invisible: cached rendering equals fresh rendering.
   Only statements here; every proof is [exact <lemma>] into Proofs/CacheGC.v.

   The model (Model/Cache.v) mirrors CanvasCache.store/fetch/invalidate/cleanup/clear and the
   render/rows wrappers of urwid/widget/widget.py line by line.  What a widget renders is NOT
   modelled: [body] is an arbitrary program over the widget's own version and the render key that
   may ask for renders of other widgets and go on with what they returned.  The theorems hold for
   every such [body], every history of Render / Rows / Mutate / Collect / Clear, every fuel, and
   [Collect] may free ANY live canvas at any time: since CanvasCache.cleanup invalidates the
   dependants of a widget whose last canvas went away, nothing is assumed about which canvases a
   canvas keeps alive (the former premise "a canvas holds the canvases it displays" is gone).

   Hypotheses about the widgets (premises of the theorems, tied to the code by the oracle and the
   AST scan of harness/props/c06.py):
     (H1) built into the shape of [prog]: a canvas is a function of the widget's own version, the key
          and the canvases of the children it asked for, and those children are what it registers as
          depends_on (explicitly or through its children list);
     (H2) built into [Mutate]: every change of a widget's own state goes with self._invalidate();
     (H3) [ranked]: the widget graph is acyclic;
     (H4) [all_cacheable]: every canvas has cacheable = True and no class lists "render" in no_cache.
   Without (H4) the statement is FALSE of the code: [cache_invisible_full_refuted] below. *)
From Coq Require Import ZArith List Bool Lia.
Import ListNotations.
From Urwid Require Import PyBase Cache CacheFacts CacheProofs CacheGC CacheWitness c06_mutators_gen CacheMutators.
Open Scope Z_scope.

Section C06.
  Variable C : Type.
  Variable body : widget -> Z -> key -> prog C.
  Variable rbody : widget -> Z -> key -> rprog.
  Variable rows_of : C -> Z.
  Variable cacheable rcache : widget -> bool.
  Variable rank : widget -> nat.

  Definition ranked : Prop := forall w v k, prog_ranked (rank w) rank (body w v k).
  Definition all_cacheable : Prop := forall w, cacheable w = true.

  Notation run := (run C body rbody rows_of cacheable rcache).
  Notation crender := (crender C body cacheable).
  Notation fresh := (fresh C body).
  Notation cleared st := (State empty_cache (heap st) (next st) (ver st)).

  (* --- the invariant "Fresh": after any history every canvas the cache can hand out has the
         content a cache-less render produces under the current versions --- *)
  Theorem fresh_invariant : ranked -> all_cacheable ->
    forall n ops, let st := run n init ops in
    forall cv, cached C st cv ->
    forall m x, fresh (ver st) m (c_w cv) (c_k cv) = Some x -> c_content cv = x.
  Proof. exact (gc_fresh_invariant C body rbody rows_of cacheable rcache rank). Qed.

  (* --- the invariant "DepsComplete": the render trace recorded for a cached canvas is linked all the way
         down ([Lk]): every canvas on it - alive or already collected, found in a ghost list G of all canvases
         ever created - has the content of a cache-less render now, and every widget on it lists the widget
         that displays it in its _deps list --- *)
  Theorem deps_complete : ranked -> all_cacheable ->
    forall n ops, let st := run n init ops in
    exists G, (forall cv, In cv (heap st) -> In cv G) /\
              forall cv, cached C st cv -> Lk C body (cc st) (ver st) G cv.
  Proof. exact (gc_deps_complete C body rbody rows_of cacheable rcache rank). Qed.

  (* --- clause 1: after any history, rendering with the cache = rendering with the cache emptied first
         (content includes the cursor) --- *)
  Theorem cache_invisible : ranked -> all_cacheable ->
    forall n m1 m2 ops w k cv st1 cv' st2,
    let st := run n init ops in
    crender m1 st w k = Some (cv, st1) ->
    crender m2 (cleared st) w k = Some (cv', st2) ->
    c_content cv = c_content cv'.
  Proof. exact (gc_cache_invisible C body rbody rows_of cacheable rcache rank). Qed.

  Theorem cached_render_equals_cacheless_render : ranked -> all_cacheable ->
    forall n ops m m' w k cv st1 x,
    let st := run n init ops in
    crender m st w k = Some (cv, st1) -> fresh (ver st) m' w k = Some x -> c_content cv = x.
  Proof. exact (gc_render_equals_fresh C body rbody rows_of cacheable rcache rank). Qed.

  (* neither side is vacuous: fuel above the rank of the widget always suffices *)
  Theorem render_never_out_of_fuel : ranked -> all_cacheable ->
    forall n ops m w k, (rank w < m)%nat -> exists cv st', crender m (run n init ops) w k = Some (cv, st').
  Proof. exact (gc_render_total C body rbody rows_of cacheable rcache rank). Qed.

  Theorem cacheless_render_never_out_of_fuel : ranked ->
    forall vr m w k, (rank w < m)%nat -> exists x, fresh vr m w k = Some x.
  Proof. exact (fresh_total_lemma C body rank). Qed.

  (* --- clause 2: a change to any widget d is visible in the next rendering of every widget:
         the render right after Mutate d v equals the cache-less render that sees version v of d --- *)
  Theorem change_visible : ranked -> all_cacheable ->
    forall n ops d v, let st := run n init (ops ++ [Mutate d v]) in
    version (ver st) d = v /\
    forall m m' w k cv st1 x, crender m st w k = Some (cv, st1) -> fresh (ver st) m' w k = Some x -> c_content cv = x.
  Proof. exact (gc_change_visible C body rbody rows_of cacheable rcache rank). Qed.

  (* the recursion of CanvasCache.invalidate terminates within the fuel [step] gives it *)
  Theorem invalidate_never_out_of_fuel :
    forall n (st : state C) w v, snd (step C body rbody rows_of cacheable rcache n st (Mutate w v)) = ODone C.
  Proof. exact (mutate_fuel_lemma C body rbody rows_of cacheable rcache). Qed.

  (* the loop over the popped dependants in CanvasCache.cleanup terminates within its fuel as well *)
  Theorem cleanup_never_out_of_fuel :
    forall (c : cache) (r : cid), exists c2,
      invalidate_all (S (length (deps (cleanup_entry c r)))) (cleanup_popped c r) (cleanup_entry c r) = Some c2 /\
      cleanup c r = c2.
  Proof. exact cleanup_total. Qed.

  (* --- clause 3: rows() answered through the cache = rows() computed without any cache, provided the
         widgets themselves are consistent (rows() = render().rows(), which is property C11) --- *)
  Definition rows_consistent : Prop :=
    forall vr n m w k x r, fresh vr n w k = Some x -> frows rbody vr m w k = Some r -> rows_of x = r.

  Theorem rows_from_cache_ok : ranked -> all_cacheable -> rows_consistent ->
    forall n ops m m' w k r r', let st := run n init ops in
    crows C rbody rows_of rcache m st w k = Some r -> frows rbody (ver st) m' w k = Some r' -> r = r'.
  Proof. exact (gc_rows_ok C body rbody rows_of cacheable rcache rank). Qed.

  (* --- clause 4: canvases are never modified after they were handed out: whatever happens later, a
         canvas that is still alive is the very record that was created under its identity --- *)
  Theorem finalized_never_mutated : ranked -> all_cacheable ->
    forall n ops1 ops2 cv cv', let st := run n init ops1 in
    In cv (heap st) -> In cv' (heap (run n st ops2)) -> c_id cv' = c_id cv -> cv' = cv.
  Proof. exact (gc_never_mutated C body rbody rows_of cacheable rcache rank). Qed.
End C06.

Print Assumptions fresh_invariant.
Print Assumptions deps_complete.
Print Assumptions cache_invisible.
Print Assumptions cached_render_equals_cacheless_render.
Print Assumptions render_never_out_of_fuel.
Print Assumptions cacheless_render_never_out_of_fuel.
Print Assumptions change_visible.
Print Assumptions invalidate_never_out_of_fuel.
Print Assumptions cleanup_never_out_of_fuel.
Print Assumptions rows_from_cache_ok.
Print Assumptions finalized_never_mutated.

(* ===== (H2) as a checked obligation =====
   [mutators] is regenerated from the widget sources on every run (Gen/c06_mutators_gen.v, tools/py2v/mods/c06_mutators.py):
   every public method or property setter of the bundled widget classes that assigns to an attribute of self, with
   a flag whether it (transitively, syntactically) reaches self._invalidate() / a contents-list callback.  Each one
   reaches it, or is on the commented exemption list of Proofs/CacheMutators.v.  A public mutator added or changed so that
   it no longer invalidates breaks this theorem.  (Input handlers - keypress, mouse_event - and what a mutator does
   at run time are covered by the oracle histories, not by this syntactic obligation.) *)
Theorem every_public_mutator_reaches_invalidate :
  forall c n s r, In (c, n, s, r) mutators -> r = true \/ In (c, n) exempt.
Proof. exact every_mutator_invalidates_lemma. Qed.
Print Assumptions every_public_mutator_reaches_invalidate.

Example exemptions_all_used :
  forallb (fun e => existsb (fun r => let '(c, n, _, reaches) := r in zs_eqb c (fst e) && zs_eqb n (snd e) && negb reaches) mutators) exempt = true.
Proof. exact exemptions_all_used_lemma. Qed.

Example mutators_nontrivial : (40 <= length mutators)%nat.
Proof. exact mutators_nontrivial_lemma. Qed.

(* ===== the full statement, without (H4), is false of the faithful model =====
   A widget (2) that shows child 0 when narrow and children 0 and 1 when wide; child 1 renders
   uncacheable canvases (no_cache = ["render"], or canvas.cacheable = False as vterm's TermCanvas);
   widget 3 decorates widget 2.  CanvasCache.store checks "w in cls._widgets" per WIDGET: once widget 2
   has any cached canvas, widget 3's canvas is stored although the canvas of 2 it displays was not, so
   the dependency chain 1 -> 2 -> 3 is broken and a change of 1 never reaches 3.
   The same history is replayed on the implementation by corpus/C06/uncacheable_dependency.json. *)
Definition cache_invisible_full : Prop :=
  forall (C : Type) body rbody rows_of cacheable rcache rank,
    ranked C body rank ->
    forall n m1 m2 ops w k cv st1 cv' st2,
    let st := run C body rbody rows_of cacheable rcache n init ops in
    crender C body cacheable m1 st w k = Some (cv, st1) ->
    crender C body cacheable m2 (State empty_cache (heap st) (next st) (ver st)) w k = Some (cv', st2) ->
    c_content cv = c_content cv'.

Theorem cache_invisible_full_refuted : ~ cache_invisible_full.
Proof. exact refutation_w. Qed.
Print Assumptions cache_invisible_full_refuted.

(* --- non-vacuity: the hypotheses are met by a concrete widget graph, the model computes a
       non-trivial cache state on it, and the witness of the refutation is a closed computation --- *)
Example hypotheses_satisfiable : ranked (list Z) body_w rank_w /\ all_cacheable (fun _ => true).
Proof. split; [exact ranked_w|intros w; reflexivity]. Qed.

Example model_computes :
  let st := run (list Z) body_w rbody_w rows_w (fun _ => true) (fun _ => true) 5 init [Render 2 12; Render 3 16] in
  (map (fun e => (fst e, map fst (snd e))) (widgets (cc st)), deps (cc st), length (heap st))
  = ([(3, [16]); (2, [16; 12]); (1, [16]); (0, [16; 12])], [(2, [3]); (1, [2]); (0, [2; 2])], 6%nat).
Proof. exact state_w_nontrivial. Qed.

Example stale_with_an_uncacheable_widget :
  option_map (fun r => c_content (fst r)) (crender (list Z) body_w cacheable_w 5 (run_w cacheable_w) 3 16) = Some [0; 0; 1; 0]
  /\ fresh (list Z) body_w (ver (run_w cacheable_w)) 5 3 16 = Some [0; 0; 1; 1].
Proof. exact stale_w. Qed.

Example same_history_all_cacheable :
  option_map (fun r => c_content (fst r)) (crender (list Z) body_w (fun _ => true) 5 (run_w (fun _ => true)) 3 16) = Some [0; 0; 1; 1].
Proof. exact not_stale_when_cacheable. Qed.

(* the collector may free a canvas that a cached canvas still displays *)
Example collecting_a_displayed_child_is_harmless :
  let st := run (list Z) body_w rbody_w rows_w (fun _ => true) (fun _ => true) 5 init ops_gc in
  (length (heap st), map fst (widgets (cc st)),
   option_map (fun r => c_content (fst r)) (crender (list Z) body_w (fun _ => true) 5 st 3 16),
   fresh (list Z) body_w (ver st) 5 3 16)
  = (3%nat, [0], Some [0; 0; 1; 1], Some [0; 0; 1; 1]).
Proof. exact collect_displayed_child. Qed.
