(* C01 - Every widget renders a canvas of exactly the size its container asked for.
   Only statements here; the proofs are in Proofs/WidgetDimsProofs.v, the model in Model/WidgetDims.v.

   The model gives dimension semantics (sizing / rows / pack / render -> cols, rows, cursor, rect) to
   trees of Text-like leaves (arbitrary functions of width and focus), AttrMap (and LineBox's
   delegation), BoxAdapter, Padding, Filler, Pile, Columns, Frame and Overlay, mirroring the code.
   One outcome of the model is a marker, not a failure of the widget that is rendered:
     EStarved - some widget was handed a size with a component <= 0 (no room left by its container).
   [soft e] says e is that marker.  The harness flags exactly this situation on the implementation.
   (Before aa8a06a the trimming operations of canvas.py could leave a cursor outside the canvas and the
   model needed a second marker for it; now the cursor clause is proved outright.) *)
From Coq Require Import ZArith List Bool Lia.
Import ListNotations.
From Urwid Require Import WidgetDims WidgetDimsProofs WidgetDimsFrame WidgetDimsOverlay WidgetDimsColsArith WidgetDimsCols WidgetDimsTree WidgetDimsFixed WidgetDimsFixedPile WidgetDimsFixedCols WidgetDimsFixedTree WidgetDimsClip WidgetDimsOverlayPack WidgetDimsExt.
Open Scope Z_scope.

Definition WellFormed (w : widget) : Prop := wf_b w = true.

(* ---- the full statement of the property over the model: every well-formed tree, every size that is
        valid for a sizing mode the tree reports, both focus values ---- *)
Definition render_contract_full : Prop :=
  forall w sz f, leaves_ok w -> WellFormed w -> valid_for (m_sizing (denote w)) sz ->
    match m_render (denote w) sz f with
    | Ok d => meets (denote w) sz f d      (* box: (c, r); flow: (c, rows c); fixed: pack(()); rect; cursor inside *)
    | Err e => soft e
    end.

(* ---- what is proved: box and flow sizes, trees of any depth built from leaves, AttrMap/LineBox
        delegation, BoxAdapter, Padding (given / pack / relative width), Filler (pack / given / relative
        height), Pile (given / pack / weight items), Frame (header / footer / any focus part) and
        Overlay with a given or relative width (packed / given / relative height, margins, alignment),
        Columns (given / pack / weight columns, box_columns, dividechars, min_width, any focus column;
        box columns hold box widgets, the other columns flow widgets) and therefore LineBox (AttrMap-like
        delegation to a Pile of three Columns), by structural induction on the tree.  The cursor clause is
        proved outright (no marker).  The Columns width arithmetic (widths >= 0, with dividers at most
        maxcol) is C19's theorem column_widths_total_shape, transferred to this model by
        WidgetDimsColsArith.column_widths_eq.
        Not covered here (see render_contract_partial_ext and fixed_contract_partial below): fixed
        sizing, Overlay with width='pack', clip Padding.  Not covered at all: Columns with a 'pack'
        column whose widget is a FIXED-capable container, or a non-box column holding a widget that is
        not a flow widget (see _refuted below for the part of the full statement that is false of the
        faithful model). ---- *)
Theorem render_contract_partial :
  forall w sz f, leaves_ok w -> WellFormed w -> proved_fragment w = true ->
    sz <> SFixed -> valid_for (m_sizing (denote w)) sz ->
    match m_render (denote w) sz f with
    | Ok d => meets (denote w) sz f d
    | Err e => soft e
    end.
Proof.
  intros w sz f Hl Hw Hf Hn Hv.
  exact (render_contract_from_good 1 (denote w) sz f (contract_by_structural_induction w Hw Hf Hl) Hn Hv).
Qed.
Print Assumptions render_contract_partial.

(* ---- the same for the larger fragment [proved_fragment2] that adds the two constructors rendering a
        child with size (): Padding(width='clip') and Overlay(width='pack') (a fixed top widget, clipped
        when it is wider than the screen).  Their fixed child must lie in [proved_fragment] and
        [fixed_fragment]; the leaves below it also need the fixed leaf hypothesis (leaves_ok2).
        This fragment also contains widgets without rows: the empty Pile, and AttrMap / Padding / Filler /
        Pile around such widgets.  The contract is proved with the row count [min_rows w] (0 or 1) in
        place of 1 (rows_and_pack_partial_ext below); Columns of such widgets has one row since ba7db6e
        (rows() = max(1, heights), the canvas padded to one row), so they may stand in any column, as the
        body of a LineBox, in a Frame, below an Overlay or as the top widget of an Overlay with a given or
        relative width: since f9cf74e an Overlay whose top canvas is empty returns its bottom canvas, so an
        Overlay with height='pack' over a top widget without rows has the rows of its margins only (none:
        the bottom widget is asked for 0 rows, the marker).  Only a FIXED top widget (width='pack') must
        still have a row: Overlay refuses it with OverlayError (known finding). ---- *)
Theorem render_contract_partial_ext :
  forall w sz f, leaves_ok2 w -> WellFormed w -> proved_fragment2 w = true ->
    sz <> SFixed -> valid_for (m_sizing (denote w)) sz ->
    match m_render (denote w) sz f with
    | Ok d => meets (denote w) sz f d
    | Err e => soft e
    end.
Proof.
  intros w sz f Hl Hw Hf Hn Hv.
  exact (render_contract_from_good _ (denote w) sz f (contract_ext w Hw Hf Hl) Hn Hv).
Qed.
Print Assumptions render_contract_partial_ext.

(* ---- FIXED sizing: render(()) has exactly the size pack(()) reports, for leaves, AttrMap / LineBox
        delegation, Padding with a given or pack width whose min_width does not exceed the width (the
        other fixed Paddings are the known finding refuted below), Overlay with a given or relative
        width, Pile (its 'pack' items are flow widgets by WellFormed: a fixed-only 'pack' item is the
        known finding "Pile does not pad fixed-only children"), Columns and therefore LineBox; nodes that
        do not claim FIXED sizing are never asked.  [fixed_fragment] says exactly which nodes are covered:
        everything in the box/flow fragment except the fixed Paddings of the known finding and relative
        Overlay widths above 100%. ---- *)
Theorem fixed_contract_partial :
  forall w f, leaves_ok w -> leaves_fx w -> WellFormed w -> proved_fragment w = true -> fixed_fragment w = true ->
    s_fixed (m_sizing (denote w)) = true ->
    match m_render (denote w) SFixed f with
    | Ok d => meets (denote w) SFixed f d          (* pack(()) = (cols, rows) of the canvas; rect; cursor inside *)
    | Err e => soft e
    end.
Proof.
  intros w f Hl Hx Hw Hp Hf Hs.
  exact (gx_render _ (fixed_contract_by_induction w Hw Hp Hf Hl Hx) Hs f).
Qed.
Print Assumptions fixed_contract_partial.

(* the same induction also gives what containers rely on: rows() is positive and pack((c,)) agrees with it *)
Theorem rows_and_pack_partial :
  forall w c f, leaves_ok w -> WellFormed w -> proved_fragment w = true ->
    s_flow (m_sizing (denote w)) = true -> 1 <= c ->
    match m_rows (denote w) c f with
    | Ok h => 1 <= h /\ exists wd, 0 <= wd /\ m_pack (denote w) (SFlow c) f = Ok (wd, h)
    | Err e => soft e
    end.
Proof.
  intros w c f Hl Hw Hf Hs Hc.
  pose proof (contract_by_structural_induction w Hw Hf Hl) as G.
  pose proof (g_rows _ G c f Hs Hc) as R. pose proof (g_pack _ G c f Hs Hc) as P.
  destruct (m_rows (denote w) c f); auto.
Qed.
Print Assumptions rows_and_pack_partial.

Theorem rows_and_pack_partial_ext :
  forall w c f, leaves_ok2 w -> WellFormed w -> proved_fragment2 w = true ->
    s_flow (m_sizing (denote w)) = true -> 1 <= c ->
    match m_rows (denote w) c f with
    | Ok h => min_rows w <= h /\ exists wd, 0 <= wd /\ m_pack (denote w) (SFlow c) f = Ok (wd, h)
    | Err e => soft e
    end.
Proof.
  intros w c f Hl Hw Hf Hs Hc.
  pose proof (contract_ext w Hw Hf Hl) as G.
  pose proof (g_rows _ G c f Hs Hc) as R. pose proof (g_pack _ G c f Hs Hc) as P.
  destruct (m_rows (denote w) c f); auto.
Qed.
Print Assumptions rows_and_pack_partial_ext.

(* the hypotheses about a leaf are implied by plain conditions on what the leaf reports *)
Theorem leaf_contract_sufficient :
  forall d, leaf_contract d -> leaf_fixed_ok d -> Good (leaf_sem d) /\ fpack_ok (leaf_sem d).
Proof. exact leaf_hyps. Qed.
Print Assumptions leaf_contract_sufficient.

(* the per-constructor lemmas, for arbitrary children satisfying the contract *)
Theorem attrmap_contract : forall s, Good s -> Good (attr_sem s).
Proof. exact (attr_good 1). Qed.
Theorem boxadapter_contract : forall s h, Good s -> s_box (m_sizing s) = true -> 1 <= h -> Good (boxadapter_sem s h).
Proof. intros s h G Hb Hh. apply (boxadapter_good 1 1); auto; lia. Qed.
Theorem padding_contract : forall s align wt mw l r,
  Good s -> wt <> WClip -> padding_child_ok (m_sizing s) wt = true -> 0 <= l -> 0 <= r ->
  Good (padding_sem s align wt mw l r).
Proof. exact (padding_good 1). Qed.
Theorem filler_contract : forall s va ht mh t b,
  Good s -> filler_child_ok (m_sizing s) ht = true -> 0 <= t -> 0 <= b -> Good (filler_sem s va ht mh t b).
Proof. intros s va ht mh t b G. apply filler_good; auto; lia. Qed.
Theorem pile_contract : forall l fp,
  l <> [] -> Forall pgood l -> Forall (pile_ok (pile_sizing l)) l -> Good (pile_sem l fp).
Proof. intros l fp Hne. apply pile_good; [lia|auto]. Qed.
Print Assumptions pile_contract.
(* a Pile whose items may have no rows, the empty Pile included *)
Theorem pile_contract_zero_rows : forall l fp,
  Forall (pgoodN 0) l -> Forall (pile_ok (pile_sizing l)) l -> GoodN 0 (pile_sem l fp).
Proof. intros l fp. apply pile_good; [lia|intros; lia]. Qed.
Theorem frame_contract : forall body hd ft fpart,
  Good body -> s_box (m_sizing body) = true -> opt_flow_good hd -> opt_flow_good ft ->
  Good (frame_sem body hd ft fpart).
Proof. intros body hd ft fpart. apply (frame_good 1 1). lia. Qed.
Print Assumptions frame_contract.
Theorem overlay_contract : forall t b p,
  Good t -> Good b -> s_box (m_sizing b) = true -> overlay_given p ->
  overlay_top_ok (m_sizing t) p = true -> Good (overlay_sem t b p).
Proof. intros t b p Gt Gb. apply overlay_good1; auto. exists 1. exact Gb. Qed.
(* the top widget may have no rows (nt = 0): the Overlay then has overlay_min_rows nt p rows at least *)
Theorem overlay_contract_zero_rows : forall nt t b p,
  0 <= nt <= 1 -> GoodN nt t -> (exists nb, GoodN nb b) -> s_box (m_sizing b) = true -> overlay_given p ->
  overlay_top_ok (m_sizing t) p = true -> GoodN (overlay_min_rows nt p) (overlay_sem t b p).
Proof. exact overlay_good. Qed.
Print Assumptions overlay_contract.
(* the columns may hold widgets without rows; Columns itself always has at least one (ba7db6e) *)
Theorem columns_contract : forall l d mw fp,
  Forall (cgoodN 0) l -> Forall (cols_item_ok (cols_sizing l)) l ->
  0 <= d -> 1 <= mw -> 0 <= fp < zlength l -> Good (cols_sem l d mw fp).
Proof. intros l d mw fp. apply (cols_good 0). lia. Qed.
Print Assumptions columns_contract.

(* ---- concrete leaves (they also show that the leaf hypothesis is satisfiable) ---- *)
(* a one-line text *)
Definition line_leaf : leafdata :=
  mkLeaf (mkS false true true)
    (fun _ c => Ok (mkFE (Ok 1) (Ok (1, 1)) (Ok (mkC c 1 None true))))
    (fun _ => Ok (1, 1)) (fun _ => Ok (mkC 1 1 None true)) (fun _ _ _ => Err EValue).
(* Text("ab cd"): 1 row from 5 columns on, 2 rows from 2, 4 rows at 1 column *)
Definition wrap_rows_of (c : Z) : Z := if c <? 2 then 4 else if c <? 5 then 2 else 1.
Definition wrap_leaf : leafdata :=
  mkLeaf (mkS false true true)
    (fun _ c => Ok (mkFE (Ok (wrap_rows_of c)) (Ok (Z.min c 5, wrap_rows_of c)) (Ok (mkC c (wrap_rows_of c) None true))))
    (fun _ => Ok (5, 1)) (fun _ => Ok (mkC 5 1 None true)) (fun _ _ _ => Err EValue).
(* an Edit: one line, cursor at the start when focused *)
Definition edit_leaf : leafdata :=
  mkLeaf (mkS false true false)
    (fun f c => Ok (mkFE (Ok 1) (Ok (c, 1)) (Ok (mkC c 1 (if f then Some (0, 0) else None) true))))
    (fun _ => Err EWidget) (fun _ => Err EValue) (fun _ _ _ => Err EValue).
(* SolidFill *)
Definition solid_leaf : leafdata :=
  mkLeaf (mkS true false false)
    (fun _ _ => Err EOther) (fun _ => Err EWidget) (fun _ => Err EValue)
    (fun c r _ => Ok (mkC c r None true)).

Lemma line_leaf_ok : leaf_contract line_leaf.
Proof.
  split; [|intros; discriminate]. intros c f _ Hc.
  eexists; exists 1, 1. cbn. repeat split; auto; lia.
Qed.
Lemma line_leaf_fixed : leaf_fixed_ok line_leaf.
Proof. intros _ f. cbn. lia. Qed.
Lemma wrap_leaf_ok : leaf_contract wrap_leaf.
Proof.
  split; [|intros; discriminate]. intros c f _ Hc.
  eexists; exists (wrap_rows_of c), (Z.min c 5). cbn. unfold wrap_rows_of.
  repeat split; auto; destruct (c <? 2); try destruct (c <? 5); lia.
Qed.
Lemma wrap_leaf_fixed : leaf_fixed_ok wrap_leaf.
Proof. intros _ f. cbn. lia. Qed.
Lemma edit_leaf_ok : leaf_contract edit_leaf.
Proof.
  split; [|intros; discriminate]. intros c f _ Hc.
  eexists; exists 1, c. cbn. repeat split; auto; try lia. unfold inside; destruct f; cbn; auto; lia.
Qed.
Lemma edit_leaf_fixed : leaf_fixed_ok edit_leaf.
Proof. intros H; discriminate. Qed.
Lemma solid_leaf_ok : leaf_contract solid_leaf.
Proof.
  split; [intros; discriminate|]. intros c r f _ Hc Hr. cbn. repeat split; auto.
Qed.
Lemma solid_leaf_fixed : leaf_fixed_ok solid_leaf.
Proof. intros H; discriminate. Qed.

Definition line_ok := leaf_hyps _ line_leaf_ok line_leaf_fixed.
Definition wrap_ok := leaf_hyps _ wrap_leaf_ok wrap_leaf_fixed.
Definition edit_ok := leaf_hyps _ edit_leaf_ok edit_leaf_fixed.
Definition solid_ok := leaf_hyps _ solid_leaf_ok solid_leaf_fixed.

(* ---- the full statement is FALSE of the faithful model: a witness replayed on the implementation by
        corpus/C01 (known finding C01-padding-fixed-pack-differs-from-render) ---- *)
(* Padding(Text("a"), 'left', 'pack', min_width=2, right=1) as a fixed widget: pack(()) = (3, 1) but
   render(()) is 2 columns wide *)
Definition padding_fixed_witness : widget := WPadding (WLeaf line_leaf) 0 WPack (Some 2) 0 1.
Theorem render_contract_full_refuted : ~ render_contract_full.
Proof.
  intros H.
  specialize (H padding_fixed_witness SFixed false line_ok eq_refl eq_refl).
  vm_compute in H. destruct H as [H _]. discriminate.
Qed.
Print Assumptions render_contract_full_refuted.

Example padding_fixed_witness_values :
  m_pack (denote padding_fixed_witness) SFixed false = Ok (3, 1)
  /\ m_render (denote padding_fixed_witness) SFixed false = Ok (mkC 2 1 None true).
Proof. vm_compute. split; reflexivity. Qed.

(* Overlay(Text("ab cd"), SolidFill, 'left', 1, 'top', 'pack').render((7, 1)) raised ValueError before
   f18097d (the height was asked at 7 columns, the top widget rendered 1 column wide); repaired: regression *)
Definition overlay_witness : widget :=
  WOverlay (WLeaf wrap_leaf) (WLeaf solid_leaf) (mkOv 0 (WGiven 1) 0 HPack None None 0 0 0 0).
Example overlay_pack_height_repaired :
  WellFormed overlay_witness /\ proved_fragment overlay_witness = true
  /\ m_render (denote overlay_witness) (SBox 7 1) false = Ok (mkC 7 1 None true)
  /\ m_render (denote overlay_witness) (SBox 7 9) false = Ok (mkC 7 9 None true).
Proof. vm_compute. repeat split; reflexivity. Qed.

(* a box Pile whose given rows overflow cuts the focused Edit away; since aa8a06a the cursor is dropped
   with the rows (it used to stay at row 5 of a 1-row canvas) *)
Definition cut_witness : widget :=
  WPile (PCons (WLeaf solid_leaf) KGiven 5 (PCons (WLeaf edit_leaf) KPack 0 PNil)) 1.
Example trimmed_cursor_is_dropped :
  wf_b cut_witness = true /\ proved_fragment cut_witness = true
  /\ m_render (denote cut_witness) (SBox 1 1) true = Ok (mkC 1 1 None true)
  /\ m_render (denote cut_witness) (SBox 4 8) true = Ok (mkC 4 8 (Some (0, 5)) true).
Proof. vm_compute. repeat split; reflexivity. Qed.

(* ---- non-vacuity: a tree of depth 4 inside the fragment, all hypotheses hold, and the model computes ---- *)
Definition sample_pile : widget :=
  WPile
    (PCons (WPadding (WLeaf wrap_leaf) 50 (WRelative 50) None 1 0) KPack 0
    (PCons (WFiller (WAttr (WLeaf edit_leaf)) 50 HPack None 0 1) KWeight 2
    (PCons (WBoxAdapter (WPile (PCons (WLeaf solid_leaf) KWeight 1 PNil) 0) 2) KPack 0
    (PCons (WLeaf solid_leaf) KGiven 1 PNil)))) 1.
Definition sample_tree : widget :=
  WFrame sample_pile (OSome (WLeaf wrap_leaf)) (OSome (WLeaf edit_leaf)) 2.

Example sample_tree_in_scope :
  WellFormed sample_tree /\ proved_fragment sample_tree = true /\ leaves_ok sample_tree
  /\ m_sizing (denote sample_tree) = mkS true false false.
Proof.
  split; [reflexivity|]. split; [reflexivity|]. split; [|reflexivity].
  cbn. repeat (first [exact wrap_ok | exact edit_ok | exact solid_ok | exact line_ok | split]).
Qed.

Example sample_tree_renders :
  m_render (denote sample_tree) (SBox 10 9) true = Ok (mkC 10 9 (Some (0, 8)) true)
  /\ m_render (denote sample_pile) (SBox 10 9) true = Ok (mkC 10 9 (Some (0, 2)) true)
  /\ m_render (denote sample_pile) (SBox 3 2) false = Ok (mkC 3 2 None true)
  /\ m_render (denote sample_pile) (SBox 1 4) false = Err EStarved.
Proof. vm_compute. repeat split; reflexivity. Qed.

(* ---- LineBox(Edit) as urwid builds it: an AttrMap-like delegation to a Pile of three Columns ---- *)
(* Divider: one row at any width, flow only *)
Definition divider_leaf : leafdata :=
  mkLeaf (mkS false true false)
    (fun _ c => Ok (mkFE (Ok 1) (Ok (c, 1)) (Ok (mkC c 1 None true))))
    (fun _ => Err EWidget) (fun _ => Err EValue) (fun _ _ _ => Err EValue).
(* the title Text " t ": 3 columns *)
Definition title_leaf : leafdata :=
  mkLeaf (mkS false true true)
    (fun _ c => Ok (mkFE (Ok (if c <? 3 then 3 else 1)) (Ok (Z.min c 3, if c <? 3 then 3 else 1))
                         (Ok (mkC c (if c <? 3 then 3 else 1) None true))))
    (fun _ => Ok (3, 1)) (fun _ => Ok (mkC 3 1 None true)) (fun _ _ _ => Err EValue).

Lemma divider_ok : Good (leaf_sem divider_leaf) /\ fpack_ok (leaf_sem divider_leaf).
Proof.
  apply leaf_hyps; [|intros H; discriminate].
  split; [|intros; discriminate]. intros c f _ Hc. eexists; exists 1, c. cbn. repeat split; auto; lia.
Qed.
Lemma title_ok : Good (leaf_sem title_leaf) /\ fpack_ok (leaf_sem title_leaf).
Proof.
  apply leaf_hyps; [|intros _ f; cbn; lia].
  split; [|intros; discriminate]. intros c f _ Hc.
  eexists; exists (if c <? 3 then 3 else 1), (Z.min c 3). cbn. repeat split; auto; destruct (c <? 3); lia.
Qed.

Definition linebox (w : widget) : widget :=
  let tline := WColumns (CCons (WLeaf divider_leaf) KWeight 1 false
                        (CCons (WLeaf title_leaf) KPack 0 false
                        (CCons (WLeaf divider_leaf) KWeight 1 false CNil))) 0 1 0 in
  let top := WColumns (CCons (WLeaf line_leaf) KGiven 1 false
                      (CCons tline KWeight 1 false
                      (CCons (WLeaf line_leaf) KGiven 1 false CNil))) 0 1 0 in
  let middle := WColumns (CCons (WLeaf solid_leaf) KGiven 1 true
                         (CCons w KWeight 1 false
                         (CCons (WLeaf solid_leaf) KGiven 1 true CNil))) 0 1 1 in
  let bottom := WColumns (CCons (WLeaf line_leaf) KGiven 1 false
                         (CCons (WLeaf divider_leaf) KWeight 1 false
                         (CCons (WLeaf line_leaf) KGiven 1 false CNil))) 0 1 0 in
  WAttr (WPile (PCons top KPack 0 (PCons middle KWeight 1 (PCons bottom KPack 0 PNil))) 1).

Example linebox_in_scope :
  WellFormed (linebox (WLeaf edit_leaf)) /\ proved_fragment (linebox (WLeaf edit_leaf)) = true
  /\ leaves_ok (linebox (WLeaf edit_leaf))
  /\ WellFormed (linebox (WLeaf solid_leaf)) /\ proved_fragment (linebox (WLeaf solid_leaf)) = true
  /\ WellFormed (linebox sample_pile) /\ proved_fragment (linebox sample_pile) = true.
Proof.
  split; [reflexivity|]. split; [reflexivity|]. split.
  - cbn. repeat (first [exact line_ok | exact edit_ok | exact solid_ok | exact divider_ok | exact title_ok | split]).
  - repeat split; reflexivity.
Qed.

Example linebox_renders :
  m_render (denote (linebox (WLeaf edit_leaf))) (SFlow 9) true = Ok (mkC 9 3 (Some (1, 1)) true)
  /\ m_rows (denote (linebox (WLeaf edit_leaf))) 9 true = Ok 3
  /\ m_render (denote (linebox (WLeaf solid_leaf))) (SBox 6 4) false = Ok (mkC 6 4 None true).
Proof. vm_compute. repeat split; reflexivity. Qed.

(* ---- FIXED sizing examples ---- *)
Lemma line_fx : GoodFx (leaf_sem line_leaf).
Proof. apply leaf_fx_sufficient; intros _ f; cbn; repeat split; auto; lia. Qed.
Lemma wrap_fx : GoodFx (leaf_sem wrap_leaf).
Proof. apply leaf_fx_sufficient; intros _ f; cbn; repeat split; auto; lia. Qed.

Theorem pile_fixed_contract : forall l fp, l <> [] -> Forall pfx_ok l -> GoodFx (pile_sem l fp).
Proof. exact pile_fx. Qed.
Print Assumptions pile_fixed_contract.
Theorem columns_fixed_contract : forall l d mw fp,
  0 <= d -> 1 <= mw -> Forall cfx_ok l -> Exists (fun it => ci_box it = false) l -> GoodFx (cols_sem l d mw fp).
Proof. exact cols_fx. Qed.
Print Assumptions columns_fixed_contract.

(* AttrMap(Padding(Text("ab cd"), 'center', 'pack', left=1, right=2)) and an Overlay of a given size *)
Definition fixed_sample : widget := WAttr (WPadding (WLeaf wrap_leaf) 50 WPack None 1 2).
Definition fixed_overlay : widget :=
  WOverlay (WLeaf wrap_leaf) (WLeaf solid_leaf) (mkOv 50 (WGiven 3) 50 HPack None None 1 0 0 1).
Example fixed_samples_in_scope :
  WellFormed fixed_sample /\ proved_fragment fixed_sample = true /\ fixed_fragment fixed_sample = true
  /\ m_pack (denote fixed_sample) SFixed false = Ok (8, 1)
  /\ m_render (denote fixed_sample) SFixed false = Ok (mkC 8 1 None true)
  /\ WellFormed fixed_overlay /\ proved_fragment fixed_overlay = true /\ fixed_fragment fixed_overlay = true
  /\ m_pack (denote fixed_overlay) SFixed false = Ok (4, 3)
  /\ m_render (denote fixed_overlay) SFixed false = Ok (mkC 4 3 None true)
  (* the refuted Padding is outside the fixed fragment *)
  /\ fixed_fragment padding_fixed_witness = false
  (* Pile([('pack', Text("ab cd")), Text("a")]) as a fixed widget *)
  /\ (let p := WPile (PCons (WLeaf wrap_leaf) KPack 0 (PCons (WLeaf line_leaf) KWeight 1 PNil)) 0 in
      WellFormed p /\ proved_fragment p = true /\ fixed_fragment p = true
      /\ m_pack (denote p) SFixed false = Ok (5, 2)
      /\ m_render (denote p) SFixed false = Ok (mkC 5 2 None true)).
Proof. vm_compute. repeat split; reflexivity. Qed.

(* LineBox(Text("ab cd")) as a fixed widget: 7 x 3 *)
Example linebox_fixed :
  WellFormed (linebox (WLeaf wrap_leaf)) /\ proved_fragment (linebox (WLeaf wrap_leaf)) = true
  /\ fixed_fragment (linebox (WLeaf wrap_leaf)) = true
  /\ m_pack (denote (linebox (WLeaf wrap_leaf))) SFixed false = Ok (7, 3)
  /\ m_render (denote (linebox (WLeaf wrap_leaf))) SFixed false = Ok (mkC 7 3 None true).
Proof. vm_compute. repeat split; reflexivity. Qed.

(* Padding(Text("ab cd"), 'right', 'clip', left=1) and Overlay(Text("ab cd"), SolidFill, 'center', 'pack',
   'middle', 'pack'): in the extended fragment; clipped at 3 columns *)
Definition clip_sample : widget := WPadding (WLeaf wrap_leaf) 100 WClip None 1 0.
Definition overlay_pack_sample : widget :=
  WOverlay (WLeaf wrap_leaf) (WLeaf solid_leaf) (mkOv 50 WPack 50 HPack None None 0 0 0 0).
Example ext_samples_in_scope :
  WellFormed clip_sample /\ proved_fragment2 clip_sample = true
  /\ m_render (denote clip_sample) (SFlow 9) false = Ok (mkC 9 1 None true)
  /\ m_render (denote clip_sample) (SFlow 3) false = Ok (mkC 3 1 None true)
  /\ WellFormed overlay_pack_sample /\ proved_fragment2 overlay_pack_sample = true
  /\ m_render (denote overlay_pack_sample) (SBox 9 3) false = Ok (mkC 9 3 None true)
  /\ m_render (denote overlay_pack_sample) (SBox 3 1) false = Ok (mkC 3 1 None true).
Proof. vm_compute. repeat split; reflexivity. Qed.
Example ext_samples_leaves : leaves_ok2 clip_sample /\ leaves_ok2 overlay_pack_sample.
Proof.
  cbn. repeat (first [exact wrap_ok | exact solid_ok | exact wrap_fx | split]).
Qed.

(* ---- widgets without rows (ba7db6e): the empty Pile is inside [proved_fragment2]; a flow Columns whose
        columns all have no rows reports and renders one row; LineBox around it has three ---- *)
Definition empty_pile : widget := WPile PNil 0.
Definition cols_of_empty : widget := WColumns (CCons empty_pile KWeight 1 false CNil) 0 1 0.
Definition cols_box_and_empty : widget :=
  WColumns (CCons (WLeaf solid_leaf) KGiven 2 true (CCons (WAttr empty_pile) KWeight 1 false CNil)) 1 1 1.
Example zero_row_children_in_scope :
  WellFormed empty_pile /\ proved_fragment2 empty_pile = true /\ min_rows empty_pile = 0
  /\ WellFormed cols_of_empty /\ proved_fragment2 cols_of_empty = true /\ min_rows cols_of_empty = 1
  /\ WellFormed cols_box_and_empty /\ proved_fragment2 cols_box_and_empty = true
  /\ WellFormed (linebox empty_pile) /\ proved_fragment2 (linebox empty_pile) = true
  /\ min_rows (linebox empty_pile) = 1.
Proof. vm_compute. repeat split; reflexivity. Qed.
Example zero_row_children_render :
  m_rows (denote empty_pile) 5 false = Ok 0
  /\ m_render (denote empty_pile) (SFlow 5) false = Ok (mkC 5 0 None true)
  /\ m_rows (denote cols_of_empty) 5 false = Ok 1
  /\ m_render (denote cols_of_empty) (SFlow 5) false = Ok (mkC 5 1 None true)
  /\ m_rows (denote cols_box_and_empty) 7 false = Ok 1
  /\ m_render (denote cols_box_and_empty) (SFlow 7) false = Ok (mkC 7 1 None true)
  /\ m_rows (denote (linebox empty_pile)) 5 false = Ok 3
  /\ m_render (denote (linebox empty_pile)) (SFlow 5) false = Ok (mkC 5 3 None true).
Proof. vm_compute. repeat split; reflexivity. Qed.
Example zero_row_leaves : leaves_ok2 (linebox empty_pile) /\ leaves_ok2 cols_box_and_empty.
Proof.
  cbn. repeat (first [exact line_ok | exact solid_ok | exact divider_ok | exact title_ok | split]).
Qed.

(* f9cf74e: an Overlay over a top widget without rows (height='pack') shows the bottom widget *)
Definition overlay_of_empty : widget :=
  WOverlay empty_pile (WLeaf solid_leaf) (mkOv 0 (WGiven 3) 0 HPack None None 0 0 0 0).
Definition overlay_of_empty_margins : widget :=
  WOverlay (WAttr empty_pile) (WLeaf solid_leaf) (mkOv 50 (WRelative 50) 100 HPack None None 1 0 2 1).
Example overlay_zero_row_top :
  WellFormed overlay_of_empty /\ proved_fragment2 overlay_of_empty = true /\ min_rows overlay_of_empty = 0
  /\ m_render (denote overlay_of_empty) (SBox 5 3) false = Ok (mkC 5 3 None true)
  /\ m_render (denote overlay_of_empty) (SBox 1 7) true = Ok (mkC 1 7 None true)
  /\ m_rows (denote overlay_of_empty) 5 false = Ok 0
  /\ m_render (denote overlay_of_empty) (SFlow 5) false = Err EStarved
  /\ WellFormed overlay_of_empty_margins /\ proved_fragment2 overlay_of_empty_margins = true
  /\ m_rows (denote overlay_of_empty_margins) 6 false = Ok 3
  /\ m_render (denote overlay_of_empty_margins) (SFlow 6) false = Ok (mkC 6 3 None true)
  /\ leaves_ok2 overlay_of_empty /\ leaves_ok2 overlay_of_empty_margins.
Proof.
  repeat (split; [vm_compute; reflexivity|]).
  split; cbn; repeat (first [exact solid_ok | split]).
Qed.
