(* C01 - placeholder while the model is being validated; replaced by the real statements. *)
From Coq Require Import ZArith List Bool.
From Urwid Require Import WidgetDims.
Open Scope Z_scope.
Theorem c01_stub : forall c r, cc (blank c r) = c.
Proof. reflexivity. Qed.
Print Assumptions c01_stub.
