(* placeholder while the harness is brought up; replaced by the real statements *)
From Coq Require Import ZArith List Bool.
Import ListNotations.
From Urwid Require Import PyBase PyList Utf8 Width.
Open Scope Z_scope.
Example model_runs : calc_width wcwidth_tab MStr [97; 19990; 769] 0 3 = Ok 3.
Proof. vm_compute. reflexivity. Qed.
Print Assumptions model_runs.
