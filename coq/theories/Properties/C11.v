(* C11 - Screen-width arithmetic is consistent for text in every encoding.
   Only statements here; every proof is [exact <lemma>] into Proofs/*.v.

   Model: Model/Width.v.  str = list of code points, bytes = list of bytes.  The width function
   is a parameter [wcw] (= wcwidth.wcwidth); get_char_width is the TRANSLATED clamp
   [get_char_width_gen wcw]; every theorem holds for every [wcw] with [wcw c <= 2], and the
   dumped table of the installed wcwidth satisfies that ([width_table_bounded]).
   decode_one's arithmetic, calc_trim_text and the DEC tables are regenerated from the source on
   every run (Gen/str_util_gen.v), the width table from the installed package (Gen/wcwidth_table_gen.v).

   [encs s] is the UTF-8 encoding of the code points s, [boff s k] the byte offset of character k
   (Base/Utf8.v), [scalars s]: every code point is a Unicode scalar value (what str.encode accepts). *)
From Coq Require Import ZArith List Bool.
Import ListNotations.
From Urwid Require Import PyBase PyList Utf8 wcwidth_table_gen str_util_gen str_loops_gen Width
     WidthFacts WidthProofs Utf8Proofs Utf8Total Utf8Shape TrimTotal OffsetTotal GenEq WidthTableLookup WideProofs WideExact RleProofs WidthTableProofs WidthTop WidthInterface.
Open Scope Z_scope.

(* ================= clause 1: widths are additive over character boundaries ================= *)
Theorem calc_width_app :
  forall wcw text a b c, 0 <= a <= b -> b <= c -> c <= zlen text ->
  exists w1 w2, calc_width wcw MStr text a b = Ok w1 /\ calc_width wcw MStr text b c = Ok w2 /\
                calc_width wcw MStr text a c = Ok (w1 + w2).
Proof. exact calc_width_app_str. Qed.
Print Assumptions calc_width_app.

Theorem calc_width_bounds :
  forall wcw, (forall c, wcw c <= 2) -> forall text a b w, 0 <= a <= b -> b <= zlen text ->
  calc_width wcw MStr text a b = Ok w -> 0 <= w <= 2 * (b - a).
Proof. exact calc_width_str_range. Qed.
Print Assumptions calc_width_bounds.

(* ================= clause 2: the offset found for a target column (str) =================
   result (p, c): inside the range, c is the width of [start, p), not beyond the requested column,
   and maximal: either the end was reached or the next character does not fit; every earlier
   character fits (p is the FIRST position whose character does not fit). *)
Theorem calc_text_pos_spec :
  forall wcw text a b col, 0 <= a <= b -> b <= zlen text -> 0 <= col ->
  exists p c, calc_text_pos wcw MStr text a b col = Ok (p, c) /\
    a <= p <= b /\ calc_width wcw MStr text a p = Ok c /\ c <= col /\
    (p = b \/ exists ch, nthz text p = Some ch /\ col < c + cw wcw ch) /\
    (forall j, a <= j < p -> exists w, calc_width wcw MStr text a (j + 1) = Ok w /\ w <= col).
Proof. exact top_calc_text_pos_spec. Qed.
Print Assumptions calc_text_pos_spec.

(* ================= clause 2 for UTF-8 bytes: the byte functions agree with the str functions
   through the boundary map, so a result offset is always a character boundary ================= *)
Theorem utf8_decode_one_roundtrip :
  forall pre c post, 0 <= c < 1114112 ->
  decode_one (pre ++ utf8_encode c ++ post) (zlen pre) = Ok (c, zlen pre + zlen (utf8_encode c)) /\
  1 <= zlen (utf8_encode c) <= 4.
Proof. exact top_utf8_roundtrip. Qed.
Print Assumptions utf8_decode_one_roundtrip.

Theorem bytes_agree_with_str :
  forall wcw s a b col, scalars s -> 0 <= a <= b -> b <= zlen s ->
  calc_width wcw MUtf8 (encs s) (boff s a) (boff s b) = calc_width wcw MStr s a b /\
  exists p c, calc_text_pos wcw MStr s a b col = Ok (p, c) /\ a <= p <= b /\
              calc_text_pos wcw MUtf8 (encs s) (boff s a) (boff s b) col = Ok (boff s p, c).
Proof. exact top_bytes_agree. Qed.
Print Assumptions bytes_agree_with_str.

Theorem strict_decoder_accepts_encoded_text :
  forall s, scalars s -> strict_decode (encs s) = Some s.
Proof. exact top_strict_decoder. Qed.
Print Assumptions strict_decoder_accepts_encoded_text.

Theorem is_wide_char_agrees :
  forall wcw s a ch, scalars s -> nthz s a = Some ch ->
  is_wide_char wcw MStr s a = Ok (cw wcw ch =? 2) /\
  is_wide_char wcw MUtf8 (encs s) (boff s a) = Ok (cw wcw ch =? 2).
Proof. intros wcw s a ch Hs Hn. split; [exact (is_wide_char_str wcw s a ch Hn)|exact (top_is_wide_utf8 wcw s a ch Hs Hn)]. Qed.
Print Assumptions is_wide_char_agrees.

(* ANY byte string (valid UTF-8 or not): decode_one yields a value chr() accepts and advances by 1..4
   bytes, so the UTF-8 width queries return a value for every in-range offset - never an exception *)
Theorem decode_one_total_any_bytes :
  forall text i, bytes text -> 0 <= i < zlen text ->
  exists o n, decode_one text i = Ok (o, n) /\ 0 <= o < 1114112 /\ i + 1 <= n <= i + 4.
Proof. exact decode_one_total. Qed.
Print Assumptions decode_one_total_any_bytes.

Theorem utf8_width_queries_never_raise :
  forall wcw text a b col, bytes text -> 0 <= a <= b -> b <= zlen text ->
  (exists w, calc_width wcw MUtf8 text a b = Ok w) /\
  (exists p c, calc_text_pos wcw MUtf8 text a b col = Ok (p, c)) /\
  (b < zlen text -> exists x, is_wide_char wcw MUtf8 text b = Ok x).
Proof. exact utf8_width_queries_total. Qed.
Print Assumptions utf8_width_queries_never_raise.

(* ANY bytes: what decode_one consumes is a lead byte (>= 0xC0) followed by continuation bytes only - an
   ASCII byte or the lead byte of the following character is never swallowed into a malformed sequence *)
Theorem decode_one_consumes_only_continuation_bytes :
  forall text i o n, bytes text -> 0 <= i < zlen text -> decode_one text i = Ok (o, n) ->
  (forall t, i < t < n -> exists v, nthz text t = Some v /\ is_cont v = true) /\
  (i + 1 < n -> exists v, nthz text i = Some v /\ 192 <= v).
Proof. exact decode_one_shape. Qed.
Print Assumptions decode_one_consumes_only_continuation_bytes.

(* ================= clause 3: next character and back ================= *)
Theorem move_next_prev_inverse_str :
  forall text a b, a < b ->
  exists n, move_next_char MStr text a b = Ok n /\ n = a + 1 /\ move_prev_char MStr text a n = Ok a.
Proof. exact move_next_prev_str. Qed.
Print Assumptions move_next_prev_inverse_str.

Theorem move_next_prev_inverse_utf8 :
  forall s a b, scalars s -> 0 <= a < b -> b <= zlen s ->
  exists n, move_next_char MUtf8 (encs s) (boff s a) (boff s b) = Ok n /\ n = boff s (a + 1) /\
            move_prev_char MUtf8 (encs s) (boff s a) n = Ok (boff s a).
Proof. exact top_next_prev_utf8. Qed.
Print Assumptions move_next_prev_inverse_utf8.

Theorem move_prev_char_utf8_boundary :
  forall s a b, scalars s -> 0 <= a < b -> b <= zlen s ->
  move_prev_char MUtf8 (encs s) (boff s a) (boff s b) = Ok (boff s (b - 1)).
Proof. exact top_prev_utf8. Qed.
Print Assumptions move_prev_char_utf8_boundary.

(* ================= clause 3 on ARBITRARY input (any integers; invalid or truncated UTF-8, stray
   continuation bytes, lone lead bytes): the scans terminate, make progress and - when the start offset
   is on a character boundary - stay in range ================= *)
Theorem move_next_char_utf8_any_bytes :
  forall text a b, 0 <= a < b -> b <= zlen text ->
  exists r, move_next_char MUtf8 text a b = Ok r /\ a < r <= b /\
    (forall t, a < t < r -> exists v, nthz text t = Some v /\ is_contb v = true) /\
    (r = b \/ exists v, nthz text r = Some v /\ is_contb v = false).
Proof. exact move_next_char_utf8_any. Qed.
Print Assumptions move_next_char_utf8_any_bytes.

Theorem move_prev_char_utf8_never_loops :
  forall text a b, move_prev_char MUtf8 text a b <> Err RuntimeErrorK.
Proof. exact move_prev_char_utf8_terminates. Qed.
Print Assumptions move_prev_char_utf8_never_loops.

Theorem move_prev_char_utf8_any_bytes :
  forall text a b v, 0 <= a < b -> b <= zlen text -> nthz text a = Some v -> is_contb v = false ->
  exists r, move_prev_char MUtf8 text a b = Ok r /\ a <= r < b /\
    (exists w, nthz text r = Some w /\ is_contb w = false) /\
    (forall t, r < t < b -> exists w, nthz text t = Some w /\ is_contb w = true).
Proof. exact move_prev_char_utf8_any. Qed.
Print Assumptions move_prev_char_utf8_any_bytes.

(* without the boundary hypothesis "stays in range" is FALSE (the backwards scan has no lower bound):
   witnesses, replayed on the implementation by corpus/C11 (exact correspondence) *)
Theorem move_prev_char_utf8_stays_in_range_refuted :
  move_prev_char MUtf8 [128; 97] 0 1 = Ok (-1) /\
  move_prev_char MUtf8 [97; 128; 128] 1 3 = Ok 0 /\
  move_prev_char MUtf8 [128; 128] 0 2 = Err IndexError.
Proof. exact move_prev_char_utf8_out_of_range_witnesses. Qed.
Print Assumptions move_prev_char_utf8_stays_in_range_refuted.

Theorem move_prev_char_wide_any_bytes :
  forall text a b, 0 <= a < b -> b <= zlen text ->
  exists r, move_prev_char MWide text a b = Ok r /\ a <= r < b /\ (r = b - 1 \/ r = b - 2).
Proof. exact move_prev_char_wide_any. Qed.
Print Assumptions move_prev_char_wide_any_bytes.

Theorem move_next_char_wide_any_bytes :
  forall text a b, 0 <= a < b -> b <= zlen text ->
  exists r, move_next_char MWide text a b = Ok r /\ (r = a + 1 \/ r = a + 2) /\ r <= b + 1.
Proof. exact move_next_char_wide_any. Qed.
Print Assumptions move_next_char_wide_any_bytes.

(* r <= b is FALSE for a lone lead byte at the end of the range (truncated double-byte input) *)
Theorem move_next_char_wide_stays_in_range_refuted : move_next_char MWide [164] 0 1 = Ok 2.
Proof. exact move_next_char_wide_overshoot_witness. Qed.
Print Assumptions move_next_char_wide_stays_in_range_refuted.

(* ================= double-byte mode, EVERY byte string (no well-formedness needed):
   the offset found is never the second half of a double-byte character, is at most one
   column short of the request, and when it is short the position is a first half ================= *)
Theorem within_double_byte_never_2_at_result :
  forall wcw text a b col, 0 <= a <= b -> b <= zlen text -> 0 <= col ->
  exists p c, calc_text_pos wcw MWide text a b col = Ok (p, c) /\
    a <= p <= b /\ c = p - a /\ c <= col /\
    (p = b \/ col - 1 <= c) /\
    (p < b -> exists r, within_double_byte text a p = Ok r /\ r <> 2) /\
    (p < b -> c = col - 1 -> within_double_byte text a p = Ok 1).
Proof. exact calc_text_pos_wide_spec. Qed.
Print Assumptions within_double_byte_never_2_at_result.

Theorem within_double_byte_second_half_follows_first_half :
  forall text ls pos, 0 <= ls <= pos -> pos < zlen text -> within_double_byte text ls pos = Ok 2 ->
  ls <= pos - 1 /\ within_double_byte text ls (pos - 1) = Ok 1.
Proof. exact wdb_2_prev_1. Qed.
Print Assumptions within_double_byte_second_half_follows_first_half.

Theorem narrow_and_wide_widths_count_bytes :
  forall wcw m text a b, (m = MWide \/ m = MNarrow) -> a <= b -> calc_width wcw m text a b = Ok (b - a).
Proof. exact calc_width_bytes_count. Qed.
Print Assumptions narrow_and_wide_widths_count_bytes.

Theorem narrow_text_pos :
  forall wcw text a b col, 0 <= a <= b -> 0 <= col ->
  calc_text_pos wcw MNarrow text a b col = Ok (Z.min b (a + col), Z.min b (a + col) - a).
Proof. exact calc_text_pos_narrow_spec. Qed.
Print Assumptions narrow_text_pos.

(* Well-formed double-byte text (WideExact.v): a list of characters, each a single byte < 0x80 or a
   pair lead 0x81..0xFF, trail 0x40..0x7E or 0x80..0xFF (EUC-JP/KR/CN, Big5, GBK, UHC), at any
   position inside a larger byte string, scanned from any boundary [ls = zlen A0]:
   within_double_byte is exact. *)
Theorem within_double_byte_exact :
  forall A0 m1 c m2 B0, Forall dbchar_ok (m1 ++ c :: m2) ->
  let text := A0 ++ dbflat (m1 ++ c :: m2) ++ B0 in
  let ls := zlen A0 in
  let p := zlen A0 + zlen (dbflat m1) in
  match c with
  | DSingle _ => within_double_byte text ls p = Ok 0
  | DDouble _ _ => within_double_byte text ls p = Ok 1 /\ within_double_byte text ls (p + 1) = Ok 2
  end.
Proof. exact wdb_exact. Qed.
Print Assumptions within_double_byte_exact.

Theorem move_next_prev_inverse_wide :
  forall pre c post, Forall dbchar_ok (pre ++ c :: post) ->
  let text := dbflat (pre ++ c :: post) in
  let a := zlen (dbflat pre) in
  exists n, move_next_char MWide text a (zlen text) = Ok n /\ n = a + zlen (dbbytes c) /\
            move_prev_char MWide text 0 n = Ok a.
Proof. exact WideExact.move_next_prev_inverse_wide. Qed.
Print Assumptions move_next_prev_inverse_wide.

Theorem is_wide_char_double_byte :
  forall wcw pre c post, Forall dbchar_ok (pre ++ c :: post) ->
  is_wide_char wcw MWide (dbflat (pre ++ c :: post)) (zlen (dbflat pre))
  = Ok (match c with DSingle _ => false | DDouble _ _ => true end).
Proof. exact is_wide_char_wide. Qed.
Print Assumptions is_wide_char_double_byte.

(* ---- the same facts by CHARACTER INDEX (Proofs/WidthInterface.v, the interface sibling properties import):
   [dboff cs k] is the byte offset of character k of the well-formed double-byte text [dbflat cs];
   [dbwf cs] has the boolean form [dbwfb cs = true] ---- *)
Theorem wide_within_double_byte_by_index :
  forall cs a k c, dbwf cs -> 0 <= a <= k -> k < zlen cs -> nthz cs k = Some c ->
  match c with
  | DSingle _ => within_double_byte (dbflat cs) (dboff cs a) (dboff cs k) = Ok 0
  | DDouble _ _ => within_double_byte (dbflat cs) (dboff cs a) (dboff cs k) = Ok 1 /\
                   within_double_byte (dbflat cs) (dboff cs a) (dboff cs k + 1) = Ok 2
  end.
Proof. exact wi_wide_within_double_byte. Qed.
Print Assumptions wide_within_double_byte_by_index.

Theorem wide_move_next_and_prev_land_on_boundaries :
  forall cs, dbwf cs ->
  (forall k c e, 0 <= k < zlen cs -> nthz cs k = Some c -> dboff cs k < e ->
     move_next_char MWide (dbflat cs) (dboff cs k) e = Ok (dboff cs (k + 1))) /\
  (forall a k, 0 <= a < k -> k <= zlen cs ->
     move_prev_char MWide (dbflat cs) (dboff cs a) (dboff cs k) = Ok (dboff cs (k - 1))).
Proof. exact wi_wide_move_next_prev_boundaries. Qed.
Print Assumptions wide_move_next_and_prev_land_on_boundaries.

Theorem wide_calc_text_pos_by_index :
  forall wcw cs a b col, dbwf cs -> 0 <= a <= b -> b <= zlen cs -> 0 <= col ->
  exists p c, calc_text_pos wcw MWide (dbflat cs) (dboff cs a) (dboff cs b) col = Ok (dboff cs p, c) /\
    a <= p <= b /\ c = dboff cs p - dboff cs a /\ c <= col /\
    (p = b \/ exists ch, nthz cs p = Some ch /\ col < c + zlen (dbbytes ch)).
Proof. exact wi_wide_calc_text_pos. Qed.
Print Assumptions wide_calc_text_pos_by_index.

Theorem wide_calc_width_additive :
  forall wcw cs a b c, 0 <= a <= b -> b <= c -> c <= zlen cs ->
  exists w1 w2, calc_width wcw MWide (dbflat cs) (dboff cs a) (dboff cs b) = Ok w1 /\
                calc_width wcw MWide (dbflat cs) (dboff cs b) (dboff cs c) = Ok w2 /\
                calc_width wcw MWide (dbflat cs) (dboff cs a) (dboff cs c) = Ok (w1 + w2).
Proof. exact wi_wide_calc_width_app. Qed.
Print Assumptions wide_calc_width_additive.

Theorem utf8_calc_text_pos_by_index :
  forall wcw s a b col, scalars s -> 0 <= a <= b -> b <= zlen s -> 0 <= col ->
  exists p c, calc_text_pos wcw MUtf8 (encs s) (boff s a) (boff s b) col = Ok (boff s p, c) /\
    a <= p <= b /\ calc_width wcw MUtf8 (encs s) (boff s a) (boff s p) = Ok c /\ c <= col /\
    (p = b \/ exists ch, nthz s p = Some ch /\ col < c + cw wcw ch).
Proof. exact wi_utf8_calc_text_pos. Qed.
Print Assumptions utf8_calc_text_pos_by_index.

Theorem utf8_calc_width_additive :
  forall wcw s a b c, scalars s -> 0 <= a <= b -> b <= c -> c <= zlen s ->
  exists w1 w2, calc_width wcw MUtf8 (encs s) (boff s a) (boff s b) = Ok w1 /\
                calc_width wcw MUtf8 (encs s) (boff s b) (boff s c) = Ok w2 /\
                calc_width wcw MUtf8 (encs s) (boff s a) (boff s c) = Ok (w1 + w2).
Proof. exact wi_utf8_calc_width_app. Qed.
Print Assumptions utf8_calc_width_additive.

Theorem double_byte_wellformedness_is_decidable : forall cs, dbwfb cs = true <-> dbwf cs.
Proof. exact wi_wide_dbwfb. Qed.
Print Assumptions double_byte_wellformedness_is_decidable.

(* ================= clause 4: trimming a line to a column range ================= *)
Theorem calc_trim_text_spec :
  forall wcw, (forall c, wcw c <= 2) ->
  forall text a b sc ec wl,
  0 <= a <= b -> b <= zlen text -> 0 <= sc < ec -> calc_width wcw MStr text a b = Ok wl -> ec <= wl ->
  exists sp ep pl pr ws,
    calc_trim_text wcw MStr text a b sc ec = Ok (sp, ep, pl, pr) /\
    a <= sp <= ep /\ ep <= b /\ (pl = 0 \/ pl = 1) /\ (pr = 0 \/ pr = 1) /\
    (* the total width is exactly the requested range *)
    calc_width wcw MStr text sp ep = Ok ws /\ pl + ws + pr = ec - sc /\
    (* the slice starts at the requested column (one later when padded) *)
    calc_width wcw MStr text a sp = Ok (sc + pl) /\
    (* each flag is set exactly when a character straddles that edge *)
    (pl = 1 <-> exists k w0 w1, a <= k < b /\ calc_width wcw MStr text a k = Ok w0 /\
                               calc_width wcw MStr text a (k + 1) = Ok w1 /\ w0 < sc < w1) /\
    (pr = 1 <-> exists k w0 w1, a <= k < b /\ calc_width wcw MStr text a k = Ok w0 /\
                               calc_width wcw MStr text a (k + 1) = Ok w1 /\ w0 < ec < w1).
Proof. exact top_trim_str. Qed.
Print Assumptions calc_trim_text_spec.

(* the same function (translated calc_trim_text_gen) on UTF-8 bytes returns the image of the str
   result under the boundary map, so the statement above transfers to the encoded text *)
Theorem calc_trim_text_utf8_agrees_with_str :
  forall wcw s a b sc ec, scalars s -> 0 <= a <= b -> b <= zlen s ->
  exists sp ep pl pr,
    calc_trim_text wcw MStr s a b sc ec = Ok (sp, ep, pl, pr) /\
    calc_trim_text wcw MUtf8 (encs s) (boff s a) (boff s b) sc ec = Ok (boff s sp, boff s ep, pl, pr).
Proof. exact top_trim_utf8. Qed.
Print Assumptions calc_trim_text_utf8_agrees_with_str.

(* the translated calc_trim_text meets the trimming specification for ANY position function that
   satisfies the calc_text_pos specification relative to a monotone width function F *)
Theorem calc_trim_text_generic_spec :
  forall (T : Type) (ctp : T -> Z -> Z -> Z -> result (Z * Z)) (text : T) (a b : Z)
         (F : Z -> Z) (valid : Z -> Prop) (nextb : Z -> Z),
  F a = 0 -> valid a ->
  (forall x y, valid x -> valid y -> x <= y -> F x <= F y) ->
  (forall x, valid x -> x < b -> valid (nextb x) /\ x < nextb x /\ F x <= F (nextb x) <= F x + 2 /\
                                   (forall y, valid y -> x < y -> nextb x <= y)) ->
  (forall x col, valid x -> 0 <= col ->
     exists p c, ctp text x b col = Ok (p, c) /\ valid p /\ x <= p /\ c = F p - F x /\ c <= col /\
                 (p = b \/ (p < b /\ col < c + (F (nextb p) - F p)))) ->
  forall start_col end_col, 0 <= start_col < end_col -> end_col <= F b -> valid b ->
  exists spos pos pl pr,
    calc_trim_text_gen T ctp text a b start_col end_col = Ok (spos, pos, pl, pr) /\
    valid spos /\ valid pos /\ spos <= pos /\ (pl = 0 \/ pl = 1) /\ (pr = 0 \/ pr = 1) /\
    F spos = start_col + pl /\ pl + (F pos - F spos) + pr = end_col - start_col /\
    (pl = 1 <-> straddles b F valid nextb start_col) /\ (pr = 1 <-> straddles b F valid nextb end_col).
Proof. exact calc_trim_text_generic. Qed.
Print Assumptions calc_trim_text_generic_spec.

(* single-byte ("narrow") mode: one column per byte, nothing can straddle an edge *)
Theorem calc_trim_text_narrow :
  forall wcw text a b sc ec, 0 <= a <= b -> 0 <= sc < ec -> ec <= b - a ->
  calc_trim_text wcw MNarrow text a b sc ec = Ok (a + sc, a + ec, 0, 0).
Proof. exact calc_trim_text_narrow_spec. Qed.
Print Assumptions calc_trim_text_narrow.

(* double-byte mode on well-formed double-byte text: the total width is the requested range, the slice
   starts at the requested column (one later when padded), and each flag is set exactly when that edge
   falls on the second half of a double-byte character *)
Theorem calc_trim_text_double_byte :
  forall wcw cs sc ec, Forall dbchar_ok cs -> 0 <= sc < ec -> ec <= zlen (dbflat cs) ->
  exists sp ep pl pr,
    calc_trim_text wcw MWide (dbflat cs) 0 (zlen (dbflat cs)) sc ec = Ok (sp, ep, pl, pr) /\
    pl + (ep - sp) + pr = ec - sc /\ sp = sc + pl /\ (pl = 0 \/ pl = 1) /\ (pr = 0 \/ pr = 1) /\
    (pl = 1 <-> within_double_byte (dbflat cs) 0 sc = Ok 2) /\
    (pr = 1 <-> within_double_byte (dbflat cs) 0 ec = Ok 2).
Proof. exact calc_trim_text_wide. Qed.
Print Assumptions calc_trim_text_double_byte.

(* trim_text_attr_cs, ARBITRARY text (any integers, valid or not) in EVERY mode: whenever it returns, the
   trimmed text, the attribute runs and the charset runs have one length.  (calc_trim_text stays inside
   the text in every mode: decode_one never reads past the end, within_double_byte never steps before
   the line start.) *)
Theorem trim_text_attr_cs_lengths :
  forall wcw m text (attr cs : rle) sc ec t a c,
    nn attr -> nn cs -> rle_len attr = zlen text -> rle_len cs = zlen text -> 0 <= sc < ec ->
    trim_text_attr_cs wcw m text attr cs sc ec = Ok (t, a, c) ->
    rle_len a = zlen t /\ rle_len c = zlen t.
Proof. exact TrimTotal.trim_text_attr_cs_lengths. Qed.
Print Assumptions trim_text_attr_cs_lengths.

(* it is defined (no exception) for the UTF-8 encoding of every text that is wide enough *)
Theorem trim_text_attr_cs_lengths_utf8 :
  forall wcw, (forall c, wcw c <= 2) ->
  forall s (attr cs : rle) sc ec wl,
  scalars s -> 0 <= sc < ec -> calc_width wcw MStr s 0 (zlen s) = Ok wl -> ec <= wl ->
  nn attr -> nn cs -> rle_len attr = zlen (encs s) -> rle_len cs = zlen (encs s) ->
  exists t a c, trim_text_attr_cs wcw MUtf8 (encs s) attr cs sc ec = Ok (t, a, c) /\
                rle_len a = zlen t /\ rle_len c = zlen t.
Proof. exact top_trim_text_attr_cs_utf8. Qed.
Print Assumptions trim_text_attr_cs_lengths_utf8.

(* ================= run-length lists ================= *)
Theorem rle_subseg_length :
  forall (A : Type) (r : list (A * Z)) s e,
  Forall (fun p => 0 <= snd p) r -> 0 <= s <= e -> e <= rle_len r -> rle_len (rle_subseg r s e) = e - s.
Proof. exact @rle_subseg_len. Qed.
Print Assumptions rle_subseg_length.

Theorem rle_len_additive :
  forall (A : Type) (r r2 : list (A * Z)), rle_len (r ++ r2) = rle_len r + rle_len r2.
Proof. exact @top_rle_laws. Qed.
Print Assumptions rle_len_additive.

Theorem rle_modify_lengths :
  forall (r r2 : rle) a n,
  rle_len (rle_append_modify r a n) = rle_len r + n /\
  rle_len (rle_prepend_modify r a n) = n + rle_len r /\
  rle_len (rle_join_modify r r2) = rle_len r + rle_len r2.
Proof. exact top_rle_modify. Qed.
Print Assumptions rle_modify_lengths.

(* rle_product never fails on positive runs and covers the shorter of the two lists *)
Theorem rle_product_length :
  forall x y, pos_runs x -> pos_runs y ->
  exists p, rle_product x y = Ok p /\ rle_len p = Z.min (rle_len x) (rle_len y).
Proof. exact rle_product_len. Qed.
Print Assumptions rle_product_length.

(* ================= clause 5: encoding text for output =================
   For EVERY codec [enc], flag and text (and for every byte string given directly): the charset run
   lengths sum to the encoded length. *)
Theorem target_encoding_run_lengths :
  forall enc ud s,
  rle_len (snd (apply_target_encoding enc ud s)) = zlen (fst (apply_target_encoding enc ud s)) /\
  rle_len (snd (ate_bytes s)) = zlen (fst (ate_bytes s)).
Proof. exact top_target_encoding_len. Qed.
Print Assumptions target_encoding_run_lengths.

(* each DEC line-drawing character of the (translated) table maps to its alternate byte under one
   DEC_TAG ("0") run, for every codec that leaves ASCII alone *)
Theorem target_encoding_dec :
  forall enc, (forall c, 0 <= c < 128 -> enc c = [c]) ->
  forall i d alt, nth_error dec_special_chars i = Some d -> nth_error alt_dec_special_chars i = Some alt ->
  apply_target_encoding enc true [d] = ([alt], [(Some esc_DEC_TAG, 1)]).
Proof. exact target_encoding_dec_char. Qed.
Print Assumptions target_encoding_dec.

(* the bytes part for EVERY bracketed byte string  p0 SO d1 SI p1 SO d2 SI p2 ...  (p_i, d_i free of
   SO/SI): the shifts are removed, the bytes of each d_i lie under DEC_TAG runs and the bytes of each
   p_i under None runs (runs compared after expansion, because adjacent equal runs are merged) *)
Theorem target_encoding_bracketed_runs :
  forall p0 bl, plain p0 -> Forall block_ok bl ->
  fst (ate_bytes (blocks_bytes p0 bl)) = p0 ++ flat_map block_out bl /\
  expand_runs (snd (ate_bytes (blocks_bytes p0 bl))) = repeat None (length p0) ++ flat_map block_marks bl.
Proof. exact ate_bytes_blocks. Qed.
Print Assumptions target_encoding_bracketed_runs.

(* end to end, EVERY string without raw SO/SI characters, every codec that leaves ASCII alone and does
   not produce SO/SI bytes for the characters of the string: each DEC character maps to its alternate
   byte, every other character to its encoding, and (after expanding the runs) exactly the DEC positions
   carry DEC_TAG *)
Theorem target_encoding_dec_string :
  forall enc, (forall c, 0 <= c < 128 -> enc c = [c]) ->
  forall s,
    (forall c b, In c s -> In b (enc c) -> b <> esc_SO /\ b <> esc_SI) ->
    ~ In esc_SO s -> ~ In esc_SI s ->
    fst (apply_target_encoding enc true s)
      = flat_map (fun c => match dec_alt c with Some a => [a] | None => enc c end) s /\
    expand_runs (snd (apply_target_encoding enc true s))
      = flat_map (fun c => match dec_alt c with
                           | Some _ => [Some esc_DEC_TAG]
                           | None => repeat None (length (enc c)) end) s.
Proof. exact RleProofs.target_encoding_dec_string. Qed.
Print Assumptions target_encoding_dec_string.

(* ================= the translated loops are what the theorems are about =================
   Gen/str_loops_gen.v is re-translated from urwid/str_util.py and urwid/util.py on every run
   (within_double_byte, calc_string_text_pos, calc_text_pos, move_next_char, move_prev_char, is_wide_char, the fallback
   loop of calc_width, rle_get_at, rle_len, rle_subseg); the extracted model runs the functions assembled
   from them ([..._g], Model/Width.v).  They equal the hand-written specifications for ALL inputs, so every
   theorem of this file is a theorem about the regenerated text. *)
Theorem generated_offset_functions_meet_their_specs :
  forall wcw m text a b c d,
  calc_text_pos_g wcw m text a b c = calc_text_pos wcw m text a b c /\
  calc_width_g wcw m text a b = calc_width wcw m text a b /\
  move_next_char_g m text a b = move_next_char m text a b /\
  move_prev_char_g m text a b = move_prev_char m text a b /\
  is_wide_char_g wcw m text a = is_wide_char wcw m text a /\
  within_double_byte_g text a b = within_double_byte text a b /\
  calc_trim_text_g wcw m text a b c d = calc_trim_text wcw m text a b c d.
Proof. exact gen_offset_functions_eq. Qed.
Print Assumptions generated_offset_functions_meet_their_specs.

Theorem generated_loops_meet_their_specs :
  forall wcw text a b col,
  calc_string_text_pos_gen (cw wcw) text a b col = calc_string_text_pos wcw text a b col /\
  calc_width_fallback_gen decode_one (get_width wcw) text a b = cw_utf8_loop wcw text (Z.to_nat (b - a)) a 0 b /\
  (forall n, within_double_byte_gen n text a b = wdb n text a b).
Proof. exact gen_loops_eq. Qed.
Print Assumptions generated_loops_meet_their_specs.

Theorem generated_rle_functions_meet_their_specs :
  forall (r : rle) pos s e,
  rle_get_at_gen r pos = Ok (rle_get_at r pos) /\ rle_len_gen r = Ok (rle_len r) /\
  rle_subseg_gen r s e = Ok (rle_subseg r s e).
Proof. exact gen_rle_eq. Qed.
Print Assumptions generated_rle_functions_meet_their_specs.

(* ================= the dumped width table meets the hypothesis of the theorems above ================= *)
Theorem width_table_bounded : forall c, wcwidth_tab c <= 2.
Proof. exact wcwidth_tab_le_2. Qed.
Print Assumptions width_table_bounded.

(* the dumped table is sorted, pairwise disjoint and covers every code point; the width the model uses
   for a code point is the width of THE interval containing it, for ALL of 0 .. 0x10FFFF *)
Theorem width_table_sorted_disjoint : Sorted.StronglySorted (fun e1 e2 => ihi e1 < ilo e2) wcwidth_table.
Proof. exact table_sorted_disjoint. Qed.
Print Assumptions width_table_sorted_disjoint.

Theorem width_table_covers_every_code_point :
  forall c, 0 <= c < 1114112 -> exists lo hi w, In (lo, hi, w) wcwidth_table /\ lo <= c <= hi.
Proof. exact table_covers_every_code_point. Qed.
Print Assumptions width_table_covers_every_code_point.

Theorem get_width_is_the_table_lookup :
  forall lo hi w c, In (lo, hi, w) wcwidth_table -> lo <= c <= hi ->
  wcwidth_tab c = w /\ get_width wcwidth_tab c = Ok (if 0 <=? w then w else 0).
Proof. exact table_lookup_both. Qed.
Print Assumptions get_width_is_the_table_lookup.

Theorem get_char_width_in_0_2 : forall wcw, (forall c, wcw c <= 2) -> forall c, 0 <= cw wcw c <= 2.
Proof. exact cw_range. Qed.
Print Assumptions get_char_width_in_0_2.

(* instance: the trimming theorem for the installed table, no hypothesis left *)
Theorem calc_trim_text_spec_installed_table :
  forall text a b sc ec wl,
  0 <= a <= b -> b <= zlen text -> 0 <= sc < ec -> calc_width wcwidth_tab MStr text a b = Ok wl -> ec <= wl ->
  exists sp ep pl pr ws,
    calc_trim_text wcwidth_tab MStr text a b sc ec = Ok (sp, ep, pl, pr) /\
    a <= sp <= ep /\ ep <= b /\ (pl = 0 \/ pl = 1) /\ (pr = 0 \/ pr = 1) /\
    calc_width wcwidth_tab MStr text sp ep = Ok ws /\ pl + ws + pr = ec - sc /\
    calc_width wcwidth_tab MStr text a sp = Ok (sc + pl) /\
    (pl = 1 <-> exists k w0 w1, a <= k < b /\ calc_width wcwidth_tab MStr text a k = Ok w0 /\
                               calc_width wcwidth_tab MStr text a (k + 1) = Ok w1 /\ w0 < sc < w1) /\
    (pr = 1 <-> exists k w0 w1, a <= k < b /\ calc_width wcwidth_tab MStr text a k = Ok w0 /\
                               calc_width wcwidth_tab MStr text a (k + 1) = Ok w1 /\ w0 < ec < w1).
Proof. exact (top_trim_str wcwidth_tab wcwidth_tab_le_2). Qed.
Print Assumptions calc_trim_text_spec_installed_table.

(* ================= non-vacuity: the hypotheses are met and the model computes ================= *)
(* "a世́─" : a, wide CJK, combining acute, box drawing *)
Example sample_text_scalars : scalars [97; 19990; 769; 9472].
Proof. repeat constructor. Qed.

Example sample_widths :
  map (cw wcwidth_tab) [97; 19990; 769; 9472; 128512; 233; 10] = [1; 2; 0; 1; 2; 1; 0].
Proof. vm_compute. reflexivity. Qed.

Example sample_text_pos :
  calc_text_pos wcwidth_tab MStr [97; 19990; 769; 9472] 0 4 2 = Ok (1, 1) /\
  calc_text_pos wcwidth_tab MUtf8 (encs [97; 19990; 769; 9472]) 0 9 3 = Ok (6, 3) /\
  boff [97; 19990; 769; 9472] 3 = 6.
Proof. vm_compute. repeat split. Qed.

Example sample_trim_straddles :
  (* columns [2,4) of "a世́─": the wide character occupies columns 1-2, so the left edge cuts it *)
  calc_trim_text wcwidth_tab MStr [97; 19990; 769; 9472] 0 4 2 4 = Ok (3, 4, 1, 0) /\
  calc_trim_text wcwidth_tab MStr [97; 19990; 769; 9472] 0 4 0 2 = Ok (0, 1, 0, 1).
Proof. vm_compute. split; reflexivity. Qed.

Example sample_double_byte :
  (* EUC-JP "あa" = A4 A2 61 *)
  within_double_byte [164; 162; 97] 0 1 = Ok 2 /\
  calc_text_pos wcwidth_tab MWide [164; 162; 97] 0 3 1 = Ok (0, 0) /\
  move_next_char MWide [164; 162; 97] 0 3 = Ok 2.
Proof. vm_compute. repeat split. Qed.

Example sample_dec :
  apply_target_encoding (fun c => [c]) true [120; 9472; 9474; 121]
  = ([120; 113; 120; 121], [(None, 1); (Some 48, 2); (None, 1)]).
Proof. vm_compute. reflexivity. Qed.

Example sample_rle_subseg :
  rle_subseg [(Some 1, 3); (None, 2); (Some 2, 4)] 2 7 = [(Some 1, 1); (None, 2); (Some 2, 2)].
Proof. vm_compute. reflexivity. Qed.
