(* C07 - ListBox always shows a gap-free window of its items containing the focus.
   Only statements here; every proof is [exact <lemma>] into Proofs/ListBox*Proofs.v.
   The model (Model/ListBoxView.v) is a hand transcription of urwid/widget/listbox.py tied to the
   code by an exact extracted-model correspondence on every run (harness/props/c07.py).

   How the history quantifier of the property is discharged:
     (1) offset_rows / inset_fraction are written only by shift_focus and change_focus (checked
         syntactically on the source on every run), and whatever those two write satisfies
         ViewOK: offset_rows >= 0, 0 <= inum < iden              [writers_establish_view_ok]
     (2) so every state reached by ANY history is ViewOK           [history_keeps_view_ok]
     (3) and EVERY ViewOK state - reachable or not - renders a gap-free window   [view_ok].   *)
From Coq Require Import ZArith List Bool.
Import ListNotations.
From Urwid Require Import PyBase ListBoxView ListBoxViewProofs ListBoxWindowProofs ListBoxHistoryProofs ListBoxMouseProofs
  ListBoxPendingProofs ListBoxPageProofs ListBoxPageUpProofs ListBoxReachProofs ListBoxWalker ListBoxWalkerProofs.
From Urwid Require MonitoredList.
Open Scope Z_scope.

(* --- (3) view_ok.  For every list of flow widgets with heights >= 0 (zero-height ones included),
   every focus position, every offset_rows >= 0, every inset fraction 0 <= inum < iden, every
   maxrow >= 1, focus flag, and cursor row inside the focus widget, render does not raise and
     - the rows shown are [window its p maxrow]: the slice [p, p+maxrow) of the stacked item rows
       followed by blank rows only (so no blank row lies above an item row);
     - blank rows appear only if everything above is shown (p = 0) - and the slice then runs to the
       end of the list by construction of [window];
     - a focus item with >= 1 row has a row in the slice;
     - the cursor row of the focus item is in the slice, exactly at the canvas cursor.
   Hypotheses forced by the proof and stated explicitly: heights >= 0, maxrow >= 1, the cursor row
   reported by the focus widget lies inside it; view_ok itself is about a list box with no focus
   request pending, render_never_raises covers pending requests. *)
Theorem view_ok :
  forall its f o n d maxrow fflag w,
    StateOK its o n d maxrow -> nthz its f = Some w -> cursor_ok w ->
    exists p,
      0 <= p <= zlen (all_rows its) /\
      render_view its f o n d maxrow fflag
        = Ok (window its p maxrow, cur_out its f p (cursor_of w maxrow fflag)) /\
      (zlen (all_rows its) - p < maxrow -> p = 0) /\
      (1 <= i_rows w -> exists r, 0 <= r < i_rows w /\ In (f, r) (takez maxrow (dropz p (all_rows its)))) /\
      (forall cy, cursor_of w maxrow fflag = Some cy ->
         0 <= rows_before its f + cy - p < maxrow /\
         nthz (window its p maxrow) (rows_before its f + cy - p) = Some (f, cy)).
Proof. exact view_ok_lemma. Qed.
Print Assumptions view_ok.

(* what [window] and [all_rows] are *)
Theorem window_is_slice_then_blanks :
  forall its p maxrow, 0 <= p -> 0 <= maxrow ->
    window its p maxrow
      = takez maxrow (dropz p (all_rows its))
        ++ repeat blank (Z.to_nat (maxrow - zlen (takez maxrow (dropz p (all_rows its)))))
    /\ zlen (window its p maxrow) = maxrow
    /\ (forall x, In x (all_rows its) -> 0 <= fst x (* hence x <> blank = (-1, -1) *)).
Proof.
  intros its p maxrow Hp Hm. split; [reflexivity|]. split; [now apply zlen_window|]. intros x. apply all_rows_pos.
Qed.
Print Assumptions window_is_slice_then_blanks.

Theorem focus_rows_are_where_expected :
  forall its f w r, heights_ok its -> nthz its f = Some w -> 0 <= r < i_rows w ->
    nthz (all_rows its) (rows_before its f + r) = Some (f, r).
Proof. exact nth_all_rows. Qed.
Print Assumptions focus_rows_are_where_expected.

(* --- (1) the two writers --- *)
Theorem writers_establish_view_ok :
  (forall s maxrow oi s', shift_focus s maxrow oi = Ok s' ->
     ViewOK s' /\ items s' = items s /\ focus s' = focus s /\ pend s' = pend s /\ off s' < Z.max 1 maxrow /\
     vpend s' = vpend s) /\
  (* change_focus with any snap_rows (None = maxrow - 1, or the values page up/down pass) *)
  (forall s maxrow position oi cf snap_rows s', change_focus_sr s maxrow position oi cf snap_rows = Ok s' ->
     ViewOK s' /\ items s' = items s /\ focus s' = position /\ pend s' = pend s /\
     (exists w, nthz (items s) position = Some w) /\ vpend s' = vpend s).
Proof. split; [exact shift_focus_writes | exact change_focus_sr_writes]. Qed.
Print Assumptions writers_establish_view_ok.

(* --- (2) any history of modelled operations (render, up / down / page up / page down / home /
   end / item keys, mouse press and wheel, set_focus, set_focus_valign, direct shift_focus /
   change_focus / make_cursor_visible calls, walker edits [OItems]) interleaved with arbitrary
   operations that are NOT modelled ([OSync]: anything that leaves a ViewOK state, which by (1) +
   the syntactic scan is everything that writes the view state through the two writers) keeps
   ViewOK --- *)
Theorem history_keeps_view_ok :
  forall ops s, ViewOK s -> Forall op_ok ops ->
    forall s' out, In (Ok (s', out)) (run s ops) -> ViewOK s'.
Proof. exact history_view_ok. Qed.
Print Assumptions history_keeps_view_ok.

(* --- (2)+(3): after ANY history, a render with no focus request pending shows a gap-free window
   with all the clauses of view_ok.  The widgets present at the time of the render are the
   environment: heights >= 0 and the cursor inside the focus widget are hypotheses on them. --- *)
Theorem render_after_any_history :
  forall ops s s' out maxrow fflag w,
    ViewOK s -> Forall op_ok ops -> In (Ok (s', out)) (run s ops) ->
    pend s' = PNone -> vpend s' = None -> heights_ok (items s') -> 1 <= maxrow ->
    nthz (items s') (focus s') = Some w -> cursor_ok w ->
    exists p,
      0 <= p <= zlen (all_rows (items s')) /\
      render s' maxrow fflag
        = Ok (s', (window (items s') p maxrow, cur_out (items s') (focus s') p (cursor_of w maxrow fflag))) /\
      (zlen (all_rows (items s')) - p < maxrow -> p = 0) /\
      (1 <= i_rows w -> exists r, 0 <= r < i_rows w /\
                                  In (focus s', r) (takez maxrow (dropz p (all_rows (items s'))))) /\
      (forall cy, cursor_of w maxrow fflag = Some cy ->
         nthz (window (items s') p maxrow) (rows_before (items s') (focus s') + cy - p) = Some (focus s', cy)).
Proof. exact render_after_history_lemma. Qed.
Print Assumptions render_after_any_history.

(* --- page up / page down / home / end / set_focus_valign are inside the model: every state they
   return satisfies ViewOK (they are also covered by history_keeps_view_ok through [OKey] and
   [OValign]; stated separately because they replace the former un-modelled stand-in) --- *)
Theorem page_and_alignment_ops_keep_view_ok :
  (forall s maxrow s' b, ViewOK s -> keypress_page_up s maxrow = Ok (s', b) -> ViewOK s') /\
  (forall s maxrow s' b, ViewOK s -> keypress_page_down s maxrow = Ok (s', b) -> ViewOK s') /\
  (forall s maxrow k s' b, ViewOK s -> keypress s maxrow k = Ok (s', b) -> ViewOK s') /\
  (forall s va, ViewOK s -> ViewOK (set_focus_valign s va)) /\
  (forall s maxrow fflag va s', ViewOK s -> set_focus_valign_complete s maxrow fflag va = Ok s' -> ViewOK s').
Proof.
  split; [exact pres_page_up|]. split; [exact pres_page_down|]. split; [exact pres_keypress|].
  split; [intros s va H; now apply viewok_set_vpend | exact pres_valign_complete].
Qed.
Print Assumptions page_and_alignment_ops_keep_view_ok.

(* --- 'page down' never raises: for every ViewOK state (any pending request), widgets with heights
   >= 0 and cursor rows inside them, maxrow >= 1, ListBox.keypress(size, 'page down') handles the key
   or returns it, and leaves a ViewOK state over the same widgets.
   Before the repair 1f3edac of _keypress_page_down this was REFUTED in model and code
   (a candidate widget completely above the top of the new page made change_focus raise
   ListBoxError: heights 1,1,2 / selectable 0,1,0 / box of 2 rows / 'home', 'page down');
   corpus/C07/corners.json and corpus/C07/repro_page_down_raises.py keep that history as a
   regression case, [page_down_formerly_failing_case] computes it in the model. --- *)
Theorem page_down_never_raises :
  (forall s m, ViewOK s -> WidgetsOK (items s) -> 1 <= m ->
     exists s' b, keypress_page_down s m = Ok (s', b) /\ ViewOK s' /\ items s' = items s) /\
  (forall s m, ViewOK s -> WidgetsOK (items s) -> 1 <= m ->
     exists s' b, keypress s m KPageDown = Ok (s', b) /\ ViewOK s' /\ items s' = items s).
Proof. split; [exact page_down_never_raises_lemma | exact keypress_page_down_never_raises_lemma]. Qed.
Print Assumptions page_down_never_raises.

Example page_down_formerly_failing_case :
  match keypress_page_down pd_witness 2 with
  | Ok (s, b) => (focus s, off s, b)
  | Err _ => (-9, -9, true)
  end = (2, 0, false).
Proof. vm_compute. reflexivity. Qed.

(* --- 'page up' never raises either (same hypotheses; no repair was needed).  The proof shows that
   every candidate with rows reaches below row -snap_rows of the new page, so that change_focus is
   always asked for a placement with a visible row and a non-negative snap distance, and that the
   fallback shift_focus gets an offset that keeps a row of the focus widget in the box. --- *)
Theorem page_up_never_raises :
  (forall s m, ViewOK s -> WidgetsOK (items s) -> 1 <= m ->
     exists s' b, keypress_page_up s m = Ok (s', b) /\ ViewOK s' /\ items s' = items s) /\
  (forall s m, ViewOK s -> WidgetsOK (items s) -> 1 <= m ->
     exists s' b, keypress s m KPageUp = Ok (s', b) /\ ViewOK s' /\ items s' = items s).
Proof. split; [exact page_up_never_raises_lemma | exact keypress_page_up_never_raises_lemma]. Qed.
Print Assumptions page_up_never_raises.

(* 'home' / 'end' (set_focus to the first / last position + an alignment request) never raise *)
Theorem home_end_never_raise :
  forall s m k, k = KHome \/ k = KEnd -> ViewOK s -> WidgetsOK (items s) -> 1 <= m ->
    exists s' b, keypress s m k = Ok (s', b) /\ ViewOK s' /\ items s' = items s.
Proof. exact keypress_home_end_never_raise_lemma. Qed.
Print Assumptions home_end_never_raise.

(* an empty list box renders blank *)
Theorem empty_list_renders_blank :
  forall its f o n d maxrow fflag, nthz its f = None ->
    render_view its f o n d maxrow fflag = Ok (repeat blank (Z.to_nat maxrow), None).
Proof. exact render_view_empty. Qed.
Print Assumptions empty_list_renders_blank.

(* --- the mouse clause: a button-1 press on a row that shows a selectable item makes it the focus --- *)
Theorem mouse_press_focuses :
  forall s maxrow row pos r win cur,
    ViewOK s -> pend s = PNone -> vpend s = None -> heights_ok (items s) -> 1 <= maxrow ->
    (forall w, nthz (items s) (focus s) = Some w -> cursor_ok w) ->
    render s maxrow true = Ok (s, (win, cur)) ->
    nthz win row = Some (pos, r) -> 0 <= pos -> sel_at (items s) pos = true ->
    exists s' b, mouse_press s maxrow 1 row = Ok (s', b) /\ focus s' = pos /\ ViewOK s'.
Proof. exact mouse_press_focuses_lemma. Qed.
Print Assumptions mouse_press_focuses.

(* --- the history clause at full strength.  After ANY history, with the widgets present at that
   time satisfying WidgetsOK (heights >= 0, cursor rows inside their widgets), render - including
   the completion of a pending "first selectable" or set_focus request, also when the old focus
   position of that request was removed from the walker meanwhile or the list was emptied - does
   not raise, leaves no request pending, does not touch the walker contents, and shows a window
   with all the clauses of view_ok for the state it leaves (ShowsWindow).
   No premise about the pending request is needed any more: before the repair 93ada30 of
   _set_focus_complete this statement was refuted in model and code for stale requests
   (set_focus, delete the old position, render -> IndexError); corpus/C07/stale_pending.json and
   corpus/C07/repro_stale_pending_set_focus.py keep that history as a regression case. --- *)
Theorem render_never_raises_any_history :
  forall ops s s' out maxrow fflag,
    ViewOK s -> Forall op_ok ops -> In (Ok (s', out)) (run s ops) ->
    WidgetsOK (items s') -> 1 <= maxrow ->
    exists s'' win cur,
      render s' maxrow fflag = Ok (s'', (win, cur)) /\
      pend s'' = PNone /\ items s'' = items s' /\ ViewOK s'' /\ ShowsWindow s'' maxrow fflag win cur /\
      vpend s'' = None.
Proof. exact render_any_history_lemma. Qed.
Print Assumptions render_never_raises_any_history.

(* the same for a single state: any ViewOK state with any pending request *)
Theorem render_never_raises :
  forall s maxrow fflag,
    ViewOK s -> WidgetsOK (items s) -> 1 <= maxrow ->
    exists s' win cur,
      render s maxrow fflag = Ok (s', (win, cur)) /\
      pend s' = PNone /\ items s' = items s /\ ViewOK s' /\ ShowsWindow s' maxrow fflag win cur /\
      vpend s' = None.
Proof. exact render_ok_lemma. Qed.
Print Assumptions render_never_raises.

(* the formerly refuted history now renders (5 one-row items, focus 4; set_focus(0); the walker
   keeps 2 items; render) *)
Example stale_pending_now_renders :
  let it := {| i_rows := 1; i_sel := true; i_cy := None |} in
  let s := {| items := [it; it; it; it; it]; focus := 4; off := 0; inum := 0; iden := 1; pend := PNone; vpend := None |} in
  map (fun r => match r with
                | Ok (s, OutView rows _) => (focus s, rows)
                | Ok (s, _) => (focus s, [])
                | Err _ => (-9, [])
                end)
      (run s [OSetFocus 0 CNone; OItems [it; it] 0; ORender 3 true])
  = [(0, []); (0, []); (0, [(0, 0); (1, 0); (-1, -1)])].
Proof. vm_compute. reflexivity. Qed.

(* --- every state an operation of the list box returns is reached from the state it was given by a
   chain of atomic transitions: shift_focus, change_focus, the walker's set_focus on an existing
   position, updates of the two pending flags, a cursor move inside the focus widget.  (OSync and
   OItems carry foreign data and are excluded.) --- *)
Theorem operations_are_chains_of_atomic_transitions :
  forall s o s' out, own_op o = true -> step s o = Ok (s', out) -> Reach s s'.
Proof. exact reach_step. Qed.
Print Assumptions operations_are_chains_of_atomic_transitions.

(* --- the list box over a SimpleFocusListWalker (Model/ListBoxWalker.v): walker edits - item and
   slice assignment and deletion with any step, insert, +=, *=, reverse, sort, ... - are executed
   by the MonitoredFocusList model of C16, whose focus arithmetic is re-translated from
   monitored_list.py on every run and whose theorem step_sound (an edit leaves the focus inside the
   list) is used here.  Over ANY history of list box operations and walker edits the focus position
   stays inside the list and the view state stays ViewOK ... --- *)
Theorem walker_histories_keep_focus_and_view_valid :
  forall ops ws, WInv ws -> Forall wop_ok ops ->
    forall ws' out, In (Ok (ws', out)) (w_run ws ops) -> WInv ws'.
Proof. exact walker_history_inv. Qed.
Print Assumptions walker_histories_keep_focus_and_view_valid.

(* --- ... so after any such history render does not raise, shows a gap-free window (ShowsWindow: all
   clauses of view_ok), and a NON-EMPTY list is never drawn as a blank box: the window is the one
   of an existing focus widget.  (This is the clause a walker that loses its focus after an
   extended-slice deletion breaks.) --- *)
Theorem window_contains_focus_after_any_history_of_keys_and_edits :
  forall ops ws ws' out maxrow fflag,
    WInv ws -> Forall wop_ok ops -> In (Ok (ws', out)) (w_run ws ops) ->
    WidgetsOK (items (w_lb ws')) -> 1 <= maxrow ->
    exists s'' win cur,
      render (w_lb ws') maxrow fflag = Ok (s'', (win, cur)) /\
      items s'' = items (w_lb ws') /\ ShowsWindow s'' maxrow fflag win cur /\
      (w_ids ws' <> [] -> exists w, nthz (items s'') (focus s'') = Some w).
Proof. exact walker_render_lemma. Qed.
Print Assumptions window_contains_focus_after_any_history_of_keys_and_edits.

(* --- non-vacuity: the hypotheses are met by ordinary states and the model computes --- *)
Definition ex_items : list item :=
  [ {| i_rows := 2; i_sel := false; i_cy := None |};
    {| i_rows := 0; i_sel := true; i_cy := None |};
    {| i_rows := 3; i_sel := true; i_cy := Some 2 |};
    {| i_rows := 4; i_sel := false; i_cy := None |} ].

Example state_ok_somewhere : StateOK ex_items 1 0 1 3 /\ StateOK ex_items 0 2 3 3.
Proof. split; split; try (cbv; intuition discriminate); repeat constructor; cbv; discriminate. Qed.

Example render_somewhere :
  render_view ex_items 2 1 0 1 3 false = Ok ([(0, 1); (2, 0); (2, 1)], None)
  /\ render_view ex_items 2 1 0 1 3 true = Ok ([(2, 0); (2, 1); (2, 2)], Some 2)
  /\ render_view ex_items 1 2 0 1 4 true = Ok ([(0, 0); (0, 1); (2, 0); (2, 1)], None)
  /\ render_view ex_items 2 0 2 3 3 true = Ok ([(2, 2); (3, 0); (3, 1)], Some 0)
  /\ render_view ex_items 3 0 0 1 12 false
     = Ok ([(0, 0); (0, 1); (2, 0); (2, 1); (2, 2); (3, 0); (3, 1); (3, 2); (3, 3); (-1, -1); (-1, -1); (-1, -1)], None).
Proof. vm_compute. repeat split; reflexivity. Qed.

Example history_somewhere :
  let s0 := {| items := ex_items; focus := 0; off := 0; inum := 0; iden := 1; pend := PFirst; vpend := None |} in
  map (fun r => match r with
                | Ok (s, OutView rows _) => (focus s, off s, rows)
                | Ok (s, _) => (focus s, off s, [])
                | Err _ => (-9, -9, [])
                end)
      (run s0 [ORender 3 true; OKey 3 KDown; ORender 3 true; OMouse 3 1 0; ORender 3 true; OKey 3 KUp; ORender 3 false])
  = [ (0, 0, [(0, 0); (0, 1); (2, 0)]); (2, 0, []); (2, 0, [(2, 0); (2, 1); (2, 2)]);
      (2, 0, []); (2, 0, [(2, 0); (2, 1); (2, 2)]); (0, 0, []); (0, 0, [(0, 1); (2, 0); (2, 1)]) ].
Proof. vm_compute. reflexivity. Qed.

Definition ex_it : item := {| i_rows := 1; i_sel := true; i_cy := None |}.
Definition ex_ws : wstate :=
  {| w_lb := {| items := [ex_it; ex_it; ex_it; ex_it; ex_it]; focus := 4; off := 0; inum := 0; iden := 1;
                pend := PNone; vpend := None |};
     w_ids := [0; 1; 2; 3; 4]; w_tab := combine [0; 1; 2; 3; 4] [ex_it; ex_it; ex_it; ex_it; ex_it] |}.

Example walker_state_ok_somewhere : WInv ex_ws.
Proof. split; [reflexivity|]. split; [right; cbv; split; [discriminate | reflexivity] | cbv; intuition discriminate]. Qed.

(* del walker[::2] with the focus on the last item, an insert in front, page up *)
Example walker_history_somewhere :
  map (fun r => match r with
                | Ok (ws, WOut (OutView rows _)) => (w_ids ws, focus (w_lb ws), rows)
                | Ok (ws, _) => (w_ids ws, focus (w_lb ws), [])
                | Err _ => ([], -9, [])
                end)
      (w_run ex_ws [WLb (ORender 3 true); WEdit [] (MonitoredList.DelSlice None None (Some 2)); WLb (ORender 3 true);
                    WEdit [(7, ex_it)] (MonitoredList.Insert 0 7); WLb (OKey 3 KPageUp); WLb (ORender 3 true)])
  = [([0; 1; 2; 3; 4], 4, [(2, 0); (3, 0); (4, 0)]); ([1; 3], 1, []); ([1; 3], 1, [(0, 0); (1, 0); (-1, -1)]);
     ([7; 1; 3], 2, []); ([7; 1; 3], 0, []); ([7; 1; 3], 0, [(0, 0); (1, 0); (2, 0)])].
Proof. vm_compute. reflexivity. Qed.
