(* C07 - placeholder while the model is being validated *)
From Coq Require Import ZArith List Bool.
From Urwid Require Import PyBase ListBoxView.
Open Scope Z_scope.
Example render_somewhere : True.
Proof. exact I. Qed.
Print Assumptions render_somewhere.
