(* C02 - placeholder while the proofs are being developed *)
From Coq Require Import ZArith List Bool.
Import ListNotations.
From Urwid Require Import PyBase Canvas.
Open Scope Z_scope.

Theorem c02_placeholder : forall s, shards_rows (s ++ []) = shards_rows s.
Proof. intros; now rewrite app_nil_r. Qed.
Print Assumptions c02_placeholder.
