(* C02 - Canvas composition is equivalent to operating on a plain grid of cells.
   Only statements here; every proof is [exact <lemma>] (or a two-line instantiation) into
   Proofs/Canvas*.v.

   The model (Model/Canvas.v) is a line-by-line transcription of urwid/canvas.py: shards,
   cviews, shard tails with (cview, rows-done) cursors for the Python iterators, and every
   composite operation (CanvasCombine, CanvasJoin, CanvasOverlay, CompositeCanvas(c),
   pad_trim_left_right, pad_trim_top_bottom, trim, trim_end, fill_attr_apply, cursor /
   pop-up / finalize).  The reference (Model/CanvasGrid.v) interprets the same operation
   language over a plain list of rows of cells; [gstep] is defined exactly where the property
   defines the operation.  The theorems say: wherever the grid semantics is defined, the shard
   machinery raises nothing and its content(), cols(), rows() and coords are those of the
   grid - for every program of operations, of any depth, with any sharing of operands. *)
From Coq Require Import ZArith List Bool.
Import ListNotations.
From Urwid Require Import PyBase Canvas CanvasGrid CanvasFacts CanvasAbs CanvasVert CanvasHoriz CanvasJoin CanvasSides
     CanvasProg CanvasProgH CanvasSim CanvasDelta CanvasDelta2 CanvasDelta3
     CanvasHeap CanvasHeapFrame CanvasHeapScope CanvasHeapRefine CanvasHeapSim.
From Urwid Require Import Width WideExact CanvasBytes CanvasBytesRle CanvasBytesRefine.
Open Scope Z_scope.

(* ------------------------------------------------------------------------------------------
   The invariant.  [WF s] is [wfb s = true] for the boolean checker [wfb] of Model/Canvas.v
   (positive sizes; every cview inside its leaf canvas, leaf rows made of whole characters;
   every cview present in a shard at least as tall as what remains of it; in every shard the
   widths add up to the canvas width; nothing pending at the end).  It is also evaluated by the
   extracted model on every canvas of every correspondence case and must be true wherever the
   operations are defined.
   ------------------------------------------------------------------------------------------ *)

(* --- content() on a well-formed canvas does not raise, has rows() rows, each cols() wide --- *)
Theorem content_reports_size :
  forall s rows, WF s -> content s = Ok rows ->
    zlen rows = shards_rows s /\ Forall (fun r : row => zlen r = shards_cols s) rows.
Proof. exact content_size. Qed.
Print Assumptions content_reports_size.

Theorem content_defined :
  forall s, WF s -> exists rows, content s = Ok rows.
Proof. intros s H. destruct (WF_elim _ H) as (_ & _ & _ & C). eauto. Qed.
Print Assumptions content_defined.

(* --- key lemma: the Python shard algorithm (shard_body / shard_body_row / shard_body_tail
       over iterators) computes the rows of the "remaining rows" machine of
       Proofs/CanvasAbs.v; every operation theorem goes through it --- *)
Theorem content_correct :
  forall s, WF s -> content s = Ok (acontent_from (map abs_sh s) []).
Proof. intros s H. destruct (WF_elim _ H) as (_ & _ & _ & C). exact C. Qed.
Print Assumptions content_correct.

(* --- no row of a well-formed canvas starts or ends with half a character --- *)
Theorem content_has_no_half_characters_at_the_edges :
  forall s g, WF s -> content s = Ok g -> Forall (fun r : row => row_cleanb r = true) g.
Proof. exact content_clean. Qed.
Print Assumptions content_has_no_half_characters_at_the_edges.

(* ------------------------------------------------------------------------------------------
   One theorem per shard-level operation: denotation, invariant, size.
   ------------------------------------------------------------------------------------------ *)

(* vertical stacking: CanvasCombine is list append on shards *)
Theorem stacking_is_row_append :
  forall s1 s2 r1 r2,
    WF s1 -> WF s2 -> shards_cols s1 = shards_cols s2 -> content s1 = Ok r1 -> content s2 = Ok r2 ->
    WF (s1 ++ s2) /\ content (s1 ++ s2) = Ok (r1 ++ r2) /\
    shards_cols (s1 ++ s2) = shards_cols s1 /\ shards_rows (s1 ++ s2) = shards_rows s1 + shards_rows s2.
Proof. exact combine_shards. Qed.
Print Assumptions stacking_is_row_append.

(* shards_trim_rows keeps the first k rows; shards_trim_top drops the first rows *)
Theorem trim_rows_is_take :
  forall s k rows, WF s -> 0 < k -> content s = Ok rows ->
    exists s', shards_trim_rows s k = Ok s' /\ WF s' /\ content s' = Ok (takez k rows) /\ shards_cols s' = shards_cols s.
Proof. exact trim_rows_shards. Qed.
Print Assumptions trim_rows_is_take.

Theorem trim_top_is_drop :
  forall s top rows, WF s -> 0 < top < shards_rows s -> content s = Ok rows ->
    exists s', shards_trim_top s top = Ok s' /\ WF s' /\ content s' = Ok (dropz top rows) /\ shards_cols s' = shards_cols s.
Proof. exact trim_top_shards. Qed.
Print Assumptions trim_top_is_drop.

(* shards_trim_sides: every row becomes its window of columns [l, l+c); a double-width
   character cut by either edge becomes a space *)
Theorem trim_sides_is_window :
  forall s l c g, WF s -> content s = Ok g -> 0 <= l -> 0 < c -> l + c <= shards_cols s ->
    exists s', shards_trim_sides s l c = Ok s' /\ WF s' /\
               content s' = Ok (map (fun R : row => trim_cells R l (l + c)) g) /\ shards_cols s' = c.
Proof. exact trim_sides_shards. Qed.
Print Assumptions trim_sides_is_window.

(* shards_join: row-wise concatenation of canvases of equal height *)
Theorem join_is_rowwise_concatenation :
  forall sls gs H,
    sls <> [] -> Forall2 (fun s g => WF s /\ content s = Ok g) sls gs -> Forall (fun s => shards_rows s = H) sls ->
    exists s, shards_join sls = Ok s /\ WF s /\ content s = Ok (g_hcat gs) /\ shards_cols s = sumz (map shards_cols sls).
Proof. exact join_shards. Qed.
Print Assumptions join_is_rowwise_concatenation.

(* attribute remapping: cell by cell, and remapping twice is remapping by the composed map *)
Theorem fill_attr_is_cell_map :
  forall m s rows, WF s -> content s = Ok rows ->
    WF (fill_shards m s) /\ content (fill_shards m s) = Ok (map (map (cell_map_attr (Some m))) rows) /\
    shards_cols (fill_shards m s) = shards_cols s /\ shards_rows (fill_shards m s) = shards_rows s.
Proof. exact fill_attr_shards. Qed.
Print Assumptions fill_attr_is_cell_map.

Theorem fill_attr_composes :
  forall m2 m1 a, map_attr (Some (combine_map m2 m1)) a = map_attr (Some m2) (map_attr (Some m1) a).
Proof. exact map_attr_combine. Qed.
Print Assumptions fill_attr_composes.

(* a double-width character cut by a window becomes a space, and a window of a window is the
   window (cutting twice never emits half a character either) *)
Theorem window_never_emits_half_a_character :
  forall r s e, row_cleanb (trim_cells r s e) = true.
Proof. exact row_clean_trim_cells. Qed.
Print Assumptions window_never_emits_half_a_character.

Theorem window_of_window :
  forall r a b c d, 0 <= a -> b <= zlen r -> 0 <= c -> c < d -> d <= b - a ->
    trim_cells (trim_cells r a b) c d = trim_cells r (a + c) (a + d).
Proof. exact trim_cells_trim_cells. Qed.
Print Assumptions window_of_window.

(* ------------------------------------------------------------------------------------------
   The composition theorem.  [vrel v gv]: the model canvas [v] and the grid value [gv] agree:
   a leaf is its grid; a composite is well-formed, its content() is the grid, its coords
   (cursor, pop-up) and finalized flag are those of the grid value.
   ------------------------------------------------------------------------------------------ *)
Theorem vrel_gives_observables :
  forall v gv, vrel v gv ->
    value_content v = Ok (gg gv) /\ vcols v = Ok (gwidth (gg gv)) /\ vrows v = Ok (gheight (gg gv)) /\ vcoords v = gco gv.
Proof. exact vrel_observables. Qed.
Print Assumptions vrel_gives_observables.

(* For EVERY program of canvas operations (any length, any nesting depth, any sharing of
   operands through the environment) on which the grid semantics is defined, the shard model
   does not raise, and every canvas on its stack and in its environment agrees with the grid:
   same cells (text, attribute, charset), same width and height, same cursor and pop-up
   coordinates (a cursor whose row or column a trim removes is dropped together with that
   content: [g_drop_cursor]; pop-up coordinates are kept).  Operands are left unchanged: the environment only grows, and what was bound
   stays related to the same grid value. *)
Theorem canvas_composition_is_grid :
  forall leaves prog gst,
    grun leaves (GS [] []) prog = Some gst ->
    exists st, run leaves (MS [] [] []) prog = (st, None) /\
               Forall2 vrel (env st) (genv gst) /\ Forall2 vrel (stack st) (gstack gst).
Proof.
  intros leaves prog gst G.
  destruct (run_sim leaves prog (MS [] [] []) (GS [] []) gst) as (st & R & S1 & S2);
    [split; constructor|apply Forall_forall; intros; reflexivity|exact G|].
  exists st. auto.
Qed.
Print Assumptions canvas_composition_is_grid.

(* the cursor clause of trimming: after trim / trim_end / a trimming pad_trim_left_right /
   pad_trim_top_bottom the grid value's cursor is the moved cursor when it is still inside
   the canvas, and is gone otherwise (pop-up coordinates are never dropped) *)
Theorem trimmed_cursor_is_inside_or_gone :
  forall g c x y, cur (g_drop_cursor g c) = Some (x, y) -> 0 <= x < gwidth g /\ 0 <= y < gheight g.
Proof. exact g_drop_cursor_inside. Qed.
Print Assumptions trimmed_cursor_is_inside_or_gone.

Theorem cursor_inside_survives_a_trim :
  forall g c x y, cur c = Some (x, y) -> 0 <= x < gwidth g -> 0 <= y < gheight g -> g_drop_cursor g c = c.
Proof. exact g_drop_cursor_keeps. Qed.
Print Assumptions cursor_inside_survives_a_trim.

(* one operation, from any related pair of states (the induction step of the theorem above):
   CanvasCombine, CanvasJoin, CanvasOverlay, CompositeCanvas(c), pad_trim_left_right,
   pad_trim_top_bottom, trim, trim_end, fill_attr_apply, set cursor / pop-up, finalize *)
Theorem every_operation_simulates :
  forall leaves st gst i gst',
    srel st gst -> gstep leaves gst i = Some gst' ->
    exists st', step leaves st i = Ok st' /\ srel st' gst'.
Proof. intros leaves st gst i gst' R G. exact (step_sim leaves st gst i gst' R eq_refl G). Qed.
Print Assumptions every_operation_simulates.

(* ------------------------------------------------------------------------------------------
   The delta clause.  For two well-formed canvases of the same size, the row-by-row
   difference computed by content_delta (shards_delta / shard_cviews_delta / the shard
   machinery over cviews flagged "unchanged"), applied to the rows of the old canvas,
   reproduces the rows of the new canvas exactly.  [ids_ok]: the integer ids that model
   Python object identity ("cv[5] is other_cv[5]") identify canvases: two cviews with the
   same id view the same leaf canvas.
   ------------------------------------------------------------------------------------------ *)
Theorem delta_applied_to_old_rows_gives_new_rows :
  forall new old rows_new rows_old d,
    WF new -> WF old -> shards_cols new = shards_cols old -> shards_rows new = shards_rows old ->
    ids_ok new old ->
    content new = Ok rows_new -> content old = Ok rows_old ->
    delta_from (shards_delta new old) [] = Ok d ->
    apply_delta rows_old d = rows_new.
Proof. exact delta_apply. Qed.
Print Assumptions delta_applied_to_old_rows_gives_new_rows.

(* content_delta never raises on such a pair *)
Theorem delta_defined :
  forall new old, WF new -> exists d, delta_from (shards_delta new old) [] = Ok d.
Proof.
  intros new old W. destruct (WF_elim _ W) as (Hw & _).
  assert (wf_fromb (shards_cols new) (map projS (shards_delta new old)) (map projT []) = true) as H.
  { rewrite shards_delta_proj. unfold WF, wfb in W. apply andb_prop in W as [_ W]. exact W. }
  destruct (dwf_abs _ Hw _ [] [] ltac:(constructor) (sl_equiv_refl _) H) as (_ & d & E & _). eauto.
Qed.
Print Assumptions delta_defined.

(* ------------------------------------------------------------------------------------------
   "The operand canvases are left unchanged."  Model/CanvasHeap.v makes Python's object
   structure explicit: a composite canvas holds a reference to its shards list, every shard
   a reference to its cviews list; CompositeCanvas(c) SHARES the shards list of c;
   CanvasCombine / trim(top) / pad_trim_left_right / pad_trim_top_bottom / overlay share the
   shard tuples they keep; pad_trim_top_bottom appends IN PLACE to its shards list unless that
   list is still the operand's ("if orig_shards is self.shards: self.shards = self.shards.copy()").
   [hrun] is the machine that is extracted and compared with the implementation, including the
   aliasing pattern of all list objects.
   ------------------------------------------------------------------------------------------ *)

(* no operation changes a list object that existed before it: the heap is only extended.  In
   particular the one in-place write of the code hits a list created by the same call. *)
Theorem no_operation_writes_to_an_existing_list_object :
  forall leaves st i st', hstep leaves st i = Ok st' -> hext (hheap st) (hheap st').
Proof. intros leaves st i st' H. exact (proj1 (hstep_frame leaves st i st' H)). Qed.
Print Assumptions no_operation_writes_to_an_existing_list_object.

(* for every program: whatever has been bound (every operand that later operations share,
   wrap, stack, join, overlay, pad, trim or remap) still denotes the same canvas value - the
   same shards, hence the same content(), cols(), rows(), coords - after any later operations,
   whether or not those end in an error *)
Theorem operands_unchanged :
  forall leaves p1 p2 st1 st2 err,
    hrun leaves (HS empty_heap [] [] []) p1 = (st1, None) ->
    hrun leaves st1 p2 = (st2, err) ->
    forall k v, nthz (henv st1) k = Some v ->
      nthz (henv st2) k = Some v /\ to_value (hheap st2) v = to_value (hheap st1) v.
Proof.
  intros leaves p1 p2 st1 st2 err H1 H2.
  destruct (hrun_operands_unchanged leaves p1 _ _ _ hwf_init H1) as [W1 _].
  exact (proj2 (hrun_operands_unchanged leaves p2 _ _ _ W1 H2)).
Qed.
Print Assumptions operands_unchanged.

(* the machine over references computes what the pure machine computes (same observations,
   same error), so every theorem above speaks about the extracted machine *)
Theorem heap_machine_refines_pure_machine :
  forall leaves prog st' err,
    hrun leaves (HS empty_heap [] [] []) prog = (st', err) ->
    run leaves (MS [] [] []) prog = (abs_st st', err).
Proof. intros leaves prog st' err H. exact (hrun_refines leaves prog _ _ _ hwf_init H). Qed.
Print Assumptions heap_machine_refines_pure_machine.

Theorem canvas_composition_is_grid_on_the_heap :
  forall leaves prog gst,
    grun leaves (GS [] []) prog = Some gst ->
    exists st, hrun leaves (HS empty_heap [] [] []) prog = (st, None) /\
               Forall2 vrel (map (to_value (hheap st)) (henv st)) (genv gst).
Proof.
  intros leaves prog gst G. destruct (canvas_composition_is_grid leaves prog gst G) as (mst & R & E & _).
  destruct (hrun leaves (HS empty_heap [] [] []) prog) as [st err] eqn:H.
  pose proof (hrun_refines leaves prog _ _ _ hwf_init H) as R'.
  change (abs_st (HS empty_heap [] [] [])) with (MS [] [] []) in R'. rewrite R in R'. injection R' as -> <-.
  exists st. split; [reflexivity|exact E].
Qed.
Print Assumptions canvas_composition_is_grid_on_the_heap.

(* ------------------------------------------------------------------------------------------
   Below the cells: text canvases as BYTES in a double-byte encoding (big5, gbk, uhc, euc-kr, ...).
   Model/Canvas.v treats a text leaf as rows of screen cells; Model/CanvasBytes.v is the
   TextCanvas of canvas.py itself - byte strings, run-length attribute / charset lists, the
   constructor's padding, content() calling util.trim_text_attr_cs and util.rle_product.  The
   width / trimming / run-length functions are the C11 model (Model/Width.v: calc_trim_text,
   calc_text_pos, within_double_byte translated from str_util.py / util.py), used read-only; the
   facts about them come from C11's theorems (within_double_byte_exact, calc_trim_text_double_byte).
   A row is described by its tagged characters (character, attribute, charset): [tbytes] are its
   bytes, [tattrs] / [tcss] the per-byte attributes / charsets, [cells_of] its cells.
   ------------------------------------------------------------------------------------------ *)

(* --- run-length lists read byte by byte: sub-segment = slice, product = canonical zip --- *)
Theorem rle_subseg_is_the_slice_of_the_expansion :
  forall (A : Type) (r : list (A * Z)) s e, nnr r -> 0 <= s ->
  rexp (rle_subseg r s e) = takez (e - s) (dropz s (rexp r)).
Proof. exact @rexp_subseg. Qed.
Print Assumptions rle_subseg_is_the_slice_of_the_expansion.

Theorem rle_product_is_the_canonical_zip :
  forall x y : rle, posr x -> posr y ->
  exists p, rle_product x y = Ok p /\ rexp p = combine (rexp x) (rexp y) /\ posr p /\
            canon p.
Proof. exact rle_product_spec. Qed.
Print Assumptions rle_product_is_the_canonical_zip.

(* --- "a double-width character cut by a trim ... is replaced by a space", on the bytes:
   util.trim_text_attr_cs of a double-byte row returns the bytes / attribute runs / charset runs
   of a row whose cells are exactly [trim_cells] of the cells (the cut character's half becomes
   0x20 with the character's attribute and charset None); any text, any run-length split --- *)
Theorem double_byte_row_trim_is_cell_trim :
  forall wcw l (attr cs : rle) s e,
  Forall tch_ok l -> nnr attr -> nnr cs -> rexp attr = tattrs l -> rexp cs = tcss l ->
  0 <= s < e -> e <= zlen (tbytes l) ->
  exists l' a' c',
    trim_text_attr_cs wcw MWide (tbytes l) attr cs s e = Ok (tbytes l', a', c') /\
    rexp a' = tattrs l' /\ rexp c' = tcss l' /\ nnr a' /\ nnr c' /\
    (posr attr -> posr a') /\ (posr cs -> posr c') /\
    Forall tch_ok l' /\ zlen (tbytes l') = e - s /\
    cells_of l' = trim_cells (cells_of l) s e.
Proof. exact trim_row_refines. Qed.
Print Assumptions double_byte_row_trim_is_cell_trim.

(* --- TextCanvas.content(trim_left, trim_top, cols, rows, attr) on bytes: it raises exactly when
   the cell-level [text_content] raises, and otherwise every row of (attr, cs, bytes) segments,
   decoded segment by segment as the harness decodes it ([dec_row]: no segment ends inside a
   character), is the cell-level row --- *)
Theorem double_byte_text_content_is_cell_content :
  forall wcw R3 ls maxcol tl tt cols rows m,
  Forall2 brow_rel R3 ls -> Forall (fun l => zlen (tbytes l) = maxcol) ls ->
  match text_content (map cells_of ls) maxcol tl tt cols rows m with
  | Err e => btext_content wcw MWide (btext_of R3 maxcol) tl tt cols rows m = Err e
  | Ok rws => exists S, btext_content wcw MWide (btext_of R3 maxcol) tl tt cols rows m = Ok S /\
                        map dec_row S = map Some rws
  end.
Proof. exact text_content_refines. Qed.
Print Assumptions double_byte_text_content_is_cell_content.

(* --- constructor and content together, hypotheses as a boolean check of the constructor's
   arguments against the tagged characters ([binit_okb]: the bytes are those of the characters,
   positive runs, runs may stop short of the text, well-formed double-byte characters):
   TextCanvas(text, attr, cs, maxcol=mc) raises exactly when the cell-level [make_text] does, and
   the canvas it builds answers every content() call - hence every cview of every composite
   canvas - with the cells of the cell-level leaf. --- *)
Theorem byte_text_canvas_is_cell_text_canvas :
  forall wcw (ils : list ((list Z * rle * rle) * list tch)) (mc : oz) tl tt cols rows m,
  forallb (fun p => binit_okb (fst p) (snd p)) ils = true ->
  let I3 := map fst ils in
  match make_text mc (map cells_of (map snd ils)) with
  | Err e => btext_init wcw MWide (map (fun x => fst (fst x)) I3) (map (fun x => snd (fst x)) I3) (map snd I3) mc = Err e
  | Ok k =>
      exists b, btext_init wcw MWide (map (fun x => fst (fst x)) I3) (map (fun x => snd (fst x)) I3) (map snd I3) mc = Ok b /\
      match canvas_content (Canvas 1 k) tl tt cols rows m with
      | Err e => btext_content wcw MWide b tl tt cols rows m = Err e
      | Ok rws => exists S, btext_content wcw MWide b tl tt cols rows m = Ok S /\ map dec_row S = map Some rws
      end
  end.
Proof.
  intros wcw ils mc tl tt cols rows m H. cbn zeta.
  apply CanvasBytesRefine.byte_text_canvas_is_cell_text_canvas. now apply binit_okb_all.
Qed.
Print Assumptions byte_text_canvas_is_cell_text_canvas.

(* ------------------------------------------------------------------------------------------
   Non-vacuity: concrete leaves with double-width characters, a program using every
   operation; the grid semantics is defined on it, the invariant holds, the model agrees.
   ------------------------------------------------------------------------------------------ *)
Definition ex_wide (a : Z) (ch : Z) : list cell := [Cell KL a 0 [ch]; Cell KR a 0 []].
Definition ex_leaf1 : canvas :=
  Canvas 1 (LText [ ex_wide 1 19990 ++ [Cell KN 0 0 [97]] ++ ex_wide 2 30028;
                    [Cell KN 0 0 [98]] ++ ex_wide 3 35486 ++ [Cell KN 0 1 [113]; Cell KN 0 0 [99]] ] 5).
Definition ex_leaf2 : canvas := Canvas 2 (LSolid 0 [46] 5 2).
Definition ex_leaves : list (canvas * option (Z * Z)) := [(ex_leaf1, Some (2, 1)); (ex_leaf2, None)].
Definition ex_prog : list instr :=
  [ ILeaf 1; ILeaf 2; ILeaf 1; ICombine 3; IFillAttr [(0, 7); (2, 5)]; ITrim 1 (Some 4); IPadTB 1 (-1);
    ISetPopUp 9 1 1; ISetCursor (Some (3, 2)); IBind;
    IRef 0; IWrap; ITrimEnd 2; IFinalize; IBind;
    IRef 0; ILeaf 1; ILeaf 2; IJoin [6; 5; 7]; IPadLR (-2) 1; IBind;
    IRef 2; ILeaf 1; IWrap; IPadLR (-1) (-1); IOverlay 4 1; IBind ].

Example ex_grid_defined :
  match grun ex_leaves (GS [] []) ex_prog with
  | Some gst => map (fun v => (gheight (gg v), gwidth (gg v), gco v)) (genv gst)
  | None => []
  end = [ (4, 5, Coords (Some (3, 2)) (Some (1, 1, 9))); (2, 5, Coords None (Some (1, 1, 9)));   (* trim_end drops the cursor with its row *)
          (4, 17, Coords (Some (6, 1)) (Some (-1, 1, 9))); (4, 17, Coords (Some (5, 2)) (Some (-1, 1, 9))) ].
Proof. vm_compute. reflexivity. Qed.

Example ex_model_agrees :
  match grun ex_leaves (GS [] []) ex_prog with
  | Some gst =>
      let '(st, err) := run ex_leaves (MS [] [] []) ex_prog in
      (err, map value_content (env st), forallb (fun v => match v with VComp c => wfb (cshards c) | VLeaf _ _ => false end) (env st))
      = (None, map (fun v => Ok (gg v)) (genv gst), true)
  | None => False
  end.
Proof. vm_compute. reflexivity. Qed.

(* the window of a row that cuts two double-width characters: both become spaces *)
Example ex_cut :
  trim_cells (ex_wide 1 19990 ++ [Cell KN 0 0 [97]] ++ ex_wide 2 30028) 1 4
  = [Cell KN 1 0 [32]; Cell KN 0 0 [97]; Cell KN 2 0 [32]].
Proof. vm_compute. reflexivity. Qed.

(* a delta with unchanged, changed and moved parts: old = leaf1 over leaf2, new = leaf1 over leaf2 remapped *)
Definition ex_old : shards := [(2, [CV 0 0 5 2 None ex_leaf1]); (2, [CV 0 0 5 2 None ex_leaf2])].
Definition ex_new : shards := [(2, [CV 0 0 5 2 None ex_leaf1]); (2, [CV 0 0 5 2 (Some [(0, 4)]) ex_leaf2])].
Example ex_delta :
  wfb ex_old = true /\ wfb ex_new = true /\
  match content ex_old, content ex_new, delta_from (shards_delta ex_new ex_old) [] with
  | Ok o, Ok n, Ok d => d = [[DSkip 5]; [DSkip 5]; map DCell (repeatz (Cell KN 4 0 [46]) 5); map DCell (repeatz (Cell KN 4 0 [46]) 5)]
                        /\ apply_delta o d = n
  | _, _, _ => False
  end.
Proof. vm_compute. repeat split; reflexivity. Qed.

(* aliasing made visible: the wrapper shares the shards list of the bound canvas (same id);
   padding the wrapper at the bottom copies that list first (new id) and the bound canvas still
   reads the same; padding at the top first and then at the bottom appends in place to the new list *)
Definition ex_hprog : list instr :=
  [ ILeaf 1; ILeaf 2; ICombine 2; IBind; IRef 0; IWrap; IBind; IRef 0; IWrap; IPadTB 0 2; IBind; IRef 0; IWrap; IPadTB 1 1; IBind ].
Example ex_aliasing :
  let '(st, err) := hrun ex_leaves (HS empty_heap [] [] []) ex_hprog in
  (err, map (fun v => match v with HComp c => hid c | HLeaf _ _ => -1 end) (henv st),
   map (fun v => match v with HComp c => map snd (get_outer (hheap st) (hid c)) | HLeaf _ _ => [] end) (henv st))
  = (None, [2; 2; 3; 4], [[0; 1]; [0; 1]; [0; 1; 2]; [3; 0; 1; 4]]).
Proof. vm_compute. reflexivity. Qed.

(* a big5-style row: two-byte characters with trail bytes 0x7e and 0x40 around ASCII '~' and '@';
   the constructor's arguments pass the boolean check, the window [1, 7) cuts the first and the
   last character: both halves come back as spaces carrying the characters' attributes *)
Definition ex_brow : list tch :=
  [ (DDouble 166 126, 1, 0); (DSingle 126, 0, 0); (DDouble 164 64, 2, 0); (DSingle 64, 0, 2); (DDouble 165 126, 3, 0) ].
Definition ex_bargs : list Z * rle * rle :=
  ([166; 126; 126; 164; 64; 64; 165; 126], [(Some 1, 2); (None, 1); (Some 2, 2); (None, 1); (Some 3, 2)], [(None, 5); (Some 2, 1)]).
Example ex_bytes :
  binit_okb ex_bargs ex_brow = true /\
  match btext_init wcwidth_tab MWide [fst (fst ex_bargs)] [snd (fst ex_bargs)] [snd ex_bargs] None with
  | Ok b =>
      btext_content wcwidth_tab MWide b 1 0 6 1 (Some [(2, 9)])
      = Ok [[ (1, 0, [32]); (0, 0, [126]); (9, 0, [164; 64]); (0, 2, [64]); (3, 0, [32]) ]]
      /\ dec_row [ (1, 0, [32]); (0, 0, [126]); (9, 0, [164; 64]); (0, 2, [64]); (3, 0, [32]) ]
         = Some (map (cell_map_attr (Some [(2, 9)])) (trim_cells (cells_of ex_brow) 1 7))
  | Err _ => False
  end.
Proof. vm_compute. split; [reflexivity|]. split; reflexivity. Qed.
