(* C14 - Signals reach every connected handler exactly once per emit.
   Only statements here; every proof is [exact <lemma>] into Proofs/SignalsProofs.v.
   The model (Model/Signals.v) is hand-written from /repo/urwid/signals.py and tied to it by the
   event-trace correspondence in harness/props/c14.py.

   Reading guide.  [run_op (S f) env (OEmit s n args) st = (st', evs, status)] is one emit (top
   level or nested, [f] is the fuel left for the emits nested inside it) from ANY state [st]
   satisfying the connection-order invariant [Inv] (proved to hold after every history), with
   ANY callback script table [env] (scripts connect, disconnect, emit, drop objects, collect).
   [evs] is the single event [EvEmit s n args ch out]; the calls the emit made itself are the
   [EvCall] children of [ch]: [direct_calls ch], their handler keys [called_keys ch].
   [status = Done] says the emit returned; otherwise an exception left it (NameError from a
   script, RecursionError = out of fuel, or the harness' per-case call budget [e_maxcalls] was
   used up) and the clauses about completed emits do not apply.
   "The signal machinery never keeps a sender or a weak argument alive" is a statement about the
   CPython heap and is NOT a theorem: it is checked by the harness (weakref + gc.collect()). *)
From Coq Require Import ZArith List Bool Sorted.
Import ListNotations.
From Urwid Require Import PyBase Signals SignalsProofs.
Open Scope Z_scope.

(* --- each emit invokes every handler that stays connected throughout it exactly once, in
       connection order.  The calls are a subsequence of the handler list at the start of the
       emit (so: connection order, nobody twice, nobody connected later); and a handler of that
       list that is still connected when the emit returns - equivalently, connected throughout,
       see [disconnected_handlers_never_return] - with live weak arguments is called exactly
       once. --- *)
Theorem emit_exactly_once_in_order :
  forall f env s n args st st' evs status,
    Inv st -> run_op (S f) env (OEmit s n args) st = (st', evs, status) ->
    exists ch out,
      evs = [EvEmit s n args ch out] /\
      sublist (called_keys ch) (keys st s n) /\
      NoDup (called_keys ch) /\
      (status = Done ->
       forall h, In h (handlers st s n) -> In (h_key h) (keys st' s n) -> wargs_alive st' h ->
                 count_occ Z.eq_dec (called_keys ch) (h_key h) = 1%nat).
Proof. exact emit_exactly_once_in_order_proof. Qed.
Print Assumptions emit_exactly_once_in_order.

(* a key that has been removed from a handler list never comes back, whatever runs (one
   operation with its nested callbacks, or a whole history): new connections get new keys *)
Theorem disconnected_handlers_never_return :
  forall fuel env o st s n k,
    Inv st -> k < st_nkey st -> ~ In k (keys st s n) ->
    ~ In k (keys (fst (fst (run_op fuel env o st))) s n).
Proof. exact removed_keys_stay_removed_op. Qed.
Print Assumptions disconnected_handlers_never_return.

Theorem disconnected_handlers_never_return_history :
  forall fuel env ops st s n k,
    Inv st -> k < st_nkey st -> ~ In k (keys st s n) ->
    ~ In k (keys (fst (run_top fuel env ops st)) s n).
Proof. exact removed_keys_stay_removed_history. Qed.
Print Assumptions disconnected_handlers_never_return_history.

(* --- the exact rule at each handler's turn (by cutting the loop with [emit_loop_cut]): in the
       state reached when its turn comes, a handler that is no longer connected or has a dead
       weak argument is skipped without any effect; otherwise it is the next call --- *)
Theorem emit_loop_cut :
  forall call s n pre post st res,
    emit_loop call s n (pre ++ post) st res =
    let '(st1, e1, s1, r1) := emit_loop call s n pre st res in
    match s1 with
    | Done => let '(st2, e2, s2, r2) := emit_loop call s n post st1 r1 in (st2, e1 ++ e2, s2, r2)
    | Raised c => (st1, e1, Raised c, r1)
    end.
Proof. exact emit_loop_app. Qed.
Print Assumptions emit_loop_cut.

Theorem handler_skipped_at_its_turn :
  forall run env args s n h post st res,
    (~ In (h_key h) (keys st s n)) \/ (In (h_key h) (keys st s n) /\ ~ wargs_alive st h) ->
    emit_loop (call_callback run env args) s n (h :: post) st res
    = emit_loop (call_callback run env args) s n post st res.
Proof. exact emit_turn_skipped. Qed.
Print Assumptions handler_skipped_at_its_turn.

Theorem handler_called_at_its_turn :
  forall run env args s n h post st res,
    In (h_key h) (keys st s n) -> wargs_alive st h -> st_calls st < e_maxcalls env ->
    exists body ret rest,
      snd (fst (fst (emit_loop (call_callback run env args) s n (h :: post) st res)))
      = EvCall (h_key h) (h_cb h) (argv_of h args) body ret :: rest.
Proof. exact emit_turn_called. Qed.
Print Assumptions handler_called_at_its_turn.

(* --- handlers already disconnected when the emit starts and handlers whose weak arguments
       have died are never called --- *)
Theorem dead_or_disconnected_never_called :
  forall f env s n args st st' evs status,
    Inv st -> run_op (S f) env (OEmit s n args) st = (st', evs, status) ->
    exists ch out,
      evs = [EvEmit s n args ch out] /\
      (forall k, ~ In k (keys st s n) -> ~ In k (called_keys ch)) /\
      (forall h, In h (handlers st s n) -> ~ wargs_alive st h -> ~ In (h_key h) (called_keys ch)).
Proof. exact dead_or_disconnected_never_called_proof. Qed.
Print Assumptions dead_or_disconnected_never_called.

(* --- an emit that returns, returns whether any handler it called returned a true value
       (and every call it made returned) --- *)
Theorem emit_result_is_or :
  forall f env s n args st st' evs status,
    Inv st -> run_op (S f) env (OEmit s n args) st = (st', evs, status) ->
    status = Done ->
    exists ch,
      evs = [EvEmit s n args ch (enc_bool (existsb ret_truthy (direct_calls ch)))] /\
      forall c, In c (direct_calls ch) -> c_ret c <> None.
Proof. exact emit_result_is_or_proof. Qed.
Print Assumptions emit_result_is_or.

(* --- every call gets the weak arguments, then the user arguments given at connect time, then
       the emitted arguments (then the deprecated user_arg, if one was given) --- *)
Theorem args_order :
  forall f env s n args st st' evs status,
    Inv st -> run_op (S f) env (OEmit s n args) st = (st', evs, status) ->
    exists ch out,
      evs = [EvEmit s n args ch out] /\
      forall c, In c (direct_calls ch) ->
        exists h, In h (handlers st s n) /\ c_key c = h_key h /\ c_cb c = h_cb h /\
          c_argv c = map VObj (h_wargs h) ++ map VInt (h_uargs h) ++ map VInt args
                       ++ match h_uarg h with Some u => [VInt u] | None => [] end.
Proof. exact args_order_proof. Qed.
Print Assumptions args_order.

(* --- disconnecting something that is not connected does nothing (same state, no exception) --- *)
Theorem disconnect_absent_noop :
  forall fuel env s n cb ua ws us st,
    (forall h, In h (handlers st s n) ->
       ~ (h_cb h = cb /\ h_uarg h = ua /\ h_wargs h = ws /\ h_uargs h = us)) ->
    exists out, run_op fuel env (ODisconnect s n cb ua ws us) st = (st, [EvDis s n cb ua ws us out], Done).
Proof. exact disconnect_absent_proof. Qed.
Print Assumptions disconnect_absent_noop.

Theorem disconnect_by_key_absent_noop :
  forall fuel env s n k st,
    ~ In k (keys st s n) ->
    run_op fuel env (ODisconnectKey s n k) st = (st, [EvDk s n k 0], Done).
Proof. exact disconnect_key_absent_proof. Qed.
Print Assumptions disconnect_by_key_absent_noop.

(* --- connecting to a signal name not registered for the sender's class is rejected (NameError,
       nothing changes); a registered name appends a handler with a fresh key at the end --- *)
Theorem unregistered_name_rejected :
  forall fuel env s n cb ua ws us st,
    (forall w, In w ws -> In w (st_reg st)) ->
    ~ In n (sup_lookup (st_sup st) (sender_class env s)) ->
    run_op fuel env (OConnect s n cb ua ws us) st = (st, [EvCon s n cb ua ws us (-1)], Raised (-1)).
Proof. exact unregistered_proof. Qed.
Print Assumptions unregistered_name_rejected.

Theorem registered_name_connects_last :
  forall fuel env s n cb ua ws us st,
    (forall w, In w ws -> In w (st_reg st)) ->
    In n (sup_lookup (st_sup st) (sender_class env s)) ->
    exists st',
      run_op fuel env (OConnect s n cb ua ws us) st = (st', [EvCon s n cb ua ws us (st_nkey st)], Done) /\
      handlers st' s n = handlers st s n ++ [MkHandler (st_nkey st) cb ua ws us] /\
      st_nkey st' = st_nkey st + 1 /\
      forall s' n', (s', n') <> (s, n) -> handlers st' s' n' = handlers st s' n'.
Proof. exact connect_registered_proof. Qed.
Print Assumptions registered_name_connects_last.

Theorem registration_is_per_class :
  forall t c v c', sup_lookup (sup_update t c v) c' = if c =? c' then v else sup_lookup t c'.
Proof. exact sup_lookup_update. Qed.
Print Assumptions registration_is_per_class.

(* --- a weak argument that is garbage-collected: its weakref callbacks remove exactly the
       handlers that reference it, whatever the sender (the callback tests [if o is not None:]) --- *)
Theorem weak_argument_death_disconnects :
  forall o st s n,
    handlers (die o st) s n = filter (fun h => negb (memz o (h_wargs h))) (handlers st s n).
Proof. exact handlers_die. Qed.
Print Assumptions weak_argument_death_disconnects.

Theorem dropping_unheld_object_kills_it :
  forall fuel env o st,
    In o (st_reg st) -> ~ In o (st_held st) -> cyclic env o = false -> st_pend st = [] ->
    exists st',
      run_op fuel env (OKill o) st = (st', [EvKill o 0; EvDied o], Done) /\
      In o (st_dead st') /\
      forall s n, handlers st' s n = filter (fun h => negb (memz o (h_wargs h))) (handlers st s n).
Proof. exact kill_unheld_proof. Qed.
Print Assumptions dropping_unheld_object_kills_it.

(* --- connection order over histories: after any history of top-level operations (with any
       scripts, any fuel, exceptions included) every handler list is strictly increasing in key
       number, i.e. in the order the connects happened, and every key is one already issued;
       every single operation preserves this --- *)
Theorem connection_order_all_histories :
  forall fuel env ops nobj s n,
    let st := fst (run_top fuel env ops (init nobj)) in
    StronglySorted Z.lt (keys st s n) /\ forall k, In k (keys st s n) -> k < st_nkey st.
Proof. intros fuel env ops nobj s n. exact (history_connection_order fuel env ops nobj s n). Qed.
Print Assumptions connection_order_all_histories.

Theorem connection_order_preserved :
  forall fuel env o st, Inv st -> Inv (fst (fst (run_op fuel env o st))).
Proof. intros fuel env o st Hi. exact (le_inv _ _ (run_op_le fuel env o st Hi)). Qed.
Print Assumptions connection_order_preserved.

(* --- non-vacuity: a history with a handler that disconnects itself during the emit (the
       defect repaired by the snapshot fix: the next handler used to be skipped), a weakly
       referenced argument dropped by a later handler, and a second emit --- *)
Definition ex_env : envt :=
  MkEnv [0] [false; true]
        [ MkScript [ODisconnectKey 0 0 0] 0;     (* callback 0 disconnects itself, returns False *)
          MkScript [] 1;                         (* callback 1 returns True *)
          MkScript [OKill 0] 2 ]                 (* callback 2 drops object 0, returns None *)
        100.
Definition ex_ops : list op :=
  [ ORegister 0 [0];
    OConnect 0 0 0 None [] [10];
    OConnect 0 0 1 None [0] [11];
    OConnect 0 0 2 None [] [];
    OConnect 0 5 2 None [] [];                   (* unregistered name *)
    OEmit 0 0 [7];
    OEmit 0 0 [] ].

Definition emit_summary (e : event) : list Z * Z :=
  match e with EvEmit _ _ _ ch out => (called_keys ch, out) | _ => ([], -7) end.

Example run_somewhere :
  let '(st, evs) := run_top 2 ex_env ex_ops (init 2) in
  (map emit_summary evs, keys st 0 0, st_dead st)
  = ([([], -7); ([], -7); ([], -7); ([], -7); ([], -7); ([0; 1; 2], 1); ([2], 0)], [2], [0]).
Proof. vm_compute. reflexivity. Qed.

Example args_somewhere :
  let '(st, evs) := run_top 2 ex_env (firstn 6 ex_ops) (init 2) in
  match last evs EvGc with
  | EvEmit _ _ _ ch _ => map c_argv (direct_calls ch)
  | _ => []
  end = [[VInt 10; VInt 7]; [VObj 0; VInt 11; VInt 7]; [VInt 7]].
Proof. vm_compute. reflexivity. Qed.

(* the hypotheses of the emit theorems are met by an ordinary state: three connected handlers,
   one of which stays connected through the emit *)
Example hypotheses_somewhere :
  let st := fst (run_top 2 ex_env (firstn 5 ex_ops) (init 2)) in
  keys st 0 0 = [0; 1; 2] /\
  exists st' evs, run_op 2 ex_env (OEmit 0 0 [7]) st = (st', evs, Done) /\ keys st' 0 0 = [2].
Proof. split; [vm_compute; reflexivity|]. eexists _, _. split; vm_compute; reflexivity. Qed.

(* out of fuel is an error, not a silent truncation *)
Example out_of_fuel_somewhere :
  snd (run_op 0 ex_env (OEmit 0 0 []) (init 0)) = Raised (-3).
Proof. reflexivity. Qed.
