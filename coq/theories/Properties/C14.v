From Coq Require Import ZArith List Bool.
From Urwid Require Import PyBase Signals.
Theorem placeholder_c14 : True. Proof. exact I. Qed.
Print Assumptions placeholder_c14.
