(* C14 - Signals reach every connected handler exactly once per emit.
   Only statements here; every proof is [exact <lemma>] into Proofs/SignalsProofs.v.
   The model (Model/Signals.v) is hand-written from /repo/urwid/signals.py and tied to it by the
   event-trace correspondence in harness/props/c14.py.

   Reading guide.  [run_op (S f) env (OEmit s n args) st = (st', evs, status)] is one emit (top
   level or nested, [f] is the fuel left for the emits nested inside it) from ANY state [st]
   satisfying the connection-order invariant [Inv] (proved to hold after every history), with
   ANY callback script table [env] (scripts connect, disconnect, emit, drop objects, collect).
   [evs] is the single event [EvEmit s n args ch out]; the calls the emit made itself are the
   [EvCall] children of [ch]: [direct_calls ch], their handler keys [called_keys ch].
   [status = Done] says the emit returned; otherwise an exception left it (NameError from a
   script, RecursionError = out of fuel, or the harness' per-case call budget [e_maxcalls] was
   used up) and the clauses about completed emits do not apply.
   "The signal machinery never keeps a sender or a weak argument alive" is a statement about the
   CPython heap and is NOT a theorem: it is checked by the harness (weakref + gc.collect()). *)
From Coq Require Import ZArith List Bool Sorted.
Import ListNotations.
From Urwid Require Import PyBase Signals SignalsProofs SignalsExtProofs.
Open Scope Z_scope.

(* --- each emit invokes every handler that stays connected throughout it exactly once, in
       connection order.  The calls are a subsequence of the handler list at the start of the
       emit (so: connection order, nobody twice, nobody connected later); and a handler of that
       list that is still connected when the emit returns - equivalently, connected throughout,
       see [disconnected_handlers_never_return] - with live weak arguments is called exactly
       once. --- *)
Theorem emit_exactly_once_in_order :
  forall f env s n args st st' evs status,
    Inv st -> run_op (S f) env (OEmit s n args) st = (st', evs, status) ->
    exists ch out,
      evs = [EvEmit s n args ch out] /\
      sublist (called_keys ch) (keys st s n) /\
      NoDup (called_keys ch) /\
      (status = Done ->
       forall h, In h (handlers st s n) -> In (h_key h) (keys st' s n) -> wargs_alive st' h ->
                 count_occ Z.eq_dec (called_keys ch) (h_key h) = 1%nat).
Proof. exact emit_exactly_once_in_order_proof. Qed.
Print Assumptions emit_exactly_once_in_order.

(* a key that has been removed from a handler list never comes back, whatever runs (one
   operation with its nested callbacks, or a whole history): new connections get new keys *)
Theorem disconnected_handlers_never_return :
  forall fuel env o st s n k,
    Inv st -> k < st_nkey st -> ~ In k (keys st s n) ->
    ~ In k (keys (fst (fst (run_op fuel env o st))) s n).
Proof. exact removed_keys_stay_removed_op. Qed.
Print Assumptions disconnected_handlers_never_return.

Theorem disconnected_handlers_never_return_history :
  forall fuel env ops st s n k,
    Inv st -> k < st_nkey st -> ~ In k (keys st s n) ->
    ~ In k (keys (fst (run_top fuel env ops st)) s n).
Proof. exact removed_keys_stay_removed_history. Qed.
Print Assumptions disconnected_handlers_never_return_history.

(* --- the exact rule at each handler's turn (by cutting the loop with [emit_loop_cut]): in the
       state reached when its turn comes, a handler that is no longer connected or has a dead
       weak argument is skipped without any effect; otherwise it is the next call --- *)
Theorem emit_loop_cut :
  forall call s n pre post st res,
    emit_loop call s n (pre ++ post) st res =
    let '(st1, e1, s1, r1) := emit_loop call s n pre st res in
    match s1 with
    | Done => let '(st2, e2, s2, r2) := emit_loop call s n post st1 r1 in (st2, e1 ++ e2, s2, r2)
    | Raised c => (st1, e1, Raised c, r1)
    end.
Proof. exact emit_loop_app. Qed.
Print Assumptions emit_loop_cut.

Theorem handler_skipped_at_its_turn :
  forall run env args s n h post st res,
    (~ In (h_key h) (keys st s n)) \/ (In (h_key h) (keys st s n) /\ ~ wargs_alive st h) ->
    emit_loop (call_callback run env args) s n (h :: post) st res
    = emit_loop (call_callback run env args) s n post st res.
Proof. exact emit_turn_skipped. Qed.
Print Assumptions handler_skipped_at_its_turn.

Theorem handler_called_at_its_turn :
  forall run env args s n h post st res,
    In (h_key h) (keys st s n) -> wargs_alive st h -> st_calls st < e_maxcalls env ->
    exists body ret rest,
      snd (fst (fst (emit_loop (call_callback run env args) s n (h :: post) st res)))
      = EvCall (h_key h) (h_cb h) (argv_of h args) body ret :: rest.
Proof. exact emit_turn_called. Qed.
Print Assumptions handler_called_at_its_turn.

(* --- handlers already disconnected when the emit starts and handlers whose weak arguments
       have died are never called --- *)
Theorem dead_or_disconnected_never_called :
  forall f env s n args st st' evs status,
    Inv st -> run_op (S f) env (OEmit s n args) st = (st', evs, status) ->
    exists ch out,
      evs = [EvEmit s n args ch out] /\
      (forall k, ~ In k (keys st s n) -> ~ In k (called_keys ch)) /\
      (forall h, In h (handlers st s n) -> ~ wargs_alive st h -> ~ In (h_key h) (called_keys ch)).
Proof. exact dead_or_disconnected_never_called_proof. Qed.
Print Assumptions dead_or_disconnected_never_called.

(* --- an emit that returns, returns whether any handler it called returned a true value
       (and every call it made returned) --- *)
Theorem emit_result_is_or :
  forall f env s n args st st' evs status,
    Inv st -> run_op (S f) env (OEmit s n args) st = (st', evs, status) ->
    status = Done ->
    exists ch,
      evs = [EvEmit s n args ch (enc_bool (existsb ret_truthy (direct_calls ch)))] /\
      forall c, In c (direct_calls ch) -> c_ret c <> None.
Proof. exact emit_result_is_or_proof. Qed.
Print Assumptions emit_result_is_or.

(* --- every call gets the weak arguments, then the user arguments given at connect time, then
       the emitted arguments (then the deprecated user_arg, if one was given) --- *)
Theorem args_order :
  forall f env s n args st st' evs status,
    Inv st -> run_op (S f) env (OEmit s n args) st = (st', evs, status) ->
    exists ch out,
      evs = [EvEmit s n args ch out] /\
      forall c, In c (direct_calls ch) ->
        exists h, In h (handlers st s n) /\ c_key c = h_key h /\ c_cb c = h_cb h /\
          c_argv c = map VObj (h_wargs h) ++ map VInt (h_uargs h) ++ map VInt args
                       ++ match h_uarg h with Some u => [VInt u] | None => [] end.
Proof. exact args_order_proof. Qed.
Print Assumptions args_order.

(* --- disconnecting something that is not connected does nothing (same state, no exception) --- *)
Theorem disconnect_absent_noop :
  forall fuel env s n cb ua ws us st,
    (forall h, In h (handlers st s n) ->
       ~ (h_cb h = cb /\ h_uarg h = ua /\ h_wargs h = ws /\ h_uargs h = us)) ->
    exists out, run_op fuel env (ODisconnect s n cb ua ws us) st = (st, [EvDis s n cb ua ws us out], Done).
Proof. exact disconnect_absent_proof. Qed.
Print Assumptions disconnect_absent_noop.

Theorem disconnect_by_key_absent_noop :
  forall fuel env s n k st,
    ~ In k (keys st s n) ->
    run_op fuel env (ODisconnectKey s n k) st = (st, [EvDk s n k 0], Done).
Proof. exact disconnect_key_absent_proof. Qed.
Print Assumptions disconnect_by_key_absent_noop.

(* --- connecting to a signal name not registered for the sender's class is rejected (NameError,
       nothing changes); a registered name appends a handler with a fresh key at the end --- *)
Theorem unregistered_name_rejected :
  forall fuel env s n cb ua ws us st,
    (forall w, In w ws -> In w (st_reg st)) ->
    ~ In n (sup_lookup (st_sup st) (sender_class env s)) ->
    run_op fuel env (OConnect s n cb ua ws us) st = (st, [EvCon s n cb ua ws us (-1)], Raised (-1)).
Proof. exact unregistered_proof. Qed.
Print Assumptions unregistered_name_rejected.

Theorem registered_name_connects_last :
  forall fuel env s n cb ua ws us st,
    (forall w, In w ws -> In w (st_reg st)) ->
    In n (sup_lookup (st_sup st) (sender_class env s)) ->
    exists st',
      run_op fuel env (OConnect s n cb ua ws us) st = (st', [EvCon s n cb ua ws us (st_nkey st)], Done) /\
      handlers st' s n = handlers st s n ++ [MkHandler (st_nkey st) cb ua ws us] /\
      st_nkey st' = st_nkey st + 1 /\
      forall s' n', (s', n') <> (s, n) -> handlers st' s' n' = handlers st s' n'.
Proof. exact connect_registered_proof. Qed.
Print Assumptions registered_name_connects_last.

Theorem registration_is_per_class :
  forall t c v c', sup_lookup (sup_update t c v) c' = if c =? c' then v else sup_lookup t c'.
Proof. exact sup_lookup_update. Qed.
Print Assumptions registration_is_per_class.

(* --- a weak argument that is garbage-collected: its weakref callbacks remove exactly the
       handlers that reference it, whatever the sender (the callback tests [if o is not None:]) --- *)
Theorem weak_argument_death_disconnects :
  forall o st s n,
    handlers (die o st) s n = filter (fun h => negb (memz o (h_wargs h))) (handlers st s n).
Proof. exact handlers_die. Qed.
Print Assumptions weak_argument_death_disconnects.

Theorem dropping_unheld_object_kills_it :
  forall fuel env o st,
    In o (st_reg st) -> ~ In o (st_held st) -> cyclic env o = false -> st_pend st = [] ->
    exists st',
      run_op fuel env (OKill o) st = (st', [EvKill o 0; EvDied o], Done) /\
      In o (st_dead st') /\
      forall s n, handlers st' s n = filter (fun h => negb (memz o (h_wargs h))) (handlers st s n).
Proof. exact kill_unheld_proof. Qed.
Print Assumptions dropping_unheld_object_kills_it.

(* --- connection order over histories: after any history of top-level operations (with any
       scripts, any fuel, exceptions included) every handler list is strictly increasing in key
       number, i.e. in the order the connects happened, and every key is one already issued;
       every single operation preserves this --- *)
Theorem connection_order_all_histories :
  forall fuel env ops nobj s n,
    let st := fst (run_top fuel env ops (init nobj)) in
    StronglySorted Z.lt (keys st s n) /\ forall k, In k (keys st s n) -> k < st_nkey st.
Proof. intros fuel env ops nobj s n. exact (history_connection_order fuel env ops nobj s n). Qed.
Print Assumptions connection_order_all_histories.

Theorem connection_order_preserved :
  forall fuel env o st, Inv st -> Inv (fst (fst (run_op fuel env o st))).
Proof. intros fuel env o st Hi. exact (le_inv _ _ (run_op_le fuel env o st Hi)). Qed.
Print Assumptions connection_order_preserved.

(* ======================================================================================== *)
(* --- registration, all hierarchies: a connect is accepted exactly when the name is registered
       for the sender's own class (whatever classes exist, whatever was registered for its bases) --- *)
Theorem connect_accepted_iff_registered :
  forall fuel env s n cb ua ws us st,
    (forall w, In w ws -> In w (st_reg st)) ->
    (snd (run_op fuel env (OConnect s n cb ua ws us) st) = Done
     <-> In n (sup_lookup (st_sup st) (sender_class env s))).
Proof. exact connect_accepted_iff_proof. Qed.
Print Assumptions connect_accepted_iff_registered.

(* what the MetaSignals metaclass registers for the class statement at position [zlen pre] of any
   sequence of class statements, with any bases / MROs: the `signals` of its body followed by
   getattr(base, "signals", []) of each direct base, without duplicates - and nothing created
   later (subclasses included) changes it *)
Theorem metaclass_registration :
  forall defs pre d post,
    let cs_pre := fst (create_classes defs (MkCState [] [] []) 0 pre) in
    sup_lookup (cs_sup (fst (create_classes defs (MkCState [] [] []) 0 (pre ++ d :: post)))) (zlen pre)
    = if meta_stmt cs_pre d then meta_names defs cs_pre d else [].
Proof. exact metaclass_registration_proof. Qed.
Print Assumptions metaclass_registration.

Theorem metaclass_registers_own_signals :
  forall defs cs d n, In n (own_sig d) -> In n (meta_names defs cs d).
Proof. exact own_signals_registered_proof. Qed.
Print Assumptions metaclass_registers_own_signals.

Theorem metaclass_registers_base_attribute :
  forall defs cs d b n,
    In b (c_bases d) -> In n (class_attr defs (cs_dicts cs) b) -> In n (meta_names defs cs d).
Proof. exact base_attribute_registered_proof. Qed.
Print Assumptions metaclass_registers_base_attribute.

Theorem metaclass_registers_nothing_else :
  forall defs cs d n,
    In n (meta_names defs cs d) ->
    In n (own_sig d) \/ exists b, In b (c_bases d) /\ In n (class_attr defs (cs_dicts cs) b).
Proof. exact registered_names_come_from_proof. Qed.
Print Assumptions metaclass_registers_nothing_else.

(* The metaclass documents "register the list of signals in the class variable signals, including
   signals in superclasses".  Read as "every name declared by a class of the MRO is registered",
   that is FALSE of the code: getattr(base, "signals") only finds the first class of the base's MRO
   that has the attribute.  Witness (replayed on the implementation by corpus/C14/
   multiple_inheritance.json and by the repro script in the builder's report):
     class A(metaclass=MetaSignals): signals = [0]      class B(metaclass=MetaSignals): signals = [1]
     class C(A, B): pass        -> registered [0; 1]     class D(C): pass   -> registered [0] only.
   By the code's own registration name 1 is NOT registered for D, so rejecting it is what the
   property sentence demands; the defect is in what the metaclass registers, not in connect. *)
Definition metaclass_inherits_every_declared_name_full : Prop :=
  forall defs i d j dj n l,
    nthz defs i = Some d -> In j (c_mro d) -> nthz defs j = Some dj -> c_sig dj = Some l -> In n l ->
    c_meta dj = true ->
    In n (sup_lookup (cs_sup (fst (create_classes defs (MkCState [] [] []) 0 defs))) i).

Definition ex_abcd : list clsdef :=
  [ MkCls [] [] true (Some [0]); MkCls [] [] true (Some [1]);
    MkCls [0; 1] [0; 1] false None; MkCls [2] [2; 0; 1] false None ].

Theorem metaclass_inherits_every_declared_name_refuted :
  ~ metaclass_inherits_every_declared_name_full.
Proof.
  intro H.
  specialize (H ex_abcd 3 (MkCls [2] [2; 0; 1] false None) 1 (MkCls [] [] true (Some [1])) 1 [1]
                eq_refl (or_intror (or_intror (or_introl eq_refl))) eq_refl eq_refl (or_introl eq_refl) eq_refl).
  vm_compute in H. destruct H as [H|H]; [discriminate | exact H].
Qed.
Print Assumptions metaclass_inherits_every_declared_name_refuted.

Example abcd_registration :
  let cs := fst (create_classes ex_abcd (MkCState [] [] []) 0 ex_abcd) in
  map (sup_lookup (cs_sup cs)) [0; 1; 2; 3] = [[0]; [1]; [0; 1]; [0]].
Proof. vm_compute. reflexivity. Qed.

(* --- weak-argument death at ANY point, all interleavings: flatten the event tree of a whole
       history (any operations, scripts, fuel, exceptions, explicit drops and gc.collect() anywhere,
       also inside callbacks) into its calls and deaths in the order they happen; once [ADied o]
       has occurred, no later call receives o.  Every call passes all weak arguments of its handler
       ([call_passes_weak_arguments]), so no handler with a dead weak argument is ever called. --- *)
Theorem no_call_after_weak_argument_death :
  forall fuel env ops st l1 o l2 argv,
    flats (snd (run_top fuel env ops st)) = l1 ++ ADied o :: l2 ->
    In (ACall argv) l2 -> ~ In (VObj o) argv.
Proof. exact no_call_after_death_proof. Qed.
Print Assumptions no_call_after_weak_argument_death.

Theorem no_call_with_object_dead_at_start :
  forall fuel env ops st argv o,
    In (ACall argv) (flats (snd (run_top fuel env ops st))) -> In o (st_dead st) -> ~ In (VObj o) argv.
Proof. exact no_call_with_dead_object_proof. Qed.
Print Assumptions no_call_with_object_dead_at_start.

Theorem call_passes_weak_arguments :
  forall h args w, In w (h_wargs h) -> In (VObj w) (argv_of h args).
Proof. exact call_passes_weak_args. Qed.
Print Assumptions call_passes_weak_arguments.

(* the trace invariant itself, for every single operation (nested ones included) *)
Theorem trace_safe_every_operation :
  forall fuel env o st,
    safe (st_dead st) (flats (snd (fst (run_op fuel env o st)))) /\
    st_dead (fst (fst (run_op fuel env o st))) = dead_after (st_dead st) (flats (snd (fst (run_op fuel env o st)))).
Proof. exact run_op_tr_ok. Qed.
Print Assumptions trace_safe_every_operation.

(* --- the widgets named by the property, as users of the machinery: exactly one emit per state
       change.  [emit_once a c s n vargs ch]: the calls [ch] of that emit are a duplicate-free
       subsequence of the handlers connected in [a] (its start), every one of them still connected
       (with live weak arguments) in the later state [c] is called exactly once, and every call
       gets weak args, user args, then [vargs] = (widget, value), then the deprecated user_arg. --- *)
Theorem button_click_emits_once :
  forall f env s n st st' evs,
    Inv st -> run_op (S f) env (OClick s n) st = (st', evs, Done) ->
    exists ch out,
      evs = [EvWOp 0 s 0 [EvEmit s n [] ch out] 0] /\ emit_once st st' s n [VSelf s] ch.
Proof. exact button_click_proof. Qed.
Print Assumptions button_click_emits_once.

Theorem checkbox_same_state_emits_nothing :
  forall f env s nc np v st,
    wstate st s = v -> run_op (S f) env (OSetState s nc np v) st = (st, [EvWOp 1 s v [] 0], Done).
Proof. exact checkbox_unchanged_proof. Qed.
Print Assumptions checkbox_same_state_emits_nothing.

Theorem checkbox_state_change_emits_change_then_postchange_once :
  forall f env s nc np v st st' evs,
    Inv st -> wstate st s <> v ->
    run_op (S f) env (OSetState s nc np v) st = (st', evs, Done) ->
    exists st1 ch1 o1 ch2 o2,
      evs = [EvWOp 1 s v [EvEmit s nc [v] ch1 o1; EvEmit s np [wstate st s] ch2 o2] 0] /\
      emit_once st st' s nc [VSelf s; VInt v] ch1 /\
      le st st1 /\ wstate (set_wstate st1 (wupdate (st_wstate st1) s v)) s = v /\
      emit_once (set_wstate st1 (wupdate (st_wstate st1) s v)) st' s np [VSelf s; VInt (wstate st s)] ch2.
Proof. exact checkbox_changed_proof. Qed.
Print Assumptions checkbox_state_change_emits_change_then_postchange_once.

Theorem edit_set_text_emits_change_then_postchange_once :
  forall f env s nc np v st st' evs,
    Inv st -> run_op (S f) env (OSetText s nc np v) st = (st', evs, Done) ->
    exists st1 ch1 o1 ch2 o2,
      evs = [EvWOp 2 s v [EvEmit s nc [v] ch1 o1; EvEmit s np [wstate st1 s] ch2 o2] 0] /\
      emit_once st st' s nc [VSelf s; VInt v] ch1 /\
      le st st1 /\
      emit_once (set_wstate st1 (wupdate (st_wstate st1) s v)) st' s np [VSelf s; VInt (wstate st1 s)] ch2.
Proof. exact edit_set_text_proof. Qed.
Print Assumptions edit_set_text_emits_change_then_postchange_once.

(* a handler connected before the widget method and still connected when its second emit starts
   is in the snapshot of that emit (so the second [emit_once] covers it) *)
Theorem connected_before_is_in_postchange_snapshot :
  forall st st1 s v np h,
    Inv st -> le st st1 -> In h (handlers st s np) ->
    In (h_key h) (keys (set_wstate st1 (wupdate (st_wstate st1) s v)) s np) ->
    In h (handlers (set_wstate st1 (wupdate (st_wstate st1) s v)) s np).
Proof. exact connected_before_in_second_snapshot. Qed.
Print Assumptions connected_before_is_in_postchange_snapshot.

(* non-vacuity: a check box (sender 0, names 0 = change, 1 = postchange) whose 'change' handler
   sets the state back re-entrantly; an edit-like sender *)
Definition ex_wenv : envt :=
  MkEnv [0] [] [ MkScript [] 0; MkScript [OSetState 0 0 1 0] 0 ] 100.
Definition ex_wops : list op :=
  [ ORegister 0 [0; 1];
    OConnect 0 0 0 None [] [7];            (* change: plain handler *)
    OConnect 0 1 0 (Some 5) [] [];         (* postchange: handler with the deprecated user_arg *)
    OSetState 0 0 1 1;                     (* False -> True *)
    OSetState 0 0 1 1;                     (* unchanged: nothing *)
    OSetText 0 0 1 1 ].                    (* Edit semantics: emits although the text is the same *)

Example widget_run_somewhere :
  let '(st, evs) := run_top 3 ex_wenv ex_wops (init 0) in
  (map (fun a => match a with ACall argv => argv | ADied _ => [] end) (flats evs), wstate st 0)
  = ([ [VInt 7; VSelf 0; VInt 1]; [VSelf 0; VInt 0; VInt 5];
       [VInt 7; VSelf 0; VInt 1]; [VSelf 0; VInt 1; VInt 5] ], 1).
Proof. vm_compute. reflexivity. Qed.


(* --- non-vacuity: a history with a handler that disconnects itself during the emit (the
       defect repaired by the snapshot fix: the next handler used to be skipped), a weakly
       referenced argument dropped by a later handler, and a second emit --- *)
Definition ex_env : envt :=
  MkEnv [0] [false; true]
        [ MkScript [ODisconnectKey 0 0 0] 0;     (* callback 0 disconnects itself, returns False *)
          MkScript [] 1;                         (* callback 1 returns True *)
          MkScript [OKill 0] 2 ]                 (* callback 2 drops object 0, returns None *)
        100.
Definition ex_ops : list op :=
  [ ORegister 0 [0];
    OConnect 0 0 0 None [] [10];
    OConnect 0 0 1 None [0] [11];
    OConnect 0 0 2 None [] [];
    OConnect 0 5 2 None [] [];                   (* unregistered name *)
    OEmit 0 0 [7];
    OEmit 0 0 [] ].

Definition emit_summary (e : event) : list Z * Z :=
  match e with EvEmit _ _ _ ch out => (called_keys ch, out) | _ => ([], -7) end.

Example run_somewhere :
  let '(st, evs) := run_top 2 ex_env ex_ops (init 2) in
  (map emit_summary evs, keys st 0 0, st_dead st)
  = ([([], -7); ([], -7); ([], -7); ([], -7); ([], -7); ([0; 1; 2], 1); ([2], 0)], [2], [0]).
Proof. vm_compute. reflexivity. Qed.

Example args_somewhere :
  let '(st, evs) := run_top 2 ex_env (firstn 6 ex_ops) (init 2) in
  match last evs EvGc with
  | EvEmit _ _ _ ch _ => map c_argv (direct_calls ch)
  | _ => []
  end = [[VInt 10; VInt 7]; [VObj 0; VInt 11; VInt 7]; [VInt 7]].
Proof. vm_compute. reflexivity. Qed.

(* the hypotheses of the emit theorems are met by an ordinary state: three connected handlers,
   one of which stays connected through the emit *)
Example hypotheses_somewhere :
  let st := fst (run_top 2 ex_env (firstn 5 ex_ops) (init 2)) in
  keys st 0 0 = [0; 1; 2] /\
  exists st' evs, run_op 2 ex_env (OEmit 0 0 [7]) st = (st', evs, Done) /\ keys st' 0 0 = [2].
Proof. split; [vm_compute; reflexivity|]. eexists _, _. split; vm_compute; reflexivity. Qed.

(* out of fuel is an error, not a silent truncation *)
Example out_of_fuel_somewhere :
  snd (run_op 0 ex_env (OEmit 0 0 []) (init 0)) = Raised (-3).
Proof. reflexivity. Qed.

Example death_trace_somewhere :
  flats (snd (run_top 2 ex_env ex_ops (init 2)))
  = [ ACall [VInt 10; VInt 7]; ACall [VObj 0; VInt 11; VInt 7]; ACall [VInt 7]; ADied 0; ACall [] ].
Proof. vm_compute. reflexivity. Qed.
