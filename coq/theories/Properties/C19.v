(* C19 - Containers partition the available space exactly and proportionally.
   Only statements here; every proof is [exact <lemma>] into Proofs/Layout*.v.

   int_scale, calculate_left_right_padding, calculate_top_bottom_filler are the definitions
   in Gen/layout_gen.v, regenerated from /repo/urwid/util.py, widget/padding.py and
   widget/filler.py on every run: sections 1-3 are re-proved against what the code says now.
   Sections 4-7 are about the hand model Model/Layout.v (tied to the code by the
   extracted-model correspondence in harness/props/c19.py).
   All statements are for arbitrary integers: no bound on sizes, weights or list lengths. *)
From Coq Require Import ZArith List Bool Lia.
Import ListNotations.
From Urwid Require Import PyBase layout_gen Layout LayoutArith LayoutLists LayoutColumns LayoutOthers LayoutShares LayoutCache LayoutGrid LayoutPlace.
Open Scope Z_scope.

(* ================================================================== *)
(* 1. int_scale (translated)                                           *)

Theorem int_scale_range_thm : forall v vr out,
  2 <= vr -> 1 <= out -> 0 <= v <= vr - 1 -> 0 <= int_scale v vr out <= out - 1.
Proof. exact int_scale_range. Qed.
Print Assumptions int_scale_range_thm.

Theorem int_scale_monotone_thm : forall v1 v2 vr out,
  2 <= vr -> 1 <= out -> v1 <= v2 -> int_scale v1 vr out <= int_scale v2 vr out.
Proof. exact int_scale_monotone. Qed.
Print Assumptions int_scale_monotone_thm.

Theorem int_scale_endpoints : forall vr out,
  2 <= vr -> int_scale 0 vr out = 0 /\ int_scale (vr - 1) vr out = out - 1.
Proof. intros vr out H. split; [exact (int_scale_zero vr out H)|exact (int_scale_top vr out H)]. Qed.
Print Assumptions int_scale_endpoints.

(* round half up: the result s is the unique integer with  s - 1/2 <= v*(out-1)/(vr-1) < s + 1/2
   shifted, i.e.  2(vr-1)s <= 2v(out-1) + (vr-1) < 2(vr-1)(s+1)  -- for every sign of v, out *)
Theorem int_scale_rounds_half_up : forall v vr out, 2 <= vr ->
  let s := int_scale v vr out in
  2 * (vr - 1) * s <= 2 * v * (out - 1) + (vr - 1) < 2 * (vr - 1) * (s + 1).
Proof. exact int_scale_round. Qed.
Print Assumptions int_scale_rounds_half_up.

(* ================================================================== *)
(* 2. calculate_left_right_padding (translated)                        *)
(* clrp_width = the requested width: the given/clip amount, or the rounded percentage of
   the space beside the fixed margins, at least min_width (LayoutArith.clrp_width).        *)

(* clipping mode, every input: margins + child fill the space exactly *)
Theorem clrp_clip : forall maxcol at_ aa wa minw left right,
  let '(l, r) := calculate_left_right_padding maxcol at_ aa WClip wa minw left right in
  l + wa + r = maxcol.
Proof. exact clrp_clip_exact. Qed.
Print Assumptions clrp_clip.

(* every other mode, EVERY input (any margins, any alignment, any sign): the margins are never
   negative and the child gets min(requested, available): the requested size when it fits
   into the available space and the whole remaining space otherwise; hence margins + child =
   available, and the child's size is non-negative as soon as requested and available are *)
Theorem clrp_partition : forall maxcol at_ aa wt wa minw left right,
  wt <> WClip ->
  let W := clrp_width maxcol wt wa minw left right in
  let '(l, r) := calculate_left_right_padding maxcol at_ aa wt wa minw left right in
  0 <= l /\ 0 <= r /\ maxcol - l - r = Z.min W maxcol.
Proof. exact clrp_child. Qed.
Print Assumptions clrp_partition.

(* when the requested size fits beside the fixed margins (any mode): the child gets exactly it,
   both fixed margins are kept, and the spare space P is split by the alignment percentage A
   to within rounding: | (l - left) - A*P/100 | <= 1/2 *)
Theorem clrp_align : forall maxcol at_ aa wt wa minw left right,
  let W := clrp_width maxcol wt wa minw left right in
  let A := align_pct at_ aa in
  0 <= A <= 100 -> 0 <= left -> 0 <= right -> 0 <= W -> left + W + right <= maxcol ->
  let P := maxcol - W - left - right in
  let '(l, r) := calculate_left_right_padding maxcol at_ aa wt wa minw left right in
  l + W + r = maxcol /\ left <= l /\ right <= r /\
  -100 <= 200 * (l - left) - 2 * A * P <= 100.
Proof. exact clrp_fits. Qed.
Print Assumptions clrp_align.

(* the relative width is the percentage of the space beside the margins rounded half up *)
Theorem clrp_relative_width : forall maxcol wa minw left right, 0 <= wa ->
  let avail := Z.max (maxcol - left - right) 0 in
  let w := round_half_up_div (avail * wa) 100 in
  200 * w <= 2 * (avail * wa) + 100 < 200 * (w + 1) /\ 0 <= w /\
  clrp_width maxcol WRelative wa minw left right = match minw with Some m => Z.max w m | None => w end.
Proof. exact clrp_width_relative. Qed.
Print Assumptions clrp_relative_width.

(* ================================================================== *)
(* 3. calculate_top_bottom_filler (translated)                         *)

Theorem ctbf_partition : forall maxrow vt va ht ha minh top bottom,
  let H := ctbf_height maxrow ht ha minh top bottom in
  let '(t, b) := calculate_top_bottom_filler maxrow vt va ht ha minh top bottom in
  0 <= t /\ 0 <= b /\ maxrow - t - b = Z.min H maxrow.
Proof. exact ctbf_child. Qed.
Print Assumptions ctbf_partition.

Theorem ctbf_align : forall maxrow vt va ht ha minh top bottom,
  let H := ctbf_height maxrow ht ha minh top bottom in
  let A := valign_pct vt va in
  0 <= A <= 100 -> 0 <= top -> 0 <= bottom -> 0 <= H -> top + H + bottom <= maxrow ->
  let P := maxrow - H - top - bottom in
  let '(t, b) := calculate_top_bottom_filler maxrow vt va ht ha minh top bottom in
  t + H + b = maxrow /\ top <= t /\ bottom <= b /\
  -100 <= 200 * (t - top) - 2 * A * P <= 100.
Proof. exact ctbf_fits. Qed.
Print Assumptions ctbf_align.

Theorem ctbf_relative_height : forall maxrow ha minh top bottom, 0 <= ha <= 100 ->
  let avail := Z.max (maxrow - top - bottom) 0 in
  let h := int_scale ha 101 (avail + 1) in
  200 * h <= 2 * ha * avail + 100 < 200 * h + 200 /\ 0 <= h <= avail /\
  ctbf_height maxrow WRelative ha minh top bottom = match minh with Some m => Z.max h m | None => h end.
Proof. exact ctbf_height_relative. Qed.
Print Assumptions ctbf_relative_height.

(* ================================================================== *)
(* 4. Columns.column_widths (hand model)                               *)
(* cs : the (kind, amount) options, amount = given width / width reported by pack() / weight.
   col_ok : given and packed sizes >= 0, weights >= 1.   col_pos : all of them >= 1.
   width_at F i : width of column i, 0 for a column cut off at the right end of the list.
   vis_need div F : sum of the positive widths + div * (number of positive widths - 1).   *)

(* no exception (no ZeroDivisionError) with positive weights *)
Theorem cw_total : forall cs div minw focus maxcol,
  Forall col_ok cs -> 0 <= div -> 0 <= minw -> 0 <= maxcol -> 0 <= focus < zlen cs ->
  exists F, column_widths cs div minw focus maxcol = Ok F.
Proof. exact column_widths_total. Qed.
Print Assumptions cw_total.

Theorem cw_nonneg_thm : forall cs div minw focus maxcol F,
  Forall col_ok cs -> 0 <= div -> 0 <= minw -> 0 <= maxcol -> 0 <= focus < zlen cs ->
  column_widths cs div minw focus maxcol = Ok F ->
  Forall (fun w => 0 <= w) F /\ focus < zlen F <= zlen cs.
Proof.
  intros cs div minw focus maxcol F H1 H2 H3 H4 H5 H6.
  split; [exact (cw_nonneg cs div minw focus maxcol F H1 H2 H3 H4 H5 H6)
         |exact (cw_length cs div minw focus maxcol F H1 H2 H3 H4 H5 H6)].
Qed.
Print Assumptions cw_nonneg_thm.

Theorem cw_given_own_or_zero_thm : forall cs div minw focus maxcol F,
  Forall col_ok cs -> 0 <= div -> 0 <= minw -> 0 <= maxcol -> 0 <= focus < zlen cs ->
  column_widths cs div minw focus maxcol = Ok F ->
  forall i c, nthz cs i = Some c -> is_weight c = false -> width_at F i = snd c \/ width_at F i = 0.
Proof. exact cw_given_own_or_zero. Qed.
Print Assumptions cw_given_own_or_zero_thm.

(* the focus column keeps its own size (given / packed) resp. at least min_width (weighted)
   whenever that size alone fits into maxcol; so it is visible as soon as that size is >= 1 *)
Theorem cw_focus_kept_thm : forall cs div minw focus maxcol F,
  Forall col_ok cs -> 0 <= div -> 0 <= minw -> 0 <= maxcol -> 0 <= focus < zlen cs ->
  column_widths cs div minw focus maxcol = Ok F ->
  forall c, nthz cs focus = Some c -> static_of minw c <= maxcol ->
    (is_weight c = false -> width_at F focus = snd c) /\
    (is_weight c = true -> minw <= width_at F focus).
Proof. exact cw_focus_kept. Qed.
Print Assumptions cw_focus_kept_thm.

Theorem cw_fits_thm : forall cs div minw focus maxcol F,
  Forall col_ok cs -> 0 <= div -> 0 <= minw -> 0 <= maxcol -> 0 <= focus < zlen cs ->
  column_widths cs div minw focus maxcol = Ok F ->
  vis_need div F <= maxcol.
Proof. exact cw_fits. Qed.
Print Assumptions cw_fits_thm.

(* exact fill when a weighted column is shown; needs every slot to be visible
   (min_width >= 1, given and packed sizes >= 1) -- see cw_fills_zero_slot_refuted *)
Theorem cw_fills_thm : forall cs div minw focus maxcol F,
  Forall col_ok cs -> 0 <= div -> 0 <= minw -> 0 <= maxcol -> 0 <= focus < zlen cs ->
  column_widths cs div minw focus maxcol = Ok F ->
  1 <= minw -> Forall col_pos cs ->
  (exists i c, nthz cs i = Some c /\ is_weight c = true /\ 0 < width_at F i) ->
  vis_need div F = maxcol.
Proof. exact cw_fills. Qed.
Print Assumptions cw_fills_thm.

(* without that hypothesis the clause is false of the model (and of the code: a zero-width slot
   still takes its divider): min_width = 0, weights 1 and 1000, dividechars 1, maxcol 5 *)
Theorem cw_fills_zero_slot_refuted :
  exists cs div minw focus maxcol F,
    Forall col_ok cs /\ column_widths cs div minw focus maxcol = Ok F /\
    (exists i c, nthz cs i = Some c /\ is_weight c = true /\ 0 < width_at F i) /\
    vis_need div F < maxcol.
Proof.
  exists [(KWeight, 1); (KWeight, 1000)], 1, 0, 0, 5, [0; 4].
  split; [repeat constructor; unfold col_ok; cbn; apply Z.leb_le; reflexivity|].
  split; [vm_compute; reflexivity|].
  split; [exists 1, (KWeight, 1000); vm_compute; repeat split; congruence|].
  vm_compute. reflexivity.
Qed.
Print Assumptions cw_fills_zero_slot_refuted.

(* --- proportional shares --- *)
(* shown_weighted cs F (LayoutShares): the (weight, width) pairs of the weighted columns whose
   width is positive, by column index.
   shares_within b S: every width w of S satisfies | w - share*weight/W | <= b/2, where
   share = the sum of the widths and W = the sum of the weights of S
   (stated without division:  -(b*W) <= 2*(w*W - share*weight) <= b*W). *)

(* FULL statement of the clause ("to within one column unless the minimum width intervenes"):
   if no shown weighted column sits at min_width, every one is within 1 of its share *)
Definition cw_proportional_full : Prop :=
  forall cs div minw focus maxcol F,
    Forall col_ok cs -> 0 <= div -> 1 <= minw -> 0 <= maxcol -> 0 <= focus < zlen cs ->
    column_widths cs div minw focus maxcol = Ok F ->
    let S := shown_weighted cs F in
    Forall (fun p => minw < snd p) S -> shares_within 2 S.

(* It is FALSE of the faithful model: four columns of weight 1,1,1,5, min_width 1, 13 columns
   give [2;2;2;7] while the proportional share of the last is 13*5/8 = 8.125 (off by 1.125).
   The same input on urwid.Columns returns the same widths (corpus/C19/corners.json, reported as
   finding C19-proportional-beyond-one-column). *)
Theorem cw_proportional_within_one_refuted : ~ cw_proportional_full.
Proof.
  intros H.
  specialize (H [(KWeight, 1); (KWeight, 1); (KWeight, 1); (KWeight, 5)] 0 1 0 13 [2; 2; 2; 7]).
  assert (Hok : Forall col_ok [(KWeight, 1); (KWeight, 1); (KWeight, 1); (KWeight, 5)])
    by (repeat constructor; unfold col_ok; cbn; apply Z.leb_le; reflexivity).
  specialize (H Hok ltac:(apply Z.leb_le; reflexivity) ltac:(apply Z.leb_le; reflexivity)
                ltac:(apply Z.leb_le; reflexivity)
                ltac:(split; [apply Z.leb_le|apply Z.ltb_lt]; reflexivity)
                ltac:(vm_compute; reflexivity)).
  cbv zeta in H.
  assert (HS : shown_weighted [(KWeight, 1); (KWeight, 1); (KWeight, 1); (KWeight, 5)] [2; 2; 2; 7]
               = [(1, 2); (1, 2); (1, 2); (5, 7)]) by (vm_compute; reflexivity).
  rewrite HS in H.
  assert (Hun : Forall (fun p : Z * Z => 1 < snd p) [(1, 2); (1, 2); (1, 2); (5, 7)])
    by (repeat constructor).
  specialize (H Hun). unfold shares_within in H. cbv zeta in H. rewrite Forall_forall in H.
  specialize (H (5, 7) ltac:(cbn; tauto)). cbn [fst snd map zsum] in H. lia.
Qed.
Print Assumptions cw_proportional_within_one_refuted.

(* What IS true, for every input: with k weighted columns shown and none of them at min_width,
   every one is within (k-1)/2 columns of its proportional share -- exact for one column,
   within 1/2 for two, within ONE for three (the bound is sharp in the sense that "within
   one" fails for four, above). *)
Theorem cw_proportional_general_thm : forall cs div minw focus maxcol F,
  Forall col_ok cs -> 0 <= div -> 1 <= minw -> 0 <= maxcol -> 0 <= focus < zlen cs ->
  column_widths cs div minw focus maxcol = Ok F ->
  let S := shown_weighted cs F in
  Forall (fun p => minw < snd p) S -> shares_within (zlen S - 1) S.
Proof. exact cw_proportional_general. Qed.
Print Assumptions cw_proportional_general_thm.

(* the clause as stated holds for up to three weighted columns *)
Theorem cw_proportional_upto3_thm : forall cs div minw focus maxcol F,
  Forall col_ok cs -> 0 <= div -> 1 <= minw -> 0 <= maxcol -> 0 <= focus < zlen cs ->
  column_widths cs div minw focus maxcol = Ok F ->
  let S := shown_weighted cs F in
  zlen S <= 3 -> Forall (fun p => minw < snd p) S -> shares_within 2 S.
Proof. exact cw_proportional_upto3. Qed.
Print Assumptions cw_proportional_upto3_thm.

(* the same bound about the sharing loop alone (cw_alloc = the third loop of column_widths, run
   on any list of (weight, index) pairs in ascending weight order, any min_width m, any
   amount G >= k*m) *)
Theorem cw_alloc_proportional_thm : forall minw l G al,
  0 <= minw -> asc l -> Forall (fun p => 1 <= fst p) l -> zlen l * minw <= G -> l <> [] ->
  cw_alloc minw l G (zsum (map fst l)) = Ok al -> unclamped minw al ->
  Forall2 (fun x y => dev_ok G (zsum (map fst l)) (zlen l - 1) (fst x) (snd y)) l al.
Proof. exact cw_alloc_proportional. Qed.
Print Assumptions cw_alloc_proportional_thm.

(* the loop invariant the design asked for: the shares are all >= min_width, are assigned to
   the indices of the list in order, and add up to exactly G (this is what makes cw_fills true) *)
Theorem cw_alloc_invariant : forall minw l G W,
  asc l -> Forall (fun p => 1 <= fst p) l -> W = zsum (map fst l) -> 0 <= minw -> zlen l * minw <= G ->
  exists al, cw_alloc minw l G W = Ok al /\ map fst al = map snd l /\
             Forall (fun p => minw <= snd p) al /\ (l <> [] -> zsum (map snd al) = G).
Proof. exact cw_alloc_spec. Qed.
Print Assumptions cw_alloc_invariant.

(* sorted() really sorts: the list handed to the loop is a permutation in ascending weight order *)
Theorem sort_pairs_sorts : forall l, asc (sort_pairs l) /\ Permutation.Permutation l (sort_pairs l).
Proof. intros l. split; [exact (sort_pairs_asc l)|exact (sort_pairs_perm l)]. Qed.
Print Assumptions sort_pairs_sorts.

(* ================================================================== *)
(* 4b. Columns as an object: the width cache is transparent             *)
(* colstate / cs_step / cs_run (Model/Layout.v): the configuration plus _cache_maxcol and
   _cache_column_widths; events: layout at a width, focus move (invalidates when the index
   changes), a packed child changing its size (Columns is not told), contents[i] = ..., append,
   del contents[-1] (all invalidate), the plain attributes dividechars / min_width (do NOT
   invalidate), _invalidate().  ref_run is the same history with every layout recomputed from
   the configuration then in force.  guarded ops: every attribute assignment is directly
   followed by _invalidate().  The harness runs its multi-step histories through cs_run. *)
Theorem cw_cache_transparent : forall cols div minw focus ops,
  guarded ops = true ->
  cs_run (cs_init cols div minw focus) ops = ref_run (cs_init cols div minw focus) ops.
Proof. exact cs_run_transparent. Qed.
Print Assumptions cw_cache_transparent.

(* the reference is the stateless function of sections 4: every clause proved there holds for
   every layout of every guarded history *)
Theorem cw_reference_is_column_widths : forall cols div minw focus maxcol,
  ref_run (cs_init cols div minw focus) [OLayout maxcol] =
    [column_widths (map (resolve_col maxcol) cols) div minw focus maxcol].
Proof. exact ref_layout_is_column_widths. Qed.
Print Assumptions cw_reference_is_column_widths.

(* one step: the invariant "a usable cache entry holds what the computation returns now" is kept
   by every event the code's invalidation covers, and the step answers like the reference *)
Theorem cw_cache_step : forall st st2 o,
  cache_ok st -> same_cfg st st2 -> covered o = true ->
  cache_ok (fst (cs_step st o)) /\ same_cfg (fst (cs_step st o)) (fst (ref_step st2 o)) /\
  snd (cs_step st o) = snd (ref_step st2 o).
Proof. exact cs_step_sound. Qed.
Print Assumptions cw_cache_step.

(* NOT covered by the code (observation reported to the lead, replayed on urwid.Columns):
   given 3 | weight 1 | weight 1, lay out at 11, dividechars = 2, lay out at 11 again:
   the stale [3;4;4] (15 > 11 columns with the dividers) instead of [3;2;2] *)
Theorem cw_cache_attribute_assignment_refuted :
  exists cols div minw focus ops,
    cs_run (cs_init cols div minw focus) ops <> ref_run (cs_init cols div minw focus) ops.
Proof. exact attribute_assignment_not_transparent. Qed.
Print Assumptions cw_cache_attribute_assignment_refuted.

(* ================================================================== *)
(* 5. Pile.get_item_rows, box branch (hand model)                      *)
(* pitem_ok : amounts >= 0 (a zero weight is allowed and gets no rows).
   fixed_sum : rows of the given and packed items.                                        *)

Theorem rows_nonneg_thm : forall items maxrow rows,
  Forall pitem_ok items -> pile_item_rows items maxrow = Ok rows ->
  zlen rows = zlen items /\ Forall (fun x => 0 <= x) rows.
Proof.
  intros items maxrow rows H1 H2.
  split; [exact (rows_length items maxrow rows H1 H2)|exact (rows_nonneg items maxrow rows H1 H2)].
Qed.
Print Assumptions rows_nonneg_thm.

Theorem rows_given_own_thm : forall items maxrow rows,
  Forall pitem_ok items -> pile_item_rows items maxrow = Ok rows ->
  forall i c, nthz items i = Some c -> is_weight c = false -> nthz rows i = Some (snd c).
Proof. exact rows_given_own. Qed.
Print Assumptions rows_given_own_thm.

(* (an Ok result means a positively weighted item exists; otherwise PileError) *)
Theorem rows_sum_thm : forall items maxrow rows,
  Forall pitem_ok items -> pile_item_rows items maxrow = Ok rows ->
  fixed_sum items <= maxrow -> zsum rows = maxrow.
Proof. exact rows_sum. Qed.
Print Assumptions rows_sum_thm.

(* proportionality of the weighted rows.  weighted_rows items rows: the (weight, rows) pairs of
   the weighted items in order; npos: the number of positively weighted items.
   FULL statement ("a box-sized Pile divides its rows the same way": within one row): *)
Definition rows_proportional_full : Prop :=
  forall items maxrow rows,
    Forall pitem_ok items -> pile_item_rows items maxrow = Ok rows ->
    shares_within 2 (weighted_rows items rows).
(* false for four weighted items: weights 1,1,1,9 in 7 rows give [1;1;1;4], share 5.25 *)
Theorem rows_proportional_within_one_refuted : ~ rows_proportional_full.
Proof.
  intros H.
  specialize (H [(KWeight, 1); (KWeight, 1); (KWeight, 1); (KWeight, 9)] 7 [1; 1; 1; 4]).
  assert (Hok : Forall pitem_ok [(KWeight, 1); (KWeight, 1); (KWeight, 1); (KWeight, 9)])
    by (repeat constructor; unfold pitem_ok; cbn; apply Z.leb_le; reflexivity).
  specialize (H Hok ltac:(vm_compute; reflexivity)).
  assert (HS : weighted_rows [(KWeight, 1); (KWeight, 1); (KWeight, 1); (KWeight, 9)] [1; 1; 1; 4]
               = [(1, 1); (1, 1); (1, 1); (9, 4)]) by (vm_compute; reflexivity).
  rewrite HS in H. unfold shares_within in H. cbv zeta in H. rewrite Forall_forall in H.
  specialize (H (9, 4) ltac:(cbn; tauto)). cbn [fst snd map zsum] in H. lia.
Qed.
Print Assumptions rows_proportional_within_one_refuted.

(* true for every input: within (k-1)/2 rows, k = number of positively weighted items *)
Theorem rows_proportional_general_thm : forall items maxrow rows,
  Forall pitem_ok items -> pile_item_rows items maxrow = Ok rows ->
  shares_within (Z.max 0 (npos items - 1)) (weighted_rows items rows).
Proof. exact rows_proportional_general. Qed.
Print Assumptions rows_proportional_general_thm.

Theorem rows_proportional_upto3_thm : forall items maxrow rows,
  Forall pitem_ok items -> pile_item_rows items maxrow = Ok rows -> npos items <= 3 ->
  shares_within 2 (weighted_rows items rows).
Proof. exact rows_proportional_upto3. Qed.
Print Assumptions rows_proportional_upto3_thm.

(* the step both loops share: from a remainder that is within j/2 of ideal, the next rounded
   share is within (j+1)/2 of its ideal share, and so is the new remainder *)
Theorem proportional_step : forall W0 G0 G W a w j,
  0 < a <= W -> 0 <= j -> 0 < W0 ->
  2 * W * w <= 2 * (G * a) + W < 2 * W * (w + 1) ->
  - (j * W0) <= 2 * (G * W0 - G0 * W) <= j * W0 ->
  (- ((j + 1) * W0) <= 2 * (w * W0 - G0 * a) <= (j + 1) * W0) /\
  (- ((j + 1) * W0) <= 2 * ((G - w) * W0 - G0 * (W - a)) <= (j + 1) * W0).
Proof. exact prop_step. Qed.
Print Assumptions proportional_step.

(* ================================================================== *)
(* 6. GridFlow row breaking (hand model)                               *)

(* every cell appears exactly once, in reading order, at min(cell width, maxcol) *)
Theorem grid_rows_concat_thm : forall maxcol hsep cells,
  concat (gridflow_rows maxcol hsep cells) = cells_tagged maxcol cells 0.
Proof. exact grid_rows_concat. Qed.
Print Assumptions grid_rows_concat_thm.

(* no row is empty and every row, with its separators, fits into maxcol *)
Theorem grid_row_fits_thm : forall maxcol hsep cells,
  Forall (fun row => row <> [] /\ zsum (map snd row) + hsep * (zlen row - 1) <= maxcol)
         (gridflow_rows maxcol hsep cells).
Proof. exact grid_row_fits. Qed.
Print Assumptions grid_row_fits_thm.

(* GridFlow composed with its parts: every row of the display widget is a Padding (the translated
   calculate_left_right_padding, width = what the row needs) around a Columns of GIVEN cells.
   For every cell list: the row is placed inside maxcol (margins + row = maxcol) and its Columns
   shows every cell of the row at its width -- nothing dropped, nothing cut off *)
Theorem gridflow_rows_layout_thm : forall maxcol hsep al gfocus cells,
  0 <= hsep -> Forall (fun w => 0 <= w) cells -> 0 <= maxcol ->
  Forall (fun row =>
            let '((l, r), inner) := gridflow_row_layout maxcol hsep al gfocus row in
            0 <= l /\ 0 <= r /\ l + row_need hsep row + r = maxcol /\ inner = Ok (map snd row))
         (gridflow_rows maxcol hsep cells).
Proof. exact gridflow_rows_layout. Qed.
Print Assumptions gridflow_rows_layout_thm.

(* a Columns of GIVEN columns laid out in exactly the columns they need shows each at its width *)
Theorem cw_all_given_exact_thm : forall div minw focus ws,
  Forall (fun w => 0 <= w + div) ws ->
  column_widths (givens ws) div minw focus (zsum ws + div * (zlen ws - 1)) = Ok ws.
Proof. exact cw_all_given_exact. Qed.
Print Assumptions cw_all_given_exact_thm.

(* when all cells fit side by side there is one row *)
Theorem grid_single_row_thm : forall maxcol hsep cells,
  0 <= hsep -> Forall (fun w => 0 <= w) cells -> cells <> [] ->
  zsum cells + hsep * (zlen cells - 1) <= maxcol ->
  gridflow_rows maxcol hsep cells = [cells_tagged maxcol cells 0].
Proof. exact grid_single_row. Qed.
Print Assumptions grid_single_row_thm.

(* GridFlow.pack(()): at its natural width n*cw + (n-1)*h_sep a GridFlow of n cells of the
   configured width is a single row with every cell at that width *)
Theorem grid_natural_width_thm : forall n cw hsep,
  0 <= hsep -> 0 <= cw -> (0 < n)%nat ->
  let cells := repeat cw n in
  let natw := gridflow_natural_width (zlen cells) cw hsep in
  gridflow_rows natw hsep cells = [cells_tagged natw cells 0] /\
  Forall (fun p => snd p = cw) (cells_tagged natw cells 0).
Proof. exact grid_natural_width_single_row. Qed.
Print Assumptions grid_natural_width_thm.

(* ================================================================== *)
(* 7. Padding / Filler / Overlay (hand models around the translated functions) *)

(* Padding, box or flow render, not clipping: the child is rendered min(requested, maxcol)
   columns wide, never negative when maxcol and the requested width are not *)
Theorem padding_partition : forall c maxcol pf pack_flow l r,
  p_wt c <> WClip -> padding_values c (Some maxcol) pf pack_flow = Ok (l, r) ->
  0 <= l /\ 0 <= r /\
  padding_child_cols maxcol (l, r) = Z.min (padding_requested c maxcol pf pack_flow) maxcol.
Proof. exact padding_values_child. Qed.
Print Assumptions padding_partition.

Theorem padding_clip : forall c maxcol pf pack_flow l r,
  p_wt c = WClip -> padding_values c (Some maxcol) pf pack_flow = Ok (l, r) -> l + pf + r = maxcol.
Proof. exact padding_values_clip. Qed.
Print Assumptions padding_clip.

Theorem padding_align : forall c maxcol pf pack_flow l r,
  padding_values c (Some maxcol) pf pack_flow = Ok (l, r) ->
  let W := padding_requested c maxcol pf pack_flow in
  let A := align_pct (p_at c) (p_aa c) in
  0 <= A <= 100 -> 0 <= p_left c -> 0 <= p_right c -> 0 <= W -> p_left c + W + p_right c <= maxcol ->
  l + W + r = maxcol /\ p_left c <= l /\ p_right c <= r /\
  -100 <= 200 * (l - p_left c) - 2 * A * (maxcol - W - p_left c - p_right c) <= 100.
Proof. exact padding_values_fits. Qed.
Print Assumptions padding_align.

Theorem filler_partition : forall c maxrow child_rows t b,
  filler_values c (Some maxrow) child_rows = Ok (t, b) ->
  0 <= t /\ 0 <= b /\ maxrow - t - b = Z.min (filler_requested c maxrow child_rows) maxrow.
Proof. exact filler_values_child. Qed.
Print Assumptions filler_partition.

Theorem filler_align : forall c maxrow child_rows t b,
  filler_values c (Some maxrow) child_rows = Ok (t, b) ->
  let H := filler_requested c maxrow child_rows in
  let A := valign_pct (f_vt c) (f_va c) in
  0 <= A <= 100 -> 0 <= f_top c -> 0 <= f_bottom c -> 0 <= H -> f_top c + H + f_bottom c <= maxrow ->
  t + H + b = maxrow /\ f_top c <= t /\ f_bottom c <= b /\
  -100 <= 200 * (t - f_top c) - 2 * A * (maxrow - H - f_top c - f_bottom c) <= 100.
Proof. exact filler_values_fits. Qed.
Print Assumptions filler_align.

(* Overlay: the size handed to top_w in its three modes (fr w = top_w.rows((w,)): the flow
   height is asked at the width top_w is rendered with); no dimension is negative when the
   available size and the requested size are not; margins + child = available in each axis *)
Theorem overlay_fixed_thm : forall c maxcol maxrow pw ph (fr : Z -> Z) l r t b,
  p_wt (o_pad c) = WPack ->
  overlay_padding_filler c maxcol maxrow pw ph fr = Ok (l, r, t, b) ->
  overlay_top_w_size c maxcol maxrow l r t b = [] /\
  l + pw + r = maxcol /\ t + ph + b = maxrow /\ 0 <= t.
Proof. exact overlay_fixed. Qed.
Print Assumptions overlay_fixed_thm.

Theorem overlay_flow_thm : forall c maxcol maxrow pw ph (fr : Z -> Z) l r t b,
  p_wt (o_pad c) <> WPack -> p_wt (o_pad c) <> WClip -> f_ht (o_fill c) = WPack ->
  overlay_padding_filler c maxcol maxrow pw ph fr = Ok (l, r, t, b) ->
  let W := clrp_width maxcol (p_wt (o_pad c)) (p_wa (o_pad c)) (p_minw (o_pad c)) (p_left (o_pad c)) (p_right (o_pad c)) in
  overlay_top_w_size c maxcol maxrow l r t b = [Z.min W maxcol] /\
  0 <= l /\ 0 <= r /\ 0 <= t /\ t + fr (maxcol - l - r) + b = maxrow.
Proof. exact overlay_flow. Qed.
Print Assumptions overlay_flow_thm.

Theorem overlay_box_thm : forall c maxcol maxrow pw ph (fr : Z -> Z) l r t b,
  p_wt (o_pad c) <> WPack -> p_wt (o_pad c) <> WClip -> f_ht (o_fill c) <> WPack ->
  overlay_padding_filler c maxcol maxrow pw ph fr = Ok (l, r, t, b) ->
  let W := clrp_width maxcol (p_wt (o_pad c)) (p_wa (o_pad c)) (p_minw (o_pad c)) (p_left (o_pad c)) (p_right (o_pad c)) in
  let H := ctbf_height maxrow (f_ht (o_fill c)) (f_ha (o_fill c)) (f_minh (o_fill c)) (f_top (o_fill c)) (f_bottom (o_fill c)) in
  overlay_top_w_size c maxcol maxrow l r t b = [Z.min W maxcol; Z.min H maxrow] /\
  0 <= l /\ 0 <= r /\ 0 <= t /\ 0 <= b.
Proof. exact overlay_box. Qed.
Print Assumptions overlay_box_thm.

(* Overlay.render: the visible part of top_w (trimmed where a margin is negative, placed at
   (max(left,0), top)) lies inside the bottom canvas and, with the non-negative parts of the
   margins, exactly fills it in both directions -- in all three modes, for every input *)
Theorem overlay_placement_thm : forall c maxcol maxrow pw ph (fr : Z -> Z) l r t b,
  p_wt (o_pad c) <> WClip ->
  overlay_padding_filler c maxcol maxrow pw ph fr = Ok (l, r, t, b) ->
  let '(x, y, w, h) := overlay_placement c maxcol maxrow pw ph fr l r t b in
  0 <= x /\ 0 <= y /\ x + w + Z.max r 0 = maxcol /\ y + h + Z.max b 0 = maxrow.
Proof. exact overlay_placement_fills. Qed.
Print Assumptions overlay_placement_thm.

(* ================================================================== *)
(* 8. Non-vacuity: the models compute non-trivial things               *)

(* the doctest values of the translated functions *)
Example clrp_doctest_1 : calculate_left_right_padding 15 ACenter 0 WGiven 4 None 2 0 = (6, 5).
Proof. vm_compute. reflexivity. Qed.
Example clrp_doctest_2 : calculate_left_right_padding 20 ARelative 30 WRelative 60 (Some 14) 0 0 = (2, 4).
Proof. vm_compute. reflexivity. Qed.
Example clrp_doctest_3 : calculate_left_right_padding 15 ARight 0 WClip 18 None 0 (-1) = (-2, -1).
Proof. vm_compute. reflexivity. Qed.
Example ctbf_doctest : calculate_top_bottom_filler 20 VRelative 30 WRelative 60 (Some 14) 0 0 = (2, 4).
Proof. vm_compute. reflexivity. Qed.
Example int_scale_doctest : int_scale 2 6 101 = 40 /\ int_scale 1 3 4 = 2.
Proof. vm_compute. split; reflexivity. Qed.

(* Columns: given 3 | weight 1 | weight 2 | given 4, dividechars 1, min_width 2, focus 3.
   wide: everything shown, filled exactly; narrow: columns dropped on the left, focus kept *)
Example cw_example_wide :
  column_widths [(KGiven, 3); (KWeight, 1); (KWeight, 2); (KGiven, 4)] 1 2 3 20 = Ok [3; 3; 7; 4].
Proof. vm_compute. reflexivity. Qed.
Example cw_example_narrow :
  column_widths [(KGiven, 3); (KWeight, 1); (KWeight, 2); (KGiven, 4)] 1 2 3 8 = Ok [0; 0; 3; 4].
Proof. vm_compute. reflexivity. Qed.
Example cw_example_cut :
  column_widths [(KGiven, 3); (KWeight, 1); (KWeight, 2); (KGiven, 4)] 1 2 0 5 = Ok [3].
Proof. vm_compute. reflexivity. Qed.
(* the hypotheses of cw_fills_thm are satisfiable and its conclusion is met non-trivially *)
Example cw_fills_example :
  vis_need 1 [3; 3; 7; 4] = 20 /\ Forall col_pos [(KGiven, 3); (KWeight, 1); (KWeight, 2); (KGiven, 4)].
Proof. split; [vm_compute; reflexivity|]. repeat constructor; unfold col_pos; cbn; apply Z.leb_le; reflexivity. Qed.

Example pile_example : pile_item_rows [(KGiven, 2); (KWeight, 1); (KPack, 3); (KWeight, 3)] 14 = Ok [2; 2; 3; 7].
Proof. vm_compute. reflexivity. Qed.
Example pile_no_weight : pile_item_rows [(KGiven, 2)] 5 = Err WidgetError.
Proof. vm_compute. reflexivity. Qed.

Example grid_example :
  gridflow_rows 10 1 [4; 4; 4; 12] = [[(0, 4); (1, 4)]; [(2, 4)]; [(3, 10)]].
Proof. vm_compute. reflexivity. Qed.

Example overlay_example :
  overlay_padding_filler (OvCfg (PadCfg ACenter 0 WRelative 50 None 0 0) (FillCfg VMiddle 0 WGiven 3 None 0 0)) 20 10 0 0 (fun _ => 0)
    = Ok (5, 5, 3, 4).
Proof. vm_compute. reflexivity. Qed.

(* a history on one Columns: lay out, move the focus onto a column that was cut off, lay out at
   the same width (the cache was dropped), change nothing, lay out again (answered from the cache) *)
Example cache_example :
  cs_run (cs_init [((KGiven, 5), false); ((KWeight, 1), false); ((KGiven, 4), false)] 1 2 0)
         [OLayout 7; OFocus 2; OLayout 7; OLayout 7] = [Ok [5]; Ok [0; 2; 4]; Ok [0; 2; 4]]
  /\ guarded [OLayout 7; OFocus 2; OLayout 7; OLayout 7] = true.
Proof. vm_compute. split; reflexivity. Qed.
Example grid_row_layout_example :
  gridflow_row_layout 10 1 ACenter 0 [(0, 3); (1, 3)] = ((1, 2), Ok [3; 3]).
Proof. vm_compute. reflexivity. Qed.
Example overlay_placement_example :
  overlay_placement (OvCfg (PadCfg ARight 0 WPack 0 None 0 0) (FillCfg VTop 0 WPack 0 None 0 0)) 5 2 8 4 (fun _ => 0) (-3) 0 0 (-2)
    = (0, 0, 5, 2).
Proof. vm_compute. reflexivity. Qed.
