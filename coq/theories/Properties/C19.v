(* C19 - temporary skeleton (being extended) *)
From Coq Require Import ZArith List Bool.
Import ListNotations.
From Urwid Require Import PyBase layout_gen Layout LayoutArith.
Open Scope Z_scope.

Theorem int_scale_range_thm : forall v vr out, 2 <= vr -> 1 <= out -> 0 <= v <= vr - 1 ->
  0 <= int_scale v vr out <= out - 1.
Proof. exact int_scale_range. Qed.
Print Assumptions int_scale_range_thm.
