From Coq Require Import ZArith List Bool.
From Urwid Require Import PyBase Edit.
Theorem stub : True. Proof. exact I. Qed.
Print Assumptions stub.
