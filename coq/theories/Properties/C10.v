(* C10 - The Edit widget behaves as a text editor model for any key sequence.
   Only statements here; every proof is [exact <lemma>] into Proofs/EditProofs.v and
   Proofs/EditLayoutProofs.v.  The model (Model/Edit.v) is hand-written from urwid/widget/edit.py,
   urwid/numedit.py and text_layout.calc_coords / calc_line_pos / calc_pos / shift_line and is tied
   to the code by the per-event correspondence of the harness.  Everything is str mode (lists of
   code points).  [cw] = str_util.get_char_width and [upper] = str.upper (of a character) and [lower] = str.lower (of a string) are parameters; the layout
   of the displayed text is DATA carried by each event (any layout whatsoever in the theorems of
   part 1, a layout row of a stated shape in part 2). *)
From Coq Require Import ZArith List Bool Lia.
Import ListNotations.
From Urwid Require Import PyBase PyList Utf8 Width Utf8Proofs Edit EditSpec EditProofs EditLayoutProofs EditBytes EditBytesProofs EditOnTextLayout EditBytesGeneric WideExact EditWideProofs.
From Urwid Require TextLayout.
Open Scope Z_scope.

(* ===== part 1: every history of events, arbitrary layout data ===== *)

(* --- pos_inv: the offset is between 0 and the text length after every event of every history,
       from every initial widget (any caption, text, requested position, flags, mask, variant) --- *)
Theorem pos_inv :
  forall cw upper lower cap txt p ml tab mk v es,
    Forall (fun o => 0 <= pos (fst (fst o)) <= zlen (text (fst (fst o))))
           (snd (run cw upper lower (init cap txt p ml tab mk v) es)).
Proof. intros. exact (proj1 (pos_inv_run cw upper lower es _ (init_inv cap txt p ml tab mk v))). Qed.
Print Assumptions pos_inv.

Theorem pos_inv_any_state :
  forall cw upper lower es s, Inv s ->
    Forall (fun o => Inv (fst (fst o))) (snd (run cw upper lower s es)) /\ Inv (fst (run cw upper lower s es)).
Proof. intros cw upper lower es s. exact (pos_inv_run cw upper lower es s). Qed.
Print Assumptions pos_inv_any_state.

(* --- edit_refines_ref: after EVERY event of EVERY history the model's state (text, offset,
       preferred column, view flags) and the returned value are those of the reference editor
       EditSpec.ref_step: insert at the cursor, delete the character before / after, move by one,
       go to a column of a display row; leading zeros vanish in the numeric variants.
       Simulation by induction over the event list.  Keys: printable / multi-character / unused
       key strings, tab, enter, left, right, up, down, backspace, delete, home, end; clicks with any
       button; renders; get_pref_col; set_edit_pos. --- *)
Theorem edit_refines_ref :
  forall cw upper lower es s, Inv s ->
    map (fun o => (fst (fst o), snd o)) (snd (run cw upper lower s es)) = ref_run cw upper lower s es.
Proof. intros cw upper lower es s. exact (refines_run cw upper lower es s). Qed.
Print Assumptions edit_refines_ref.

Theorem edit_refines_ref_from_init :
  forall cw upper lower cap txt p ml tab mk v es,
    map (fun o => (text (fst (fst o)), pos (fst (fst o)), snd o))
        (snd (run cw upper lower (init cap txt p ml tab mk v) es))
    = map (fun o => (text (fst o), pos (fst o), snd o))
          (ref_run cw upper lower (init cap txt p ml tab mk v) es).
Proof.
  intros. rewrite <- (refines_run cw upper lower es _ (init_inv cap txt p ml tab mk v)).
  rewrite map_map. reflexivity.
Qed.
Print Assumptions edit_refines_ref_from_init.

(* one event, spelled out: the reference step, the signal chain, no signal when unhandled *)
Theorem edit_step_refines_ref :
  forall cw upper lower s e, Inv s ->
    let '(s', sg, r) := step cw upper lower s e in
    ref_step cw upper lower s e = (s', r) /\ chain (text s) sg (text s') /\
    (r = Ok RUnhandled -> sg = []) /\ Inv s'.
Proof. exact step_ref. Qed.
Print Assumptions edit_step_refines_ref.

(* --- signals_order: along every history, the signals of each event form a chain
       change(new_1) [text still old], postchange(old) [text already new_1], change(new_2), ...
       from the text before the event to the text after it; in particular a changed text was
       announced, and an event that changes nothing and is unhandled emits nothing --- *)
Theorem signals_order :
  forall cw upper lower es s, Inv s ->
    all_steps (fun s0 o => chain (text s0) (snd (fst o)) (text (fst (fst o))) /\
                           (snd o = Ok RUnhandled -> snd (fst o) = []))
              s (snd (run cw upper lower s es)).
Proof. intros cw upper lower es s. exact (signals_run cw upper lower es s). Qed.
Print Assumptions signals_order.

(* --- unhandled_returned --- *)
(* (a) whatever the key: if keypress returns it, text and offset are untouched and nothing was signalled *)
Theorem unhandled_returned :
  forall cw upper lower s k w lay, Inv s ->
    snd (keypress cw upper lower s k w lay) = Ok RUnhandled ->
    text (fst (fst (keypress cw upper lower s k w lay))) = text s /\
    pos (fst (fst (keypress cw upper lower s k w lay))) = pos s /\
    snd (fst (keypress cw upper lower s k w lay)) = [].
Proof. exact unhandled_untouched. Qed.
Print Assumptions unhandled_returned.

(* (b) the keys the editor has no use for (a key string the variant's filter rejects - function
       keys, control characters, multi-character names -, tab without allow_tab, enter without
       multiline) come back and the whole state is untouched *)
Theorem unused_keys_come_back :
  forall cw upper lower s k w lay,
    match k with
    | KText cs => valid_char cw upper lower s cs = Ok false
    | KTab => allow_tab s = false
    | KEnter => multiline s = false
    | _ => False
    end ->
    keypress cw upper lower s k w lay = (s, [], Ok RUnhandled).
Proof. exact unused_keys_returned. Qed.
Print Assumptions unused_keys_come_back.

(* --- numeric_alphabet_inv --- *)
(* IntEdit: digits only, along every history *)
Theorem numeric_alphabet_inv_IntEdit :
  forall cw upper lower es s,
    var s = VInt -> allow_tab s = false -> multiline s = false ->
    num_ok int_alpha false (text s) = true -> Inv s ->
    Forall (fun o => num_ok int_alpha false (text (fst (fst o))) = true) (snd (run cw upper lower s es)).
Proof. intros cw upper lower es s. exact (numeric_alphabet_int cw upper lower es s). Qed.
Print Assumptions numeric_alphabet_inv_IntEdit.

(* NumEdit / IntegerEdit / FloatEdit, NO hypothesis on str.upper / str.lower: along every history every
   character c of the text (apart from one leading '-' when negatives are allowed) passed the test
   the code applies - upper(c) occurs in the allowed string and c is upper(c) or lower(upper(c)) - *)
Theorem numeric_alphabet_inv_NumEdit_code :
  forall cw upper lower es s al tr ng,
    var s = VNum al tr ng -> allow_tab s = false -> multiline s = false ->
    num_ok (code_alpha upper lower al) ng (text s) = true -> Inv s ->
    Forall (fun o => num_ok (code_alpha upper lower al) ng (text (fst (fst o))) = true)
           (snd (run cw upper lower s es)).
Proof. intros cw upper lower es s al tr ng. exact (numeric_alphabet_num_code cw upper lower es s al tr ng). Qed.
Print Assumptions numeric_alphabet_inv_NumEdit_code.

(* ... and in terms of the alphabet itself (c is in the allowed string or its ASCII upper case is):
   what remains to be known about the case mappings is exactly [lower_honest]: a character that
   is the lower-case form of its own upper-case form, the latter occurring in the allowed string,
   is in the alphabet.  (The c = upper(c) half needs nothing.)  The harness checks lower_honest for the
   real str.upper / str.lower over ALL code points for every alphabet it uses, every run. *)
Theorem numeric_alphabet_inv_NumEdit :
  forall cw upper lower es s al tr ng,
    var s = VNum al tr ng -> lower_honest upper lower al ->
    allow_tab s = false -> multiline s = false ->
    num_ok (num_alpha al) ng (text s) = true -> Inv s ->
    Forall (fun o => num_ok (num_alpha al) ng (text (fst (fst o))) = true) (snd (run cw upper lower s es)).
Proof. intros cw upper lower es s al tr ng. exact (numeric_alphabet_num cw upper lower es s al tr ng). Qed.
Print Assumptions numeric_alphabet_inv_NumEdit.

(* the hypothesis is satisfiable: ASCII upper-casing with any lower-casing, every allowed string *)
Theorem lower_hypothesis_satisfiable : forall lower al, lower_honest (fun c => [ascii_upper c]) lower al.
Proof. exact lower_honest_ascii. Qed.
Print Assumptions lower_hypothesis_satisfiable.

(* the leading-zero loop of IntEdit / NumEdit never runs out of the fuel the model gives it *)
Theorem trim_loop_has_fuel :
  forall s sg, Inv s -> exists r, trim_loop (Z.to_nat (pos s)) s sg = Ok r.
Proof. exact trim_fuel. Qed.
Print Assumptions trim_loop_has_fuel.

(* ===== part 2: what the layout maps compute (layout rows of a stated shape) ===== *)

(* --- cursor_cell: if the view shows the cursor offset somewhere (find_row: first segment that
       covers it; column = columns of the segments before + width of the segment's text before the
       offset), a focused render reports exactly that cell --- *)
Theorem cursor_cell :
  forall cw upper lower s w lay xy,
    find_row cw (disp s) (get_line_translation cw (look s) w lay) (pos s + zlen (caption s)) 0 = Some xy ->
    snd (get_cursor_coords cw s w lay) = xy /\
    snd (step cw upper lower s (ERender true w lay))
      = Ok (RCoords (fst xy) (snd xy) (zlen (get_line_translation cw (look s) w lay))).
Proof. exact edit_cursor_cell. Qed.
Print Assumptions cursor_cell.

(* --- the view of a focused Edit keeps the cursor inside the w columns: shown at column x of row y
       by the layout => shown, and drawn, at column clamp(x, 0, w-1) of row y (any wrap mode) --- *)
Theorem cursor_visible :
  forall cw s w lay x y,
    1 <= w ->
    find_row cw (disp s) lay (pos s + zlen (caption s)) 0 = Some (x, y) ->
    find_row cw (disp s) (get_line_translation cw (look s) w lay) (pos s + zlen (caption s)) 0
      = Some (clampz x 0 (w - 1), y)
    /\ snd (get_cursor_coords cw s w lay) = (clampz x 0 (w - 1), y).
Proof. intros cw. exact (edit_cursor_visible cw (fun c => [c]) (fun u => u)). Qed.
Print Assumptions cursor_visible.

(* --- click_cell: the clicked row of the view is [pad] pre ++ SText sc o e :: post with non-negative
       widths in pre, the segment is as wide as its text, p is one of its characters and col is any of
       the columns of p's cell: button 1 puts the cursor on p (relative to the caption, clamped), returns
       True and remembers the column --- *)
Theorem click_cell :
  forall cw upper lower s w lay col row p x0 c,
    let view := get_line_translation cw s w lay in
    snd (position_coords cw s w lay 0) <= row < zlen view ->
    0 <= row ->
    cell_in_row cw (disp s) (nth (Z.to_nat row) view []) p x0 c ->
    (exists ch, nthz (disp s) p = Some ch /\ x0 + c <= col < x0 + c + cw ch) ->
    step cw upper lower s (EClick 1 col row w lay) =
    (with_pref (put s (text s) (clampz (p - zlen (caption s)) 0 (zlen (text s)))) (Some (PInt col, w)),
     [], Ok (RBool true)).
Proof. exact edit_click_cell. Qed.
Print Assumptions click_cell.

(* the same for the bare layout map used by up / down with a preferred column *)
Theorem column_to_offset :
  forall cw t (lay : layout) row p x0 c col,
    0 <= row < zlen lay ->
    cell_in_row cw t (nth (Z.to_nat row) lay []) p x0 c ->
    (exists ch, nthz t p = Some ch /\ x0 + c <= col < x0 + c + cw ch) ->
    calc_pos cw t lay (PInt col) row = Ok p.
Proof. exact calc_pos_cell. Qed.
Print Assumptions column_to_offset.

(* --- home / end of a display row --- *)
Theorem row_home :
  forall cw t pads s r,
    forallb is_pad pads = true -> is_pad s = false ->
    calc_line_pos cw t (pads ++ s :: r) PLeft =
    Ok (match s with SHint _ o => Some o | SText _ o _ => Some o | SPad _ => None end).
Proof. exact row_start. Qed.
Print Assumptions row_home.

Theorem row_end_at_removed_character :
  forall cw t pre sc o, calc_line_pos cw t (pre ++ [SHint sc o]) PRight = Ok (Some o).
Proof. exact row_end_hint. Qed.
Print Assumptions row_end_at_removed_character.

Theorem row_end_on_last_character :
  forall cw t pre sc o e p ch,
    nthz t p = Some ch -> 0 <= o <= p -> p < e -> chars_ok cw t o e ->
    calc_width cw t o p <= sc - 1 < calc_width cw t o p + cw ch ->
    calc_line_pos cw t (pre ++ [SText sc o e]) PRight = Ok (Some p).
Proof. exact row_end_text. Qed.
Print Assumptions row_end_on_last_character.

(* ===== part 2b: the row shape is not a hypothesis for the layouts of StandardTextLayout =====
   C03's model of text_layout.py (Model/TextLayout.v, tied to the code by C03's own check) and its
   invariants are imported read-only.  [conv_layout] is the layout structure as the harness sends it. *)

(* every character of every text segment of every row of StandardTextLayout.layout - any text, width,
   alignment, wrap mode - satisfies cell_in_row *)
Theorem standard_layout_rows_have_cell_shape :
  forall cw, (forall c, 0 <= cw c <= 2) -> cw 32 = 1 ->
  forall t width align wrap ell L ln sc o e p ch,
    1 <= width -> TextLayout.layout cw t width align wrap ell = Ok L -> In ln L ->
    In (TextLayout.SText sc o e) ln -> o <= p < e -> nthz t p = Some ch ->
    exists x0, cell_in_row cw t (conv_line ln) p x0 (calc_width cw t o p).
Proof. exact standard_layout_cell_in_row. Qed.
Print Assumptions standard_layout_rows_have_cell_shape.

(* click_cell with the layout StandardTextLayout computes for the displayed text: in the view of the
   Edit (shifted to the cursor or not), a click with button 1 on any column of the cell of any
   displayed character of an editable row puts the cursor on that character *)
Theorem click_cell_on_standard_layout :
  forall cw, (forall c, 0 <= cw c <= 2) -> cw 32 = 1 ->
  forall upper lower s w align wrap ell L row sc o e p ch,
    1 <= w -> TextLayout.layout cw (disp s) w align wrap ell = Ok L ->
    let lay := conv_layout L in
    let view := get_line_translation cw s w lay in
    snd (position_coords cw s w lay 0) <= row < zlen view -> 0 <= row ->
    In (TextLayout.SText sc o e) (nth (Z.to_nat row) L []) -> o <= p < e -> nthz (disp s) p = Some ch ->
    exists x0,
      cell_in_row cw (disp s) (nth (Z.to_nat row) view []) p x0 (calc_width cw (disp s) o p) /\
      forall col, x0 + calc_width cw (disp s) o p <= col < x0 + calc_width cw (disp s) o p + cw ch ->
        step cw upper lower s (EClick 1 col row w lay) =
        (with_pref (put s (text s) (clampz (p - zlen (caption s)) 0 (zlen (text s)))) (Some (PInt col, w)),
         [], Ok (RBool true)).
Proof. exact click_cell_standard_layout. Qed.
Print Assumptions click_cell_on_standard_layout.

(* ===== part 3: bytes mode under the utf8 byte encoding (Model/EditBytes.v) =====
   caption and text are bytes; move_prev_char / move_next_char / calc_width / calc_text_pos are C11's
   model of str_util (mode MUtf8, decode_one arithmetic re-translated from the source every run).
   [encs t] = UTF-8 encoding of the code points t, [boff t k] = byte offset of character index k. *)

(* --- pos_on_char_boundary_inv: from a state whose caption and text are UTF-8 and whose offset is the
       byte offset of a character index (OnB), EVERY history of events keeps it so - printable /
       multi-character / unencodable (inserted as "?") / unused key strings, tab, enter, left, right, backspace, delete
       unconditionally; up, down, home, end and clicks provided the layout they carry cuts the displayed
       text at character boundaries (every segment offset is a boff of it: [lay_bnd]); set_edit_pos
       provided its argument designates a boundary ([evs_ok]).  The harness counts how often real
       layouts satisfy lay_bnd (always, so far). --- *)
Theorem pos_on_char_boundary_inv :
  forall wcw es sb, OnB sb -> evs_ok wcw sb es ->
    Forall (fun o => OnB (fst (fst o))) (snd (brun wcw MUtf8 utf8_encode_replace sb es)) /\ OnB (fst (brun wcw MUtf8 utf8_encode_replace sb es)).
Proof. intros wcw es sb. exact (brun_OnB wcw (fun c => [c]) (fun u => u) es sb). Qed.
Print Assumptions pos_on_char_boundary_inv.

(* what OnB means: the text is valid UTF-8 and so are both halves around the offset (CPython's strict
   decoder accepts them), i.e. the offset is never inside a multi-byte character *)
Theorem on_boundary_decodes :
  forall sb, OnB sb ->
    exists t k, strict_decode (text sb) = Some t /\
                strict_decode (takez (pos sb) (text sb)) = Some (takez k t) /\
                strict_decode (dropz (pos sb) (text sb)) = Some (dropz k t) /\
                0 <= pos sb <= zlen (text sb).
Proof. exact OnB_decodes. Qed.
Print Assumptions on_boundary_decodes.

Theorem bytes_init_on_boundary :
  forall c t k ml tab, scalars c -> scalars t -> 0 <= k <= zlen t ->
    OnB (init (encs c) (encs t) (Some (boff t k)) ml tab None VEdit).
Proof. exact init_OnB. Qed.
Print Assumptions bytes_init_on_boundary.

(* one event *)
Theorem pos_on_char_boundary_step :
  forall wcw sb e, OnB sb -> ev_ok sb e -> OnB (fst (fst (bstep wcw MUtf8 utf8_encode_replace sb e))).
Proof. intros wcw. exact (bstep_OnB wcw (fun c => [c]) (fun u => u)). Qed.
Print Assumptions pos_on_char_boundary_step.

(* --- simulation through the boundary map: when the bytes state sb represents the character-level
       state ss (text sb = encs (text ss), pos sb = boff (text ss) (pos ss); generalized UTF-8: any code
       points below 0x110000), a printable key that str.encode accepts, enter, left, right, backspace and
       delete take sb to a state that represents EditSpec.ref_key ss (the character-level reference
       editor of part 1: insert at the cursor, delete the character before / after, move by one), with
       the same return value; the signals chain from the old to the new bytes text. --- *)
Theorem bytes_keys_simulate_reference :
  forall wcw upper lower sb ss k w lay lay',
    Rb sb ss -> edit_key k ->
    let '(sb', sg, r) := bkeypress wcw MUtf8 utf8_encode_replace sb k w lay in
    Rb sb' (fst (ref_key (Width.cw wcw) upper lower ss k w lay')) /\
    r = snd (ref_key (Width.cw wcw) upper lower ss k w lay') /\
    chain (text sb) sg (text sb') /\ (r = Ok RUnhandled -> sg = []).
Proof. exact bkey_sim. Qed.
Print Assumptions bytes_keys_simulate_reference.

(* tab is the one editing key that does NOT commute with the boundary map: the number of blanks is
   8 - (BYTE offset mod 8) (edit.py: 8 - (self.edit_pos % 8)), not 8 - (character offset mod 8); apart
   from that count it is the insertion of blanks at the cursor (recorded observation, not flagged) *)
Theorem bytes_tab_inserts_blanks :
  forall wcw sb ss w lay,
    Rb sb ss ->
    let n := 8 - (pos sb mod 8) in
    let '(sb', sg, r) := bkeypress wcw MUtf8 utf8_encode_replace sb KTab w lay in
    if allow_tab ss then
      Rb sb' (put ss (ins_at (text ss) (pos ss) (spaces n)) (pos ss + zlen (spaces n))) /\ r = Ok RHandled /\
      chain (text sb) sg (text sb')
    else sb' = sb /\ r = Ok RUnhandled /\ sg = [].
Proof. exact btab_sim. Qed.
Print Assumptions bytes_tab_inserts_blanks.

(* the layout maps on bytes return character boundaries when the layout cuts at boundaries *)
Theorem bytes_column_to_offset_on_boundary :
  forall wcw d lay pc row p,
    Forall cp d -> lay_bnd d lay -> bcalc_pos wcw MUtf8 (encs d) lay pc row = Ok p -> bnd d p.
Proof. exact bcalc_pos_bnd. Qed.
Print Assumptions bytes_column_to_offset_on_boundary.

(* ===== part 3b: bytes mode under the double-byte ('wide': euc-jp, big5, gbk, uhc, euc-kr) and the
   single-byte ('narrow': latin-1, ...) byte encodings =====
   The bytes model is parametric in str_util's byte-encoding mode; the theorems come from ONE generic
   development (Proofs/EditBytesGeneric.v: an encoding scheme = characters, their bytes, and the facts
   about move_prev_char / move_next_char / calc_text_pos in that mode) instantiated with C11's
   theorems about within_double_byte (Proofs/WideExact.v, Proofs/WideProofs.v, read-only).
   A double-byte text is well-formed when it is [dbflat cs] for characters cs that are a single byte
   below 0x80 or a lead byte 0x81..0xFF followed by a trail byte 0x40..0x7E / 0x80..0xFF. *)

(* --- any mode, ANY bytes (ill-formed text included), every history: 0 <= offset <= len --- *)
Theorem bytes_pos_inv :
  forall wcw m kenc es s, Inv s ->
    Forall (fun o => Inv (fst (fst o))) (snd (brun wcw m kenc s es)) /\ Inv (fst (brun wcw m kenc s es)).
Proof. intros wcw m kenc es s. exact (bytes_pos_inv_run wcw m kenc es s). Qed.
Print Assumptions bytes_pos_inv.

(* --- wide mode: the offset is never inside a double-byte character, along every history from a
       well-formed caption/text with the offset on a boundary.  [kenc] is key.encode(get_encoding(),
       "replace") under the codec (data from the implementation), assumed ASCII-compatible.
       Unconditional for refused keys, tab, enter, left, right, backspace, delete; an accepted key
       string when the bytes the codec gives for it are well-formed characters (a typed double-byte
       character, or "?" for one the codec cannot represent); up / down / home / end / click when the
       layout cuts at character boundaries; set_edit_pos when its argument is a boundary. --- *)
Theorem wide_pos_on_char_boundary_inv :
  forall wcw kenc, (forall cs, ascii_key cs = true -> kenc cs = cs) ->
  forall es sb, OnW sb -> w_evs_ok wcw kenc sb es ->
    Forall (fun o => OnW (fst (fst o))) (snd (brun wcw MWide kenc sb es)) /\ OnW (fst (brun wcw MWide kenc sb es)).
Proof. intros wcw kenc H es sb. exact (wide_run_on_boundary wcw (fun c => [c]) (fun u => u) kenc H es sb). Qed.
Print Assumptions wide_pos_on_char_boundary_inv.

Theorem wide_on_boundary_meaning :
  forall sb, OnW sb ->
    exists pre post, Forall dbchar_ok (pre ++ post) /\ text sb = dbflat pre ++ dbflat post /\ pos sb = zlen (dbflat pre).
Proof. exact OnW_meaning. Qed.
Print Assumptions wide_on_boundary_meaning.

(* --- wide mode: left / right move over, backspace / delete remove, ONE WHOLE character (one or two
       bytes); ASCII keys and enter are inserted at the cursor: the bytes state keeps representing the
       character-level reference editor's state (characters named by dbcode) --- *)
Theorem wide_keys_simulate_reference :
  forall wcw upper lower kenc, (forall cs, ascii_key cs = true -> kenc cs = cs) ->
  forall sb ss k w lay lay',
    Rw sb ss -> w_edit_key k ->
    let '(sb', sg, r) := bkeypress wcw MWide kenc sb k w lay in
    Rw sb' (fst (ref_key (Width.cw wcw) upper lower ss k w lay')) /\
    r = snd (ref_key (Width.cw wcw) upper lower ss k w lay') /\
    chain (text sb) sg (text sb') /\ (r = Ok RUnhandled -> sg = []).
Proof. exact wide_keys_sim. Qed.
Print Assumptions wide_keys_simulate_reference.

(* no restriction to ASCII: ANY accepted key string whose bytes under the codec are the well-formed
   characters xs (a typed double-byte character; "?" for a character the codec cannot represent) inserts
   exactly those characters at the cursor *)
Theorem wide_any_key_inserts_its_characters :
  forall wcw (upper : Z -> list Z) (lower : list Z -> list Z) kenc sb ss cs xs w lay,
    Rw sb ss -> bvalid_char wcw cs = Ok true -> kenc cs = dbflat xs -> Forall dbchar_ok xs ->
    let '(sb', sg, r) := bkeypress wcw MWide kenc sb (KText cs) w lay in
    Rw sb' (put ss (ins_at (text ss) (pos ss) (map dbcode xs)) (pos ss + zlen (map dbcode xs))) /\
    r = Ok RHandled /\ chain (text sb) sg (text sb').
Proof. intros wcw upper lower kenc. exact (wide_any_key_sim wcw upper lower kenc). Qed.
Print Assumptions wide_any_key_inserts_its_characters.

(* --- narrow mode: every byte is a character; the bytes model IS the reference editor on the bytes --- *)
Theorem narrow_keys_simulate_reference :
  forall wcw upper lower kenc, (forall cs, ascii_key cs = true -> kenc cs = cs) ->
  forall sb ss k w lay lay',
    Rn sb ss -> g_edit_key ascii_key k ->
    let '(sb', sg, r) := bkeypress wcw MNarrow kenc sb k w lay in
    Rn sb' (fst (ref_key (Width.cw wcw) upper lower ss k w lay')) /\
    r = snd (ref_key (Width.cw wcw) upper lower ss k w lay') /\
    chain (text sb) sg (text sb') /\ (r = Ok RUnhandled -> sg = []).
Proof. exact narrow_keys_sim. Qed.
Print Assumptions narrow_keys_simulate_reference.

(* any accepted key: the bytes of the codec (one per character, "?" for what it cannot represent) *)
Theorem narrow_any_key_inserts_its_bytes :
  forall wcw (upper : Z -> list Z) (lower : list Z -> list Z) kenc sb ss cs w lay,
    Rn sb ss -> bvalid_char wcw cs = Ok true ->
    let '(sb', sg, r) := bkeypress wcw MNarrow kenc sb (KText cs) w lay in
    Rn sb' (put ss (ins_at (text ss) (pos ss) (kenc cs)) (pos ss + zlen (kenc cs))) /\
    r = Ok RHandled /\ chain (text sb) sg (text sb').
Proof. intros wcw upper lower kenc. exact (narrow_any_key_sim wcw upper lower kenc). Qed.
Print Assumptions narrow_any_key_inserts_its_bytes.

Theorem narrow_representation_is_identity :
  forall sb ss, Rn sb ss -> text sb = text ss /\ pos sb = pos ss.
Proof. exact Rn_meaning. Qed.
Print Assumptions narrow_representation_is_identity.

(* ===== what is NOT proved here (oracle / correspondence only) =====
   - bytes mode, wide / narrow: the bytes a codec gives for a key (key.encode(get_encoding(), "replace"))
     are data from the implementation; that they are well-formed double-byte characters is a hypothesis
     of the wide theorems (checked by the oracle's decode of both halves around the offset).
   - bytes mode, ILL-FORMED text (not the encoding of code points): no invariant is claimed; what the
     code does is shown by the examples ill_formed_* below (IndexError, or a "character" that is a
     lead byte with the continuation bytes that happen to follow).
   - bytes mode, up/down/home/end/click: correspondence + oracle; the theorem covers the boundary
     invariant (under lay_bnd), not the simulation of the str-mode coordinate maps.
   - the drawn canvas: the cursor cell of the rendered canvas holds the character at the offset,
     rows() == canvas rows, render never raises (oracle on every render event).
   - part 2b discharges the row shape for C03's MODEL of StandardTextLayout; that the layout data the
     harness sends equals that model's output is C03's correspondence (the harness also counts the shape
     on the real layouts: hyp:* counters), and the oracle builds its own cell map and compares.
   - highlight: not covered (never non-None through the modelled API; AST-scanned every run). *)

(* ===== non-vacuity ===== *)
Definition cw0 (c : Z) : Z := if c =? 19990 then 2 else if c =? 769 then 0 else 1.
Definition up0 (c : Z) : list Z := [ascii_upper c].
Definition ascii_lower (c : Z) : Z := if (65 <=? c) && (c <=? 90) then c + 32 else c.
Definition lo0 (u : list Z) : list Z := map ascii_lower u.

(* "ab\ncd" at width 10, cursor at the end; up goes to the end of "ab"; typing the wide character
   there, backspace, home: texts, offsets, return values and signals are computed by the model *)
Example run_somewhere :
  let lay := [[SText 2 0 2; SHint 0 2]; [SText 2 3 5; SHint 0 5]] in
  let s0 := init [] [97; 98; 10; 99; 100] None true false None VEdit in
  let '(s, outs) := run cw0 up0 lo0 s0 [EKey KUp 10 lay; EKey (KText [19990]) 10 []; EKey KBackspace 10 [];
                                    EKey KHome 10 lay; EKey KLeft 10 []; EKey (KText [102; 53]) 10 []] in
  (text s, pos s, map (fun o => (pos (fst (fst o)), snd o, length (snd (fst o)))) outs)
  = ([97; 98; 10; 99; 100], 0,
     [(2, Ok RHandled, 0%nat); (3, Ok RHandled, 2%nat); (2, Ok RHandled, 2%nat);
      (0, Ok RHandled, 0%nat); (0, Ok RUnhandled, 0%nat); (0, Ok RUnhandled, 0%nat)]).
Proof. vm_compute. reflexivity. Qed.

Example inv_somewhere : Inv (init [99; 58] [97; 19990; 98] (Some 2) true true None VEdit)
                        /\ pos (init [99; 58] [97; 19990; 98] (Some 2) true true None VEdit) = 2.
Proof. split; [apply init_inv|reflexivity]. Qed.

(* clip mode, width 4, "abcdefgh" with the cursor at the end: the layout shows the end of the text
   at column 8, the focused view at column 3 *)
Example cursor_visible_somewhere :
  let lay := [[SText 8 0 8; SHint 0 8]] in
  let s := init [] [97; 98; 99; 100; 101; 102; 103; 104] None false false None VEdit in
  find_row cw0 (disp s) lay (pos s + zlen (caption s)) 0 = Some (8, 0) /\
  snd (get_cursor_coords cw0 s 4 lay) = (3, 0).
Proof. vm_compute. split; reflexivity. Qed.

(* a row [pad -1][text "a<wide>b" 4 columns] : the wide character (offset 1) owns the columns 0 and 1 *)
Example cell_in_row_somewhere :
  cell_in_row cw0 [97; 19990; 98] [SPad (-1); SText 4 0 3; SHint 0 3] 1 (-1) 1.
Proof.
  apply (CellInRow cw0 _ _ _ _ _ (-1) [] 4 0 3 [SHint 0 3] 19990).
  - left. reflexivity.
  - constructor.
  - reflexivity.
  - lia.
  - intros i Hi.
    assert (i = 0 \/ i = 1 \/ i = 2) as [ -> | [ -> | -> ] ] by lia.
    + exists 97. split; [reflexivity|discriminate].
    + exists 19990. split; [reflexivity|discriminate].
    + exists 98. split; [reflexivity|discriminate].
  - reflexivity.
  - reflexivity.
  - reflexivity.
Qed.

Example click_somewhere :
  calc_pos cw0 [97; 19990; 98] [[SPad (-1); SText 4 0 3; SHint 0 3]] (PInt 1) 0 = Ok 1
  /\ calc_pos cw0 [97; 19990; 98] [[SPad (-1); SText 4 0 3; SHint 0 3]] (PInt 0) 0 = Ok 1
  /\ calc_pos cw0 [97; 19990; 98] [[SPad (-1); SText 4 0 3; SHint 0 3]] (PInt 2) 0 = Ok 2.
Proof. vm_compute. repeat split; reflexivity. Qed.

(* numeric: "-12" in an IntegerEdit(base 10, negatives): a digit in front of the minus is refused, a
   zero typed at offset 1 is accepted and trimmed at once, the invariant's hypotheses hold *)
Example numeric_somewhere :
  let s0 := init [] [45; 49; 50] (Some 0) false false None (integer_variant 10 true) in
  num_ok (num_alpha (takez 10 ALLOWED)) true (text s0) = true /\
  let '(s, outs) := run cw0 up0 lo0 s0 [EKey (KText [53]) 9 []; EKey KRight 9 []; EKey (KText [97]) 9 [];
                                    EKey (KText [55]) 9 []] in
  (text s, pos s, map snd outs) = ([45; 55; 49; 50], 2, [Ok RUnhandled; Ok RHandled; Ok RUnhandled; Ok RHandled]).
Proof. vm_compute. split; reflexivity. Qed.

(* a case mapping that sends U+017F to "S" (as str.upper does): the key is refused, 's' is accepted *)
Example foreign_upper_rejected :
  let up := fun c => if c =? 383 then [83] else [ascii_upper c] in
  let s0 := init [] [] None false false None (integer_variant 36 false) in
  let '(s, outs) := run cw0 up lo0 s0 [EKey (KText [383]) 9 []; EKey (KText [115]) 9 []; EKey (KText [83]) 9 []] in
  (text s, map snd outs) = ([115; 83], [Ok RUnhandled; Ok RHandled; Ok RHandled]).
Proof. vm_compute. reflexivity. Qed.

(* ===== bytes mode: non-vacuity and the ill-formed cases ===== *)
Definition wcw0 (c : Z) : Z := if c =? 128512 then 2 else 1.

(* "a<U+1F600>b" as bytes, cursor at the end: left, left, backspace, right, delete *)
Example bytes_run_somewhere :
  let t := [97; 128512; 98] in
  let s0 := init [] (encs t) None true false None VEdit in
  let '(s, outs) := brun wcw0 MUtf8 utf8_encode_replace s0 [EKey KLeft 9 []; EKey KLeft 9 []; EKey KBackspace 9 []; EKey KRight 9 [];
                                  EKey KDelete 9 []; EKey (KText [233]) 9 []] in
  (text s0, pos s0, map (fun o => pos (fst (fst o))) outs, text s, map snd outs)
  = ([97; 240; 159; 152; 128; 98], 6, [5; 1; 0; 4; 4; 6], [240; 159; 152; 128; 195; 169],
     [Ok RHandled; Ok RHandled; Ok RHandled; Ok RHandled; Ok RHandled; Ok RHandled]).
Proof. vm_compute. reflexivity. Qed.

Example bytes_on_boundary_somewhere :
  OnB (init (encs [99; 58]) (encs [97; 128512; 98]) (Some (boff [97; 128512; 98] 2)) true false None VEdit)
  /\ boff [97; 128512; 98] 2 = 5.
Proof.
  split; [|reflexivity]. apply init_OnB.
  - repeat constructor.
  - repeat constructor.
  - unfold zlen; cbn; lia.
Qed.

(* ill-formed text 1: only continuation bytes in front of the cursor: move_prev_char walks off the
   start, Python's negative indices wrap around the text, and the walk ends in IndexError *)
Example ill_formed_left_raises :
  let s0 := init [] [128; 128] (Some 1) true false None VEdit in
  snd (bstep wcw0 MUtf8 utf8_encode_replace s0 (EKey KLeft 9 [])) = Err IndexError /\
  snd (bstep wcw0 MUtf8 utf8_encode_replace s0 (EKey KBackspace 9 [])) = Err IndexError.
Proof. vm_compute. split; reflexivity. Qed.

(* ill-formed text 2: a truncated 4-byte sequence (lead + one continuation byte) followed by 'a': the
   two bytes are treated as one character by left / backspace *)
Example ill_formed_truncated_is_one_character :
  let s0 := init [] [240; 159; 97] (Some 2) true false None VEdit in
  pos (fst (fst (bstep wcw0 MUtf8 utf8_encode_replace s0 (EKey KLeft 9 [])))) = 0 /\
  text (fst (fst (bstep wcw0 MUtf8 utf8_encode_replace s0 (EKey KBackspace 9 [])))) = [97].
Proof. vm_compute. split; reflexivity. Qed.

(* outside the hypotheses: set_edit_pos with a byte offset inside a character puts the cursor there *)
Example set_edit_pos_can_leave_the_boundaries :
  let s0 := init [] (encs [128512]) None true false None VEdit in
  pos (fst (fst (bstep wcw0 MUtf8 utf8_encode_replace s0 (ESetPos 2)))) = 2.
Proof. vm_compute. reflexivity. Qed.

(* ===== wide / narrow bytes: non-vacuity ===== *)
(* big5 "a<a6 7e>b" (the trail byte 0x7e is an ASCII code): left, left, backspace, 'x', right, delete *)
Example wide_run_somewhere :
  let cs := [DSingle 97; DDouble 166 126; DSingle 98] in
  let s0 := init [] (dbflat cs) None true false None VEdit in
  let '(s, outs) := brun wcw0 MWide (fun cs => cs) s0 [EKey KLeft 9 []; EKey KLeft 9 []; EKey KBackspace 9 [];
                                       EKey (KText [120]) 9 []; EKey KRight 9 []; EKey KDelete 9 []] in
  (text s0, pos s0, map (fun o => pos (fst (fst o))) outs, text s)
  = ([97; 166; 126; 98], 4, [3; 1; 0; 1; 3; 3], [120; 166; 126]).
Proof. vm_compute. reflexivity. Qed.

Example wide_on_boundary_somewhere :
  OnW (init [] (dbflat [DSingle 97; DDouble 166 126; DSingle 98]) (Some 3) true false None VEdit).
Proof.
  exists [], [DSingle 97; DDouble 166 126; DSingle 98], 2.
  repeat split; try reflexivity; try (vm_compute; discriminate).
  - constructor.
  - repeat constructor; cbn; lia.
Qed.

(* outside the hypotheses: a lone high byte is not a character; 'left' after it lands ... inside what
   the scan takes for a double-byte character *)
Example wide_ill_formed :
  let s0 := init [] [97; 166; 98] (Some 3) true false None VEdit in
  pos (fst (fst (bstep wcw0 MWide (fun cs => cs) s0 (EKey KLeft 9 [])))) = 1.
Proof. vm_compute. reflexivity. Qed.
