(* C10 - The Edit widget behaves as a text editor model for any key sequence.
   Only statements here; every proof is [exact <lemma>] into Proofs/EditProofs.v and
   Proofs/EditLayoutProofs.v.  The model (Model/Edit.v) is hand-written from urwid/widget/edit.py,
   urwid/numedit.py and text_layout.calc_coords / calc_line_pos / calc_pos / shift_line and is tied
   to the code by the per-event correspondence of the harness.  Everything is str mode (lists of
   code points).  [cw] = str_util.get_char_width and [upper] = str.upper (of a character) and [lower] = str.lower (of a string) are parameters; the layout
   of the displayed text is DATA carried by each event (any layout whatsoever in the theorems of
   part 1, a layout row of a stated shape in part 2). *)
From Coq Require Import ZArith List Bool Lia.
Import ListNotations.
From Urwid Require Import PyBase Edit EditSpec EditProofs EditLayoutProofs.
Open Scope Z_scope.

(* ===== part 1: every history of events, arbitrary layout data ===== *)

(* --- pos_inv: the offset is between 0 and the text length after every event of every history,
       from every initial widget (any caption, text, requested position, flags, mask, variant) --- *)
Theorem pos_inv :
  forall cw upper lower cap txt p ml tab mk v es,
    Forall (fun o => 0 <= pos (fst (fst o)) <= zlen (text (fst (fst o))))
           (snd (run cw upper lower (init cap txt p ml tab mk v) es)).
Proof. intros. exact (proj1 (pos_inv_run cw upper lower es _ (init_inv cap txt p ml tab mk v))). Qed.
Print Assumptions pos_inv.

Theorem pos_inv_any_state :
  forall cw upper lower es s, Inv s ->
    Forall (fun o => Inv (fst (fst o))) (snd (run cw upper lower s es)) /\ Inv (fst (run cw upper lower s es)).
Proof. intros cw upper lower es s. exact (pos_inv_run cw upper lower es s). Qed.
Print Assumptions pos_inv_any_state.

(* --- edit_refines_ref: after EVERY event of EVERY history the model's state (text, offset,
       preferred column, view flags) and the returned value are those of the reference editor
       EditSpec.ref_step: insert at the cursor, delete the character before / after, move by one,
       go to a column of a display row; leading zeros vanish in the numeric variants.
       Simulation by induction over the event list.  Keys: printable / multi-character / unused
       key strings, tab, enter, left, right, up, down, backspace, delete, home, end; clicks with any
       button; renders; get_pref_col; set_edit_pos. --- *)
Theorem edit_refines_ref :
  forall cw upper lower es s, Inv s ->
    map (fun o => (fst (fst o), snd o)) (snd (run cw upper lower s es)) = ref_run cw upper lower s es.
Proof. intros cw upper lower es s. exact (refines_run cw upper lower es s). Qed.
Print Assumptions edit_refines_ref.

Theorem edit_refines_ref_from_init :
  forall cw upper lower cap txt p ml tab mk v es,
    map (fun o => (text (fst (fst o)), pos (fst (fst o)), snd o))
        (snd (run cw upper lower (init cap txt p ml tab mk v) es))
    = map (fun o => (text (fst o), pos (fst o), snd o))
          (ref_run cw upper lower (init cap txt p ml tab mk v) es).
Proof.
  intros. rewrite <- (refines_run cw upper lower es _ (init_inv cap txt p ml tab mk v)).
  rewrite map_map. reflexivity.
Qed.
Print Assumptions edit_refines_ref_from_init.

(* one event, spelled out: the reference step, the signal chain, no signal when unhandled *)
Theorem edit_step_refines_ref :
  forall cw upper lower s e, Inv s ->
    let '(s', sg, r) := step cw upper lower s e in
    ref_step cw upper lower s e = (s', r) /\ chain (text s) sg (text s') /\
    (r = Ok RUnhandled -> sg = []) /\ Inv s'.
Proof. exact step_ref. Qed.
Print Assumptions edit_step_refines_ref.

(* --- signals_order: along every history, the signals of each event form a chain
       change(new_1) [text still old], postchange(old) [text already new_1], change(new_2), ...
       from the text before the event to the text after it; in particular a changed text was
       announced, and an event that changes nothing and is unhandled emits nothing --- *)
Theorem signals_order :
  forall cw upper lower es s, Inv s ->
    all_steps (fun s0 o => chain (text s0) (snd (fst o)) (text (fst (fst o))) /\
                           (snd o = Ok RUnhandled -> snd (fst o) = []))
              s (snd (run cw upper lower s es)).
Proof. intros cw upper lower es s. exact (signals_run cw upper lower es s). Qed.
Print Assumptions signals_order.

(* --- unhandled_returned --- *)
(* (a) whatever the key: if keypress returns it, text and offset are untouched and nothing was signalled *)
Theorem unhandled_returned :
  forall cw upper lower s k w lay, Inv s ->
    snd (keypress cw upper lower s k w lay) = Ok RUnhandled ->
    text (fst (fst (keypress cw upper lower s k w lay))) = text s /\
    pos (fst (fst (keypress cw upper lower s k w lay))) = pos s /\
    snd (fst (keypress cw upper lower s k w lay)) = [].
Proof. exact unhandled_untouched. Qed.
Print Assumptions unhandled_returned.

(* (b) the keys the editor has no use for (a key string the variant's filter rejects - function
       keys, control characters, multi-character names -, tab without allow_tab, enter without
       multiline) come back and the whole state is untouched *)
Theorem unused_keys_come_back :
  forall cw upper lower s k w lay,
    match k with
    | KText cs => valid_char cw upper lower s cs = Ok false
    | KTab => allow_tab s = false
    | KEnter => multiline s = false
    | _ => False
    end ->
    keypress cw upper lower s k w lay = (s, [], Ok RUnhandled).
Proof. exact unused_keys_returned. Qed.
Print Assumptions unused_keys_come_back.

(* --- numeric_alphabet_inv --- *)
(* IntEdit: digits only, along every history *)
Theorem numeric_alphabet_inv_IntEdit :
  forall cw upper lower es s,
    var s = VInt -> allow_tab s = false -> multiline s = false ->
    num_ok int_alpha false (text s) = true -> Inv s ->
    Forall (fun o => num_ok int_alpha false (text (fst (fst o))) = true) (snd (run cw upper lower s es)).
Proof. intros cw upper lower es s. exact (numeric_alphabet_int cw upper lower es s). Qed.
Print Assumptions numeric_alphabet_inv_IntEdit.

(* NumEdit / IntegerEdit / FloatEdit, NO hypothesis on str.upper / str.lower: along every history every
   character c of the text (apart from one leading '-' when negatives are allowed) passed the test
   the code applies - upper(c) occurs in the allowed string and c is upper(c) or lower(upper(c)) - *)
Theorem numeric_alphabet_inv_NumEdit_code :
  forall cw upper lower es s al tr ng,
    var s = VNum al tr ng -> allow_tab s = false -> multiline s = false ->
    num_ok (code_alpha upper lower al) ng (text s) = true -> Inv s ->
    Forall (fun o => num_ok (code_alpha upper lower al) ng (text (fst (fst o))) = true)
           (snd (run cw upper lower s es)).
Proof. intros cw upper lower es s al tr ng. exact (numeric_alphabet_num_code cw upper lower es s al tr ng). Qed.
Print Assumptions numeric_alphabet_inv_NumEdit_code.

(* ... and in terms of the alphabet itself (c is in the allowed string or its ASCII upper case is):
   what remains to be known about the case mappings is exactly [lower_honest]: a character that
   is the lower-case form of its own upper-case form, the latter occurring in the allowed string,
   is in the alphabet.  (The c = upper(c) half needs nothing.)  The harness checks lower_honest for the
   real str.upper / str.lower over ALL code points for every alphabet it uses, every run. *)
Theorem numeric_alphabet_inv_NumEdit :
  forall cw upper lower es s al tr ng,
    var s = VNum al tr ng -> lower_honest upper lower al ->
    allow_tab s = false -> multiline s = false ->
    num_ok (num_alpha al) ng (text s) = true -> Inv s ->
    Forall (fun o => num_ok (num_alpha al) ng (text (fst (fst o))) = true) (snd (run cw upper lower s es)).
Proof. intros cw upper lower es s al tr ng. exact (numeric_alphabet_num cw upper lower es s al tr ng). Qed.
Print Assumptions numeric_alphabet_inv_NumEdit.

(* the hypothesis is satisfiable: ASCII upper-casing with any lower-casing, every allowed string *)
Theorem lower_hypothesis_satisfiable : forall lower al, lower_honest (fun c => [ascii_upper c]) lower al.
Proof. exact lower_honest_ascii. Qed.
Print Assumptions lower_hypothesis_satisfiable.

(* the leading-zero loop of IntEdit / NumEdit never runs out of the fuel the model gives it *)
Theorem trim_loop_has_fuel :
  forall s sg, Inv s -> exists r, trim_loop (Z.to_nat (pos s)) s sg = Ok r.
Proof. exact trim_fuel. Qed.
Print Assumptions trim_loop_has_fuel.

(* ===== part 2: what the layout maps compute (layout rows of a stated shape) ===== *)

(* --- cursor_cell: if the view shows the cursor offset somewhere (find_row: first segment that
       covers it; column = columns of the segments before + width of the segment's text before the
       offset), a focused render reports exactly that cell --- *)
Theorem cursor_cell :
  forall cw upper lower s w lay xy,
    find_row cw (disp s) (get_line_translation cw (look s) w lay) (pos s + zlen (caption s)) 0 = Some xy ->
    snd (get_cursor_coords cw s w lay) = xy /\
    snd (step cw upper lower s (ERender true w lay))
      = Ok (RCoords (fst xy) (snd xy) (zlen (get_line_translation cw (look s) w lay))).
Proof. exact edit_cursor_cell. Qed.
Print Assumptions cursor_cell.

(* --- the view of a focused Edit keeps the cursor inside the w columns: shown at column x of row y
       by the layout => shown, and drawn, at column clamp(x, 0, w-1) of row y (any wrap mode) --- *)
Theorem cursor_visible :
  forall cw s w lay x y,
    1 <= w ->
    find_row cw (disp s) lay (pos s + zlen (caption s)) 0 = Some (x, y) ->
    find_row cw (disp s) (get_line_translation cw (look s) w lay) (pos s + zlen (caption s)) 0
      = Some (clampz x 0 (w - 1), y)
    /\ snd (get_cursor_coords cw s w lay) = (clampz x 0 (w - 1), y).
Proof. intros cw. exact (edit_cursor_visible cw (fun c => [c]) (fun u => u)). Qed.
Print Assumptions cursor_visible.

(* --- click_cell: the clicked row of the view is [pad] pre ++ SText sc o e :: post with non-negative
       widths in pre, the segment is as wide as its text, p is one of its characters and col is any of
       the columns of p's cell: button 1 puts the cursor on p (relative to the caption, clamped), returns
       True and remembers the column --- *)
Theorem click_cell :
  forall cw upper lower s w lay col row p x0 c,
    let view := get_line_translation cw s w lay in
    snd (position_coords cw s w lay 0) <= row < zlen view ->
    0 <= row ->
    cell_in_row cw (disp s) (nth (Z.to_nat row) view []) p x0 c ->
    (exists ch, nthz (disp s) p = Some ch /\ x0 + c <= col < x0 + c + cw ch) ->
    step cw upper lower s (EClick 1 col row w lay) =
    (with_pref (put s (text s) (clampz (p - zlen (caption s)) 0 (zlen (text s)))) (Some (PInt col, w)),
     [], Ok (RBool true)).
Proof. exact edit_click_cell. Qed.
Print Assumptions click_cell.

(* the same for the bare layout map used by up / down with a preferred column *)
Theorem column_to_offset :
  forall cw t (lay : layout) row p x0 c col,
    0 <= row < zlen lay ->
    cell_in_row cw t (nth (Z.to_nat row) lay []) p x0 c ->
    (exists ch, nthz t p = Some ch /\ x0 + c <= col < x0 + c + cw ch) ->
    calc_pos cw t lay (PInt col) row = Ok p.
Proof. exact calc_pos_cell. Qed.
Print Assumptions column_to_offset.

(* --- home / end of a display row --- *)
Theorem row_home :
  forall cw t pads s r,
    forallb is_pad pads = true -> is_pad s = false ->
    calc_line_pos cw t (pads ++ s :: r) PLeft =
    Ok (match s with SHint _ o => Some o | SText _ o _ => Some o | SPad _ => None end).
Proof. exact row_start. Qed.
Print Assumptions row_home.

Theorem row_end_at_removed_character :
  forall cw t pre sc o, calc_line_pos cw t (pre ++ [SHint sc o]) PRight = Ok (Some o).
Proof. exact row_end_hint. Qed.
Print Assumptions row_end_at_removed_character.

Theorem row_end_on_last_character :
  forall cw t pre sc o e p ch,
    nthz t p = Some ch -> 0 <= o <= p -> p < e -> chars_ok cw t o e ->
    calc_width cw t o p <= sc - 1 < calc_width cw t o p + cw ch ->
    calc_line_pos cw t (pre ++ [SText sc o e]) PRight = Ok (Some p).
Proof. exact row_end_text. Qed.
Print Assumptions row_end_on_last_character.

(* ===== what is NOT proved here (oracle / correspondence only) =====
   - bytes mode and other encodings ("never inside a multi-byte character"): there is no bytes model;
     the harness oracle checks on a separate bytes stream (utf-8, euc-jp, big5, latin-1) that both
     halves of the text around the offset decode and that text/offset follow the reference editor.
   - the drawn canvas: the cursor cell of the rendered canvas holds the character at the offset,
     rows() == canvas rows, render never raises (oracle on every render event).
   - that the layouts produced by StandardTextLayout have the shape assumed in part 2 is C03's subject;
     the oracle builds its own cell map from each layout structure and compares.
   - highlight: not covered (never non-None through the modelled API; AST-scanned every run). *)

(* ===== non-vacuity ===== *)
Definition cw0 (c : Z) : Z := if c =? 19990 then 2 else if c =? 769 then 0 else 1.
Definition up0 (c : Z) : list Z := [ascii_upper c].
Definition ascii_lower (c : Z) : Z := if (65 <=? c) && (c <=? 90) then c + 32 else c.
Definition lo0 (u : list Z) : list Z := map ascii_lower u.

(* "ab\ncd" at width 10, cursor at the end; up goes to the end of "ab"; typing the wide character
   there, backspace, home: texts, offsets, return values and signals are computed by the model *)
Example run_somewhere :
  let lay := [[SText 2 0 2; SHint 0 2]; [SText 2 3 5; SHint 0 5]] in
  let s0 := init [] [97; 98; 10; 99; 100] None true false None VEdit in
  let '(s, outs) := run cw0 up0 lo0 s0 [EKey KUp 10 lay; EKey (KText [19990]) 10 []; EKey KBackspace 10 [];
                                    EKey KHome 10 lay; EKey KLeft 10 []; EKey (KText [102; 53]) 10 []] in
  (text s, pos s, map (fun o => (pos (fst (fst o)), snd o, length (snd (fst o)))) outs)
  = ([97; 98; 10; 99; 100], 0,
     [(2, Ok RHandled, 0%nat); (3, Ok RHandled, 2%nat); (2, Ok RHandled, 2%nat);
      (0, Ok RHandled, 0%nat); (0, Ok RUnhandled, 0%nat); (0, Ok RUnhandled, 0%nat)]).
Proof. vm_compute. reflexivity. Qed.

Example inv_somewhere : Inv (init [99; 58] [97; 19990; 98] (Some 2) true true None VEdit)
                        /\ pos (init [99; 58] [97; 19990; 98] (Some 2) true true None VEdit) = 2.
Proof. split; [apply init_inv|reflexivity]. Qed.

(* clip mode, width 4, "abcdefgh" with the cursor at the end: the layout shows the end of the text
   at column 8, the focused view at column 3 *)
Example cursor_visible_somewhere :
  let lay := [[SText 8 0 8; SHint 0 8]] in
  let s := init [] [97; 98; 99; 100; 101; 102; 103; 104] None false false None VEdit in
  find_row cw0 (disp s) lay (pos s + zlen (caption s)) 0 = Some (8, 0) /\
  snd (get_cursor_coords cw0 s 4 lay) = (3, 0).
Proof. vm_compute. split; reflexivity. Qed.

(* a row [pad -1][text "a<wide>b" 4 columns] : the wide character (offset 1) owns the columns 0 and 1 *)
Example cell_in_row_somewhere :
  cell_in_row cw0 [97; 19990; 98] [SPad (-1); SText 4 0 3; SHint 0 3] 1 (-1) 1.
Proof.
  apply (CellInRow cw0 _ _ _ _ _ (-1) [] 4 0 3 [SHint 0 3] 19990).
  - left. reflexivity.
  - constructor.
  - reflexivity.
  - lia.
  - intros i Hi.
    assert (i = 0 \/ i = 1 \/ i = 2) as [ -> | [ -> | -> ] ] by lia.
    + exists 97. split; [reflexivity|discriminate].
    + exists 19990. split; [reflexivity|discriminate].
    + exists 98. split; [reflexivity|discriminate].
  - reflexivity.
  - reflexivity.
  - reflexivity.
Qed.

Example click_somewhere :
  calc_pos cw0 [97; 19990; 98] [[SPad (-1); SText 4 0 3; SHint 0 3]] (PInt 1) 0 = Ok 1
  /\ calc_pos cw0 [97; 19990; 98] [[SPad (-1); SText 4 0 3; SHint 0 3]] (PInt 0) 0 = Ok 1
  /\ calc_pos cw0 [97; 19990; 98] [[SPad (-1); SText 4 0 3; SHint 0 3]] (PInt 2) 0 = Ok 2.
Proof. vm_compute. repeat split; reflexivity. Qed.

(* numeric: "-12" in an IntegerEdit(base 10, negatives): a digit in front of the minus is refused, a
   zero typed at offset 1 is accepted and trimmed at once, the invariant's hypotheses hold *)
Example numeric_somewhere :
  let s0 := init [] [45; 49; 50] (Some 0) false false None (integer_variant 10 true) in
  num_ok (num_alpha (takez 10 ALLOWED)) true (text s0) = true /\
  let '(s, outs) := run cw0 up0 lo0 s0 [EKey (KText [53]) 9 []; EKey KRight 9 []; EKey (KText [97]) 9 [];
                                    EKey (KText [55]) 9 []] in
  (text s, pos s, map snd outs) = ([45; 55; 49; 50], 2, [Ok RUnhandled; Ok RHandled; Ok RUnhandled; Ok RHandled]).
Proof. vm_compute. split; reflexivity. Qed.

(* a case mapping that sends U+017F to "S" (as str.upper does): the key is refused, 's' is accepted *)
Example foreign_upper_rejected :
  let up := fun c => if c =? 383 then [83] else [ascii_upper c] in
  let s0 := init [] [] None false false None (integer_variant 36 false) in
  let '(s, outs) := run cw0 up lo0 s0 [EKey (KText [383]) 9 []; EKey (KText [115]) 9 []; EKey (KText [83]) 9 []] in
  (text s, map snd outs) = ([115; 83], [Ok RUnhandled; Ok RHandled; Ok RHandled]).
Proof. vm_compute. reflexivity. Qed.
