(* C15 - The terminal emulator survives any output and tracks a VT100 faithfully.
   Only statements here; every proof is an [exact]/[apply] into Proofs/VTermProofs.v.
   The model (Model/VTerm.v) mirrors urwid/vterm.py:TermCanvas function by function; its CSI table,
   constrain_coords and the DEC special-character map are regenerated from the source on every run
   (Gen/vterm_csi_gen.v); the rest is tied to the code by the whole-state correspondence of
   harness/props/c15.py.

   A session is any list of operations: Feed bytes (Terminal.feed -> addstr), Resize w h, ScrollBuf /
   ScrollReset (page up / page down / any key) and Focus.  All theorems quantify over ALL sessions from
   a freshly constructed terminal - every byte string, every chunking, every interleaving of resizes to
   sizes >= 1x1 - without any bound on lengths or parameters.  Since every prefix of a session is a
   session, what is stated of the final state holds after every operation. *)
From Coq Require Import ZArith List Bool.
Import ListNotations.
From Urwid Require Import PyBase PyList vterm_csi_gen VTerm VT100Ref VTermRefine VTermListFacts VTermProofs VTermParse VTermSim VTermSimB VTermSimC VTermSimD VTermSimF VTermSimSgr VTermSimO VTermSim2
  ColourBase colours_gen Colours VTermAttrSpec.
Open Scope Z_scope.

(* --- clause 1: never raises; the grid is exactly height x width (so is the view handed to the renderer,
       scrolled back or not); cursor, canvas cursor and scrolling region are inside; every reply written
       to the pty matches  ESC[0n | ESC[?6c | ESC[[1-9][0-9]*;[1-9][0-9]*R  (reply_wf_b).
       [Ok] also means: no IndexError from any list access, no AttrSpecError from any SGR sequence, the
       tab loop had enough fuel. --- *)
Theorem vterm_safe :
  forall w h e ops, 1 <= w -> 1 <= h -> Forall op_ok ops ->
  exists s, run (init w h e) ops = Ok s /\
    (width s, height s) = size_after (w, h) ops /\
    zlen (term s) = height s /\ Forall (fun r : row => zlen r = width s) (term s) /\
    zlen (content s) = height s /\ Forall (fun r : row => zlen r = width s) (content s) /\
    0 <= fst (cur s) < width s /\ 0 <= snd (cur s) < height s /\
    match cursor s with None => True | Some (x, y) => 0 <= x < width s /\ 0 <= y < height s end /\
    (0 <= sr_start s /\ sr_start s <= sr_end s /\ sr_end s < height s) /\
    0 <= sup s <= zlen (sb s) /\
    Forall (fun ev => match ev with Respond r => reply_wf_b r = true | _ => True end) (events s).
Proof.
  intros w h e ops Hw Hh Ho.
  pose proof (run_size ops (init w h e) (init_Inv w h e Hw Hh) Ho) as R.
  destruct (run (init w h e) ops) as [s|]; [|contradiction]. destruct R as (I & Z).
  exists s. split; [reflexivity|].
  pose proof (init_wh w h e) as Q. pose proof (f_equal fst Q) as Qw. pose proof (f_equal snd Q) as Qh.
  cbn [fst snd] in Qw, Qh. rewrite Qw, Qh in Z.
  pose proof (content_dims s I) as [C1 C2].
  destruct I. repeat split; auto; try tauto.
  eapply Forall_impl; [|eassumption]. intros [r| | |] Hr; auto. apply wf_event_reply. exact Hr.
Qed.
Print Assumptions vterm_safe.

(* --- clause 1, chunking: feeding a stream in pieces equals feeding it whole, at any point of any session --- *)
Theorem chunking_irrelevant :
  forall w h e pre chunks post, 1 <= w -> 1 <= h -> Forall op_ok pre ->
  run (init w h e) (pre ++ map Feed chunks ++ post) = run (init w h e) (pre ++ Feed (concat chunks) :: post).
Proof. exact chunking_from_init. Qed.
Print Assumptions chunking_irrelevant.

(* --- clause 3: lines scrolled off the top are kept, in order.
       (a) a scroll moves exactly the departing top line of the region to the end of the scrollback
           (sb_push = append, dropping the oldest line at the deque's maxlen); --- *)
Theorem scrollback_in_order_scroll :
  forall s s', scroll s false = Ok s' ->
  exists line, nthz (term s) (norm_index (zlen (term s)) (sr_start s)) = Some line /\ sb s' = sb_push (sb s) line.
Proof. exact scroll_appends. Qed.
Print Assumptions scrollback_in_order_scroll.

(*     (b) whatever a hosted program writes, in any reachable state: the new scrollback is a suffix of the
           old scrollback followed by new lines - nothing is reordered, rewritten or dropped except the
           oldest lines; --- *)
Theorem scrollback_in_order :
  forall w h e ops s data s', 1 <= w -> 1 <= h -> Forall op_ok ops ->
  run (init w h e) ops = Ok s -> addstr s data = Ok s' ->
  exists k new, 0 <= k <= zlen (sb s ++ new) /\ sb s' = dropz k (sb s ++ new).
Proof.
  intros w h e ops s data s' Hw Hh Ho Hr Ha. apply SbExt_suffix. eapply addstr_scrollback; [|exact Ha].
  pose proof (run_Safe ops (init w h e) (init_Inv w h e Hw Hh) Ho) as S. rewrite Hr in S. exact S.
Qed.
Print Assumptions scrollback_in_order.

(*     (c) and they are shown when the view is scrolled back by k = sup s lines: the view is rows
           [len - k, len - k + height) of scrollback ++ screen, each padded / cut to the width. --- *)
Theorem scrolled_back_view :
  forall w h e ops s, 1 <= w -> 1 <= h -> Forall op_ok ops -> run (init w h e) ops = Ok s ->
  content s = if sup s =? 0 then term s
              else map (fit_line s) (takez (height s) (dropz (zlen (sb s) - sup s) (sb s ++ term s))).
Proof.
  intros w h e ops s Hw Hh Ho Hr. apply content_spec.
  pose proof (run_Safe ops (init w h e) (init_Inv w h e Hw Hh) Ho) as S. rewrite Hr in S. exact S.
Qed.
Print Assumptions scrolled_back_view.

(* --- clause 2: equality with the reference VT100 (Model/VT100Ref.v, written from the VT100 behaviour, not from
       vterm.py) on the subset of the property: printable text with autowrap (incl. the last-column flag),
       CR LF BS HT, CUP VPA CUU CUD CUF CUB, EL ED, ICH DCH IL DL, DECSTBM, origin mode (DECOM: ESC[?6h / ESC[?6l -
       CUP / VPA lines count from the top margin and stay inside the margins, the cursor stops at the margins, CPR
       reports the line relative to the top margin, DECSTBM / DECOM home to the origin, ED / EL are not confined),
       RI, SGR, DSR, and the character sets (SO / SI, ESC ( 0 / ESC ( B / ESC ) 0 / ESC ) B: every cell carries the
       set - ASCII or DEC special graphics - it was written in) - any command list, any mixture, any terminal size, any parameters below 2^4000 (int()
       refuses more than 4300 digits; the emulator then falls back to the default, by design).
       [cmd_ok] bounds the parameter domains (printable 0x20-0x7E, EL/ED mode <= 2, classic SGR values, DSR 5/6);
       [unambiguous] stops before the points on which terminals of the VT100 family themselves differ (LF / RI /
       HT with the last-column flag set, CUU / CUD across a margin of a partial scrolling region while origin mode is
       off, SO before G1 was ever designated).
       After feeding the byte encoding of the commands the emulator's screen contents (characters and renditions),
       cursor, scrolling region and origin mode equal the reference's ([agrees]).  The feed may be chunked in any way
       (chunking_irrelevant).  Proof: the parser reads the decimal encoding back exactly (Proofs/VTermParse.v),
       every command preserves the relation R between the two states (Proofs/VTermSim.v), induction over the list.
       [agrees_history]: the answers written to the host are exactly the reference's (DSR 5 -> ESC[0n, DSR 6 ->
       ESC[row;colR with the reference's cursor position), and as long as only the whole-screen region scrolled
       ([v_sbknown]) the scrollback holds exactly the lines that left the top of the reference's screen, in order,
       characters and renditions (the last scrollback_maxlen_gen = 10000 of them: deque(maxlen)).
       SGR covers the classic values and the palette (38;5;n / 48;5;n) and direct (38;2;r;g;b / 48;2;r;g;b) colour
       forms in any mixture ([sgr_ok]).  What the screen must show for a reference colour depends on the colour depth
       the AttrSpec was pushed to by earlier parameters (16 -> 256 -> 2^24; it sticks until both colours are default
       again): [attr_shows] reads a cell's AttrSpec at its own depth - basic number (+8 when bold) at 16, palette
       index at 256, the palette entry's rgb (color_values_256_gen, dumped from the code's table) or the direct rgb at
       2^24 - and compares with the reference's colour. --- *)
Theorem vterm_refines_vt100 :
  forall w h e cs, 1 <= w -> 1 <= h ->
  forallb cmd_ok cs = true -> Forall cmd_small cs -> unambiguous (vt_init w h) cs = true ->
  exists s, run (init w h e) [Feed (enc_cmds cs)] = Ok s /\ agrees s (run_ref (vt_init w h) cs) = true /\
            agrees_history s (run_ref (vt_init w h) cs) = true.
Proof. exact refines_vt100. Qed.
Print Assumptions vterm_refines_vt100.

(* --- corollaries of vterm_safe / chunking_irrelevant spelled out for three classes of hostile input --- *)
(* any CSI sequence - any parameter bytes (missing, extra, huge, malformed), any final byte - anywhere in a session *)
Corollary any_csi_is_survived :
  forall w h e pre params final, 1 <= w -> 1 <= h -> Forall op_ok pre ->
  exists s, run (init w h e) (pre ++ [Feed (27 :: 91 :: params ++ [final])]) = Ok s.
Proof.
  intros w h e pre params final Hw Hh Hp.
  destruct (vterm_safe w h e (pre ++ [Feed (27 :: 91 :: params ++ [final])]) Hw Hh) as (s & E & _).
  - apply Forall_app. split; [assumption|repeat constructor].
  - exists s. exact E.
Qed.
Print Assumptions any_csi_is_survived.

(* the decoder state does not depend on where the stream is cut - also in the middle of a UTF-8 character
   (complete, truncated or invalid) or of an escape sequence *)
Corollary cut_anywhere :
  forall w h e pre a b post, 1 <= w -> 1 <= h -> Forall op_ok pre ->
  run (init w h e) (pre ++ Feed a :: Feed b :: post) = run (init w h e) (pre ++ Feed (a ++ b) :: post).
Proof.
  intros w h e pre a b post Hw Hh Hp.
  pose proof (chunking_irrelevant w h e pre [a; b] post Hw Hh Hp) as H. cbn [map concat app] in H.
  rewrite app_nil_r in H. exact H.
Qed.
Print Assumptions cut_anywhere.

(* scrolling the view back by any amount, at any point: the canvas cursor is hidden or inside the grid *)
Corollary scrolled_view_cursor_inside :
  forall w h e ops up lines, 1 <= w -> 1 <= h -> Forall op_ok ops ->
  exists s, run (init w h e) (ops ++ [ScrollBuf up lines]) = Ok s /\
    match cursor s with None => True | Some (x, y) => 0 <= x < width s /\ 0 <= y < height s end /\
    zlen (content s) = height s /\ Forall (fun r : row => zlen r = width s) (content s).
Proof.
  intros w h e ops up lines Hw Hh Ho.
  destruct (vterm_safe w h e (ops ++ [ScrollBuf up lines]) Hw Hh) as (s & E & _ & _ & _ & C1 & C2 & _ & _ & Cu & _).
  - apply Forall_app. split; [assumption|repeat constructor].
  - exists s. auto.
Qed.
Print Assumptions scrolled_view_cursor_inside.

(* the formerly failing sequences, and a mixed one, as closed computations (instances of the theorem above) *)
Definition agree_on (w h : Z) (cs : list cmd) : bool :=
  unambiguous (vt_init w h) cs &&
  match run (init w h 1) [Feed (enc_cmds cs)] with
  | Ok s => agrees s (run_ref (vt_init w h) cs) && agrees_history s (run_ref (vt_init w h) cs)
  | Err _ => false
  end.
Definition text (l : list Z) : list cmd := map CCh l.
Example refines_insert_line :
  agree_on 4 4 (text [97; 97] ++ [CCr; CLf] ++ text [98; 98] ++ [CCr; CLf] ++ text [99] ++ [CCr; CLf] ++ text [100]
                ++ [CCup 2 1; CIl (-1); CStbm 1 2; CCup 4 1; CIl 1; CDl 3]) = true.
Proof. vm_compute. reflexivity. Qed.
Example refines_erase_display_1 : agree_on 4 1 (text [97; 98; 99; 100] ++ [CCup 1 3; CEd 1]) = true.
Proof. vm_compute. reflexivity. Qed.
Example refines_wrap_flag_cleared : agree_on 3 2 (text [97; 98; 99] ++ [CCup 1 3; CCh 88; CCuu 0; CCh 89; CCh 90]) = true.
Proof. vm_compute. reflexivity. Qed.
Example refines_one_column : agree_on 1 3 (text [97; 98; 99; 100]) = true.
Proof. vm_compute. reflexivity. Qed.
Example refines_wrap_below_region : agree_on 2 3 ([CStbm 1 2; CCup 3 1] ++ text [120; 121; 122]) = true.
Proof. vm_compute. reflexivity. Qed.
Example refines_line_drawing :
  agree_on 6 2 ([CDesig 1 48; CCh 120; CSo; CCh 113; CCh 113; CSi; CCh 121; CDesig 0 48; CCh 106; CDesig 0 66; CSo; CDesig 1 66;
                 CCh 107; CEl 1; CSi]) = true.
Proof. vm_compute. reflexivity. Qed.
Example refines_colour_forms :
  agree_on 7 2 ([CSgr [38; 5; 196]; CCh 97; CSgr [48; 2; 1; 2; 3]; CCh 98; CSgr [31]; CCh 99; CSgr [39; 49]; CSgr [1; 32]; CCh 100;
                 CSgr [0; 1; 38; 5; 3; 4]; CCh 101; CSgr [38; 2; 255; 255; 255; 48; 5; 255; 7]; CCh 102; CSgr []; CCh 103]) = true.
Proof. vm_compute. reflexivity. Qed.
Example refines_origin_mode :
  agree_on 4 4 (text [97; 97; 97; 97] ++ [CCr; CLf] ++ text [98; 98; 98; 98] ++ [CCr; CLf] ++ text [99; 99; 99; 99] ++ [CCr; CLf]
                ++ text [100; 100; 100; 100]
                ++ [CStbm 2 3; CDecom true; CDsr 6; CCup 9 9; CDsr 6; CCuu 5; CEd 0; CVpa 2; CCh 120; CCud 7; CLf; CCup 1 2; CEd 1;
                    CStbm 3 4; CDsr 6; CRi; CDecom false; CDsr 6; CVpa 4; CCh 121; CDecom true; CCh 122; CEl 2]) = true.
Proof. vm_compute. reflexivity. Qed.
Example refines_mixed :
  agree_on 5 3 ([CSgr [1; 31]; CCh 97; CSgr [0; 44]; CCh 98; CCup 9999 9999; CCh 99; CCh 100; CEl 1; CRi; CRi; CRi;
                 CIch 2; CDch 1; CStbm 2 3; CCh 101; CLf; CLf; CLf; CEd 0; CCub 9; CCuf 2; CBs; CCh 102]) = true.
Proof. vm_compute. reflexivity. Qed.

(* --- the AttrSpec abstraction of the model, discharged against the proved model of the class (C18, read-only) ---
   Model/VTerm.v keeps a record (fg, bg, colors, bold, underline, blink, standout) where vterm.py keeps an AttrSpec.
   [vt_desc] is sgi_to_attrspec's _defaulter, [vt_parts] its decoded_fg; [attrspec_new] is C18's AttrSpec.__init__
   (proved equal to the translated methods there).  For every colour number the model admits at a depth - all 2^24
   direct colours included - the constructor accepts and the packed value reads back ("default" in .foreground,
   .foreground_number, .background_number, .colors, .bold, .underline, .blink, .standout) exactly as the record
   says; reverse_attrspec's copy_modified(fg=...) rebuilds at the reported depth and reads back with only the
   standout flag changed. *)
Theorem attrspec_abstraction_sound :
  forall fg bg colors b u k s a,
  mk_attrspec fg bg colors b u k s = Ok (Some a) ->
  exists fd bd v,
    vt_desc fg colors = Ok fd /\ vt_desc bg colors = Ok bd /\
    attrspec_new (vt_parts fd b u k s) bd colors = ROk v /\ reads v a.
Proof. exact attrspec_abstraction. Qed.
Print Assumptions attrspec_abstraction_sound.

Theorem attrspec_none_is_default :
  forall fg bg colors b u k s,
  mk_attrspec fg bg colors b u k s = Ok None ->
  vt_desc fg colors = Ok DDefault /\ vt_desc bg colors = Ok DDefault /\ vt_parts DDefault b u k s = [PCol DDefault].
Proof. exact attrspec_abstraction_none. Qed.
Print Assumptions attrspec_none_is_default.

Theorem reverse_attrspec_sound :
  forall fg bg colors b u k s s',
  colors_ok colors = true -> color_ok fg colors = true -> color_ok bg colors = true ->
  exists fd bd v v',
    attrspec_new (vt_parts fd b u k s) bd colors = ROk v /\
    foreground v = Ok (fd, [b; false; s; k; u; false]) /\ background v = Ok bd /\
    attrspec_new (vt_parts fd b u k s') bd (attr_colors v) = ROk v' /\
    reads v' (mkAttr fg bg (if is_none fg && is_none bg then 1 else colors) b u k s').
Proof. exact reverse_attrspec_object. Qed.
Print Assumptions reverse_attrspec_sound.

(* --- the translated code is what the proofs are about --- *)
Theorem constrain_coords_in_range :
  forall width height cs sr_start sr_end x y ign,
  1 <= width -> 1 <= height -> 0 <= sr_start /\ sr_start <= sr_end /\ sr_end < height ->
  0 <= fst (constrain_coords_gen width height cs sr_start sr_end x y ign) < width /\
  0 <= snd (constrain_coords_gen width height cs sr_start sr_end x y ign) < height.
Proof.
  intros wd ht cs a b x y ign Hw Hh Hr.
  destruct (constrain_range (mkSt wd ht [] (0, 0) None false [] 0 None [] [] false 0 None charset_new None None false a b []
                                (mkModes false false false false false cs true true false 1) [] 0) x y ign Hw Hh Hr) as (A & B & _).
  split; assumption.
Qed.
Print Assumptions constrain_coords_in_range.

Theorem csi_defaults_nonnegative : forall c n d t, csi_table c = Some (n, d, t) -> 0 <= d.
Proof. exact csi_table_default. Qed.
Print Assumptions csi_defaults_nonnegative.

(* --- non-vacuity: the hypotheses are met and the model computes something --- *)
Example a_session_is_admissible :
  Forall op_ok [Focus true; Feed [27; 91; 54; 110]; Resize 7 2; ScrollBuf true None; Feed [104; 105]].
Proof. repeat constructor; cbv; discriminate. Qed.

Example model_answers_a_cursor_position_query :
  match run (init 5 3 1) [Feed [97; 98; 13; 10; 99; 27; 91; 54; 110]] with
  | Ok s => (cur s, events s) = ((1, 1), [Respond [27; 91; 50; 59; 50; 82]])
  | Err _ => False
  end.
Proof. vm_compute. reflexivity. Qed.

Example model_scrolls_lines_into_the_scrollback :
  match run (init 3 2 1) [Feed [97; 10; 98; 10; 99; 10; 100]; ScrollBuf true (Some 1)] with
  | Ok s => (map (map (fun c : cell => snd c)) (sb s), sup s, map (map (fun c : cell => snd c)) (content s))
            = ([[[97]; [32]; [32]]; [[32]; [98]; [32]]; [[32]; [32]; [99]]], 1, [[[32]; [32]; [99]]; [[32]; [32]; [32]]])
  | Err _ => False
  end.
Proof. vm_compute. reflexivity. Qed.

Example chunks_are_irrelevant_here :
  run (init 4 2 0) [Feed [27]; Feed [91; 51]; Feed [49; 109; 226; 130]; Feed [172]]
  = run (init 4 2 0) [Feed [27; 91; 51; 49; 109; 226; 130; 172]].
Proof. vm_compute. reflexivity. Qed.
