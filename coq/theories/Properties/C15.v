(* C15 - stub while the model is being validated *)
From Coq Require Import ZArith List Bool.
Import ListNotations.
From Urwid Require Import PyBase VTerm VT100Ref VTermRefine.
Open Scope Z_scope.
Theorem stub_c15 : run_case [] = [-2].
Proof. reflexivity. Qed.
Print Assumptions stub_c15.
