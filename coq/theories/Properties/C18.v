(* C18 - Colour specifications round-trip and degrade to the nearest colour.
   Only statements here; every proof is [exact <lemma>] into Proofs/Colours*.v.

   The tables, the bit masks, int_scale, _value_lookup_table, the numeric cores of _parse_color_* /
   _color_desc_* / _true_to_256, AttrSpec.colors and the flag/number properties are regenerated from
   urwid/display/common.py on every run (Gen/colours_gen.v); AttrSpec.__init__ / __set_foreground /
   __set_background / foreground / background / get_rgb_values are the hand model Model/Colours.v,
   tied to the implementation by the exhaustive correspondence of harness/props/c18.py.

   Vocabulary.  A description string is a [desc] (its lexical class and the integer it carries,
   Base/ColourBase.v); a foreground is a list of [part]s (settings and colours, any order).
   [wf_desc md d] states what the lexer can produce: a basic colour index is below 16, three hex
   characters are below 0x1000, six hex characters below 2^24 (and, at 2^24 colours, a three-character
   cube value is not negative).  No other bound is assumed: the integers carried by 'hN', 'gN', 'g#XX'
   are arbitrary. *)
From Coq Require Import ZArith List Bool Permutation Lia.
Import ListNotations.
From Urwid Require Import PyBase PyList ColourBase ColourStr colours_gen Colours
     ColoursTables ColoursBits ColoursSpec ColoursRound ColoursMore ColoursRgb ColoursStrFacts ColoursLex ColoursStrThm ColoursGenMeth ColoursGenThm.
Open Scope Z_scope.

(* ===== clause 1: the reported descriptions rebuild an equal specification; equal => equal hashes ===== *)

(* every depth, every well-lexed foreground (any number, order and repetition of parts) and background:
   if the constructor accepts, foreground and background are reported without an exception and
   constructing from exactly what they report gives the same packed value (so also the same
   descriptions again: parsing a description is idempotent) *)
Theorem attrspec_roundtrip :
  forall D fg bg v,
    Forall (wf_part (mode_of D)) fg -> wf_desc (mode_of D) bg -> attrspec_new fg bg D = ROk v ->
    exists f b, foreground v = Ok f /\ background v = Ok b /\
      Forall (wf_part (mode_of D)) (parts_of_foreground f) /\ wf_desc (mode_of D) b /\
      attrspec_new (parts_of_foreground f) b D = ROk v.
Proof. exact roundtrip. Qed.
Print Assumptions attrspec_roundtrip.

(* parse o describe o parse = parse for the three parsers; 256 and 88: complete sweeps of
   h0..h255 / #000..#fff / g0..g100 / g#00..g#ff (payloads outside these ranges are rejected, by
   arithmetic); 2^24: arithmetic *)
Theorem parse_desc_idempotent_256 :
  forall d c, lexable d -> parse_color_256 d = Ok (Some c) ->
    exists d', color_desc_256 c = Ok d' /\ parse_color_256 d' = Ok (Some c).
Proof. exact parse_describe_256. Qed.
Print Assumptions parse_desc_idempotent_256.

Theorem parse_desc_idempotent_88 :
  forall d c, lexable d -> parse_color_88 d = Ok (Some c) ->
    exists d', color_desc_88 c = Ok d' /\ parse_color_88 d' = Ok (Some c).
Proof. exact parse_describe_88. Qed.
Print Assumptions parse_desc_idempotent_88.

Theorem parse_desc_idempotent_true :
  forall d c, lexable d -> (match d with DTrue n => n < 16777216 | DCube n => 0 <= n | _ => True end) ->
    parse_color_true d = Ok (Some c) ->
    exists d', color_desc_true c = Ok d' /\ parse_color_true d' = Ok (Some c).
Proof. exact parse_describe_true. Qed.
Print Assumptions parse_desc_idempotent_true.

Theorem true_roundtrip :
  forall n, 0 <= n < 16777216 ->
    color_desc_true n = Ok (DTrue n) /\ parse_color_true (DTrue n) = Ok (Some n).
Proof. exact ColoursTables.true_roundtrip. Qed.
Print Assumptions true_roundtrip.

Theorem eq_hash : forall a b, spec_eq a b = true -> spec_hash a = spec_hash b.
Proof. intros a b H. apply Z.eqb_eq in H. now subst. Qed.
Print Assumptions eq_hash.

(* the settings that are reported are exactly the settings that were given, and the order of the
   comma separated parts is irrelevant *)
Theorem settings_reported :
  forall D fg bg v s,
    Forall (wf_part (mode_of D)) fg -> wf_desc (mode_of D) bg -> attrspec_new fg bg D = ROk v ->
    attr_setting s v = has_setting s fg.
Proof. exact settings_preserved. Qed.
Print Assumptions settings_reported.

Theorem parts_order_irrelevant :
  forall D fg fg' bg v,
    Forall (wf_part (mode_of D)) fg -> wf_desc (mode_of D) bg -> Permutation fg fg' ->
    attrspec_new fg bg D = ROk v -> attrspec_new fg' bg D = ROk v.
Proof. exact order_irrelevant. Qed.
Print Assumptions parts_order_irrelevant.

(* ===== clause 2: nearest palette entry, exact palette values preserved ===== *)

(* the four lookup tables built by _value_lookup_table: for every v < 256 the entry is the index of a
   step that minimises |step - v| *)
Theorem nearest_cube_256 :
  forall v, 0 <= v < 256 -> exists k s, nthz CUBE_256_LOOKUP v = Some k /\ nthz CUBE_STEPS_256 k = Some s /\
    is_nearest CUBE_STEPS_256 v s.
Proof. exact (lookup_ok_spec _ _ 256 cube_256_lookup_sweep). Qed.
Print Assumptions nearest_cube_256.
Theorem nearest_gray_256 :
  forall v, 0 <= v < 256 -> exists k s, nthz GRAY_256_LOOKUP v = Some k /\ nthz gray_levels_256 k = Some s /\
    is_nearest gray_levels_256 v s.
Proof. exact (lookup_ok_spec _ _ 256 gray_256_lookup_sweep). Qed.
Print Assumptions nearest_gray_256.
Theorem nearest_cube_88 :
  forall v, 0 <= v < 256 -> exists k s, nthz CUBE_88_LOOKUP v = Some k /\ nthz CUBE_STEPS_88 k = Some s /\
    is_nearest CUBE_STEPS_88 v s.
Proof. exact (lookup_ok_spec _ _ 256 cube_88_lookup_sweep). Qed.
Print Assumptions nearest_cube_88.
Theorem nearest_gray_88 :
  forall v, 0 <= v < 256 -> exists k s, nthz GRAY_88_LOOKUP v = Some k /\ nthz gray_levels_88 k = Some s /\
    is_nearest gray_levels_88 v s.
Proof. exact (lookup_ok_spec _ _ 256 gray_88_lookup_sweep). Qed.
Print Assumptions nearest_gray_88.

(* exact palette values are preserved: looking up a step gives that step *)
Theorem exact_steps_preserved :
  (forall j, 0 <= j < 6 -> exists s, nthz CUBE_STEPS_256 j = Some s /\ nthz CUBE_256_LOOKUP s = Some j) /\
  (forall j, 0 <= j < 26 -> exists s, nthz gray_levels_256 j = Some s /\ nthz GRAY_256_LOOKUP s = Some j) /\
  (forall j, 0 <= j < 4 -> exists s, nthz CUBE_STEPS_88 j = Some s /\ nthz CUBE_88_LOOKUP s = Some j) /\
  (forall j, 0 <= j < 10 -> exists s, nthz gray_levels_88 j = Some s /\ nthz GRAY_88_LOOKUP s = Some j).
Proof.
  destruct lookup_exact_sweeps as [A [B [C D]]].
  exact (conj (lookup_exact_spec _ _ 6 A) (conj (lookup_exact_spec _ _ 26 B)
        (conj (lookup_exact_spec _ _ 4 C) (lookup_exact_spec _ _ 10 D)))).
Qed.
Print Assumptions exact_steps_preserved.

(* string level: '#rgb' (digit d = 8-bit value 17 d) is parsed to a palette entry each of whose
   components is a nearest cube step; 'g#XX' and 'gNN' (NN percent = int_scale(NN,101,256)) to an entry
   whose gray level is nearest among the gray ramp plus black and white *)
Theorem cube_spec_nearest_256 :
  forall r g b, 0 <= r < 16 -> 0 <= g < 16 -> 0 <= b < 16 ->
  exists c R G B, parse_color_256 (DCube (r * 256 + g * 16 + b)) = Ok (Some c) /\ 0 <= c < zlen COLOR_VALUES_256 /\
    rgb_of COLOR_VALUES_256 c = (R, G, B) /\
    is_nearest CUBE_STEPS_256 (17 * r) R /\ is_nearest CUBE_STEPS_256 (17 * g) G /\ is_nearest CUBE_STEPS_256 (17 * b) B.
Proof. exact (cube_parse_spec _ _ _ cube_parse_256_sweep). Qed.
Print Assumptions cube_spec_nearest_256.
Theorem cube_spec_nearest_88 :
  forall r g b, 0 <= r < 16 -> 0 <= g < 16 -> 0 <= b < 16 ->
  exists c R G B, parse_color_88 (DCube (r * 256 + g * 16 + b)) = Ok (Some c) /\ 0 <= c < zlen COLOR_VALUES_88 /\
    rgb_of COLOR_VALUES_88 c = (R, G, B) /\
    is_nearest CUBE_STEPS_88 (17 * r) R /\ is_nearest CUBE_STEPS_88 (17 * g) G /\ is_nearest CUBE_STEPS_88 (17 * b) B.
Proof. exact (cube_parse_spec _ _ _ cube_parse_88_sweep). Qed.
Print Assumptions cube_spec_nearest_88.
Theorem gray_spec_nearest_256 :
  (forall v, 0 <= v < 256 -> exists c s, parse_color_256 (DGrayHex v) = Ok (Some c) /\ 0 <= c < zlen COLOR_VALUES_256 /\
     rgb_of COLOR_VALUES_256 c = (s, s, s) /\ is_nearest gray_levels_256 v s) /\
  (forall n, 0 <= n < 101 -> exists c s, parse_color_256 (DGrayDec n) = Ok (Some c) /\ 0 <= c < zlen COLOR_VALUES_256 /\
     rgb_of COLOR_VALUES_256 c = (s, s, s) /\ is_nearest gray_levels_256 (pct n) s).
Proof.
  exact (conj (gray_parse_spec _ _ _ _ _ 256 gray_hex_256_sweep) (gray_parse_spec _ _ _ _ _ 101 gray_dec_256_sweep)).
Qed.
Print Assumptions gray_spec_nearest_256.
Theorem gray_spec_nearest_88 :
  (forall v, 0 <= v < 256 -> exists c s, parse_color_88 (DGrayHex v) = Ok (Some c) /\ 0 <= c < zlen COLOR_VALUES_88 /\
     rgb_of COLOR_VALUES_88 c = (s, s, s) /\ is_nearest gray_levels_88 v s) /\
  (forall n, 0 <= n < 101 -> exists c s, parse_color_88 (DGrayDec n) = Ok (Some c) /\ 0 <= c < zlen COLOR_VALUES_88 /\
     rgb_of COLOR_VALUES_88 c = (s, s, s) /\ is_nearest gray_levels_88 (pct n) s).
Proof.
  exact (conj (gray_parse_spec _ _ _ _ _ 256 gray_hex_88_sweep) (gray_parse_spec _ _ _ _ _ 101 gray_dec_88_sweep)).
Qed.
Print Assumptions gray_spec_nearest_88.

(* '#rrggbb' below 2^24 colours degrades through its high nibbles to the cube *)
Theorem true_colour_degrades :
  forall n, 0 <= n < 16777216 ->
    parse_color_88 (DTrue n) = parse_color_88 (DCube (hi_nibbles n)) /\
    parse_mode M256 (DTrue n) = parse_color_256 (DCube (hi_nibbles n)).
Proof. intros n H. exact (conj (degrade_88 n H) (degrade_256 n H)). Qed.
Print Assumptions true_colour_degrades.

(* ===== clause 3: RGB components match the xterm colour tables ===== *)

(* the tables themselves against the closed forms: basic colours of XTerm-col.ad, cube 0 | 55+40k,
   gray 8+10k (256colres.h); cube 00 8b cd ff, gray 2e 5c 73 8b a2 b9 d0 e7 (88colres.h) *)
Theorem rgb_tables_match_xterm :
  (forall n, 0 <= n < 256 -> get_index COLOR_VALUES_256 n = Ok (xterm256 n)) /\
  (forall n, 0 <= n < 88 -> get_index COLOR_VALUES_88 n = Ok (xterm88 n)) /\
  zlen COLOR_VALUES_256 = 256 /\ zlen COLOR_VALUES_88 = 88.
Proof. exact (conj color_values_256_xterm (conj color_values_88_xterm lengths_256_88)). Qed.
Print Assumptions rgb_tables_match_xterm.

(* get_rgb_values of any constructed specification, in terms of what it reports: None for 'default',
   the xterm basic colour for a basic name (also beside a true colour), the three bytes for '#rrggbb',
   the xterm palette entry for the palette number that the reported description parses to *)
Theorem rgb_matches_xterm :
  forall D fg bg v fd fs bd,
    Forall (wf_part (mode_of D)) fg -> wf_desc (mode_of D) bg -> attrspec_new fg bg D = ROk v ->
    foreground v = Ok (fd, fs) -> background v = Ok bd ->
    get_rgb_values v = Ok (expected_rgb (attr_colors v) fd, expected_rgb (attr_colors v) bd).
Proof. exact ColoursRgb.rgb_matches_xterm. Qed.
Print Assumptions rgb_matches_xterm.

(* get_rgb_values never raises on a constructed specification *)
Theorem rgb_never_raises :
  forall D fg bg v,
    Forall (wf_part (mode_of D)) fg -> wf_desc (mode_of D) bg -> attrspec_new fg bg D = ROk v ->
    exists r, get_rgb_values v = Ok r.
Proof. exact get_rgb_total. Qed.
Print Assumptions rgb_never_raises.

(* ===== clause 4: the reported depth ===== *)

(* not above the declared depth (no hypothesis on the input at all) *)
Theorem colors_le_declared :
  forall D fg bg v, attrspec_new fg bg D = ROk v -> attr_colors v <= D /\ valid_depth D = true.
Proof. exact ColoursMore.colors_le_declared. Qed.
Print Assumptions colors_le_declared.

(* minimal: no smaller depth expresses the specification, whatever strings one tries *)
Theorem colors_minimal :
  forall D fg bg v, attrspec_new fg bg D = ROk v ->
    forall d fg' bg', d < attr_colors v -> attrspec_new fg' bg' d <> ROk v.
Proof. exact ColoursMore.colors_minimal. Qed.
Print Assumptions colors_minimal.

(* and the reported depth does express the specification: constructing from the reported descriptions
   at the reported depth gives the same packed value (this is where a specification declared with 2^24
   colours but using none has to drop its depth marker) *)
Theorem colors_expresses :
  forall D fg bg v,
    Forall (wf_part (mode_of D)) fg -> wf_desc (mode_of D) bg -> attrspec_new fg bg D = ROk v ->
    exists f b, foreground v = Ok f /\ background v = Ok b /\
      attrspec_new (parts_of_foreground f) b (attr_colors v) = ROk v.
Proof. exact rebuild_at_reported_depth. Qed.
Print Assumptions colors_expresses.

(* ===== clause 5: rejection only with the library's own error ===== *)

Theorem reject_is_attrspecerror :
  forall D fg bg e w,
    Forall (wf_part (mode_of D)) fg -> wf_desc (mode_of D) bg ->
    attrspec_new fg bg D = RErr e w -> e = AttrSpecError /\ 1 <= w <= 6.
Proof.
  intros D fg bg e w W Wb E.
  exact (conj (reject_only_attrspecerror D fg bg e w W Wb E) (reject_reasons D fg bg e w W Wb E)).
Qed.
Print Assumptions reject_is_attrspecerror.

(* duplicated settings, several colours, unknown colours, colours beyond the depth are rejected *)
Example rejected_inputs :
  attrspec_new [PSet SBold; PCol (DBasic 3); PSet SBold] DDefault 256 = RErr AttrSpecError 1 /\
  attrspec_new [PCol (DBasic 3); PCol DDefault] DDefault 256 = RErr AttrSpecError 3 /\
  attrspec_new [PCol DBad] DDefault 256 = RErr AttrSpecError 2 /\
  attrspec_new [PCol DDefault] (DH 256) 256 = RErr AttrSpecError 4 /\
  attrspec_new [PCol (DH 88)] DDefault 88 = RErr AttrSpecError 2 /\
  attrspec_new [PCol (DH 5)] DDefault 16 = RErr AttrSpecError 5 /\
  attrspec_new [PCol (DBasic 5)] DDefault 1 = RErr AttrSpecError 5 /\
  attrspec_new [PCol DDefault] DDefault 255 = RErr AttrSpecError 6.
Proof. vm_compute. repeat split. Qed.

(* ===== on RAW STRINGS: the lexing is inside the model =====
   A string is a list of code points (Base/ColourStr.v).  foreground.split(","), part.strip(), the setting
   and colour name tables (translated from the source), startswith / len / slicing, int(s, 10 / 16) with
   CPython's acceptance rules (white space, sign, "0x" with one "_", single underscores, Unicode decimal
   digits and spaces) and the f-string formatting are Gallina functions; _parse_color_* / _color_desc_* /
   _true_to_256 are translated from the source on strings WITHOUT any abstraction (parse_color_256_s ...).
   The statements below hold for EVERY string: no well-formedness hypothesis is left. *)

(* the string-level parsers are the description-level ones after lexing *)
Theorem parsers_lift_through_the_lexer :
  forall s, parse_color_256_s s = parse_color_256 (lex_plain s) /\
            parse_color_88_s s = parse_color_88 (lex_88 s) /\
            parse_color_true_s s = parse_color_true (lex_true s) /\
            bind (true_to_256_s s) (fun t => parse_color_256_s (match t with Some (c :: r) => c :: r | _ => s end))
            = parse_color_256 (lex_256 s).
Proof.
  intros s. exact (conj (parse_256_lex s) (conj (parse_88_lex s) (conj (parse_true_lex s) (parse_mode_256_lex s)))).
Qed.
Print Assumptions parsers_lift_through_the_lexer.

(* the string-level constructor is the description-level one after lexing, and every lexed input is
   well formed: this is what lifts every description-level theorem above to all strings *)
Theorem constructor_lifts_through_the_lexer :
  forall fg bg D,
    attrspec_new_s fg bg D = attrspec_new (lex_fg (mode_of D) fg) (lex_color (mode_of D) bg) D /\
    Forall (wf_part (mode_of D)) (lex_fg (mode_of D) fg) /\ wf_desc (mode_of D) (lex_color (mode_of D) bg).
Proof. intros fg bg D. exact (conj (attrspec_new_lex fg bg D) (conj (lex_fg_wf _ fg) (lex_color_wf _ bg))). Qed.
Print Assumptions constructor_lifts_through_the_lexer.

(* parse (describe v) = v on strings: the strings reported by foreground / background rebuild the same
   packed value, at the declared depth and at the reported depth *)
Theorem string_roundtrip :
  forall D fg bg v, attrspec_new_s fg bg D = ROk v ->
    exists fs bs, foreground_s v = Ok fs /\ background_s v = Ok bs /\
      attrspec_new_s fs bs D = ROk v /\ attrspec_new_s fs bs (attr_colors v) = ROk v.
Proof. exact ColoursStrThm.string_roundtrip. Qed.
Print Assumptions string_roundtrip.

(* per parser: describing a palette number / a 24-bit value as a string and parsing the string again *)
Theorem string_parse_describe :
  (forall c, 0 <= c < 256 -> exists s, color_desc_256_s c = Ok s /\ parse_color_256_s s = Ok (Some c)) /\
  (forall c, 0 <= c < 88 -> exists s, color_desc_88_s c = Ok s /\ parse_color_88_s s = Ok (Some c)) /\
  (forall n, 0 <= n < 16777216 -> exists s, color_desc_true_s n = Ok s /\ parse_color_true_s s = Ok (Some n)).
Proof.
  exact (conj (rt_s_spec _ _ 256 rt_256_s_sweep) (conj (rt_s_spec _ _ 88 rt_88_s_sweep) string_parse_describe_true)).
Qed.
Print Assumptions string_parse_describe.

(* rejection: whatever the two strings and the depth are, the constructor raises nothing but AttrSpecError *)
Theorem string_reject_is_attrspecerror :
  forall fg bg D e w, attrspec_new_s fg bg D = RErr e w -> e = AttrSpecError /\ 1 <= w <= 6.
Proof. exact reject_on_strings. Qed.
Print Assumptions string_reject_is_attrspecerror.

(* reported depth on strings: not above the declared one, and no smaller depth yields the value *)
Theorem string_colors_minimal :
  forall D fg bg v, attrspec_new_s fg bg D = ROk v ->
    attr_colors v <= D /\ forall d fg' bg', d < attr_colors v -> attrspec_new_s fg' bg' d <> ROk v.
Proof. exact string_colors. Qed.
Print Assumptions string_colors_minimal.

(* RGB on strings: get_rgb_values is the xterm value of what the reported strings lex to *)
Theorem string_rgb_matches_xterm :
  forall D fg bg v, attrspec_new_s fg bg D = ROk v ->
    exists fc bs,
      foreground_s v = Ok (fc ++ settings_suffix v) /\ background_s v = Ok bs /\
      get_rgb_values v = Ok (expected_rgb (attr_colors v) (lex_color (mode_of D) fc),
                             expected_rgb (attr_colors v) (lex_color (mode_of D) bs)).
Proof. exact string_rgb. Qed.
Print Assumptions string_rgb_matches_xterm.

(* int(): |int(s, base)| < base ^ len(s); and int(f"{n:06x}", 16) = n *)
Theorem int_facts :
  (forall base s n, 2 <= base -> py_int base s = Some n -> - base ^ (zlen s) < n < base ^ (zlen s)) /\
  (forall n, 0 <= n < 16777216 -> zlen (fmt_x_pad 6 n) = 6 /\ py_int 16 (fmt_x_pad 6 n) = Some n).
Proof.
  split; [exact py_int_bound|]. intros n H. destruct (fmt_x_pad6 n H) as [A [B _]]. exact (conj A B).
Qed.
Print Assumptions int_facts.

Example strings_somewhere :
  (* AttrSpec(' #ddb , underline,bold', '#004', 256) -> ('#dda,bold,underline', '#006') *)
  let fg := [32; 35; 100; 100; 98; 32; 44; 32; 117; 110; 100; 101; 114; 108; 105; 110; 101; 44; 98; 111; 108; 100] in
  exists v, attrspec_new_s fg [35; 48; 48; 52] 256 = ROk v /\
    foreground_s v = Ok [35; 100; 100; 97; 44; 98; 111; 108; 100; 44; 117; 110; 100; 101; 114; 108; 105; 110; 101] /\
    background_s v = Ok [35; 48; 48; 54].
Proof. eexists. split; [vm_compute; reflexivity|]. vm_compute. split; reflexivity. Qed.

Example odd_strings :
  (* int() oddities reachable through the colour lexer *)
  py_int 16 [48; 120; 95; 49] = Some 1                      (* int("0x_1", 16) *)
  /\ py_int 10 [32; 43; 1637; 32] = Some 5                   (* int(" +\u0665 ", 10): Arabic-Indic digit *)
  /\ py_int 10 [49; 95; 95; 48] = None                       (* "1__0" *)
  /\ py_int 10 [28; 53] = None                               (* "\x1c5": a space for strip(), not for int() *)
  /\ strip [28; 53; 8195] = [53]
  /\ attrspec_new_s [104; 48; 97; 48; 98; 53; 99] [] 88       (* 'h0a0b5c' at 88 colours collapses to 'h005' *)
     = attrspec_new_s [104; 53] [] 88
  /\ attrspec_new_s [35; 103; 103; 103; 103; 103; 103] [] TRUE_DEPTH = RErr AttrSpecError 2.   (* '#gggggg' *)
Proof. vm_compute. repeat split. Qed.

(* ===== the METHODS of AttrSpec, translated from the source =====
   __init__, __set_foreground (the loop over split(","), with continue / raise), __set_background,
   _foreground_color, foreground, background, get_rgb_values, copy_modified and __eq__ are re-translated
   from display/common.py on every run (set_foreground_gen ... in Gen/colours_gen.v; self.__value is
   threaded as a state variable, raise statements are numbered by their message).  The extracted model
   that is compared with the implementation runs THESE functions; the hand-written model of
   Model/Colours.v is only the form in which the theorems are proved, and it is equal to them: *)
Theorem translated_methods_are_the_model :
  (forall v fg, set_foreground_gen v fg = set_foreground_s v fg) /\
  (forall v bg, set_background_gen v bg = set_background_s v bg) /\
  (forall fg bg D, attrspec_init_gen fg bg D = attrspec_new_s fg bg D) /\
  (forall v, foreground_color_gen v = foreground_color_s v) /\
  (forall v, foreground_gen v = foreground_s v) /\
  (forall v, background_gen v = background_s v) /\
  (forall v, get_rgb_values_gen v = rgb_list (get_rgb_values v)) /\
  (forall v w, attrspec_eq_gen v w = spec_eq v w).
Proof.
  exact (conj set_foreground_gen_ok (conj set_background_gen_ok (conj attrspec_init_gen_ok
        (conj foreground_color_gen_ok (conj foreground_gen_ok (conj background_gen_ok
        (conj get_rgb_values_gen_ok attrspec_eq_gen_ok))))))).
Qed.
Print Assumptions translated_methods_are_the_model.

(* so, on the translated code, for every pair of strings and every depth: *)
Theorem translated_roundtrip :
  forall D fg bg v, attrspec_init_gen fg bg D = ROk v ->
    exists fs bs, foreground_gen v = Ok fs /\ background_gen v = Ok bs /\
      attrspec_init_gen fs bs D = ROk v /\ attrspec_init_gen fs bs (attr_colors v) = ROk v.
Proof. exact gen_roundtrip. Qed.
Print Assumptions translated_roundtrip.

Theorem translated_reject_is_attrspecerror :
  forall fg bg D e w, attrspec_init_gen fg bg D = RErr e w -> e = AttrSpecError /\ 1 <= w <= 6.
Proof. exact gen_reject. Qed.
Print Assumptions translated_reject_is_attrspecerror.

Theorem translated_rgb_matches_xterm :
  forall D fg bg v, attrspec_init_gen fg bg D = ROk v ->
    exists fc bs,
      foreground_gen v = Ok (fc ++ settings_suffix v) /\ background_gen v = Ok bs /\
      get_rgb_values_gen v = Ok (flat3 (expected_rgb (attr_colors v) (lex_color (mode_of D) fc)) ++
                                 flat3 (expected_rgb (attr_colors v) (lex_color (mode_of D) bs))).
Proof. exact gen_rgb. Qed.
Print Assumptions translated_rgb_matches_xterm.

(* copy_modified: with no argument it returns an equal specification; in general it is the constructor
   on the given strings / depth, the missing ones taken from what the specification reports *)
Theorem copy_modified_is_identity :
  forall D fg bg v, attrspec_init_gen fg bg D = ROk v -> copy_modified_gen v None None None = ROk v.
Proof. exact copy_modified_identity. Qed.
Print Assumptions copy_modified_is_identity.

Theorem copy_modified_is_constructor :
  forall v fg bg colors,
  copy_modified_gen v fg bg colors =
  match (match fg with Some s => Ok s | None => foreground_gen v end) with
  | Err e => RErr e 0
  | Ok f =>
      match (match bg with Some s => Ok s | None => background_gen v end) with
      | Err e => RErr e 0
      | Ok b => attrspec_init_gen f b (match colors with Some c => c | None => attr_colors v end)
      end
  end.
Proof. exact copy_modified_spec. Qed.
Print Assumptions copy_modified_is_constructor.

(* the hex split of get_rgb_values: the three bytes of f"{n:06x}" *)
Theorem hex_split_bytes :
  forall n, 0 <= n < 16777216 ->
    py_int 16 (str_slice (fmt_x_pad 6 n) 0 2) = Some (n / 65536) /\
    py_int 16 (str_slice (fmt_x_pad 6 n) 2 4) = Some ((n / 256) mod 256) /\
    py_int 16 (str_slice (fmt_x_pad 6 n) 4 6) = Some (n mod 256).
Proof. exact hex6_slices. Qed.
Print Assumptions hex_split_bytes.

Example translated_somewhere :
  (* AttrSpec('h5, blink', '#123456', 2**24): foreground '#cd00cd,blink', rgb (205,0,205, 18,52,86), copy equal *)
  exists v, attrspec_init_gen [104; 53; 44; 32; 98; 108; 105; 110; 107] [35; 49; 50; 51; 52; 53; 54] TRUE_DEPTH = ROk v /\
    foreground_gen v = Ok [35; 99; 100; 48; 48; 99; 100; 44; 98; 108; 105; 110; 107] /\
    get_rgb_values_gen v = Ok [Some 205; Some 0; Some 205; Some 18; Some 52; Some 86] /\
    copy_modified_gen v None None None = ROk v.
Proof. eexists. split; [vm_compute; reflexivity|]. vm_compute. repeat split. Qed.

(* ===== non-vacuity ===== *)
Example roundtrip_somewhere :
  (* AttrSpec('#ddb, bold , underline', '#004', 256) -> ('#dda,bold,underline', '#006') *)
  let fg := [PCol (DCube 3547); PSet SBold; PSet SUnderline] in
  Forall (wf_part (mode_of 256)) fg /\ wf_desc (mode_of 256) (DCube 4) /\
  exists v, attrspec_new fg (DCube 4) 256 = ROk v /\
    foreground v = Ok (DCube 3546, [true; false; false; false; true; false]) /\
    background v = Ok (DCube 6) /\ attr_colors v = 256 /\
    get_rgb_values v = Ok (Some (215, 215, 175), Some (0, 0, 95)).
Proof.
  split; [constructor; [cbn; split; [lia|discriminate]|repeat constructor]|]. split; [cbn; split; [lia|discriminate]|].
  eexists. split; [vm_compute; reflexivity|]. vm_compute. repeat split.
Qed.

Example mixed_true_and_basic :
  (* AttrSpec('#123456', 'dark red', 2**24).get_rgb_values() == (0x12, 0x34, 0x56, 205, 0, 0) *)
  exists v, attrspec_new [PCol (DTrue 1193046)] (DBasic 1) TRUE_DEPTH = ROk v /\
    get_rgb_values v = Ok (Some (18, 52, 86), Some (205, 0, 0)) /\ attr_colors v = TRUE_DEPTH.
Proof. eexists. split; [vm_compute; reflexivity|]. vm_compute. split; reflexivity. Qed.

Example marker_dropped :
  (* AttrSpec('dark red', 'default', 2**24) == AttrSpec('dark red', 'default', 16) *)
  attrspec_new [PCol (DBasic 1)] DDefault TRUE_DEPTH = attrspec_new [PCol (DBasic 1)] DDefault 16.
Proof. vm_compute. reflexivity. Qed.

Example degrade_somewhere :
  parse_color_88 (DTrue 14540253) = Ok (Some 58)            (* '#dddddd' at 88 colours -> '#ccc' *)
  /\ parse_mode M256 (DTrue 1193046) = Ok (Some 23)           (* '#123456' at 256 colours *)
  /\ parse_color_256 (DGrayHex 246) = Ok (Some 255)           (* g#f6 -> gray 238, not white *)
  /\ parse_color_true (DH 5) = Ok (Some 13435085).            (* 'h5' at 2^24 colours -> #cd00cd *)
Proof. vm_compute. repeat split. Qed.
