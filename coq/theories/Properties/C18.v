(* C18 - placeholder while the machinery is being assembled *)
From Coq Require Import ZArith List Bool.
Import ListNotations.
From Urwid Require Import PyBase PyList ColourBase colours_gen Colours.
Open Scope Z_scope.
Theorem eq_hash : forall a b, spec_eq a b = true -> spec_hash a = spec_hash b.
Proof. intros a b H. apply Z.eqb_eq in H. now subst. Qed.
Print Assumptions eq_hash.
