(* C08 placeholder while the proofs are being written *)
From Coq Require Import ZArith List Bool.
Import ListNotations.
From Urwid Require Import PyBase PyList Containers.
Open Scope Z_scope.
Theorem c08_placeholder : True. Proof. exact I. Qed.
Print Assumptions c08_placeholder.
