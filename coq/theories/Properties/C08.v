(* C08 - Container focus is always a valid child and input follows the focus path.
   Only statements here; every proof is [exact <lemma>] into Proofs/Containers*.v (or a closed computation).
   The model (Model/Containers.v) is a heap of widgets whose [contents] are C16 focus lists; the range
   tests of the focus_position setters and the key->command table are regenerated from /repo on every
   run (Gen/c08_container_gen.v); everything else is tied to the code by the extracted-model
   correspondence (harness/props/c08.py).  [run root h ops] is any history of keypresses, button-1
   presses, focus_position / set_focus_path assignments, contents edits (every C16 list operation),
   Frame header/footer replacement, each followed by a render - no bound on the history or the tree. *)
From Coq Require Import ZArith List Bool.
Import ListNotations.
From Urwid Require Import PyBase PyList c08_container_gen Containers
  ContainersBase ContainersStable ContainersProofs ContainersSel ContainersRouting ContainersRoute ContainersPath ContainersArrows
  ContainersLanded.
From Urwid Require MonitoredList MonitoredListProofs.
Open Scope Z_scope.

(* ============ clause 1: focus validity after ANY history ============
   For every widget n of the heap reached by any operation sequence from any constructed pool:
   - Pile/Columns/GridFlow/ListBox: empty => focus_position raises IndexError and focus is None;
     non-empty => focus_position is a position p in range and focus is the child at p;
   - Frame (when every Frame was constructed with an existing focus part): focus is the part named;
   - Overlay: position 1, the top widget. *)
Theorem focus_valid_inv :
  forall specs root ops id n,
    let h' := rs_h (fst (run root (build FUEL specs) ops)) in
    getn h' id = Some n -> focus_valid_at h' id n (Forall spec_ok specs).
Proof. exact focus_valid_all_histories. Qed.
Print Assumptions focus_valid_inv.

(* the invariant itself, for any heap satisfying it (strict = true includes the Frame clause) *)
Theorem focus_invariant_preserved :
  forall strict root h ops, Inv (node_ok strict) h -> Inv (node_ok strict) (rs_h (fst (run root h ops))).
Proof. exact run_pres. Qed.
Print Assumptions focus_invariant_preserved.

(* The Frame clause does NOT hold for every constructed pool: Frame(body, header=None, focus_part='header')
   is accepted (finding C08-frame-ctor-accepts-missing-part; replayed by corpus/C08/frame_ctor.json). *)
Definition focus_valid_frames_full : Prop :=
  forall specs root ops id n,
    let h' := rs_h (fst (run root (build FUEL specs) ops)) in
    getn h' id = Some n -> focus_valid_at h' id n True.
Theorem focus_valid_frames_refuted :
  exists specs id,
    let h := build FUEL specs in
    get_pos h id = ROk 101 /\ focus_child h id = None /\ gfp FUEL h id = RErr EAttr.
Proof.
  exists [SLeaf 10 false 0 0 0 true []; SFrame 10 false 0 0 0 0 None None 101], 1.
  vm_compute. repeat split; reflexivity.
Qed.
Print Assumptions focus_valid_frames_refuted.

(* assigning an invalid position raises IndexError (also a string position on a ListBox, since fix 252ffad) ... *)
Theorem invalid_position_raises :
  forall h id pos n, getn h id = Some n -> MonitoredListProofs.Valid (n_c n) ->
  match nk n with
  | KLeaf => True
  | KPile | KCols | KGrid => ~ (0 <= pos < nlen n) -> set_pos id pos h = (h, RErr EIndex)
  | KLBox => ~ (0 <= pos < nlen n) -> exists h', set_pos id pos h = (h', RErr EIndex)
  | KFrame => ~ parts_ok (n_b n) (n_d n) pos \/ ~ (pos = 100 \/ pos = 101 \/ pos = 102) -> set_pos id pos h = (h, RErr EIndex)
  | KOvl => pos <> 1 -> set_pos id pos h = (h, RErr EIndex)
  end.
Proof. exact set_pos_invalid_raises. Qed.
Print Assumptions invalid_position_raises.

(* ... and whatever assignment raises leaves every focus_position and every focus widget unchanged *)
Theorem failed_assignment_changes_no_focus :
  forall h id pos h' e, set_pos id pos h = (h', RErr e) ->
    forall x, get_pos h' x = get_pos h x /\ focus_child h' x = focus_child h x.
Proof. exact set_pos_error_keeps_focus. Qed.
Print Assumptions failed_assignment_changes_no_focus.

(* ============ clause 2: a keypress is offered only to widgets on the focus path ============ *)
(* Decorations are part of the model: AttrMap is transparent, a Padding clamps the cursor column, a WidgetDisable
   (n_deco = 2) is unselectable and stops keys, mouse events and the focus flag of render.  The routes below never
   pass through a WidgetDisable, however the decorations are nested ([kr_step] / [fr_step] demand is_dis n = false). *)
(* For every tree, state (ListBox focus requests may be pending) and fuel: every leaf that is offered the key is reached
   by a chain of dispatch steps, each from a container to the widget that is ITS FOCUS in the heap in which that
   container dispatches: [kp_dispatch_heap] = the heap after the container's own preparation (ListBox: the pending
   set_focus request completed, exactly as ListBox.keypress does first; Columns: pref_col reset).
     KeyRoute key (S f) id h id                       when id is a leaf
     KeyRoute key (S f) id h l  <-  focus_child (kp_dispatch_heap f id key h) id = Some c
                                    /\ KeyRoute key f c (kp_dispatch_heap f id key h) l                        *)
Theorem key_only_on_focus_path :
  forall f id key h h' k1 off, kp f id key h = (h', ROk (k1, off)) -> forall l, In l off -> KeyRoute key f id h l.
Proof. exact key_follows_focus_route. Qed.
Print Assumptions key_only_on_focus_path.

(* when nothing is pending (true after every render) such a route is the focus path of the heap before the call *)
Theorem key_route_is_focus_path :
  forall key f id h l, NoPending h -> KeyRoute key f id h l -> OnPath h id l.
Proof. exact key_route_on_path. Qed.
Print Assumptions key_route_is_focus_path.

(* ============ clause 3: an unhandled key comes back unchanged ============ *)
(* Since the repairs b542e11 (Pile.keypress on a Pile that is not selectable) and 6954e47 (empty Columns) the clause is
   proved with NO premise on caches or pending requests: for every tree, every fuel and every state, if the key is not
   bound to a navigation command, the call returns (the only model errors left are out-of-fuel, a dangling widget
   id and the unmodelled page keys inside a ListBox) and no leaf that was offered the key handles it, then the very
   key comes back.  [NoHandler h key off]: every leaf in [off] (the leaves that were offered the key) does not handle it. *)
Theorem unhandled_key_unchanged :
  forall f id key h h' k1 off, nonnav key = true ->
    kp f id key h = (h', ROk (k1, off)) -> NoHandler h key off -> k1 = Some key.
Proof. exact unhandled_key_unchanged_all. Qed.
Print Assumptions unhandled_key_unchanged.

(* the two former counterexamples (a Pile with a stale selectable() == False cache; an empty Columns), now regression
   examples: the key comes back and no focus moves (corpus/C08/pile_swallows_key.json, columns_empty_key.json) *)
Definition stale_pile_pool : list spec :=
  [SLeaf 10 false 0 0 0 false []; SLeaf 10 false 0 0 0 false []; SList KPile 10 false 0 0 0 None [1] 0 0 0;
   SList KPile 10 false 0 0 0 None [0; 2] 0 0 0; SLeaf 10 false 0 0 0 true []].
Example former_counterexamples :
  (let h := fst (edit FUEL 2 (MonitoredList.Append 4) (build FUEL stale_pile_pool)) in
   nonnav [120] = true /\ sel FUEL h 3 = false /\ sel FUEL h 2 = true /\
   snd (kp FUEL 3 [120] h) = ROk (Some [120], []) /\ get_pos (fst (kp FUEL 3 [120] h)) 3 = ROk 0)
  /\
  snd (kp FUEL 0 [120] (build FUEL [SList KCols 10 false 0 0 0 None [] 0 0 0])) = ROk (Some [120], []).
Proof. vm_compute. repeat split; reflexivity. Qed.

(* ============ clause 4: arrow keys move focus only onto selectable children ============ *)
(* proved at the decision points of the containers: the child an arrow key gives the focus to had
   selectable() == True when it was chosen *)
Theorem arrows_land_on_selectable_columns :
  forall f id cands h h' n, getn h id = Some n -> nk n = KCols -> cols_move f id cands h = (h', ROk true) ->
    exists j c, In j cands /\ nthz (items n) j = Some c /\ sel f h c = true /\ focus_child h' id = Some c.
Proof. exact cols_move_lands_on_selectable. Qed.
Print Assumptions arrows_land_on_selectable_columns.

Theorem arrows_land_on_selectable_pile :
  forall f id up cands h h' n, getn h id = Some n -> nk n = KPile -> pile_move f id up cands h = (h', ROk true) ->
    exists j c h1 h2, In j cands /\ nthz (items n) j = Some c /\ sel f h c = true /\
      upd_pref_from_focus f id h = (h1, ROk tt) /\ w_focus id j h1 = (h2, ROk tt).
Proof. exact pile_move_lands_on_selectable. Qed.
Print Assumptions arrows_land_on_selectable_pile.

(* Columns.move_cursor_to_coords / the rows of a GridFlow: the column picked is selectable *)
Theorem arrows_land_on_selectable_pick :
  forall l dv col j xx e, cols_pick l dv col = Some (j, xx, e) -> exists w, nthz l j = Some (w, true).
Proof. exact cols_pick_selectable. Qed.
Print Assumptions arrows_land_on_selectable_pick.

(* never past a selectable child: left/right give the focus to the NEAREST selectable column in that direction ... *)
Theorem columns_right_lands_on_nearest :
  forall f id h h' n, getn h id = Some n -> nk n = KCols -> cols_move f id (range_up (nfocus n + 1) (nlen n)) h = (h', ROk true) ->
  exists j c, nfocus n < j < nlen n /\ nthz (items n) j = Some c /\ sel f h c = true /\ focus_child h' id = Some c /\
    forall i ci, nfocus n < i < j -> nthz (items n) i = Some ci -> sel f h ci = false.
Proof. exact columns_right_nearest. Qed.
Print Assumptions columns_right_lands_on_nearest.

Theorem columns_left_lands_on_nearest :
  forall f id h h' n, getn h id = Some n -> nk n = KCols -> cols_move f id (range_down (nfocus n)) h = (h', ROk true) ->
  exists j c, 0 <= j < nfocus n /\ nthz (items n) j = Some c /\ sel f h c = true /\ focus_child h' id = Some c /\
    forall i ci, j < i < nfocus n -> nthz (items n) i = Some ci -> sel f h ci = false.
Proof. exact columns_left_nearest. Qed.
Print Assumptions columns_left_lands_on_nearest.

(* ... and the focus stays (nothing at all is written) exactly when no candidate in that direction is selectable *)
Theorem columns_stay_iff_none_selectable :
  forall f id cands h h' n, getn h id = Some n -> cols_move f id cands h = (h', ROk false) ->
    h' = h /\ forall j c, In j cands -> nthz (items n) j = Some c -> sel f h c = false.
Proof. exact cols_move_false. Qed.
Print Assumptions columns_stay_iff_none_selectable.

(* Pile up/down: the first selectable candidate (candidates are the positions above, nearest first, or below) gets the
   focus; no candidate selectable <-> nothing is written *)
Theorem pile_lands_on_first_selectable :
  forall f id up cands h h' n, getn h id = Some n -> nk n = KPile -> pile_move f id up cands h = (h', ROk true) ->
  exists pre j post c h1 h2, cands = pre ++ j :: post /\ nthz (items n) j = Some c /\ sel f h c = true /\
    upd_pref_from_focus f id h = (h1, ROk tt) /\ w_focus id j h1 = (h2, ROk tt) /\
    forall i ci, In i pre -> nthz (items n) i = Some ci -> sel f h ci = false.
Proof. exact pile_move_first. Qed.
Print Assumptions pile_lands_on_first_selectable.

Theorem pile_stays_iff_none_selectable :
  forall f id up cands h h' n, getn h id = Some n -> pile_move f id up cands h = (h', ROk false) ->
    h' = h /\ forall j c, In j cands -> nthz (items n) j = Some c -> sel f h c = false.
Proof. exact pile_move_false. Qed.
Print Assumptions pile_stays_iff_none_selectable.

(* GridFlow rows and ListBox up/down choose with [find]: the element found is the first that passes the test *)
Theorem find_lands_on_first :
  forall (A : Type) (p : A -> bool) l x, find p l = Some x ->
    exists pre post, l = pre ++ x :: post /\ p x = true /\ forall y, In y pre -> p y = false.
Proof. exact @find_first. Qed.
Print Assumptions find_lands_on_first.

(* tree-wide: after a keypress with an arrow key (whatever it returns, even a model error) every focus anywhere in the
   tree is the focus it was before or a child whose selectable() was True before; premise: no ListBox has a pending
   set_focus request (completing a request restores the old focus position for a moment, selectable or not) *)
Theorem arrows_land_on_selectable :
  forall f id key h h' r, NoPending h -> is_arrow key = true -> kp f id key h = (h', r) ->
    forall x c, focus_child h' x = Some c -> focus_child h x = Some c \/ SelIn h c.
Proof. exact arrows_land_on_selectable_tree. Qed.
Print Assumptions arrows_land_on_selectable.

(* ============ clause 5: selectable() iff a child is, right after the contents were set ============ *)
Theorem selectable_iff_child :
  forall f id e h h' n, getn h id = Some n -> nk n = KPile \/ nk n = KCols ->
    edit f id e h = (h', ROk tt) ->
    exists n', getn h' id = Some n' /\ items n' = MonitoredList.items (fst (MonitoredList.step (n_c n) e)) /\
      ((forall c, In c (items n') -> ~ In id (sel_reads f h' c)) ->          (* the container is not its own descendant *)
       n_selc n' = existsb (sel f h') (items n')).
Proof. exact edit_selectable_iff_child. Qed.
Print Assumptions selectable_iff_child.

Theorem selectable_iff_child_gridflow :
  forall f h id n, getn h id = Some n -> nk n = KGrid -> sel_own (S f) h id = existsb (sel f h) (items n).
Proof. exact grid_selectable_iff_child. Qed.
Print Assumptions selectable_iff_child_gridflow.

(* ============ clause 6: only the focus path is rendered with focus ============ *)
(* For every tree and state (requests may be pending: ListBox.render completes them first): a leaf is rendered with
   focus=True only if render itself was called with focus=True and the leaf is reached by dispatch steps, each from a
   container to the widget that is its focus in the heap in which it dispatches ([rn_dispatch_heap]: for a ListBox the
   heap after the pending request was completed).  [hc] in FocusRender is the heap in which that child is then drawn. *)
Theorem only_focus_path_rendered_with_focus :
  forall f id focus h h' l, rn f id focus h = (h', ROk l) ->
    forall x, In x l -> focus = true /\ FocusRender f id h x.
Proof. exact render_focus_follows_route. Qed.
Print Assumptions only_focus_path_rendered_with_focus.

(* when nothing is pending, render changes nothing and the leaves rendered with focus are on the focus path *)
Theorem render_nothing_pending :
  forall f id focus h h' l, NoPending h -> rn f id focus h = (h', ROk l) ->
    h' = h /\ forall x, In x l -> focus = true /\ OnPath h id x.
Proof. exact rn_nopending. Qed.
Print Assumptions render_nothing_pending.

(* ============ clause 7: get_focus_path / set_focus_path round trip ============ *)
(* h: the heap the path was read from; h2: any later heap with the same widgets and contents (focus, pref_col,
   pending requests may all differ).  Hypotheses: both satisfy the focus invariant, lists are shorter than the
   model's string-position codes (100), no widget occurs twice on the path. *)
Theorem focus_path_roundtrip :
  forall f h r p h2,
    Inv (node_ok true) h -> Inv (node_ok true) h2 -> SmallLists h ->
    gfp f h r = ROk p -> ShapeSame h h2 -> NoDup (path_nodes f h r) ->
    exists h3, sfp p r h2 = (h3, ROk tt) /\ gfp f h3 r = ROk p /\
               (forall x, ~ In x (path_nodes f h r) -> getn h3 x = getn h2 x) /\ ShapeSame h h3 /\ Inv (node_ok true) h3.
Proof. exact focus_path_roundtrip_strong. Qed.
Print Assumptions focus_path_roundtrip.

(* ============ the translated code means what the proofs use ============ *)
Theorem translated_range_tests :
  (forall k pos len, k = KPile \/ k = KCols \/ k = KGrid -> (pos_invalid k pos len = false <-> 0 <= pos < len)) /\
  (forall pos, overlay_pos_invalid_gen pos = false <-> pos = 1).
Proof. split; [exact pos_invalid_spec|exact overlay_pos_invalid_spec]. Qed.
Print Assumptions translated_range_tests.

(* the navigation commands of the translated key table *)
Theorem translated_command_table :
  cmd_of (Some [117; 112]) = 1 /\ cmd_of (Some [100; 111; 119; 110]) = 2 /\
  cmd_of (Some [108; 101; 102; 116]) = 3 /\ cmd_of (Some [114; 105; 103; 104; 116]) = 4 /\
  cmd_of (Some [112; 97; 103; 101; 32; 117; 112]) = 5 /\ cmd_of (Some [112; 97; 103; 101; 32; 100; 111; 119; 110]) = 6 /\
  cmd_of (Some [104; 111; 109; 101]) = 7 /\ cmd_of (Some [101; 110; 100]) = 8 /\
  nonnav [116; 97; 98] = true /\ nonnav [120] = true /\ nonnav [32] = true /\ nonnav [101; 110; 116; 101; 114] = true.
Proof. vm_compute. repeat split; reflexivity. Qed.
Print Assumptions translated_command_table.

(* ============ non-vacuity ============ *)
(* a pool: Frame(body = Pile[ Columns[a b c], d ], footer = e) *)
Definition demo_pool : list spec :=
  [SLeaf 10 false 0 0 0 true [[120]]; SLeaf 10 false 0 0 0 false []; SLeaf 10 false 0 0 0 true [];
   SList KCols 60 false 0 0 0 None [0; 1; 2] 1 0 0; SLeaf 60 false 0 0 0 true [];
   SList KPile 60 false 0 0 0 None [3; 4] 0 0 0; SLeaf 60 false 0 0 0 true [];
   SFrame 60 false 0 0 0 5 None (Some 6) 100].

Example demo_invariant : Inv (node_ok true) (build FUEL demo_pool) /\ NoPending (build FUEL demo_pool).
Proof.
  split; [apply build_ok; intros _; unfold demo_pool; repeat (apply Forall_cons; [try exact I; left; reflexivity|]); apply Forall_nil|].
  apply no_pending_b_ok; vm_compute; reflexivity.
Qed.

(* 'x' is handled by leaf 0; 'right' skips the unselectable column; 'down' leaves the Columns; a press on the
   footer moves the Frame's focus; an invalid assignment raises; deleting the focused column keeps the focus valid *)
Example demo_run :
  let '(s, out) := run 7 (build FUEL demo_pool)
       [OKey [120]; OKey [114; 105; 103; 104; 116]; OKey [100; 111; 119; 110]; OPress [102]; OSetPos [100] 7;
        OEdit [100; 0] (MonitoredList.DelItem 2)] in
  (map (fun id => get_pos (rs_h s) id) [3; 5; 7], gfp FUEL (rs_h s) 7)
  = ([ROk 1; ROk 1; ROk 102], ROk [102]).
Proof. vm_compute. reflexivity. Qed.

Example demo_key_routing :
  snd (kp FUEL 7 [120] (build FUEL demo_pool)) = ROk (None, [0]) /\
  snd (kp FUEL 7 [121] (build FUEL demo_pool)) = ROk (Some [121], [0]) /\
  snd (rn FUEL 7 true (build FUEL demo_pool)) = ROk [0].
Proof. vm_compute. repeat split; reflexivity. Qed.

(* geometry of the widened regime: a box Pile of 10 rows with a packed leaf of 2 rows and two weighted leaves (1 : 3)
   gives them 2, 2 and 6 rows (Pile.get_item_rows: int(8 * 1 / 4 + 0.5) = 2, then the remaining 6) *)
Example demo_weights :
  let h := build FUEL [SLeaf 20 false 2 0 0 true []; SLeaf 20 false 0 1 0 true []; SLeaf 20 false 0 3 0 false [];
                       SList KPile 20 true 10 0 0 None [0; 1; 2] 0 0 0] in
  match getn h 3 with Some n => heights FUEL h n | None => [] end = [2; 2; 6].
Proof. vm_compute. reflexivity. Qed.

(* Columns.column_widths: 30 columns, dividechars 1, a ('given', 5) column and two weighted leaves (1 : 2) -> 5, 8, 15 *)
Example demo_column_weights :
  let h := build FUEL [SLeaf 5 false 0 0 0 true []; SLeaf 9 false 0 1 0 true []; SLeaf 9 false 0 2 0 true [];
                       SList KCols 30 false 0 0 0 None [0; 1; 2] 1 0 0] in
  match getn h 3 with Some n => (cols_widths h n, col_x h n 2) | None => ([], 0) end = ([5; 8; 15], 15).
Proof. vm_compute. reflexivity. Qed.

(* a ListBox over a plain list (SimpleListWalker, n_cw = 1): deleting the focused last item pulls the focus index back
   inside (focus 2 of [a b c], del body[2] -> focus 1); inserting before the focus leaves the index where it was *)
Example demo_simple_walker :
  let h := build FUEL [SLeaf 9 false 0 0 0 true []; SLeaf 9 false 0 0 0 true []; SLeaf 9 false 0 0 0 true []; SLeaf 9 false 0 0 0 true [];
                       SList KLBox 9 false 9 0 0 (Some 2) [0; 1; 2] 0 1 0] in
  (get_pos (fst (edit FUEL 4 (MonitoredList.DelItem 2) h)) 4, get_pos (fst (edit FUEL 4 (MonitoredList.Insert 0 3) h)) 4,
   focus_child (fst (edit FUEL 4 (MonitoredList.Insert 0 3) h)) 4)
  = (ROk 1, ROk 2, Some 1).
Proof. vm_compute. reflexivity. Qed.

(* decorations: Columns[a, WidgetDisable(b), c], all three leaves selectable, focus on a: 'right' skips the disabled
   column; a disabled subtree is never offered a key and never rendered with focus, whatever focus it holds *)
Example demo_decorations :
  let h := build FUEL [SLeaf 9 false 0 0 0 true []; SLeaf 9 false 0 0 2 true [[120]]; SLeaf 9 false 0 0 1 true [];
                       SList KCols 30 false 0 0 0 (Some 0) [0; 1; 2] 1 0 0] in
  (sel FUEL h 1, sel_own FUEL h 1, get_pos (fst (kp FUEL 3 [114; 105; 103; 104; 116] h)) 3,
   snd (kp FUEL 1 [120] h), snd (rn FUEL 1 true h))
  = (false, true, ROk 2, ROk (Some [120], []), ROk []).
Proof. vm_compute. reflexivity. Qed.
