(* C03 - Text layout shows every character once, in order, within the width.
   Only statements here; every proof is [exact]/[eapply] of a lemma of Proofs/TextLayoutTop.v
   (invariants in Proofs/TextLayoutProofs.v, list/width facts in Proofs/TextLayoutFacts.v).
   The model (Model/TextLayout.v) mirrors urwid/text_layout.py for str text; it is tied to the code
   by the exact extracted-model correspondence of harness/props/c03.py on every run.

   Quantifiers: every text [t : list Z] (code points), every width >= 1, every wrap mode, every
   alignment, every ellipsis string [ell], and EVERY character width function [cw] with
   0 <= cw c <= 2 and cw ' ' = 1 (so the theorems do not depend on a Unicode table).
   [shown_ranges L] is the list of the [offs,end) ranges of the text segments of a layout, in reading
   order; [line_hint ln] the removed-character hint (0, h) ending a line; [line_next ln] the offset where
   the following line takes over. *)
From Coq Require Import ZArith List Bool Lia.
Import ListNotations.
From Urwid Require Import PyBase Utf8 TextLayout TextLayoutBytes TextLayoutFacts TextLayoutProofs TextLayoutTop TextLayoutNatural TextLayoutClip
     TextLayoutBytesSim TextLayoutBytesTop TextLayoutModes TextLayoutModesSim TextLayoutModesWide TextLayoutModesTop.
Open Scope Z_scope.

Definition width_fn (cw : Z -> Z) : Prop := (forall c, 0 <= cw c <= 2) /\ cw SP = 1.

(* --- the layout never raises (the fuel of the model's loops always suffices: termination of the
       'space' mode "unwrap previous space" branch included) and has at least one line --- *)
Theorem layout_total :
  forall cw t width align wrap ell, width_fn cw -> 1 <= width ->
    exists L, layout cw t width align wrap ell = Ok L /\ L <> [].
Proof. intros cw t width align wrap ell [R S] Hw. exact (layout_total cw R S t width Hw align ell wrap). Qed.
Print Assumptions layout_total.

(* --- clause "original order, none shown twice": the shown ranges are non-empty, increasing and
       disjoint, inside the text; all four wrap modes --- *)
Theorem layout_order :
  forall cw t width align wrap ell L, width_fn cw -> 1 <= width ->
    layout cw t width align wrap ell = Ok L -> ranges_sorted 0 (shown_ranges L) (zlen t).
Proof. intros cw t width align wrap ell L [R S] Hw. exact (layout_order cw R S t width Hw align ell wrap L). Qed.
Print Assumptions layout_order.

Theorem layout_shows_nothing_twice :
  forall cw t width align wrap ell L i r1 r2 n1 n2, width_fn cw -> 1 <= width ->
    layout cw t width align wrap ell = Ok L ->
    nth_error (shown_ranges L) n1 = Some r1 -> nth_error (shown_ranges L) n2 = Some r2 ->
    fst r1 <= i < snd r1 -> fst r2 <= i < snd r2 -> n1 = n2.
Proof.
  intros cw t width align wrap ell L i r1 r2 n1 n2 [R S] Hw E.
  exact (ranges_sorted_unique 0 (shown_ranges L) (zlen t) i r1 r2 n1 n2
           (TextLayoutTop.layout_order cw R S t width Hw align ell wrap L E)).
Qed.
Print Assumptions layout_shows_nothing_twice.

(* --- clause "the only characters not shown are ...", modes any/space: an offset that is in no shown
       range is a newline, the space named by the hint of a line (space mode), or lies in a run of
       zero-width characters that begins where the previous line stopped and extends to a space,
       a newline or the end of the text ([omit_ok]).  [L <> [[]]]: the text could be displayed. --- *)
Theorem layout_omits_only_wrap :
  forall cw t width align wrap ell L, width_fn cw -> 1 <= width -> is_wrap wrap ->
    layout cw t width align wrap ell = Ok L -> L <> [[]] ->
    forall i, 0 <= i < zlen t -> in_ranges i (shown_ranges L) \/ omit_ok cw t wrap L i.
Proof. intros cw t width align wrap ell L [R S] Hw Hm. exact (wrap_layout_omits_only cw R S t width Hw align ell wrap Hm L). Qed.
Print Assumptions layout_omits_only_wrap.

(* --- the same clause, modes clip/ellipsis: newline, a paragraph of zero-width characters only, or
       (ellipsis) at/after the cut e of its paragraph, e being the first character that does not fit in
       front of the ellipsis ([omit_ok_trim], [cut_at]).  In clip mode the layout keeps the whole
       paragraph; the part beyond the width is removed when the line is rendered (below). --- *)
Theorem layout_omits_only_trim :
  forall cw t width align wrap ell L, width_fn cw -> 1 <= width -> is_trim wrap ->
    layout cw t width align wrap ell = Ok L ->
    forall i, 0 <= i < zlen t -> in_ranges i (shown_ranges L) \/ omit_ok_trim cw t width wrap ell i.
Proof. intros cw t width align wrap ell L [R S] Hw Hm. exact (trim_layout_omits_only cw R t width Hw align ell wrap Hm L). Qed.
Print Assumptions layout_omits_only_trim.

(* --- clause "every displayed line fits": any/space on the layout itself; each text segment claims
       exactly the columns of its characters --- *)
Theorem layout_fits_wrap :
  forall cw t width align wrap ell L ln, width_fn cw -> 1 <= width -> is_wrap wrap ->
    layout cw t width align wrap ell = Ok L -> In ln L ->
    0 <= line_width ln <= width /\
    forall sc o e, In (SText sc o e) ln -> sc = sumw cw (slice t o e) /\ 0 < sc /\ 0 <= o < e /\ e <= zlen t.
Proof. intros cw t width align wrap ell L ln [R S] Hw Hm E. exact (wrap_layout_fits cw R S t width Hw align ell wrap Hm L E ln). Qed.
Print Assumptions layout_fits_wrap.

(* ellipsis (whenever an ellipsis of non-zero width fits at all, i.e. width >= 2): every line fits,
   and a line that carries the ellipsis fills the width exactly *)
Theorem layout_fits_ellipsis :
  forall cw t width align wrap ell L ln, width_fn cw -> 1 <= width -> is_trim wrap ->
    layout cw t width align wrap ell = Ok L -> In ln L ->
    (wrap = WEllipsis -> sumw cw (trim_ell cw width ell) <> 0 -> 0 <= line_width ln <= width) /\
    (forall sc o e, In (SText sc o e) ln -> sc = sumw cw (slice t o e) /\ 0 < sc /\ 0 <= o < e /\ e <= zlen t) /\
    (forall sc o txt, In (SIns sc o txt) ln -> line_width ln = width).
Proof. intros cw t width align wrap ell L ln [R S] Hw Hm E. exact (trim_layout_fits cw R t width Hw align ell wrap Hm L E ln). Qed.
Print Assumptions layout_fits_ellipsis.

(* --- clause "'any' wrapping fills each line as far as the next character allows": a line without a
       removed-character hint (= broken inside a paragraph) cannot take the character that follows --- *)
Theorem any_maximal :
  forall cw t width align ell L ln sc o e, width_fn cw -> 1 <= width ->
    layout cw t width align WAny ell = Ok L -> In ln L -> line_hint ln = None -> In (SText sc o e) ln ->
    exists c, nthz t e = Some c /\ width < sc + cw c.
Proof.
  intros cw t width align ell L ln sc o e [R S] Hw.
  exact (wrap_any_maximal cw R S t width Hw align ell WAny (or_introl eq_refl) L ln sc o e eq_refl).
Qed.
Print Assumptions any_maximal.

(* --- clause "'space' wrapping breaks only at spaces whenever every word fits".  The code treats a
       double-width character as a break opportunity on both sides, so "word" = a run of characters that
       are neither space, newline nor double-width ([narrow_at]).  If every such run fits in the width,
       a line broken inside a paragraph ends just before or after a double-width character, or just
       after a space; every other line ends with a consumed space/newline (its hint). --- *)
Theorem space_breaks_at_spaces :
  forall cw t width align ell L ln sc o e, width_fn cw -> 1 <= width ->
    layout cw t width align WSpace ell = Ok L -> In ln L -> line_hint ln = None -> In (SText sc o e) ln ->
    (forall i j, (forall k, i <= k <= j -> narrow_at cw t k) -> sumw cw (slice t i (j + 1)) <= width) ->
    (exists c, nthz t e = Some c /\ cw c = 2) \/ (exists c, nthz t (e - 1) = Some c /\ cw c = 2) \/
    nthz t (e - 1) = Some SP.
Proof.
  intros cw t width align ell L ln sc o e [R S] Hw.
  exact (wrap_space_breaks_at_spaces cw R S t width Hw align ell WSpace (or_intror eq_refl) L ln sc o e eq_refl).
Qed.
Print Assumptions space_breaks_at_spaces.

(* --- clause "alignment pads by exactly 0, half (rounded up) or all of the spare columns";
       all four wrap modes (in clip mode the spare may be negative: the shift is then the same formula) --- *)
Theorem align_pad :
  forall cw t width align wrap ell L ln, width_fn cw -> 1 <= width ->
    layout cw t width align wrap ell = Ok L -> In ln L -> ln <> [] ->
    line_shift ln = pad_expected width align (line_width ln) /\
    (line_width ln <= width ->
     line_shift ln = match align with AlLeft => 0 | AlRight => width - line_width ln
                                 | AlCenter => (width - line_width ln + 1) / 2 end).
Proof.
  intros cw t width align wrap ell L ln [R S] Hw E I NE.
  pose proof (TextLayoutTop.align_pad cw R S t width Hw align ell wrap L ln E I NE) as H.
  split; [exact H|]. intros Hle. rewrite H. exact (proj1 (pad_expected_spare cw R width align (line_width ln) Hle)).
Qed.
Print Assumptions align_pad.

(* --- clause "the row count reported equals the number of lines rendered" (and pack agrees) --- *)
Theorem rows_eq_len :
  forall cw t width align wrap ell n rows,
    text_rows cw t width align wrap ell = LOk n -> text_render cw t width align wrap ell = LOk rows ->
    zlen rows = n.
Proof. intros cw t width align wrap ell. exact (rows_eq_len cw t width align ell wrap). Qed.
Print Assumptions rows_eq_len.

Theorem pack_rows_eq_rows :
  forall cw t width align wrap ell n c r,
    text_rows cw t width align wrap ell = LOk n -> text_pack cw t width align wrap ell = LOk (c, r) -> r = n.
Proof. intros cw t width align wrap ell. exact (pack_rows_eq_rows cw t width align ell wrap). Qed.
Print Assumptions pack_rows_eq_rows.

(* --- the same clause for the natural (FIXED) size: pack(()) reports (cols, rows) - cols the widest
       paragraph, rows the number of newlines + 1 - and at that width (when it is at least one column)
       the layout has exactly that many lines, in every wrap mode and alignment: rows((cols,)) = rows --- *)
Theorem natural_size_rows :
  forall cw t align wrap ell, (forall c, 0 <= cw c <= 2) ->
    1 <= fst (text_pack_fixed cw t) ->
    text_rows cw t (fst (text_pack_fixed cw t)) align wrap ell = LOk (snd (text_pack_fixed cw t)).
Proof. intros cw t align wrap ell. exact (natural_size_rows cw t align wrap ell). Qed.
Print Assumptions natural_size_rows.

(* --- clause "a double-width character in a one-column space produces an empty line, not an error",
       and the empty line is produced in no other situation --- *)
Theorem wide_in_one_column_empty :
  forall cw t align wrap ell k c, width_fn cw -> is_wrap wrap ->
    nthz t k = Some c -> cw c = 2 -> c <> NL ->
    layout cw t 1 align wrap ell = Ok [[]].
Proof.
  intros cw t align wrap ell k c [R S] Hm.
  exact (wrap_wide_in_one_column_empty cw R S t 1 ltac:(lia) align ell wrap Hm k c eq_refl).
Qed.
Print Assumptions wide_in_one_column_empty.

Theorem empty_line_only_if_cannot_display :
  forall cw t width align wrap ell, width_fn cw -> 1 <= width -> is_wrap wrap ->
    layout cw t width align wrap ell = Ok [[]] ->
    width = 1 /\ exists k c, nthz t k = Some c /\ cw c = 2 /\ c <> NL.
Proof.
  intros cw t width align wrap ell [R S] Hw Hm.
  exact (layout_empty_line_only_if_cannot_display cw R S t width Hw align ell wrap Hm).
Qed.
Print Assumptions empty_line_only_if_cannot_display.

(* --- rendering (trim_line + LayoutSegment + subseg + calc_trim_text + apply_text_layout + the TextCanvas
       width check) never raises, produces as many rows as rows() reports, and every row is exactly
       [width] columns wide (= "every displayed line fits", for clip/ellipsis judged after trimming).
       All four wrap modes and all three alignments: this includes the over-long clip lines that a
       negative center/right shift makes trim_line cut on both sides. --- *)
Theorem render_total :
  forall cw t width align wrap ell, width_fn cw -> 1 <= width ->
    exists rows, text_render cw t width align wrap ell = LOk rows /\
                 Forall (fun r => sumw cw r = width) rows /\
                 text_rows cw t width align wrap ell = LOk (zlen rows).
Proof. intros cw t width align wrap ell [R S] Hw. exact (render_total cw t width align wrap ell R S Hw). Qed.
Print Assumptions render_total.

(* clip, left aligned: the rendered row of an over-long paragraph [a, nl) is its longest prefix that
   fits (nothing when that prefix has no visible character), padded by one space when a double-width
   character straddles the edge: "the part of a line that lies beyond the width" and nothing else is cut *)
Theorem clip_left_row_is_longest_prefix :
  forall cw t width a nl, width_fn cw -> 1 <= width ->
    0 <= a < nl -> nl <= zlen t -> width < sumw cw (slice t a nl) ->
    exists p pr,
      render_line cw t width [SText (sumw cw (slice t a nl)) a nl; SPad 0 nl]
        = LOk ((if sumw cw (slice t a p) =? 0 then [] else slice t a p) ++ spaces pr) /\
      a <= p < nl /\ (pr = 0 \/ pr = 1) /\ sumw cw (slice t a p) + pr = width /\
      (exists ch, nthz t p = Some ch /\ width < sumw cw (slice t a p) + cw ch) /\
      sumw cw ((if sumw cw (slice t a p) =? 0 then [] else slice t a p) ++ spaces pr) = width.
Proof. intros cw t width a nl [R S] Hw. exact (render_line_clip_left cw R S t width Hw a nl). Qed.
Print Assumptions clip_left_row_is_longest_prefix.

(* ====================================================================================== *)
(* BYTES text under the utf8 byte encoding (Model/TextLayoutBytes.v: the layout driven by the byte-mode
   functions of str_util - decode_one walk, move_prev_char / move_next_char over continuation bytes,
   calc_trim_text - with BYTE offsets).  For every str s of Unicode scalar values, every ellipsis string,
   width >= 1, wrap mode, alignment and every wcwidth function [wcw] with wcw c <= 2 and a 1-column
   space: the layout of the utf-8 encoding of s is the image of the str layout of s under the boundary
   map [boff s] (character index -> byte offset).  [u8_cw wcw] is get_char_width.  The byte-mode
   primitives of the model are proved equal (Proofs/TextLayoutBytesEq.v) to C11's model of str_util,
   whose decode_one arithmetic is re-translated from the source. *)
Definition wcw_ok (wcw : Z -> Z) : Prop := (forall c, wcw c <= 2) /\ u8_cw wcw SP = 1.
Definition scalars (s : list Z) : Prop := Forall (fun c => scalar c = true) s.

Theorem bytes_layout_is_image :
  forall wcw s width align wrap ell, wcw_ok wcw -> scalars s -> scalars ell -> 1 <= width ->
    layout_b wcw (encs s) width align wrap ell
    = map_result (boff s) (layout (u8_cw wcw) s width align wrap ell).
Proof. intros wcw s width align wrap ell [Hw Hsp] Hs He Hwd. exact (layout_bytes_is_image wcw s width align wrap ell Hw Hsp Hs He Hwd). Qed.
Print Assumptions bytes_layout_is_image.

(* order / nothing twice, in byte offsets *)
Theorem bytes_layout_order :
  forall wcw s width align wrap ell Lb, wcw_ok wcw -> scalars s -> scalars ell -> 1 <= width ->
    layout_b wcw (encs s) width align wrap ell = Ok Lb -> ranges_sorted 0 (shown_ranges Lb) (zlen (encs s)).
Proof. intros wcw s width align wrap ell Lb [Hw Hsp] Hs He Hwd. exact (bytes_layout_order wcw Hw Hsp s Hs ell He width Hwd align wrap Lb). Qed.
Print Assumptions bytes_layout_order.

(* fits: a text segment covers whole characters and claims exactly the columns that the byte-mode
   calc_width reports for its byte range *)
Theorem bytes_layout_fits :
  forall wcw s width align wrap ell Lb ln, wcw_ok wcw -> scalars s -> scalars ell -> 1 <= width -> is_wrap wrap ->
    layout_b wcw (encs s) width align wrap ell = Ok Lb -> In ln Lb ->
    0 <= line_width ln <= width /\
    forall sc o e, In (SText sc o e) ln ->
      exists o' e', o = boff s o' /\ e = boff s e' /\ 0 <= o' < e' /\ e' <= zlen s /\
                    sc = sumw (u8_cw wcw) (slice s o' e') /\ calc_width_b wcw (encs s) o e = LOk sc.
Proof.
  intros wcw s width align wrap ell Lb ln [Hw Hsp] Hs He Hwd Hm E.
  exact (bytes_layout_fits wcw Hw Hsp s Hs ell He width Hwd align wrap Lb Hm E ln).
Qed.
Print Assumptions bytes_layout_fits.

(* omission: every byte offset lies in a character k; that character is shown (and then the offset lies in
   the image of its range) or is omitted for one of the reasons of the str theorems *)
Theorem bytes_layout_omits_only_wrap :
  forall wcw s width align wrap ell Lb, wcw_ok wcw -> scalars s -> scalars ell -> 1 <= width -> is_wrap wrap ->
    layout_b wcw (encs s) width align wrap ell = Ok Lb -> Lb <> [[]] ->
    exists L, layout (u8_cw wcw) s width align wrap ell = Ok L /\ Lb = map_layout (boff s) L /\
      forall j, 0 <= j < zlen (encs s) -> exists k, 0 <= k < zlen s /\ boff s k <= j < boff s (k + 1) /\
        (in_ranges j (shown_ranges Lb) \/ omit_ok (u8_cw wcw) s wrap L k).
Proof.
  intros wcw s width align wrap ell Lb [Hw Hsp] Hs He Hwd.
  exact (bytes_layout_omits_only_wrap wcw Hw Hsp s Hs ell He width Hwd align wrap Lb).
Qed.
Print Assumptions bytes_layout_omits_only_wrap.

Theorem bytes_layout_omits_only_trim :
  forall wcw s width align wrap ell Lb, wcw_ok wcw -> scalars s -> scalars ell -> 1 <= width -> is_trim wrap ->
    layout_b wcw (encs s) width align wrap ell = Ok Lb ->
    forall j, 0 <= j < zlen (encs s) -> exists k, 0 <= k < zlen s /\ boff s k <= j < boff s (k + 1) /\
      (in_ranges j (shown_ranges Lb) \/ omit_ok_trim (u8_cw wcw) s width wrap ell k).
Proof.
  intros wcw s width align wrap ell Lb [Hw Hsp] Hs He Hwd.
  exact (bytes_layout_omits_only_trim wcw Hw Hsp s Hs ell He width Hwd align wrap Lb).
Qed.
Print Assumptions bytes_layout_omits_only_trim.

Theorem bytes_rows_eq :
  forall wcw s width align wrap ell, wcw_ok wcw -> scalars s -> scalars ell -> 1 <= width ->
    text_rows_b wcw (encs s) width align wrap ell = text_rows (u8_cw wcw) s width align wrap ell.
Proof.
  intros wcw s width align wrap ell [Hw Hsp] Hs He Hwd.
  exact (bytes_rows_eq wcw Hw Hsp s Hs ell He width Hwd align wrap).
Qed.
Print Assumptions bytes_rows_eq.

(* ====================================================================================== *)
(* BYTES text in the WIDE (double-byte: gbk, big5, uhc, euc-kr, euc-jp ...) and NARROW (single-byte: ascii,
   latin-1 ...) byte-encoding modes.  Model/TextLayoutModes.v is the layout parametric in the mode (record of
   the str_util position queries); [P_wide] uses within_double_byte, written out in the model and proved equal
   to C11's model of it and to the translation regenerated from str_util.py (w_within_is_translated).
   A well-formed double-byte text is a list of characters [s] with [forallb wfb s = true]: each character is
   a byte below 0x80 or 256*lead+trail with lead 0x81..0xFF and trail 0x40..0x7E / 0x80..0xFF; its bytes are
   [flat_map enc_w s]; [gboff enc_w s k] is the byte offset of character k; a character is [cw_w] = 1 or 2
   columns wide.  In narrow mode every byte is a character of one column ([enc_n c = [c]], the map is the
   identity).  The ellipsis is given as the list of its characters. *)
Theorem wide_layout_is_image :
  forall s width align wrap ell, forallb wfb s = true -> 1 <= width ->
    layout_g P_wide (flat_map enc_w s) width align wrap (map enc_w ell)
    = gmap_result enc_w s (layout cw_w s width align wrap ell).
Proof. exact wide_layout_is_image. Qed.
Print Assumptions wide_layout_is_image.

(* whole characters, shown once, in order: byte ranges increasing and disjoint, each the image of a character range *)
Theorem wide_layout_order :
  forall s width align wrap ell Lb, forallb wfb s = true -> 1 <= width ->
    layout_g P_wide (flat_map enc_w s) width align wrap (map enc_w ell) = Ok Lb ->
    ranges_sorted 0 (shown_ranges Lb) (zlen (flat_map enc_w s)).
Proof. intros s width align wrap ell Lb Hwf Hw. exact (wide_layout_order s Hwf width Hw align wrap ell Lb). Qed.
Print Assumptions wide_layout_order.

Theorem wide_layout_fits :
  forall s width align wrap ell Lb ln, forallb wfb s = true -> 1 <= width -> is_wrap wrap ->
    layout_g P_wide (flat_map enc_w s) width align wrap (map enc_w ell) = Ok Lb -> In ln Lb ->
    0 <= line_width ln <= width /\
    forall sc o e, In (SText sc o e) ln ->
      exists o' e', o = gboff enc_w s o' /\ e = gboff enc_w s e' /\ 0 <= o' < e' /\ e' <= zlen s /\ sc = e - o.
Proof. intros s width align wrap ell Lb ln Hwf Hw Hm E. exact (wide_layout_fits s Hwf width Hw align wrap ell Lb Hm E ln). Qed.
Print Assumptions wide_layout_fits.

Theorem wide_layout_omits_only_wrap :
  forall s width align wrap ell Lb, forallb wfb s = true -> 1 <= width -> is_wrap wrap ->
    layout_g P_wide (flat_map enc_w s) width align wrap (map enc_w ell) = Ok Lb -> Lb <> [[]] ->
    exists L, layout cw_w s width align wrap ell = Ok L /\ Lb = gmap_layout enc_w (gboff enc_w s) L /\
      forall j, 0 <= j < zlen (flat_map enc_w s) ->
        exists k, 0 <= k < zlen s /\ gboff enc_w s k <= j < gboff enc_w s (k + 1) /\
          (in_ranges j (shown_ranges Lb) \/ omit_ok cw_w s wrap L k).
Proof. intros s width align wrap ell Lb Hwf Hw. exact (wide_layout_omits_only_wrap s Hwf width Hw align wrap ell Lb). Qed.
Print Assumptions wide_layout_omits_only_wrap.

Theorem wide_layout_omits_only_trim :
  forall s width align wrap ell Lb, forallb wfb s = true -> 1 <= width -> is_trim wrap ->
    layout_g P_wide (flat_map enc_w s) width align wrap (map enc_w ell) = Ok Lb ->
    forall j, 0 <= j < zlen (flat_map enc_w s) ->
      exists k, 0 <= k < zlen s /\ gboff enc_w s k <= j < gboff enc_w s (k + 1) /\
        (in_ranges j (shown_ranges Lb) \/ omit_ok_trim cw_w s width wrap ell k).
Proof. intros s width align wrap ell Lb Hwf Hw. exact (wide_layout_omits_only_trim s Hwf width Hw align wrap ell Lb). Qed.
Print Assumptions wide_layout_omits_only_trim.

(* render_total in wide mode: never raises, as many rows as rows() reports, every row exactly [width] bytes
   (= columns), and the rows are the encodings of the rows of the str rendering (no character is torn) *)
Theorem wide_render_total :
  forall s width align wrap ell, forallb wfb s = true -> 1 <= width ->
    exists srows, text_render cw_w s width align wrap ell = LOk srows /\
      text_render_g P_wide (flat_map enc_w s) width align wrap (map enc_w ell) = LOk (map (flat_map enc_w) srows) /\
      text_rows_g P_wide (flat_map enc_w s) width align wrap (map enc_w ell) = LOk (zlen (map (flat_map enc_w) srows)) /\
      Forall (fun rb => zlen rb = width) (map (flat_map enc_w) srows).
Proof. intros s width align wrap ell Hwf Hw. exact (wide_render_total s Hwf width Hw align wrap ell). Qed.
Print Assumptions wide_render_total.

(* narrow mode: no hypothesis on the bytes at all *)
Theorem narrow_layout_is_image :
  forall s width align wrap ell, 1 <= width ->
    layout_g P_narrow (flat_map enc_n s) width align wrap (map enc_n ell)
    = gmap_result enc_n s (layout cw_n s width align wrap ell).
Proof. exact narrow_layout_is_image. Qed.
Print Assumptions narrow_layout_is_image.

Theorem narrow_layout_order :
  forall s width align wrap ell Lb, 1 <= width ->
    layout_g P_narrow (flat_map enc_n s) width align wrap (map enc_n ell) = Ok Lb ->
    ranges_sorted 0 (shown_ranges Lb) (zlen (flat_map enc_n s)).
Proof. intros s width align wrap ell Lb Hw. exact (narrow_layout_order s width Hw align wrap ell Lb). Qed.
Print Assumptions narrow_layout_order.

Theorem narrow_layout_fits :
  forall s width align wrap ell Lb ln, 1 <= width -> is_wrap wrap ->
    layout_g P_narrow (flat_map enc_n s) width align wrap (map enc_n ell) = Ok Lb -> In ln Lb ->
    0 <= line_width ln <= width /\
    forall sc o e, In (SText sc o e) ln -> 0 <= o < e /\ e <= zlen s /\ sc = e - o.
Proof. intros s width align wrap ell Lb ln Hw Hm E. exact (narrow_layout_fits s width Hw align wrap ell Lb Hm E ln). Qed.
Print Assumptions narrow_layout_fits.

Theorem narrow_layout_omits_only :
  forall s width align wrap ell Lb, 1 <= width ->
    layout_g P_narrow (flat_map enc_n s) width align wrap (map enc_n ell) = Ok Lb ->
    (is_wrap wrap -> Lb <> [[]] ->
       exists L, layout cw_n s width align wrap ell = Ok L /\ Lb = gmap_layout enc_n (gboff enc_n s) L /\
         forall j, 0 <= j < zlen s -> in_ranges j (shown_ranges Lb) \/ omit_ok cw_n s wrap L j) /\
    (is_trim wrap -> forall j, 0 <= j < zlen s -> in_ranges j (shown_ranges Lb) \/ omit_ok_trim cw_n s width wrap ell j).
Proof.
  intros s width align wrap ell Lb Hw E. split.
  - intros Hm NE. exact (narrow_layout_omits_only_wrap s width Hw align wrap ell Lb Hm E NE).
  - intros Hm. exact (narrow_layout_omits_only_trim s width Hw align wrap ell Lb Hm E).
Qed.
Print Assumptions narrow_layout_omits_only.

Theorem narrow_render_total :
  forall s width align wrap ell, 1 <= width ->
    exists srows, text_render cw_n s width align wrap ell = LOk srows /\
      text_render_g P_narrow (flat_map enc_n s) width align wrap (map enc_n ell) = LOk (map (flat_map enc_n) srows) /\
      text_rows_g P_narrow (flat_map enc_n s) width align wrap (map enc_n ell) = LOk (zlen (map (flat_map enc_n) srows)) /\
      Forall (fun rb => zlen rb = width) (map (flat_map enc_n) srows).
Proof. intros s width align wrap ell Hw. exact (narrow_render_total s width Hw align wrap ell). Qed.
Print Assumptions narrow_render_total.

(* ---------- non-vacuity: the hypotheses are satisfiable and the model computes ---------- *)
Definition cw_ex (c : Z) : Z :=
  if c =? 19990 then 2            (* U+4E16, double width *)
  else if c =? 769 then 0         (* U+0301, combining    *)
  else if c =? 10 then 0 else 1.

Example cw_ex_is_width_fn : width_fn cw_ex.
Proof.
  split; [|reflexivity]. intros c. unfold cw_ex.
  destruct (c =? 19990); [lia|]. destruct (c =? 769); [lia|]. destruct (c =? 10); lia.
Qed.

(* "ab cdef" at 3 columns, space mode: the 'unwrap previous space' branch runs (line "ab " keeps its space) *)
Example unwrap_runs :
  layout cw_ex [97; 98; 32; 99; 100; 101; 102] 3 AlLeft WSpace [8230]
  = Ok [[SText 3 0 3]; [SText 3 3 6]; [SText 1 6 7; SPad 0 7]].
Proof. vm_compute. reflexivity. Qed.

(* a double-width character at width 1 *)
Example cannot_display : layout cw_ex [97; 19990] 1 AlRight WAny [8230] = Ok [[]].
Proof. vm_compute. reflexivity. Qed.

(* ellipsis, right aligned, a combining character and a wide character straddling the cut *)
Example ellipsis_line :
  layout cw_ex [97; 769; 19990; 19990; 98] 4 AlRight WEllipsis [8230]
  = Ok [[SText 3 0 3; SIns 1 3 [8230]; SPad 0 3]]
  /\ layout cw_ex [97; 19990; 19990; 98] 3 AlRight WEllipsis [8230]
  = Ok [[SText 1 0 1; SIns 1 1 [8230]; SPad 1 1]].
Proof. split; vm_compute; reflexivity. Qed.

(* clip, centered: the negative shift, and the row that trim_line cuts on both sides *)
Example clip_center_render :
  text_render cw_ex [97; 98; 99; 100; 101; 102; 103] 3 AlCenter WClip [8230] = LOk [[99; 100; 101]].
Proof. vm_compute. reflexivity. Qed.

Example omitted_hint_space :
  omit_ok cw_ex [97; 98; 32; 99] WSpace [[SText 2 0 2; SPad 0 2]; [SText 1 3 4; SPad 0 4]] 2.
Proof.
  right; left. split; [reflexivity|]. split; [reflexivity|].
  exists [SText 2 0 2; SPad 0 2]. split; [left; reflexivity | reflexivity].
Qed.

(* the bytes model on "a<U+4E16>b" (5 bytes) at 2 columns: offsets are byte offsets *)
Definition wcw_ex (c : Z) : Z := if c =? 19990 then 2 else if c =? 769 then 0 else if c =? 10 then (-1) else 1.

Example wcw_ex_ok : wcw_ok wcw_ex.
Proof.
  split; [|reflexivity]. intros c. unfold wcw_ex.
  destruct (c =? 19990); [lia|]. destruct (c =? 769); [lia|]. destruct (c =? 10); lia.
Qed.

Example bytes_layout_runs :
  layout_b wcw_ex (encs [97; 19990; 98]) 2 AlLeft WAny [8230]
  = Ok [[SText 1 0 1]; [SText 2 1 4]; [SText 1 4 5; SPad 0 5]].
Proof. vm_compute. reflexivity. Qed.

(* a well-formed GBK text: 'a', U+4E02 (bytes 81 40: lowest lead byte, ASCII-range trail byte), 'b' *)
Example wide_wf : forallb wfb [97; 256 * 129 + 64; 98] = true.
Proof. vm_compute. reflexivity. Qed.

Example wide_layout_runs :
  layout_g P_wide (flat_map enc_w [97; 256 * 129 + 64; 98]) 2 AlLeft WAny [[161; 173]]
  = Ok [[SText 1 0 1]; [SText 2 1 3]; [SText 1 3 4; SPad 0 4]].
Proof. vm_compute. reflexivity. Qed.
