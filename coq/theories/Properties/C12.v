(* C12 - MainLoop delivers input in order and always restores the terminal.
   Only statements here; every proof is [exact <lemma>] into Proofs/MainLoopProofs.v.
   The model (Model/MainLoop.v) is hand-written from urwid/event_loop/main_loop.py and the
   _start/_stop code of urwid/display/_posix_raw_display.py + _raw_display_base.py and is tied to
   the code by an exact trace correspondence on every run (harness/props/c12.py).
   The theorems are about urwid's control flow; pty, termios and signal delivery are runtime
   behaviour examined by the fault-injection oracle only.

   Vocabulary (Proofs/MainLoopSpec.v):
     [session c p rounds inputs]  what the application does before run(), then MainLoop.run(), for the
                                  configuration [c] (screen kind, filter, handlers, widget answers,
                                  pop_ups, handle_mouse, prestarted screen ...), the fault plan [p]
                                  (callback invocation index -> Exit | Raise e), the scripted rounds
                                  of events (screen with hook_event_loop) or get_input results
                                  (screen without);
     [acts s]                     the user callbacks and screen.draw_screen calls of the trace, in order;
     [spec_session c rounds inputs] the order the property demands for a fault-free session:
                                  per batch the filter, then per surviving key the topmost widget and the
                                  unhandled-input handler iff not handled, events in arrival order,
                                  render + draw_screen after every round before the loop waits again;
     [cut P i L]                  L cut right after the first callback whose index holds a fault;
     [first_fault P 0 N]          the first planned fault among the N callbacks of the fault-free session. *)
From Coq Require Import ZArith List Bool.
Import ListNotations.
From Urwid Require Import PyBase MainLoop MainLoopSpec MainLoopProofs.
Open Scope Z_scope.

(* --- clause 1: order of delivery and redraw.  For every configuration, script and fault plan the
       callbacks and redraws that happen are exactly the demanded sequence, cut right after the
       first faulting invocation (nothing is invoked after it, nothing is skipped before it). --- *)
Theorem input_order :
  forall c p rounds inputs T0, wf_config c -> initial_modes T0 ->
    acts (snd (session c p rounds inputs (init_st T0))) =
    fst (cut (plan_at p) 0 (spec_session c rounds inputs)).
Proof. exact input_order_lemma. Qed.
Print Assumptions input_order.

Theorem input_order_is_a_prefix_of_the_demanded_sequence :
  forall c p rounds inputs T0, wf_config c -> initial_modes T0 ->
    exists rest, spec_session c rounds inputs = acts (snd (session c p rounds inputs (init_st T0))) ++ rest.
Proof. exact input_order_prefix_lemma. Qed.
Print Assumptions input_order_is_a_prefix_of_the_demanded_sequence.

Theorem input_order_complete_without_fault :
  forall c p rounds inputs T0, wf_config c -> initial_modes T0 ->
    first_fault (plan_at p) 0 (callbacks_of_session c rounds inputs) = None ->
    acts (snd (session c p rounds inputs (init_st T0))) = spec_session c rounds inputs /\
    fst (session c p rounds inputs (init_st T0)) = ROk tt.
Proof. exact no_fault_complete_lemma. Qed.
Print Assumptions input_order_complete_without_fault.

(* what the demanded sequence says, per key / per round.  [o]: the launcher's pop-up is open.
   The topmost widget is the open pop-up (under pop_ups=True), else the body. *)
Theorem unhandled_exactly_when_not_handled :
  forall c o x, w_selectable c = true -> c_unhandled c <> None ->
    let r := keypress_result c o x in
    In (TUnhandled (KKey r)) (fst (spec_key c o (KKey x))) <-> (r <> 0 /\ r <> 12).
Proof. exact unhandled_iff_lemma. Qed.
Print Assumptions unhandled_exactly_when_not_handled.

Theorem mouse_unhandled_exactly_when_not_handled :
  forall c o b cl rw, w_has_mouse c = true -> c_unhandled c <> None ->
    In (TUnhandled (KMouse b cl rw)) (fst (spec_key c o (KMouse b cl rw))) <->
    (pop_shown c o = true \/ widget_mouse c b = false).
Proof. exact mouse_unhandled_iff_lemma. Qed.
Print Assumptions mouse_unhandled_exactly_when_not_handled.

(* [k+1]: the number of MainLoop.entering_idle callbacks the loop holds (1 in a first run) *)
Theorem every_round_ends_with_a_redraw :
  forall c k o r, exists l, fst (spec_round c (S k) o r) = l ++ [TRender; TDraw].
Proof. exact round_ends_with_redraw_lemma. Qed.
Print Assumptions every_round_ends_with_a_redraw.

(* pop-ups (pop_ups=True, a PopUpLauncher whose create_pop_up() returns a cached widget): for EVERY history
   of keys - any number of open / close / reopen - each key goes to the pop-up exactly while it is open and
   to the body otherwise, as the obvious two-state automaton [route] says, and the pop-up state follows
   [route_state].  (With [input_order] and [run_outcome_cases] this covers the interpreter: PopUpTarget's
   bookkeeping never gets out of step, no AttributeError can leave run().) *)
Theorem popup_gets_the_keys_exactly_while_open :
  forall c, c_pop_ups c = true -> c_launcher c = true -> w_selectable c = true ->
    forall ks o,
      filter is_keypress (fst (spec_keys c o ks)) = route o ks /\
      snd (spec_keys c o ks) = route_state o ks.
Proof. exact popup_routing_lemma. Qed.
Print Assumptions popup_gets_the_keys_exactly_while_open.

(* --- clause 2: ExitMainLoop ends run() normally --- *)
Theorem exit_is_normal :
  forall c p rounds inputs T0 j, wf_config c -> initial_modes T0 ->
    first_fault (plan_at p) 0 (callbacks_of_session c rounds inputs) = Some (j, FExit) ->
    fst (session c p rounds inputs (init_st T0)) = ROk tt /\
    n (snd (session c p rounds inputs (init_st T0))) = j + 1.
Proof. exact exit_is_normal_lemma. Qed.
Print Assumptions exit_is_normal.

(* --- clause 2: any other exception leaves run() unchanged, and the faulting invocation is the last --- *)
Theorem other_propagates_unchanged :
  forall c p rounds inputs T0 j e, wf_config c -> initial_modes T0 ->
    first_fault (plan_at p) 0 (callbacks_of_session c rounds inputs) = Some (j, FRaise e) ->
    fst (session c p rounds inputs (init_st T0)) = RErr (UserExc e) /\
    n (snd (session c p rounds inputs (init_st T0))) = j + 1.
Proof. exact other_propagates_lemma. Qed.
Print Assumptions other_propagates_unchanged.

(* nothing else ever leaves run(): it returns normally, or raises the exception of the first fault
   (which is a Raise, preceded by no other fault, and is the last callback invoked) *)
Theorem run_outcome_cases :
  forall c p rounds inputs T0, wf_config c -> initial_modes T0 ->
    fst (session c p rounds inputs (init_st T0)) = ROk tt \/
    exists j e, plan_at p j = Some (FRaise e) /\ (forall i, 0 <= i < j -> plan_at p i = None) /\
                n (snd (session c p rounds inputs (init_st T0))) = j + 1 /\
                fst (session c p rounds inputs (init_st T0)) = RErr (UserExc e).
Proof. exact outcome_cases_lemma. Qed.
Print Assumptions run_outcome_cases.

(* --- clause 3: in every case the display is stopped and the terminal is back in its initial modes:
       normal buffer, cursor visible, mouse / bracketed paste / focus reporting off, tty settings and
       ALL signal handlers (SIGWINCH, SIGTSTP, SIGCONT; whatever they were) as before.  All scripts,
       all fault plans, both kinds of screen, pop_ups, handle_mouse, bracketed paste, focus
       reporting, tty or not, screen started by the application or not.
       (Before fix 05f5af7 Screen.signal_restore() reset SIGCONT to SIG_DFL and this statement was
       refuted in the model; the former witness is kept as a regression case in corpus/C12/base.json
       and as [ex_sigcont_kept] below.) --- *)
Theorem always_restored_full :
  forall c p rounds inputs T0, wf_config c -> initial_modes T0 ->
    tm (snd (session c p rounds inputs (init_st T0))) = T0 /\
    s_started (scr (snd (session c p rounds inputs (init_st T0)))) = false.
Proof. exact always_restored_lemma. Qed.
Print Assumptions always_restored_full.

(* --- run() again on the same MainLoop and Screen (screen with hook_event_loop).
       [Restartable c T0 s]: the display is stopped (never started, or stopped by an earlier run()), the
       terminal is T0, PopUpTarget's bookkeeping is consistent.  Nothing else has to be reset between runs:
       (a) the first session leaves such a state on EVERY path - normal end, ExitMainLoop or an exception at any
           callback index - and the only thing an exception leaves in the loop's idle phase is the idle
           callback of that run (MainLoop.stop() is not called on that path);
       (b) from ANY such state run() again delivers in order (what was left in the alarm heap fires first, each
           idle phase redraws once per registered idle callback), ExitMainLoop ends it normally, any other
           exception leaves it unchanged, the terminal is restored and the state is restartable again -
           for every script and every fault plan of that run.  By induction: any number of runs. --- *)
Theorem first_run_leaves_a_restartable_state :
  forall c p rounds inputs T0, c_hook c = true -> wf_config c -> initial_modes T0 ->
    let s1 := snd (session c p rounds inputs (init_st T0)) in
    Restartable c T0 s1 /\
    idle_reg s1 = (match snd (cut (plan_at p) 0 (spec_hook_session c rounds)) with
                   | Some (FRaise _) => 1%nat | _ => O end).
Proof. exact first_run_restartable_lemma. Qed.
Print Assumptions first_run_leaves_a_restartable_state.

Theorem run_again_from_any_restartable_state :
  forall c p rounds inputs T0 s, c_hook c = true -> wf_config c -> initial_modes T0 -> Restartable c T0 s ->
    let L := spec_loop c (S (idle_reg s)) (l_pop s) (alarms s ++ [AEnteringIdle]) rounds in
    let ct := cut (plan_at p) (n s) L in
    let rs := ml_run c p rounds inputs s in
    acts (snd rs) = acts s ++ fst ct /\ n (snd rs) = n s + ncb (fst ct) /\ fst rs = loop_result (snd ct) /\
    tm (snd rs) = T0 /\ s_started (scr (snd rs)) = false /\ Restartable c T0 (snd rs) /\
    idle_reg (snd rs) = (match snd ct with Some (FRaise _) => S (idle_reg s) | _ => idle_reg s end).
Proof. exact rerun_lemma. Qed.
Print Assumptions run_again_from_any_restartable_state.

(* --- non-vacuity: the model computes something, the hypotheses are satisfiable --- *)
Definition ex_config : config :=
  Config true (Some [99]) (Some false) true true true true true false [7] true true [(97, 0); (98, 12)] [1] true false [] false.
Definition ex_rounds : list (list event) :=
  [[EInput [KKey 97; KKey 98; KKey 99; KKey 100; KMouse 1 3 2; KMouse 2 3 2]; EAlarm 5]; [EResize]; [EPipe 1 65]].

Example ex_wf : wf_config ex_config.
Proof. reflexivity. Qed.

Example ex_initial : initial_modes (normal_term 42 2 1 0).
Proof. repeat split. Qed.

(* fault-free: 27 callbacks, in the demanded order *)
Example ex_fault_free :
  let rs := session ex_config [] ex_rounds [] (init_st (normal_term 42 2 1 0)) in
  fst rs = ROk tt /\ n (snd rs) = 27 /\
  acts (snd rs) =
    [TAlarm 7; TRender; TRender; TDraw; TRender; TRender; TDraw;
     TFilter [KKey 97; KKey 98; KKey 99; KKey 100; KMouse 1 3 2; KMouse 2 3 2];
     TRender; TKeypress 97; TRender; TKeypress 98; TRender; TKeypress 100; TUnhandled (KKey 100);
     TRender; TMouse 1 3 2; TRender; TMouse 2 3 2; TUnhandled (KMouse 2 3 2); TAlarm 5; TRender; TRender; TDraw;
     TFilter [KResize]; TRender; TRender; TDraw; TPipe 1 65; TRender; TRender; TDraw] /\
  tm (snd rs) = normal_term 42 2 1 0 /\ length (tr (snd rs)) = 73%nat.
Proof. vm_compute. repeat split; reflexivity. Qed.

(* the former refutation witness: an application handler (id 2) on SIGCONT survives run() *)
Definition sigcont_witness_config : config :=
  Config true None None false false false false false false [] true true [] [] false false [] false.
Example ex_sigcont_kept :
  tm (snd (session sigcont_witness_config [] [] [] (init_st (normal_term 0 0 0 2)))) = normal_term 0 0 0 2.
Proof. vm_compute. reflexivity. Qed.

(* a custom exception in the widget's keypress (callback #9) leaves run(), the terminal is restored *)
Example ex_raise :
  let rs := session ex_config [(9, FRaise 33); (12, FExit)] ex_rounds [] (init_st (normal_term 42 2 1 0)) in
  fst rs = RErr (UserExc 33) /\ n (snd rs) = 10 /\ tm (snd rs) = normal_term 42 2 1 0 /\
  s_started (scr (snd rs)) = false.
Proof. vm_compute. repeat split; reflexivity. Qed.

(* ExitMainLoop from the idle redraw of a screen without hook_event_loop *)
Definition ex_plain_config : config :=
  Config false None (Some true) true false false false false false [4] true true [] [] false false [] false.
Example ex_plain_exit :
  let rs := session ex_plain_config [(3, FExit)] [] [[KKey 97]; []; [KKey 98]] (init_st (normal_term 0 0 0 0)) in
  fst rs = ROk tt /\ n (snd rs) = 4 /\
  acts (snd rs) = [TRender; TDraw; TKeypress 97; TUnhandled (KKey 97); TAlarm 4] /\
  tm (snd rs) = normal_term 0 0 0 0 /\ s_started (scr (snd rs)) = false.
Proof. vm_compute. repeat split; reflexivity. Qed.

(* pop-up opened ('o' = 111), a key for it (107, handled by the pop-up), closed ('x' = 120), the same key now
   for the body (unhandled), opened again, a key the pop-up does not handle (106), closed *)
Definition ex_popup_config : config :=
  Config true None (Some false) false true false false false false [] true true [] [] false true [107] false.
Example ex_popup_wf : wf_config ex_popup_config.
Proof. reflexivity. Qed.
Example ex_popup_reopen :
  let rs := session ex_popup_config [] [[EInput [KKey 111; KKey 107; KKey 120; KKey 107; KKey 111; KKey 106; KKey 120]]] []
                    (init_st (normal_term 0 0 0 0)) in
  fst rs = ROk tt /\
  filter is_keypress (acts (snd rs)) =
    [TKeypress 111; TPopKey 107; TPopKey 120; TKeypress 107; TKeypress 111; TPopKey 106; TPopKey 120] /\
  filter (fun t => match t with TUnhandled _ => true | _ => false end) (acts (snd rs)) =
    [TUnhandled (KKey 107); TUnhandled (KKey 106)] /\
  tm (snd rs) = normal_term 0 0 0 0.
Proof. vm_compute. repeat split; reflexivity. Qed.

(* a first run ended by an exception in the unhandled-input handler (callback #3) with an alarm still in the
   heap; the second run() fires the left-over alarm, redraws twice per idle phase (the first run's idle
   callback is still registered), ends normally and restores the terminal *)
Definition ex_two_runs_config : config :=
  Config true None (Some false) false false false false false false [] true true [] [] false false [] true.
Example ex_second_run_after_exception :
  let x := run_twice ex_two_runs_config [(3, FRaise 9)] [[EInput [KKey 98]; EAlarm 4]] [] (init_st (normal_term 0 0 2 2)) in
  fst (fst x) = RErr (UserExc 9) /\
  match snd x with
  | Some (r2, s2) =>
      r2 = ROk tt /\ tm s2 = normal_term 0 0 2 2 /\ s_started (scr s2) = false /\
      skipn 6 (acts s2) = [TAlarm 4; TRender; TDraw; TRender; TDraw; TRender; TDraw]
  | None => False
  end.
Proof. vm_compute. repeat split; reflexivity. Qed.
