(* C04 - placeholder while the machinery is being built *)
From Coq Require Import ZArith List Bool.
Import ListNotations.
From Urwid Require Import PyBase TermRef DrawScreen.
Open Scope Z_scope.

Example c04_model_runs : run_case [2; 2; 1; 1; 65; 1] <> [].
Proof. vm_compute. discriminate. Qed.
Print Assumptions c04_model_runs.
