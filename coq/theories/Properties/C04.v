(* C04 - The bytes sent to the terminal paint exactly the rendered canvas.

   Only statements here; every proof is [exact <lemma>] into Proofs/DrawScreenProofs.v.

   Model/DrawScreen.v   draw_screen, _last_row, _attrspec_to_escape, clear, resize flag (tokens out)
   Model/TermRef.v      reference VT100/xterm interpreter over tokens (the specification of "terminal")
   Model/HtmlGen.v      HtmlGenerator.draw_screen / html_span at the level of spans
   Model/PaintSpec.v    what "the terminal shows the canvas" means (visual cell equality), the
                        Screen/terminal invariant [Sync], reachable histories [Reach]

   Scope of the PROVED theorems: every screen size >= 1x1, UTF-8 with characters of width 1 and 2, narrow
   8-bit encodings with charset flags None, "0" (DEC special graphics) and "U" (IBMPC), any attribute
   table (palette entries, AttrSpec objects, undefined names), every colour depth, both bright-is-bold /
   bright-is-blink settings, BCE on and off; incremental redraw (row diff), the erase-to-end-of-line
   shortcut, the insert-mode trick for the bottom-right cell.  Full-screen mode: any history of draws,
   redraws of the same canvas object, clear() with arbitrary terminal contents and size changes.
   Partial display mode (no alternate buffer; display origin = terminal row 0, lines below blank, as many
   terminal rows as canvas rows): any history of draws, clear() and frames abandoned by a mid-draw SIGWINCH.
   Zero-width (combining) characters and C0 control characters are covered everywhere: draw_paints_any_text
   (full-screen mode) for runs that start with a zero-column character or hold no column; partial display with a display origin below row 0 and size changes in
   partial display mode (oracle only). *)
From Coq Require Import ZArith List Bool Lia ZifyBool.
Import ListNotations.
From Urwid Require Import PyBase TermRef DrawScreen HtmlGen PaintSpec TermRefFacts DrawScreenProofs DrawPartialProofs
  DrawTextProofs DrawAnyProofs HtmlGenProofs.
Open Scope Z_scope.

(* [spec_to_sgr] is Screen._attrspec_to_escape TRANSLATED from the source on every run
   (Gen/attrspec_escape_gen.v): a change of a threshold or an offset there breaks this proof. *)
(* --- the SGR parameter list urwid sends for an AttrSpec means, to the terminal, exactly the visual
       attribute of that AttrSpec, whatever attribute was selected before: every AttrSpec with basic
       colour numbers in 0..15, any high/true colour values, every flag combination, both
       bright-is-bold and bright-is-blink settings --- *)
Theorem sgr_means_visual_attribute :
  forall bib bbb s v, spec_ok s -> apply_sgr (spec_to_sgr bib bbb s) v = visual bib bbb s.
Proof. exact sgr_roundtrip. Qed.
Print Assumptions sgr_means_visual_attribute.

(* the colour part of [visual], spelled out for every colour kind _attrspec_to_escape handles: true colour
   (38;2;r;g;b / 48;2;r;g;b), high colour of the 88- and 256-colour modes (38;5;n / 48;5;n), the 16 basic
   colours (30-37, 90-97 or bold + 30-37; 40-47, 100-107 or blink + 40-47) and the default (39 / 49);
   [spec_ok] restricts nothing but the basic colour numbers to 0..15 *)
Theorem visual_colours :
  forall bib bbb s,
    a_fg (visual bib bbb s) =
      (if s_fgk s =? 3 then CRgb (s_fr s) (s_fg s) (s_fb s)
       else if s_fgk s =? 2 then CHigh (s_fgn s)
       else if s_fgk s =? 1 then (if (7 <? s_fgn s) && bib then CBasic (s_fgn s - 8) else CBasic (s_fgn s))
       else CDef) /\
    a_bg (visual bib bbb s) =
      (if s_bgk s =? 3 then CRgb (s_br s) (s_bg s) (s_bb s)
       else if s_bgk s =? 2 then CHigh (s_bgn s)
       else if s_bgk s =? 1 then (if (7 <? s_bgn s) && bbb then CBasic (s_bgn s - 8) else CBasic (s_bgn s))
       else CDef).
Proof. exact visual_colours_lemma. Qed.
Print Assumptions visual_colours.

(* --- one frame, from ANY state in which the Screen object and the terminal agree (whatever was drawn
       before, so whichever rows are skipped): the tokens of draw_screen make the terminal show the
       canvas in every cell (visual equality), put the cursor where the canvas has it or hide it,
       never scroll, and leave Screen object and terminal in agreement for the next frame --- *)
Theorem draw_paints :
  forall c s t cols rows content cursor,
    cfg_ok c -> Sync c s t -> t_cols t = cols -> t_rows t = rows ->
    canvas_ok c cols rows content -> cursor_ok cols rows cursor ->
    exists toks s',
      draw_screen c s cols rows content cursor false false = Ok (toks, s') /\
      Paints c (run t toks) content cursor /\ Sync c s' (run t toks) /\ s_buf s' = content /\
      t_cols (run t toks) = cols /\ t_rows (run t toks) = rows.
Proof. exact draw_paints_lemma. Qed.
Print Assumptions draw_paints.

(* --- all histories: after any sequence of draws, redraws of the same canvas object, forced clears
       (terminal contents replaced by anything) and size changes (new size, any contents) that ends
       with a draw, the terminal paints the canvas drawn last --- *)
Theorem history_paints :
  forall c s t last,
    cfg_ok c -> Reach c s t last true ->
    exists content cursor, last = Some (content, cursor) /\ Paints c t content cursor.
Proof. exact history_paints_lemma. Qed.
Print Assumptions history_paints.

Theorem history_keeps_sync :
  forall c s t last shown, cfg_ok c -> Reach c s t last shown -> Sync c s t.
Proof. exact reach_sync_lemma. Qed.
Print Assumptions history_keeps_sync.

(* --- an incremental redraw (rows equal to the screen buffer skipped) and a forced full repaint of the
       same canvas, the latter on a terminal holding anything, both paint the canvas: the same cells
       up to visual equality, the same cursor state, no scrolling; the screen buffers agree --- *)
Theorem incremental_eq_full :
  forall c s t t_any content cursor,
    cfg_ok c -> Sync c s t -> same_but_cells t t_any ->
    canvas_ok c (t_cols t) (t_rows t) content -> cursor_ok (t_cols t) (t_rows t) cursor ->
    exists toks s1 toks_full s2,
      draw_screen c s (t_cols t) (t_rows t) content cursor false false = Ok (toks, s1) /\
      draw_screen c (clear s) (t_cols t) (t_rows t) content cursor false false = Ok (toks_full, s2) /\
      Paints c (run t toks) content cursor /\ Paints c (run t_any toks_full) content cursor /\
      s_buf s1 = s_buf s2.
Proof. exact incremental_eq_full_lemma. Qed.
Print Assumptions incremental_eq_full.

(* --- drawing the canvas object that is already on the screen writes nothing --- *)
Theorem redraw_same_canvas_writes_nothing :
  forall c s cols rows content cursor,
    s_buf s <> [] -> rows = zlen content -> draw_screen c s cols rows content cursor true false = Ok ([], s).
Proof. exact draw_same_noop. Qed.
Print Assumptions redraw_same_canvas_writes_nothing.

(* --- the HTML screenshot back-end: for every canvas (any text incl. wide, zero-width and control
       characters, any attributes) with or without cursor, whenever draw_screen does
       not raise, the spans carry exactly the canvas text row by row (control characters as '?'), at
       most one span has its colours swapped, it is a single character, and none without a cursor.
       (The colour strings are outside the model: the harness compares them through
       AttrSpec.get_rgb_values; the escaping is in the model, see html_markup_reads_back.) --- *)
Theorem html_exact :
  forall maxrow rows cursor out,
    html_draw maxrow rows cursor = Ok out ->
    map spans_text out = map row_text rows /\
    0 <= total_swapped out <= 1 /\ (cursor = None -> total_swapped out = 0) /\
    Forall one_char_highlights out.
Proof. exact html_exact_lemma. Qed.
Print Assumptions html_exact.

(* --- plain histories from a fresh terminal, as a function: every sequence of draws of well-formed
       canvases (charset flags None, "0" and "U") paints its last canvas.  (Before the repair of the
       IBMPC leak this statement was refuted by a witness, kept in corpus/C04.) --- *)
Theorem draws_paint_fullscreen :
  draws_paint_statement false (fun c s t content cursor => Paints c t content cursor).
Proof. exact draws_paint_fullscreen_lemma. Qed.
Print Assumptions draws_paint_fullscreen.

(* --- partial display mode (Screen started without the alternate buffer): one frame from any state
       in which Screen object and terminal agree ([SyncP]: the terminal cursor is on row _cy, the lines
       below _rows_used are blank).  The rows 0.._rows_used of the canvas are shown - a canvas row that
       is blank may have been left off the display, then only its text is demanded -, the rows below are
       blank in the canvas and on the terminal, the cursor is where the canvas has it or hidden, nothing
       scrolls, and the agreement is re-established.  (Before the repair of the stale _cy this was
       refuted by a witness, kept in corpus/C04.) --- *)
Theorem draw_paints_partial :
  forall c s t cols rows content cursor,
    cfg_ok c -> SyncP c s t -> t_cols t = cols -> t_rows t = rows ->
    canvas_ok c cols rows content -> cursor_ok cols rows cursor ->
    exists toks s',
      draw_screen c s cols rows content cursor false false = Ok (toks, s') /\
      PaintsPartial c s' (run t toks) content cursor /\ SyncP c s' (run t toks) /\
      t_cols (run t toks) = cols /\ t_rows (run t toks) = rows.
Proof. exact draw_paints_partial_lemma. Qed.
Print Assumptions draw_paints_partial.

(* relative cursor addressing of partial display mode ("\b", CR, CUU/CUD n, CUF n with the n < 1 cases
   omitted), from the row the Screen believes the cursor is on: it lands on (x, y), pending wrap cleared *)
Theorem partial_cursor_addressing :
  forall t cy x y,
    t_y t = cy -> 0 <= cy < t_rows t -> 0 <= y < t_rows t -> 0 <= x < t_cols t ->
    run t (set_cursor_position true cy x y) = set_pos t x y false.
Proof. exact cursor_partial_ok. Qed.
Print Assumptions partial_cursor_addressing.

(* every history of draws in partial display mode from a fresh terminal; clear() keeps the agreement *)
Theorem draws_paint_partial : draws_paint_statement true PaintsPartial.
Proof. exact draws_paint_partial_lemma. Qed.
Print Assumptions draws_paint_partial.

(* all histories in partial display mode - draws, clear(), frames abandoned because SIGWINCH arrived while
   the frame was produced (then acknowledged), size changes that keep the cursor on row _cy and the lines
   below _rows_used blank ([resized_partial]) -: the agreement is kept, and right after a completed
   draw the terminal paints that canvas *)
Theorem partial_history_paints :
  forall c s t content cursor,
    cfg_ok c -> ReachP c s t (Some (content, cursor)) -> PaintsPartial c s t content cursor.
Proof. exact partial_history_paints_lemma. Qed.
Print Assumptions partial_history_paints.

Theorem partial_history_keeps_sync :
  forall c s t last, cfg_ok c -> ReachP c s t last -> SyncP c s t.
Proof. exact partial_history_sync_lemma. Qed.
Print Assumptions partial_history_keeps_sync.

Theorem partial_clear_keeps_sync : forall c s t, SyncP c s t -> SyncP c (clear s) t.
Proof. exact syncp_clear. Qed.
Print Assumptions partial_clear_keeps_sync.

(* the markup: html.escape of every span text ([span_markup]); reading the emitted markup of a row back
   (the five entities of html.escape, anything else literally) gives exactly the code points of the canvas
   row - for every canvas *)
Theorem html_markup_reads_back :
  forall maxrow rows cursor out,
    html_draw maxrow rows cursor = Ok out ->
    map (fun spans => read_markup (row_markup spans)) out = map (fun row => map fst (row_text row)) rows.
Proof. exact html_markup_reads_back_lemma. Qed.
Print Assumptions html_markup_reads_back.

(* with the canvas cursor on a cell of the canvas: exactly one span is highlighted, it holds one character,
   and that character is the one covering the cursor column of the cursor row ([pre] is the text in
   front of it) *)
Theorem html_cursor_cell :
  forall maxrow rows cx cy out row,
    html_draw maxrow rows (Some (cx, cy)) = Ok out ->
    nthz rows cy = Some row -> nonneg_widths (row_text row) -> 0 <= cx < calc_width (row_text row) ->
    total_swapped out = 1 /\
    exists spans pre c post, nthz out cy = Some spans /\ row_text row = pre ++ c :: post /\
       one_highlight spans pre c post /\ calc_width pre <= cx < calc_width pre + snd c.
Proof. exact html_cursor_cell_lemma. Qed.
Print Assumptions html_cursor_cell.

(* --- combining (zero-width) characters.  The reference terminal joins a zero-width character to the
       character before the cursor (the last one written when the cursor is in the pending-wrap state) and
       does not advance; with nothing before the cursor on the line it is dropped.  The canvases of all
       theorems above ([canvas_ok]) may contain zero-width characters anywhere except as the first
       character of a run; on these canvases the row spec [row_cells] (concatenation of the runs) is the
       general one in which combining characters are threaded across runs: --- *)
Theorem row_cells_is_threaded :
  forall c cols row, row_ok c cols row -> row_cells_threaded c row = row_cells c row.
Proof. exact row_cells_threaded_eq_lemma. Qed.
Print Assumptions row_cells_is_threaded.

(* --- C0 control characters are inside [canvas_ok] since the repair cfc4146: under UTF-8 they take no
       column (str_util) and draw_screen drops them; under a narrow encoding they take one column and
       are painted as '?'; [run_cells] is defined on the text that is sent ([out_text]).  A run in the
       IBMPC charset "U" is sent untranslated and must not contain them. --- *)

(* --- ANY text.  [canvas_any]: rows of non-empty runs as wide as the screen whose characters satisfy
       [chr_ok] - a run may START with a character taking no column (a combining character, a C0 control
       character under UTF-8) and may hold no column at all.  The row spec [row_cells_threaded] attaches
       every combining character to the last character painted before it, across run boundaries;
       [SyncAny] / [PaintsAny] are [Sync] / [Paints] over that spec.  From any state in which Screen
       object and terminal agree, one draw_screen paints the canvas and re-establishes the agreement -
       row diff, EL shortcut, the bottom-right insert trick with its three early returns (ca038f3,
       95d7bbc) included.  Both former refutation witnesses are now instances (corpus/C04 06-08). --- *)
Theorem draw_paints_any_text : draw_paints_any_text_full.
Proof. exact any_text_full_lemma. Qed.
Print Assumptions draw_paints_any_text.

(* every history of draws of any canvases from a fresh terminal paints its last canvas *)
Theorem draws_paint_any : draws_paint_any_statement.
Proof. exact draws_paint_any_lemma. Qed.
Print Assumptions draws_paint_any.

(* on the canvases of draw_paints (every run starts with a character taking a column) the threaded row spec
   and the concatenation of the runs show the same thing *)
Theorem row_shows_any_is_row_shows :
  forall c cols row trow, row_ok c cols row -> (row_shows_any c row trow <-> row_shows c row trow).
Proof. exact row_shows_any_iff. Qed.
Print Assumptions row_shows_any_is_row_shows.

(* --- non-vacuity --- *)
Definition ex_cfg : cfg :=
  mkCfg true true false false
        [(0, default_spec);
         (1, mkSpec 1 9 0 0 0 2 17 0 0 0 true false true false false false);      (* light red,bold,underline on h17 *)
         (2, default_spec)].                                                        (* an undefined name *)
(* a 4x2 canvas: wide character, attribute change, trailing blanks, bottom row needing the insert trick *)
Definition ex_canvas : list crow :=
  [ [(1, 0, [(19990, 2); (97, 1); (769, 0)]); (0, 0, [(32, 1)])];
    [(2, 0, [(120, 1); (121, 1)]); (1, 0, [(19990, 2)])] ].

Example ex_cfg_ok : cfg_ok ex_cfg.
Proof. repeat constructor; cbn; intros; try discriminate; try (split; discriminate). Qed.

(* the hypotheses of draw_paints are satisfiable by a non-trivial state: a started terminal with garbage on it *)
Example ex_sync : Sync ex_cfg (init_scr false) (scramble (new_term 4 2) 2).
Proof. apply sync_start. repeat split; cbn; try reflexivity; try discriminate; repeat constructor. Qed.

Example ex_canvas_ok : canvas_ok ex_cfg 4 2 ex_canvas.
Proof.
  unfold canvas_ok, row_ok, run_ok, chr_ok, ex_canvas. cbn.
  repeat first [apply Forall_nil | apply Forall_cons | split | discriminate | reflexivity | lia | exact I
               | (left; reflexivity) | (right; split; [reflexivity|]; first [left; reflexivity | right; reflexivity])].
Qed.

(* the model computes something non-trivial: SGR with bright colour, EL shortcut, CUP, the insert trick *)
Example ex_tokens :
  match draw_screen ex_cfg (init_scr false) 4 2 ex_canvas (Some (1, 1)) false false with
  | Ok (toks, s') =>
      toks = [TG1; THide; TSgr [0; 39; 49]; THome; TCup 1 1;
              TSgr [0; 91; 1; 4; 48; 5; 17]; TCh 19990 2; TCh 97 1; TCh 769 0; TSgr [0; 39; 49]; TEl;
              TCup 2 1; TSgr [0; 39; 49]; TCh 120 1; TSgr [0; 91; 1; 4; 48; 5; 17]; TCh 19990 2;
              TBs; TBs; TSgr [0; 39; 49]; TIrmOn; TCh 121 1; TIrmOff;
              TCup 2 2; TShow]
      /\ s_buf s' = ex_canvas
  | Err _ => False
  end.
Proof. vm_compute. split; reflexivity. Qed.

(* ... and the reference terminal, fed with these tokens over garbage, shows the canvas: bottom row *)
Example ex_terminal_bottom_row :
  match draw_screen ex_cfg (init_scr false) 4 2 ex_canvas (Some (1, 1)) false false with
  | Ok (toks, _) =>
      let t := run (scramble (new_term 4 2) 2) toks in
      map c_cp (get_row (t_grid t) 1) = [120; 121; 19990; -1] /\ (t_x t, t_y t, t_visible t, t_scrolled t) = (1, 1, true, false)
  | Err _ => False
  end.
Proof. vm_compute. split; reflexivity. Qed.

(* the HTML model on a row with a wide character under the cursor: three spans, the middle one swapped *)
Example ex_html :
  html_draw 1 [[(0, 0, [(97, 1); (19990, 2); (60, 1)]); (1, 0, [(1, 0)])]] (Some (2, 0))
  = Ok [[HSpan 0 false [(97, 1)]; HSpan 0 true [(19990, 2)]; HSpan 0 false [(60, 1)]; HSpan 1 false [(63, 1)]]].
Proof. vm_compute. reflexivity. Qed.

(* a reachable history: start, draw, clear with garbage, redraw of the same canvas object *)
Example ex_history :
  exists s t, Reach ex_cfg s t (Some (ex_canvas, Some (1, 1))) true /\ s_buf s = ex_canvas.
Proof.
  destruct (draw_paints ex_cfg (init_scr false) (scramble (new_term 4 2) 2) 4 2 ex_canvas (Some (1, 1))
              ex_cfg_ok ex_sync eq_refl eq_refl ex_canvas_ok) as (toks & s1 & E & _ & _ & Hb & _ & _).
  { cbn. repeat split; discriminate || reflexivity. }
  exists s1, (run (scramble (new_term 4 2) 2) toks). split; [|exact Hb].
  eapply (R_draw ex_cfg (init_scr false) (scramble (new_term 4 2) 2) None false ex_canvas (Some (1, 1)) toks s1).
  - apply R_start. repeat split; cbn; try reflexivity; try discriminate; repeat constructor.
  - exact ex_canvas_ok.
  - cbn. repeat split; discriminate || reflexivity.
  - exact E.
Qed.

(* the two former refutation witnesses, now painted correctly by the model (and by the code: corpus/C04) *)
Definition w_cfg : cfg := mkCfg false true false false [(0, default_spec)].
Example ex_ibmpc_no_longer_leaks :
  match run_draws w_cfg (init_scr false) (new_term 2 1)
          [([[(0, 2, [(97, 1); (32, 1)])]], None); ([[(0, 0, [(98, 1); (32, 1)])]], None)] with
  | Some (_, t) => map (fun x => (c_cp x, c_cs x)) (get_row (t_grid t) 0) = [(98, 0); (32, 0)] /\ t_ibm t = false
  | None => False
  end.
Proof. vm_compute. split; reflexivity. Qed.

Example ex_partial_rows_stay_in_place :
  match run_draws w_cfg (init_scr true) (new_term 1 2)
          [([[(0, 0, [(97, 1)])]; [(0, 0, [(98, 1)])]], None); ([[(0, 0, [(99, 1)])]; [(0, 0, [(98, 1)])]], None)] with
  | Some (s, t) => map (fun r => map c_cp r) (t_grid t) = [[99]; [98]] /\ s_cy s = t_y t
  | None => False
  end.
Proof. vm_compute. split; reflexivity. Qed.

(* C0 control characters: dropped under UTF-8, '?' under a narrow encoding *)
Example ex_control_characters :
  fst (emit_run ex_cfg (mkRs 0 false 0) (0, 0, [(97, 1); (1, 0); (98, 1)])) = [TCh 97 1; TCh 98 1] /\
  fst (emit_run w_cfg (mkRs 0 false 0) (0, 0, [(97, 1); (1, 1); (98, 1)])) = [TCh 97 1; TCh 63 1; TCh 98 1].
Proof. vm_compute. split; reflexivity. Qed.

(* the charset shift state does not leak from one frame into the next: under a narrow encoding [Sync] does
   not constrain SO/SI at all ([draw_paints] holds from either state) because the first run of every frame
   selects its charset; here a terminal left in the line-drawing charset paints plain text as plain text *)
Example ex_shift_state_does_not_leak :
  Sync w_cfg (init_scr false) (set_g1 (set_so (new_term 2 1) true) true) /\
  match draw_screen w_cfg (init_scr false) 2 1 [[(0, 0, [(97, 1); (98, 1)])]] None false false with
  | Ok (toks, _) => map c_cs (get_row (t_grid (run (set_g1 (set_so (new_term 2 1) true) true) toks)) 0) = [0; 0]
  | Err _ => False
  end.
Proof.
  split; [|vm_compute; reflexivity].
  unfold Sync, term_ok. cbn.
  repeat match goal with |- _ /\ _ => split end; try reflexivity; try discriminate; try lia;
    try (intros; congruence); repeat constructor.
Qed.

(* any text: the two former refutation witnesses are instances of [canvas_any] and are painted correctly *)
Example ex_any_text :
  canvas_any ex_cfg 2 1 [[(0, 0, [(89, 1)]); (1, 0, [(769, 0)]); (0, 0, [(32, 1)])]] /\
  canvas_any ex_cfg 2 1 [[(0, 0, [(97, 1); (98, 1)]); (1, 0, [(769, 0)])]] /\
  match run_draws (mkCfg true false false false [(0, default_spec); (0, default_spec)]) (init_scr false) (new_term 2 1)
          [([[(0, 0, [(89, 1)]); (1, 0, [(769, 0)]); (0, 0, [(32, 1)])]], None);
           ([[(0, 0, [(97, 1); (98, 1)]); (1, 0, [(769, 0)])]], None)] with
  | Some (_, t) => map (fun x => (c_cp x, c_comb x)) (get_row (t_grid t) 0) = [(97, []); (98, [769])]
  | None => False
  end.
Proof.
  split; [|split; [|vm_compute; reflexivity]];
    unfold canvas_any, row_any, run_any, chr_ok; cbn;
    repeat first [apply Forall_nil | apply Forall_cons | split | discriminate | reflexivity | lia | exact I
                 | (left; reflexivity) | (right; split; [reflexivity|]; first [left; reflexivity | right; reflexivity])].
Qed.
