(* C16 - Focus-tracking lists behave as Python lists whose focus follows its item.
   Only statements here; every proof is [exact <lemma>] into Proofs/MonitoredListProofs.v.
   The model's focus arithmetic is [adjust_focus_gen], regenerated from
   /repo/urwid/widget/monitored_list.py on every run. *)
From Coq Require Import ZArith List Bool.
Import ListNotations.
From Urwid Require Import PyBase PyList monitored_list_gen MonitoredList PyListFacts MonitoredListProofs.
Open Scope Z_scope.

(* --- clause 1+2a: contents and errors are those of a built-in list; a failed call changes
       nothing and fires no callback; the focus stays valid.  Every operation, any indices,
       any steps, no bound on sizes. --- *)
Theorem mfl_refines_list_and_stays_valid :
  forall s o, Valid s ->
    Valid (fst (step s o)) /\
    match list_step (items s) o with
    | Ok l' => items (fst (step s o)) = l' /\ o_err (snd (step s o)) = None
    | Err e => fst (step s o) = s /\ o_err (snd (step s o)) = Some e /\ o_events (snd (step s o)) = []
    end.
Proof. exact step_sound. Qed.
Print Assumptions mfl_refines_list_and_stays_valid.

(* --- clause 2: for every reachable state (any operation sequence) the focus is None exactly
       when the list is empty and otherwise in range --- *)
Theorem mfl_focus_valid_all_histories :
  forall ops s, Valid s ->
    match focus (fst (run s ops)) with
    | None => items (fst (run s ops)) = []
    | Some f => items (fst (run s ops)) <> [] /\ 0 <= f < zlen (items (fst (run s ops)))
    end.
Proof. intros ops s Hv. apply valid_focus_observable. apply run_preserves. exact Hv. Qed.
Print Assumptions mfl_focus_valid_all_histories.

(* --- clause 3 (focus follows its item), operations that remove one contiguous block [p,q)
       and insert xs there: item/slice(step 1) assignment and deletion, insert, append, extend,
       pop, remove, +=, *=, clear --- *)
Theorem mfl_focus_tracks_item_contiguous :
  forall s o p q xs, Valid s -> items s <> [] -> splice_of (items s) o = Some (p, q, xs) ->
    items (fst (step s o)) = splice (items s) p q xs /\
    (items (fst (step s o)) <> [] ->
       let l := items s in let l' := items (fst (step s o)) in
       let f := focus_raw s in let f' := focus_raw (fst (step s o)) in let k := zlen xs in
       (* the focused item was not in the removed block: the focus still designates it *)
       ((f < p \/ q <= f) -> nthz l' f' = nthz l f) /\
       (* replaced in place: same position *)
       (p <= f < Z.min q (p + k) -> f' = f) /\
       (* removed: the item following the removed ones, else the last item *)
       (p + k <= f < q -> if q <? zlen l then nthz l' f' = nthz l q else f' = zlen l' - 1)).
Proof. exact focus_tracks_contiguous. Qed.
Print Assumptions mfl_focus_tracks_item_contiguous.

Theorem mfl_focus_tracks_item_reverse :
  forall s, Valid s -> items s <> [] ->
    nthz (items (fst (step s Reverse))) (focus_raw (fst (step s Reverse))) = nthz (items s) (focus_raw s).
Proof. exact focus_tracks_reverse. Qed.
Print Assumptions mfl_focus_tracks_item_reverse.

Theorem mfl_focus_tracks_item_sort :
  forall s rv, Valid s -> items s <> [] ->
    nthz (items (fst (step s (Sort rv)))) (focus_raw (fst (step s (Sort rv)))) = nthz (items s) (focus_raw s).
Proof. exact focus_tracks_sort. Qed.
Print Assumptions mfl_focus_tracks_item_sort.

(* The full clause 3 covers extended-step slices too.  It is stated here and NOT proved: the
   three theorems above are its [_partial] form (everything except deletion/assignment with
   |step| >= 2); the remaining case is decided by the correspondence + oracle search only. *)
Definition fresh_items (o : op) (l : list Z) : Prop :=
  match o with
  | SetItem _ x | Insert _ x | Append x => ~ In x l
  | SetSlice _ _ _ xs | Extend xs | IAdd xs => forall x, In x xs -> ~ In x l
  | _ => True
  end.
Definition mfl_focus_tracks_item_full : Prop :=
  forall s o v, Valid s -> NoDup (items s) -> NoDup (items (fst (step s o))) -> fresh_items o (items s) ->
    o_err (snd (step s o)) = None ->
    nthz (items s) (focus_raw s) = Some v -> In v (items (fst (step s o))) ->
    nthz (items (fst (step s o))) (focus_raw (fst (step s o))) = Some v.

(* --- clause 4: callbacks --- *)
Theorem mfl_callbacks :
  forall s o, Valid s ->
    let R := step s o in
    (o_err (snd R) <> None -> o_events (snd R) = []) /\
    (n_modified (o_events (snd R)) <= 1)%nat /\
    (o_err (snd R) = None -> items (fst R) <> items s -> n_modified (o_events (snd R)) = 1%nat) /\
    (forall a b, o_err (snd R) = None -> focus s = Some a -> focus (fst R) = Some b ->
       focus_events (o_events (snd R)) = if b =? a then [] else [b]).
Proof. exact step_callbacks. Qed.
Print Assumptions mfl_callbacks.

(* --- the translated function is what the proofs are about --- *)
Theorem mfl_translated_function_meets_its_spec :
  forall n f a b st k, adjust_focus_gen n f a b st k = adjust_spec n f a b st k.
Proof. exact adjust_focus_gen_spec. Qed.
Print Assumptions mfl_translated_function_meets_its_spec.

(* --- non-vacuity: the hypotheses are met by ordinary states, and the model computes --- *)
Example valid_somewhere : Valid (init [10; 11; 12; 13] 1) /\ items (init [10; 11; 12; 13] 1) <> [].
Proof. split; [right; cbn; split; reflexivity || discriminate | discriminate]. Qed.

Example splice_somewhere :
  splice_of [10; 11; 12; 13] (DelSlice (Some 1) (Some 3) None) = Some (1, 3, []).
Proof. reflexivity. Qed.

Example run_somewhere :
  let '(s, outs) := run (init [10; 11; 12; 13] 1)
                        [DelSlice (Some 3) (Some 1) (Some (-1)); Insert 0 7; SetFocus 9] in
  (items s, focus s, map (fun x => o_err (fst x)) outs)
  = ([7; 10; 11], Some 2, [None; None; Some IndexError]).
Proof. vm_compute. reflexivity. Qed.
