(* C16 - Focus-tracking lists behave as Python lists whose focus follows its item.
   Only statements here; every proof is [exact <lemma>] into Proofs/MonitoredListProofs.v.
   The model's focus arithmetic is [adjust_focus_gen], regenerated from
   /repo/urwid/widget/monitored_list.py on every run. *)
From Coq Require Import ZArith List Bool.
Import ListNotations.
From Urwid Require Import PyBase PyList monitored_list_gen MonitoredList PyListFacts MonitoredListProofs MonitoredListHistory.
Open Scope Z_scope.

(* --- clause 1+2a: contents and errors are those of a built-in list; a failed call changes
       nothing and fires no callback; the focus stays valid.  Every operation, any indices,
       any steps, no bound on sizes. --- *)
Theorem mfl_refines_list_and_stays_valid :
  forall s o, Valid s ->
    Valid (fst (step s o)) /\
    match list_step (items s) o with
    | Ok l' => items (fst (step s o)) = l' /\ o_err (snd (step s o)) = None
    | Err e => fst (step s o) = s /\ o_err (snd (step s o)) = Some e /\ o_events (snd (step s o)) = []
    end.
Proof. exact step_sound. Qed.
Print Assumptions mfl_refines_list_and_stays_valid.

(* --- clause 2: for every reachable state (any operation sequence) the focus is None exactly
       when the list is empty and otherwise in range --- *)
Theorem mfl_focus_valid_all_histories :
  forall ops s, Valid s ->
    match focus (fst (run s ops)) with
    | None => items (fst (run s ops)) = []
    | Some f => items (fst (run s ops)) <> [] /\ 0 <= f < zlen (items (fst (run s ops)))
    end.
Proof. intros ops s Hv. apply valid_focus_observable. apply run_preserves. exact Hv. Qed.
Print Assumptions mfl_focus_valid_all_histories.

(* --- clause 1 over whole histories: after ANY operation sequence the contents are those of a
       built-in list driven by the same calls (a failed call leaves it unchanged), the i-th call
       reports exactly the error the built-in list raises at that point, there is one output per
       call, and 'modified' fires at most once per call and never for a failed one --- *)
Theorem mfl_refines_list_all_histories :
  forall ops s, Valid s ->
    items (fst (run s ops)) = list_run (items s) ops /\
    map (fun r => o_err (fst r)) (snd (run s ops)) = list_errs (items s) ops /\
    length (snd (run s ops)) = length ops /\
    Forall (fun r => (n_modified (o_events (fst r)) <= 1)%nat /\
                     (o_err (fst r) <> None -> o_events (fst r) = [])) (snd (run s ops)).
Proof.
  intros ops s Hv. split; [exact (run_items ops s Hv)|]. split; [exact (run_errs ops s Hv)|].
  exact (run_modified_bound ops s Hv).
Qed.
Print Assumptions mfl_refines_list_all_histories.

(* --- clause 3 (focus follows its item), operations that remove one contiguous block [p,q)
       and insert xs there: item/slice(step 1) assignment and deletion, insert, append, extend,
       pop, remove, +=, *=, clear --- *)
Theorem mfl_focus_tracks_item_contiguous :
  forall s o p q xs, Valid s -> items s <> [] -> splice_of (items s) o = Some (p, q, xs) ->
    items (fst (step s o)) = splice (items s) p q xs /\
    (items (fst (step s o)) <> [] ->
       let l := items s in let l' := items (fst (step s o)) in
       let f := focus_raw s in let f' := focus_raw (fst (step s o)) in let k := zlen xs in
       (* the focused item was not in the removed block: the focus still designates it *)
       ((f < p \/ q <= f) -> nthz l' f' = nthz l f) /\
       (* replaced in place: same position *)
       (p <= f < Z.min q (p + k) -> f' = f) /\
       (* removed: the item following the removed ones, else the last item *)
       (p + k <= f < q -> if q <? zlen l then nthz l' f' = nthz l q else f' = zlen l' - 1)).
Proof. exact focus_tracks_contiguous. Qed.
Print Assumptions mfl_focus_tracks_item_contiguous.

Theorem mfl_focus_tracks_item_reverse :
  forall s, Valid s -> items s <> [] ->
    nthz (items (fst (step s Reverse))) (focus_raw (fst (step s Reverse))) = nthz (items s) (focus_raw s).
Proof. exact focus_tracks_reverse. Qed.
Print Assumptions mfl_focus_tracks_item_reverse.

Theorem mfl_focus_tracks_item_sort :
  forall s rv, Valid s -> items s <> [] ->
    nthz (items (fst (step s (Sort rv)))) (focus_raw (fst (step s (Sort rv)))) = nthz (items s) (focus_raw s).
Proof. exact focus_tracks_sort. Qed.
Print Assumptions mfl_focus_tracks_item_sort.

(* --- clause 3, slices deleted with any step other than 1 (|step| >= 2 and descending):
       with (sn,en,tn) the same positions in ascending order, the focus keeps designating its
       item if that was not removed, else moves to the next kept item, else to the last --- *)
Theorem mfl_focus_tracks_item_delete_any_step :
  forall s a b st s0 e0 t0 sn en tn,
    Valid s -> items s <> [] -> step_is_zero st = false ->
    slice_indices (zlen (items s)) a b st = (s0, e0, t0) -> t0 <> 1 ->
    norm_range s0 e0 t0 = (sn, en, tn) ->
    let l := items s in let f := focus_raw s in
    let l' := items (fst (step s (DelSlice a b st))) in
    let f' := focus_raw (fst (step s (DelSlice a b st))) in
    l' = drop_range 0 sn en tn l /\
    (l' <> [] ->
     (in_range f sn en tn = false -> nthz l' f' = nthz l f) /\
     (in_range f sn en tn = true ->
        if next_kept f en tn <? zlen l then nthz l' f' = nthz l (next_kept f en tn)
        else f' = zlen l' - 1)).
Proof. exact focus_tracks_delete_any_step. Qed.
Print Assumptions mfl_focus_tracks_item_delete_any_step.

(* --- clause 3, extended-slice assignment (replaces in place): the focus index never moves and
       still designates its item unless that very item was replaced --- *)
Theorem mfl_focus_tracks_item_assign_extended :
  forall s a b st xs s0 e0 t0,
    Valid s -> items s <> [] -> step_is_zero st = false ->
    slice_indices (zlen (items s)) a b st = (s0, e0, t0) -> t0 <> 1 ->
    o_err (snd (step s (SetSlice a b st xs))) = None ->
    let l := items s in let f := focus_raw s in
    let l' := items (fst (step s (SetSlice a b st xs))) in
    let f' := focus_raw (fst (step s (SetSlice a b st xs))) in
    f' = f /\ (in_range f s0 e0 t0 = false -> nthz l' f' = nthz l f).
Proof. exact focus_tracks_assign_extended. Qed.
Print Assumptions mfl_focus_tracks_item_assign_extended.

(* --- the five tracking theorems together cover every successful operation --- *)
Theorem mfl_tracking_families_exhaustive :
  forall l o l', list_step l o = Ok l' ->
    splice_of l o <> None \/ o = Reverse \/ (exists rv, o = Sort rv) \/ (exists i, o = SetFocus i) \/
    (exists a b st, (o = DelSlice a b st \/ exists xs, o = SetSlice a b st xs) /\
                    step_is_zero st = false /\ snd (slice_indices (zlen l) a b st) <> 1).
Proof. exact tracking_families_exhaustive. Qed.
Print Assumptions mfl_tracking_families_exhaustive.

(* --- clause 4: callbacks --- *)
Theorem mfl_callbacks :
  forall s o, Valid s ->
    let R := step s o in
    (o_err (snd R) <> None -> o_events (snd R) = []) /\
    (n_modified (o_events (snd R)) <= 1)%nat /\
    (o_err (snd R) = None -> items (fst R) <> items s -> n_modified (o_events (snd R)) = 1%nat) /\
    (forall a b, o_err (snd R) = None -> focus s = Some a -> focus (fst R) = Some b ->
       focus_events (o_events (snd R)) = if b =? a then [] else [b]).
Proof. exact step_callbacks. Qed.
Print Assumptions mfl_callbacks.

(* --- the translated function is what the proofs are about --- *)
Theorem mfl_translated_function_meets_its_spec :
  forall n f a b st k, adjust_focus_gen n f a b st k = adjust_spec n f a b st k.
Proof. exact adjust_focus_gen_spec. Qed.
Print Assumptions mfl_translated_function_meets_its_spec.

(* --- non-vacuity: the hypotheses are met by ordinary states, and the model computes --- *)
Example valid_somewhere : Valid (init [10; 11; 12; 13] 1) /\ items (init [10; 11; 12; 13] 1) <> [].
Proof. split; [right; cbn; split; reflexivity || discriminate | discriminate]. Qed.

Example splice_somewhere :
  splice_of [10; 11; 12; 13] (DelSlice (Some 1) (Some 3) None) = Some (1, 3, []).
Proof. reflexivity. Qed.

Example extended_somewhere :
  norm_range 3 (-1) (-2) = (1, 4, 2) /\ in_range 3 1 4 2 = true /\ next_kept 3 4 2 = 4.
Proof. vm_compute. repeat split. Qed.

Example run_somewhere :
  let '(s, outs) := run (init [10; 11; 12; 13] 1)
                        [DelSlice (Some 3) (Some 1) (Some (-1)); Insert 0 7; SetFocus 9] in
  (items s, focus s, map (fun x => o_err (fst x)) outs)
  = ([7; 10; 11], Some 2, [None; None; Some IndexError]).
Proof. vm_compute. reflexivity. Qed.

(* the built-in-list reference of the whole-history theorem computes, including a failed call *)
Example list_run_somewhere :
  let ops := [DelSlice (Some 3) (Some 1) (Some (-1)); Insert 0 7; SetFocus 9] in
  (list_run [10; 11; 12; 13] ops, list_errs [10; 11; 12; 13] ops)
  = ([7; 10; 11], [None; None; Some IndexError]).
Proof. vm_compute. reflexivity. Qed.
