From Coq Require Import ZArith List.
From Urwid Require Import PyBase PyList MonitoredList.
Theorem placeholder : 1 = 1. Proof. reflexivity. Qed.
Print Assumptions placeholder.
