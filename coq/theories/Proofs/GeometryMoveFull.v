(* C09: after a successful move_cursor_to_coords the reported cursor is on the requested row -- full statement,
   including moves that change the focus of a Columns.
   Part 1: under [fits] the widths Columns.column_widths hands out do not depend on focus_position.
   Part 2: congruence of the size helpers: they depend on a child only through its flags and through its rows()
           at the width the child is placed with.
   Part 3: the structural induction. *)
From Coq Require Import ZArith List Bool Lia ZifyBool.
Import ListNotations.
From Urwid Require Import PyBase geo_padfill_gen Geometry GeometryFacts GeometryProofs GeometryMoveProofs.
Open Scope Z_scope.

Arguments Z.add : simpl never. Arguments Z.sub : simpl never. Arguments Z.mul : simpl never.
Arguments Z.div : simpl never. Arguments Z.modulo : simpl never. Arguments Z.ltb : simpl never.
Arguments Z.leb : simpl never. Arguments Z.eqb : simpl never. Arguments Z.min : simpl never.
Arguments Z.max : simpl never. Arguments Z.quot : simpl never.

(* ------------------------------------------------------------------------------------------ *)
(* Part 1: column widths do not depend on the focus when the static needs fit                  *)
(* ------------------------------------------------------------------------------------------ *)
Lemma static_sum_nonneg opts dc mw :
  0 <= dc -> Forall (fun o => 0 <= static_w o mw) opts -> 0 <= zsum (map (fun o => static_w o mw + dc) opts).
Proof. intros Hd H. induction H; cbn [map zsum]; qlia. Qed.

Lemma cw_phase1_fp opts i fp fp' dc mw shared :
  0 <= dc -> Forall (fun o => 0 <= static_w o mw) opts ->
  zsum (map (fun o => static_w o mw + dc) opts) <= shared ->
  cw_phase1 opts i fp dc mw shared = cw_phase1 opts i fp' dc mw shared.
Proof.
  intros Hd Hall. revert i shared. induction Hall as [|o opts Ho Hall IH]; intros i shared Hs; [reflexivity|].
  cbn [cw_phase1]. cbn [map zsum] in Hs. pose proof (static_sum_nonneg opts dc mw Hd Hall).
  assert (E : shared <? static_w o mw + dc = false) by qlia. rewrite E. cbn [andb].
  rewrite (IH (i + 1) (shared - (static_w o mw + dc))) by qlia. reflexivity.
Qed.

Lemma column_widths_fp opts fp fp' dc mw maxcol :
  0 <= dc -> Forall (fun o => 0 <= static_w o mw) opts ->
  zsum (map (fun o => static_w o mw + dc) opts) <= maxcol + dc ->
  column_widths opts fp dc mw maxcol = column_widths opts fp' dc mw maxcol.
Proof. intros. unfold column_widths. rewrite (cw_phase1_fp opts 0 fp fp' dc mw (maxcol + dc)); auto. Qed.

Lemma columns_sizes_fp (items : col_items) fp fp' dc mw s :
  columns_fits items fp dc mw s = true ->
  columns_sizes items fp' dc mw s = columns_sizes items fp dc mw s.
Proof.
  intro Hf. destruct (columns_fits_static items fp dc mw s Hf) as [Hd [Hall Hsum]].
  unfold columns_sizes.
  rewrite (column_widths_fp (map (fun it : copt * bool * cinfo => fst (fst it)) items) fp' fp dc mw (fst s)); auto.
  - apply Forall_map. exact Hall.
  - rewrite map_map. exact Hsum.
Qed.

Lemma columns_fits_refocus (items : col_items) fp fp' dc mw s :
  columns_fits items fp dc mw s = true -> 0 <= fp' < zlen items -> columns_fits items fp' dc mw s = true.
Proof.
  intros Hf Hi. pose proof (columns_sizes_fp items fp fp' dc mw s Hf) as E.
  unfold columns_fits in *. rewrite E.
  repeat (apply andb_true_iff in Hf as [Hf ?]).
  repeat (apply andb_true_iff; split); try assumption; qlia.
Qed.

(* ------------------------------------------------------------------------------------------ *)
(* Part 2: congruence                                                                           *)
(* ------------------------------------------------------------------------------------------ *)
Definition feq (a b : cinfo) : Prop :=
  i_sel a = i_sel b /\ i_hascur a = i_hascur b /\ i_hasmove a = i_hasmove b /\ i_box a = i_box b.
(* the same flags, and the same rows() at the width of [s] when [s] is a flow size *)
Definition ieq (s : size) (a b : cinfo) : Prop :=
  feq a b /\ (snd s = None -> i_rows a (fst s) = i_rows b (fst s)).

Lemma feq_refl a : feq a a. Proof. repeat split. Qed.
Lemma ieq_refl s a : ieq s a a. Proof. split; [apply feq_refl|reflexivity]. Qed.

Fixpoint set_nth_i (l : list cinfo) (i : Z) (x : cinfo) : list cinfo :=
  match l with [] => [] | y :: r => if i =? 0 then x :: r else y :: set_nth_i r (i - 1) x end.

Lemma map_info_set_nth kids i v : map v_info (set_nth_v kids i v) = set_nth_i (map v_info kids) i (v_info v).
Proof.
  revert i. induction kids as [|a l IH]; intro i; [reflexivity|]. cbn [set_nth_v map set_nth_i].
  destruct (i =? 0); cbn [map]; [reflexivity|]. f_equal. apply IH.
Qed.

Lemma combine_set_forall2 {A} (R : A * cinfo -> A * cinfo -> Prop) (opts : list A) ki i ci' o ci :
  (forall x, R x x) -> nthz (combine opts ki) i = Some (o, ci) -> R (o, ci') (o, ci) ->
  Forall2 R (combine opts (set_nth_i ki i ci')) (combine opts ki).
Proof.
  intros Hrefl. revert ki i. induction opts as [|a opts IH]; intros ki i Hn HR; [constructor|].
  destruct ki as [|k ki]; [cbn in Hn; rewrite nthz_nil in Hn; discriminate|].
  cbn [set_nth_i combine] in *. rewrite nthz_cons in Hn. destruct (i =? 0) eqn:E.
  - inversion Hn; subst. cbn [combine]. constructor; [exact HR|].
    clear - Hrefl. induction (combine opts ki); constructor; auto.
  - destruct (i <? 0); [discriminate|]. cbn [combine]. constructor; [apply Hrefl|]. apply IH; assumption.
Qed.

(* ---- Pile ---- *)
Definition prel (s : size) (x y : popt * cinfo) : Prop :=
  fst x = fst y /\ feq (snd x) (snd y) /\
  match fst y with
  | PGiven _ => True
  | PPack => i_rows (snd x) (fst s) = i_rows (snd y) (fst s)
  | PWeight _ => snd s = None -> i_rows (snd x) (fst s) = i_rows (snd y) (fst s)
  end.

Lemma prel_refl s x : prel s x x.
Proof. split; [reflexivity|]. split; [apply feq_refl|]. destruct (fst x); auto. Qed.

Lemma pile_pass1_cong s a b : Forall2 (prel s) a b -> pile_pass1 a (fst s) = pile_pass1 b (fst s).
Proof.
  induction 1 as [|[o ci] [o' ci'] a b [Ho [_ Hr]] _ IH]; [reflexivity|]. cbn [fst snd] in *. subst o'.
  cbn [pile_pass1]. rewrite IH. destruct o; try reflexivity. rewrite Hr. reflexivity.
Qed.

Lemma pile_pass2_cong s a b l rem wt : Forall2 (prel s) a b -> pile_pass2 a l rem wt = pile_pass2 b l rem wt.
Proof.
  intro H. revert l rem wt. induction H as [|[o ci] [o' ci'] a b [Ho _] _ IH]; intros l rem wt; [reflexivity|].
  cbn [fst] in Ho. subst o'. destruct l as [|x l]; [reflexivity|]. cbn [pile_pass2].
  destruct x; rewrite IH; reflexivity.
Qed.

Lemma pile_item_rows_cong s a b : Forall2 (prel s) a b -> pile_item_rows a s = pile_item_rows b s.
Proof.
  intro H. unfold pile_item_rows. destruct (snd s) eqn:Es.
  - rewrite (pile_pass1_cong s a b H). destruct (pile_pass1 b (fst s)) as [[l used] wt]. apply (pile_pass2_cong s). exact H.
  - induction H as [|[o ci] [o' ci'] a b [Ho [_ Hr]] _ IH]; [reflexivity|]. cbn [fst snd] in *. subst o'.
    cbn [map fst snd]. rewrite IH. destruct o; try reflexivity; rewrite Hr; auto.
Qed.

Lemma pile_rows_sizes_cong s a b : Forall2 (prel s) a b -> pile_rows_sizes a s = pile_rows_sizes b s.
Proof.
  intro H. unfold pile_rows_sizes. rewrite (pile_item_rows_cong s a b H).
  generalize (pile_item_rows b s). intro rows. revert rows.
  induction H as [|[o ci] [o' ci'] a b [Ho [_ Hr]] _ IH]; intro rows; [reflexivity|]. cbn [fst snd] in *. subst o'.
  destruct rows as [|r rows]; [reflexivity|]. cbn [combine map]. rewrite IH.
  destruct o; try reflexivity.
  - rewrite Hr. reflexivity.
  - destruct (snd s); [reflexivity|]. rewrite Hr; reflexivity.
Qed.

Lemma forall2_length {A B} (R : A -> B -> Prop) a b : Forall2 R a b -> length a = length b.
Proof. induction 1; cbn; qlia. Qed.

Lemma existsb_cong {A} (f : A -> bool) (R : A -> A -> Prop) a b :
  (forall x y, R x y -> f x = f y) -> Forall2 R a b -> existsb f a = existsb f b.
Proof. intros Hf H. induction H; cbn [existsb]; [reflexivity|]. rewrite (Hf _ _ H), IHForall2. reflexivity. Qed.

Lemma forallb_cong {A} (f : A -> bool) (R : A -> A -> Prop) a b :
  (forall x y, R x y -> f x = f y) -> Forall2 R a b -> forallb f a = forallb f b.
Proof. intros Hf H. induction H; cbn [forallb]; [reflexivity|]. rewrite (Hf _ _ H), IHForall2. reflexivity. Qed.

Lemma pile_place_cong s a b fp : Forall2 (prel s) a b -> pile_place a fp s = pile_place b fp s.
Proof. intro H. unfold pile_place. rewrite (pile_rows_sizes_cong s a b H). reflexivity. Qed.

Lemma pile_fits_cong s a b fp : Forall2 (prel s) a b -> pile_fits a fp s = pile_fits b fp s.
Proof.
  intro H. unfold pile_fits. rewrite (pile_rows_sizes_cong s a b H), (pile_pass1_cong s a b H).
  unfold zlen. rewrite (forall2_length _ _ _ H). reflexivity.
Qed.

Lemma pile_info_cong s a b : Forall2 (prel s) a b -> ieq s (pile_info a) (pile_info b).
Proof.
  intro H. unfold pile_info, ieq, feq. cbn [i_sel i_hascur i_hasmove i_box i_rows].
  repeat split.
  - apply (existsb_cong _ (prel s)); [|exact H]. intros x y [_ [[E _] _]]. exact E.
  - apply (existsb_cong _ (prel s)); [|exact H]. intros x y [E1 [[_ [_ [_ E]]] _]]. rewrite E1, E. reflexivity.
  - intro Es. destruct s as [c r]. cbn [fst snd] in *. subst r. rewrite (pile_item_rows_cong (c, None) a b H). reflexivity.
Qed.

(* the size a Pile hands to an item whose rows() it asks is a flow size of the Pile's width *)
Lemma pile_rows_sizes_flow items s i h cs o ci :
  nthz (pile_rows_sizes items s) i = Some (h, cs) -> nthz items i = Some (o, ci) ->
  match o with
  | PGiven _ => True
  | PPack => cs = (fst s, None)
  | PWeight _ => snd s = None -> cs = (fst s, None)
  end.
Proof.
  unfold pile_rows_sizes. rewrite nthz_map. intros H Hi.
  destruct (nthz (combine items (pile_item_rows items s)) i) as [[[o' ci'] ir]|] eqn:E; [|discriminate].
  apply nthz_combine_inv in E as [E1 _]. rewrite Hi in E1. inversion E1; subst o' ci'.
  cbn [option_map] in H. destruct o; [inversion H; reflexivity|exact I|].
  intro Es. rewrite Es in H. inversion H; reflexivity.
Qed.

(* ---- Columns ---- *)
Definition uses_rows (s : size) (isbox : bool) (ci : cinfo) : bool :=
  match snd s with None => negb isbox | Some _ => negb (i_box ci || isbox) end.
Definition crel (s : size) (w : Z) (x y : copt * bool * cinfo) : Prop :=
  fst x = fst y /\ feq (snd x) (snd y) /\
  (uses_rows s (snd (fst y)) (snd y) = true -> i_rows (snd x) w = i_rows (snd y) w).
Definition zrel (s : size) (p q : Z * (copt * bool * cinfo)) : Prop :=
  fst p = fst q /\ crel s (fst q) (snd p) (snd q).

Lemma zrel_refl s p : zrel s p p.
Proof. split; [reflexivity|]. split; [reflexivity|]. split; [apply feq_refl|auto]. Qed.

Lemma columns_sizes_cong s (a b : col_items) fp dc mw :
  map fst a = map fst b ->
  Forall2 (zrel s) (combine (column_widths (map (fun it : copt * bool * cinfo => fst (fst it)) b) fp dc mw (fst s)) a)
                   (combine (column_widths (map (fun it : copt * bool * cinfo => fst (fst it)) b) fp dc mw (fst s)) b) ->
  columns_sizes a fp dc mw s = columns_sizes b fp dc mw s.
Proof.
  intros Hopts H. unfold columns_sizes.
  assert (E : map (fun it : copt * bool * cinfo => fst (fst it)) a = map (fun it : copt * bool * cinfo => fst (fst it)) b).
  { rewrite <- (map_map fst fst a), <- (map_map fst fst b), Hopts. reflexivity. }
  rewrite E. set (ws := column_widths _ fp dc mw (fst s)) in *. clearbody ws.
  unfold uses_rows in *.
  destruct (snd s) as [maxrow|] eqn:Es.
  - induction H as [|[w [[o ib] ci]] [w' [[o' ib'] ci']] za zb [Hw [Ho [Hf Hr]]] _ IH]; [reflexivity|].
    cbn [fst snd] in *. subst w'. inversion Ho; subst o' ib'. cbn [map]. rewrite IH. f_equal.
    cbn [fst snd] in Hr.
    destruct Hf as [_ [_ [_ Hb]]]. rewrite Hb.
    destruct (i_box ci' || ib) eqn:Eb; [reflexivity|]. rewrite Hr; [reflexivity|unfold uses_rows; rewrite Es, Eb; reflexivity].
  - assert (Eh : flat_map (fun p : Z * (copt * bool * cinfo) => let '(width, (_, isbox, ci)) := p in
                            if isbox then [] else [if 0 <? width then i_rows ci width else 0]) (combine ws a)
               = flat_map (fun p : Z * (copt * bool * cinfo) => let '(width, (_, isbox, ci)) := p in
                            if isbox then [] else [if 0 <? width then i_rows ci width else 0]) (combine ws b)).
    { induction H as [|[w [[o ib] ci]] [w' [[o' ib'] ci']] za zb [Hw [Ho [Hf Hr]]] _ IH]; [reflexivity|].
      cbn [fst snd] in *. subst w'. inversion Ho; subst o' ib'. cbn [flat_map]. rewrite IH. f_equal.
      destruct ib; [reflexivity|]. rewrite Hr; [reflexivity|unfold uses_rows; rewrite Es; reflexivity]. }
    rewrite Eh. clear Eh. set (mh := Z.max 1 (zmaxl (flat_map _ (combine ws b)))). clearbody mh.
    induction H as [|[w [[o ib] ci]] [w' [[o' ib'] ci']] za zb [Hw [Ho [Hf Hr]]] _ IH]; [reflexivity|].
    cbn [fst snd] in *. subst w'. inversion Ho; subst o' ib'. cbn [map]. rewrite IH. f_equal.
    destruct ib; [reflexivity|]. rewrite Hr; [reflexivity|unfold uses_rows; rewrite Es; reflexivity].
Qed.

Lemma zipped_set_forall2 s ws (opts : list (copt * bool)) ki i ci' ob ci w :
  nthz ws i = Some w -> nthz (combine opts ki) i = Some (ob, ci) -> crel s w (ob, ci') (ob, ci) ->
  Forall2 (zrel s) (combine ws (combine opts (set_nth_i ki i ci'))) (combine ws (combine opts ki)).
Proof.
  revert opts ki i. induction ws as [|w0 ws IH]; intros opts ki i Hw Hn HR; [constructor|].
  destruct opts as [|a opts]; [constructor|]. destruct ki as [|k ki]; [cbn in Hn; rewrite nthz_nil in Hn; discriminate|].
  cbn [set_nth_i combine] in *. rewrite nthz_cons in Hn. rewrite nthz_cons in Hw. destruct (i =? 0) eqn:E.
  - inversion Hn; inversion Hw; subst. cbn [combine]. constructor; [split; [reflexivity|exact HR]|].
    clear. induction (combine ws (combine opts ki)); constructor; auto using zrel_refl.
  - destruct (i <? 0); [discriminate|]. cbn [combine]. constructor; [apply zrel_refl|]. apply IH; assumption.
Qed.

(* entry i of get_column_sizes: its width is entry i of column_widths; when the Columns asks the child's rows()
   the child gets the flow size of that width *)
Lemma columns_sizes_nth_width (items : col_items) fp dc mw s i w h csz o b ci :
  nthz (columns_sizes items fp dc mw s) i = Some (w, h, csz) -> nthz items i = Some (o, b, ci) ->
  nthz (column_widths (map (fun it : copt * bool * cinfo => fst (fst it)) items) fp dc mw (fst s)) i = Some w /\
  (uses_rows s b ci = true -> csz = (w, None)).
Proof.
  unfold columns_sizes, uses_rows. intros H Hi. destruct (snd s) as [maxrow|].
  - rewrite nthz_map in H.
    destruct (nthz (combine _ items) i) as [[w0 [[o' b'] ci']]|] eqn:E; [|discriminate].
    apply nthz_combine_inv in E as [E1 E2]. rewrite Hi in E2. inversion E2; subst o' b' ci'.
    cbn [option_map] in H. destruct (i_box ci || b); inversion H; subst; split; auto; discriminate.
  - rewrite nthz_map in H.
    destruct (nthz (combine _ items) i) as [[w0 [[o' b'] ci']]|] eqn:E; [|discriminate].
    apply nthz_combine_inv in E as [E1 E2]. rewrite Hi in E2. inversion E2; subst o' b' ci'.
    cbn [option_map] in H. destruct b; inversion H; subst; split; auto; discriminate.
Qed.

Lemma columns_info_cong s (a b : col_items) fp dc mw :
  map fst a = map fst b -> Forall2 (fun x y : copt * bool * cinfo => feq (snd x) (snd y)) a b ->
  (snd s = None -> columns_sizes a fp dc mw s = columns_sizes b fp dc mw s) ->
  ieq s (columns_info a fp dc mw) (columns_info b fp dc mw).
Proof.
  intros Ho Hf Hs. unfold columns_info, ieq, feq. cbn [i_sel i_hascur i_hasmove i_box i_rows]. repeat split.
  - apply (existsb_cong _ _ _ _ (fun x y H => proj1 H) Hf).
  - apply (forallb_cong _ _ _ _ (fun x y H => proj2 (proj2 (proj2 H))) Hf).
  - intro Es. destruct s as [c r]. cbn [fst snd] in *. subst r. rewrite (Hs eq_refl). reflexivity.
Qed.

(* ------------------------------------------------------------------------------------------ *)
(* Part 3: the induction                                                                        *)
(* ------------------------------------------------------------------------------------------ *)
Definition MoveOKF (w : widget) : Prop :=
  forall s col row, fits w s = true -> i_hasmove (info w) = true ->
    let m := move_cursor w s col row in
    m_ok m = true ->
    ieq s (info (m_w m)) (info w) /\ fits (m_w m) s = true /\
    (m_asked m <> None ->
       i_sel (info w) = true /\ 0 <= row < canvas_rows w s /\ exists x, cursor_coords (m_w m) s = CSome x row).

Lemma crows_ieq s a b : ieq s a b -> crows a s = crows b s.
Proof. intros [_ H]. unfold crows. destruct (snd s); [reflexivity|]. apply H. reflexivity. Qed.

Lemma move_okf_leaf l : MoveOKF (Leaf l).
Proof.
  intros s col row Hf Hm m Hok.
  assert (Hsame : cols_same (Leaf l) (m_w m) = true).
  { unfold m, move_cursor. cbn [view leaf_view v_move]. destruct (leaf_accepts l s row); reflexivity. }
  destruct (move_ok_leaf l s col row Hf Hm Hok Hsame) as [Hinfo [Hfit Hrest]].
  fold m in Hinfo, Hfit, Hrest. split; [rewrite Hinfo; apply ieq_refl|]. split; assumption.
Qed.

Lemma move_okf_nomove w : i_hasmove (info w) = false -> MoveOKF w.
Proof. intros H s col row _ Hm. congruence. Qed.

Lemma set_nth_i_length l i x : length (set_nth_i l i x) = length l.
Proof. revert i. induction l; intro i; cbn [set_nth_i]; [reflexivity|]. destruct (i =? 0); cbn [length]; auto. Qed.

(* ---- decorations with one child ---- *)
Section SingleChildF.
  Variable K : widget -> widget.
  Hypothesis K_view : forall c, view (K c) = interp (K c) (wnode (K c)) (kidviews (K c)).
  Hypothesis K_kids : forall c, kidviews (K c) = [view c].
  Hypothesis K_node : forall c c' ki, node_of (K c) ki = node_of (K c') ki.
  Hypothesis K_set : forall c c', set_child (K c) 0 c' = K c'.
  Hypothesis K_sel : forall c ki, i_sel (n_info (node_of (K c) ki)) = i_sel (nth_info ki 0).
  Hypothesis K_target : forall c ki, LocalMoveTarget (node_of (K c) ki) ki.
  Hypothesis K_plan : forall c ki s col row,
    match n_move (node_of (K c) ki) s col row with
    | MPFocus _ => False
    | MPAsk i _ _ _ nf => i = 0 /\ nf = None
    | _ => True
    end.
  Hypothesis K_cursor : forall c ki, LocalCursor (node_of (K c) ki) ki.
  Hypothesis K_within : forall c ki, LocalWithin (node_of (K c) ki) ki.
  (* the node's placement, precondition and own rows depend on the child only through [ieq] at the child's size *)
  Hypothesis K_cong : forall c ci ci' s cs,
    (forall p, In p (n_place (node_of (K c) [ci]) s) -> p_size p = cs) -> ieq cs ci' ci ->
    n_place (node_of (K c) [ci']) s = n_place (node_of (K c) [ci]) s /\
    n_fits (node_of (K c) [ci']) s = n_fits (node_of (K c) [ci]) s /\
    ieq s (n_info (node_of (K c) [ci'])) (n_info (node_of (K c) [ci])).

  Lemma move_okf_single c : MoveOKF c -> MoveOKF (K c).
  Proof.
    intros IH s col row Hf Hm. unfold move_cursor, info, fits, cursor_coords, canvas_rows in *.
    rewrite K_view in *. cbn [interp v_move v_info v_fits] in *. unfold interp_move.
    destruct (interp_fits_inv _ _ _ _ Hf) as [Hpos [Hn Hkids]].
    unfold wnode in *. rewrite K_kids in *. cbn [map] in *.
    pose proof (K_plan c [v_info (view c)] s col row) as Hplan.
    destruct (n_move (node_of (K c) [v_info (view c)]) s col row) as [| |i|i cs c' r' nf] eqn:E; cbn [m_ok m_w m_asked].
    - discriminate.
    - intros _. rewrite K_view. cbn [interp v_info v_fits]. unfold wnode. rewrite K_kids. cbn [map].
      split; [apply ieq_refl|]. split; [exact Hf|]. intro H; congruence.
    - contradiction.
    - destruct Hplan as [-> ->].
      destruct (K_target c _ s col row 0 cs c' r' None Hn Hpos Hm E) as [Hcm [_ [p [Hp [Hpi [Hps [Hpy [Hpf Hfun]]]]]]]].
      specialize (Hpf eq_refl).
      change (nth_view (K c) [view c] 0) with (view c).
      change (nth_info [v_info (view c)] 0) with (v_info (view c)) in Hcm.
      assert (Hcf : v_fits (view c) cs = true).
      { specialize (Hkids p Hp). rewrite Hpi, Hps in Hkids. exact Hkids. }
      specialize (IH cs c' r' Hcf Hcm). unfold move_cursor, info, fits, cursor_coords, canvas_rows in IH. cbv zeta in IH.
      destruct (m_ok (v_move (view c) cs c' r')) eqn:Eok; cbn [m_ok m_w m_asked]; [|discriminate].
      intros _. rewrite K_set in *.
      destruct (IH eq_refl) as [Hieq [Hfit' Hasked]]. clear IH.
      set (c2 := m_w (v_move (view c) cs c' r')) in *.
      rewrite K_view. cbn [interp v_info v_fits v_cursor]. unfold wnode. rewrite K_kids. cbn [map].
      rewrite (K_node c2 c).
      assert (Hsizes : forall q, In q (n_place (node_of (K c) [v_info (view c)]) s) -> p_size q = cs).
      { intros q Hq. assert (Hq0 : p_idx q = 0).
        { specialize (Hkids q Hq). unfold nth_view in Hkids. destruct (Z.eq_dec (p_idx q) 0) as [->|Hne]; [reflexivity|].
          rewrite nthz_cons in Hkids. assert (E0 : p_idx q =? 0 = false) by qlia. rewrite E0 in Hkids.
          destruct (p_idx q <? 0); [discriminate Hkids|]. rewrite nthz_nil in Hkids. discriminate Hkids. }
        rewrite (Hfun q Hq Hq0). exact Hps. }
      destruct (K_cong c (v_info (view c)) (v_info (view c2)) s cs Hsizes Hieq) as [Epl [Efit Einfo]].
      split; [exact Einfo|]. split.
      + change [view c2] with (set_nth_v [view c] 0 (view c2)).
        apply (interp_fits_after (K c) (K c2) _ _ [view c] 0 (view c2) s Hf).
        * rewrite Efit. exact Hn.
        * intros q Hq. rewrite Epl in Hq. exists q. auto.
        * intros q Hq Hqi. rewrite (Hfun q Hq Hqi), Hps. exact Hfit'.
        * unfold zlen. cbn. qlia.
      + intro Hne. destruct (Hasked Hne) as [Hsel [Hrow [x Hcur]]].
        rewrite K_sel. change (nth_info [v_info (view c)] 0) with (v_info (view c)).
        split; [exact Hsel|].
        destruct (K_within c _ s p Hn Hpos Hp) as [_ [_ [Hy0 Hy1]]].
        rewrite Hpi, Hps in Hy1. change (nth_info [v_info (view c)] 0) with (v_info (view c)) in Hy1.
        split; [qlia|].
        destruct Hieq as [[Es [Ec [Em Eb]]] Erows].
        apply (interp_cursor_after (K c2) _ [view c2] s 0 cs x r' row).
        * cbn [map]. apply K_cursor.
        * rewrite Efit. exact Hn.
        * exact Hpos.
        * exists p. rewrite Epl. auto.
        * exact Hcur.
        * change (nth_view (K c2) [view c2] 0) with (view c2). rewrite Es. exact Hsel.
        * change (nth_view (K c2) [view c2] 0) with (view c2). apply hasmove_hascur. unfold info. rewrite Em. exact Hcm.
        * destruct (view_good c2) as [FP _]. destruct (FP cs Hfit') as [H1 _]. exact H1.
        * change (nth_view (K c2) [view c2] 0) with (view c2).
          rewrite (crows_ieq cs (v_info (view c2)) (v_info (view c))); [apply Hrow|].
          split; [repeat split; assumption|exact Erows].
  Qed.
End SingleChildF.

Lemma move_okf_attrmap c : MoveOKF c -> MoveOKF (AttrMap c).
Proof.
  apply (move_okf_single (fun c => AttrMap c)); try reflexivity; intros.
  - apply attrmap_target.
  - cbn. unfold attrmap_move. auto.
  - apply attrmap_cursor_ok.
  - apply attrmap_within.
  - cbn [node_of n_place n_fits n_info nth_info] in *. unfold nth_info, nthz in *. cbn in *. unfold attrmap_info.
    split; [reflexivity|]. split; [reflexivity|].
    rewrite <- (H (Placed 0 0 0 s true false)) in H0 by (left; reflexivity). exact H0.
Qed.

Lemma move_okf_boxadapter c h : MoveOKF c -> MoveOKF (BoxAdapter c h).
Proof.
  apply (move_okf_single (fun c => BoxAdapter c h)); try reflexivity; intros.
  - apply boxadapter_target.
  - cbn. unfold boxadapter_move. destruct (snd s); [exact I|]. destruct (negb _); [exact I|auto].
  - apply boxadapter_cursor_ok.
  - apply boxadapter_within.
  - cbn [node_of n_place n_fits n_info]. unfold nth_info, nthz. cbn. unfold boxadapter_info.
    split; [reflexivity|]. split; [reflexivity|].
    destruct H0 as [[Es _] _]. split; [|reflexivity]. repeat split; cbn; auto.
Qed.

Lemma move_okf_padding c a b c0 d e f g : MoveOKF c -> MoveOKF (Padding c a b c0 d e f g).
Proof.
  apply (move_okf_single (fun c => Padding c a b c0 d e f g)); try reflexivity; intros.
  - apply padding_target.
  - cbn. unfold padding_move. destruct (negb _); [exact I|]. destruct (padding_values _ _). auto.
  - apply padding_cursor_ok.
  - apply padding_within.
  - cbn [node_of n_place n_fits n_info] in *. unfold nth_info, nthz in *. cbn in *.
    split; [reflexivity|]. split; [reflexivity|].
    unfold padding_info, padding_place in *. destruct H0 as [[Es [Ec [Em Eb]]] Er].
    split; [repeat split; cbn; auto|]. cbn [i_rows]. intro Esn.
    destruct (padding_values (PadOpts a b c0 d e f g) (fst s)) as [l r].
    specialize (H _ (or_introl eq_refl)). cbn [p_size] in H. subst cs. cbn [fst snd] in Er.
    replace (fst s - l - r) with (fst s - (l + r)) by qlia. apply Er. exact Esn.
Qed.

Lemma move_okf_filler c a b c0 d e f g : MoveOKF c -> MoveOKF (Filler c a b c0 d e f g).
Proof.
  apply (move_okf_single (fun c => Filler c a b c0 d e f g)); try reflexivity; intros.
  - apply filler_target.
  - cbn. unfold filler_move. destruct (negb _); [exact I|]. destruct (filler_values _ _ _).
    destruct (_ || _); [exact I|auto].
  - apply filler_cursor_ok.
  - apply filler_within.
  - cbn [node_of n_place n_fits n_info] in *.
    change (nth_info [ci] 0) with ci in *. change (nth_info [ci'] 0) with ci' in *.
    set (o := FillOpts a b c0 d e f g) in *.
    destruct H0 as [[Es [Ec [Em Eb]]] Er].
    assert (Erows : is_pack (fi_ht o) = true -> i_rows ci' (fst s) = i_rows ci (fst s)).
    { intro Ep. unfold filler_place in H. destruct (filler_values o ci s) as [t bt] eqn:Ev.
      specialize (H _ (or_introl eq_refl)). cbn [p_size] in H. unfold filler_csize in H. rewrite Ev, Ep in H.
      subst cs. apply Er. reflexivity. }
    assert (Efr : filler_rows o ci' (fst s) = filler_rows o ci (fst s)).
    { unfold filler_rows. destruct (is_pack (fi_ht o)) eqn:Ep; [rewrite Erows; reflexivity|reflexivity]. }
    assert (Emr : filler_maxrow o ci' s = filler_maxrow o ci s).
    { unfold filler_maxrow. destruct (snd s); [reflexivity|exact Efr]. }
    assert (Efv : filler_values o ci' s = filler_values o ci s).
    { unfold filler_values. rewrite Emr. destruct (is_pack (fi_ht o)) eqn:Ep; [rewrite Erows; reflexivity|reflexivity]. }
    assert (Ecs : filler_csize o ci' s = filler_csize o ci s).
    { unfold filler_csize. rewrite Efv, Emr. reflexivity. }
    split; [unfold filler_place; rewrite Efv, Ecs; reflexivity|]. split.
    + unfold filler_fits. rewrite Efv, Emr. destruct (is_pack (fi_ht o)) eqn:Ep; [rewrite Erows; reflexivity|reflexivity].
    + unfold filler_info. split; [repeat split; cbn; auto|]. cbn [i_rows]. intros _. exact Efr.
Qed.

(* ---- Pile ---- *)
Lemma move_okf_pile items fp : Forall (fun it => MoveOKF (snd it)) items -> MoveOKF (Pile items fp).
Proof.
  intros IH s col row Hf Hm. unfold move_cursor, info, fits, cursor_coords, canvas_rows in *.
  rewrite view_eq in *. cbn [interp v_move v_info v_fits] in *. unfold interp_move.
  destruct (interp_fits_inv _ _ _ _ Hf) as [Hpos [Hn Hkids]].
  unfold wnode in *. cbn [kidviews kids_with node_of] in *.
  set (kids := map (fun it : popt * widget => view (snd it)) items) in *.
  set (its := combine (map fst items) (map v_info kids)) in *.
  assert (Elen : length (map fst items) = length (map v_info kids)) by (unfold kids; rewrite !map_length; reflexivity).
  assert (Eki : map snd its = map v_info kids) by (apply map_snd_combine; exact Elen).
  assert (Ezl : zlen its = zlen items).
  { unfold its. rewrite (zlen_combine_same _ _ Elen). apply zlen_map. }
  assert (Ezk : zlen kids = zlen items) by (unfold kids; apply zlen_map).
  cbn [n_move n_fits n_place n_info] in *.
  destruct (pile_move its s col row) as [| |i|i cs c' r' nf] eqn:E; cbn [m_ok m_w m_asked].
  - discriminate.
  - exfalso. unfold pile_move in E. destruct (pile_find _ _ _ _) as [[[? ?] ?]|]; [|discriminate].
    destruct (i_sel _) in E; cbn [negb] in E; [|discriminate]. destruct (i_hasmove _) in E; discriminate.
  - intros _. cbn [set_focus]. rewrite view_eq. cbn [interp v_info v_fits]. unfold wnode. cbn [kidviews kids_with node_of].
    fold kids. fold its. cbn [n_info].
    split; [apply ieq_refl|]. split; [|intro H; congruence].
    unfold pile_move in E. destruct (pile_find (pile_rows_sizes its s) 0 0 row) as [[[i0 wrow] cs0]|] eqn:Efind; [|discriminate].
    destruct (i_sel _) in E; cbn [negb] in E; [|discriminate]. destruct (i_hasmove _) in E; [discriminate|]. inversion E; subst i0.
    destruct (pile_find_placed its fp s row i wrow cs0 Hn Efind) as [Hi _].
    eapply (interp_fits_renode (Pile items fp) (Pile items i)); [exact Hf| |].
    + cbn [n_fits]. apply (pile_fits_refocus its fp s i Hn Hi).
    + cbn [n_place]. intros q Hq. apply (pile_place_refocus its fp s i q Hn Hq).
  - unfold pile_move in E. destruct (pile_find (pile_rows_sizes its s) 0 0 row) as [[[i0 wrow] cs0]|] eqn:Efind; [|discriminate].
    destruct (i_sel (nth_info (map snd its) i0)) eqn:Esel; cbn [negb] in E; [|discriminate].
    destruct (i_hasmove (nth_info (map snd its) i0)) eqn:Ehm; [|discriminate].
    inversion E; subst i0 cs0 c' r' nf. clear E.
    destruct (pile_find_placed its fp s row i wrow cs Hn Efind) as [Hi [Hw Hpl]].
    destruct (Hpl fp) as [Hp Hfun]. destruct (Hpl i) as [Hp' _].
    assert (Hik : 0 <= i < zlen kids) by qlia.
    destruct (nthz_some items i) as [[o ci] Hni]; [qlia|].
    assert (Ekid : forall d, nth_view d kids i = view ci) by (intro d; unfold kids; apply (nth_view_kids d items i o ci Hni)).
    rewrite Ekid.
    assert (Einfo : nth_info (map snd its) i = v_info (view ci)).
    { rewrite Eki. rewrite <- (nth_view_info (Pile items fp)). rewrite Ekid. reflexivity. }
    rewrite Einfo in Esel, Ehm.
    assert (Hcf : v_fits (view ci) cs = true).
    { specialize (Hkids _ Hp). cbn [p_idx p_size] in Hkids. rewrite Ekid in Hkids. exact Hkids. }
    assert (IHi : MoveOKF ci).
    { rewrite Forall_forall in IH. apply (IH (o, ci)). eapply nthz_In; eauto. }
    specialize (IHi cs col (row - wrow) Hcf Ehm). unfold move_cursor, info, fits, cursor_coords, canvas_rows in IHi. cbv zeta in IHi.
    destruct (m_ok (v_move (view ci) cs col (row - wrow))) eqn:Eok; cbn [m_ok m_w m_asked]; [|discriminate].
    intros _. cbn [set_child set_focus] in *.
    set (c2 := m_w (v_move (view ci) cs col (row - wrow))) in *.
    destruct (IHi eq_refl) as [Hieq [Hfit' Hasked]]. clear IHi.
    rewrite view_eq. cbn [interp v_info v_fits v_cursor]. unfold wnode. cbn [kidviews kids_with node_of].
    rewrite kids_set_nth_w, map_fst_set_nth_w. fold kids.
    rewrite map_info_set_nth.
    set (its' := combine (map fst items) (set_nth_i (map v_info kids) i (v_info (view c2)))).
    (* the item infos afterwards are related to the ones before *)
    assert (Hits : nthz its i = Some (o, v_info (view ci))).
    { unfold its. apply nthz_combine; [rewrite nthz_map, Hni; reflexivity|].
      rewrite <- Einfo, Eki. unfold nth_info. destruct (nthz_some (map v_info kids) i) as [x Hx]; [rewrite zlen_map; qlia|].
      rewrite Hx. reflexivity. }
    assert (Hrs : nthz (pile_rows_sizes its s) i = Some (crows (v_info (view ci)) cs, cs)).
    { destruct (pile_find_inv _ _ _ _ _ _ _ Efind) as [pre [x [post [Ers [Ei [_ [Ecs _]]]]]]].
      pose proof (nthz_app_mid pre x post) as Hx. rewrite <- Ers in Hx. replace (zlen pre) with i in Hx by qlia.
      destruct x as [h0 cs0]. cbn [snd] in Ecs. subst cs0.
      destruct (pile_rows_sizes_nth its s i h0 cs Hx) as [o1 [ci1 [Hi1 [Hc1 _]]]]. rewrite Hits in Hi1. inversion Hi1; subst o1 ci1.
      rewrite Hc1. exact Hx. }
    assert (Hrel : Forall2 (prel s) its' its).
    { unfold its', its. apply (combine_set_forall2 (prel s) (map fst items) (map v_info kids) i (v_info (view c2)) o (v_info (view ci))).
      - apply prel_refl.
      - exact Hits.
      - split; [reflexivity|]. split; [apply Hieq|]. cbn [fst snd].
        pose proof (pile_rows_sizes_flow its s i _ cs o _ Hrs Hits) as Hflow. destruct Hieq as [_ Hr].
        destruct o; [|exact I|].
        + subst cs. apply Hr. reflexivity.
        + intro Es. rewrite (Hflow Es) in Hr. apply Hr. reflexivity. }
    assert (Elen' : length (map fst items) = length (set_nth_i (map v_info kids) i (v_info (view c2)))).
    { rewrite set_nth_i_length. exact Elen. }
    assert (Eki' : map snd its' = set_nth_i (map v_info kids) i (v_info (view c2))) by (apply map_snd_combine; exact Elen').
    cbn [n_info].
    split; [apply pile_info_cong; exact Hrel|]. split.
    + eapply (interp_fits_after (Pile items fp) _ _ _ kids i (view c2) s Hf).
      * cbn [n_fits]. rewrite (pile_fits_cong s its' its i Hrel). apply (pile_fits_refocus its fp s i Hn). exact Hi.
      * cbn [n_place]. intros q Hq. rewrite (pile_place_cong s its' its i Hrel) in Hq. apply (pile_place_refocus its fp s i q Hn Hq).
      * cbn [n_place]. intros q Hq Hqi. rewrite (Hfun q Hq Hqi). cbn [p_size]. exact Hfit'.
      * exact Hik.
    + intro Hne. destruct (Hasked Hne) as [_ [Hrow [x Hcur]]].
      destruct Hieq as [[Es [Ec [Em Eb]]] Erows].
      split; [|split].
      * unfold pile_info. cbn [i_sel]. apply existsb_exists.
        exists (o, v_info (view ci)). split; [eapply nthz_In; eauto|]. exact Esel.
      * pose proof (pile_within its fp s _ Hn Hpos Hp) as [_ [_ [Hy0 Hy1]]]. cbn [p_y p_idx p_size n_info] in Hy0, Hy1.
        rewrite Einfo in Hy1. clear - Hy0 Hy1 Hrow Hw. qlia.
      * eapply (interp_cursor_after _ _ (set_nth_v kids i (view c2)) s i cs x (row - wrow) row).
        -- rewrite map_info_set_nth, <- Eki'. apply (pile_cursor_ok its' i).
        -- cbn [n_fits]. rewrite (pile_fits_cong s its' its i Hrel). apply (pile_fits_refocus its fp s i Hn). exact Hi.
        -- exact Hpos.
        -- exists (Placed i 0 wrow cs (i =? i) false). cbn [n_place p_isfocus p_idx p_size p_y].
           split; [rewrite (pile_place_cong s its' its i Hrel); exact Hp'|]. clear. repeat split; qlia.
        -- rewrite nth_view_set_same by exact Hik. exact Hcur.
        -- rewrite nth_view_set_same by exact Hik. rewrite Es. exact Esel.
        -- rewrite nth_view_set_same by exact Hik. apply hasmove_hascur. unfold info. rewrite Em. exact Ehm.
        -- destruct (view_good c2) as [FP _]. destruct (FP cs Hfit') as [H1 _]. exact H1.
        -- rewrite nth_view_set_same by exact Hik.
           rewrite (crows_ieq cs (v_info (view c2)) (v_info (view ci))); [apply Hrow|].
           split; [repeat split; assumption|exact Erows].
Qed.

(* ---- Columns ---- *)
Lemma forallb_fst {A B} (g : A -> bool) (l : list (A * B)) : forallb (fun it => g (fst it)) l = forallb g (map fst l).
Proof. induction l; cbn [forallb map]; [reflexivity|]. rewrite IHl. reflexivity. Qed.

Lemma columns_fits_cong (a b : col_items) fp fp' dc mw s :
  map fst a = map fst b -> columns_sizes a fp dc mw s = columns_sizes b fp' dc mw s ->
  0 <= fp < zlen a -> columns_fits b fp' dc mw s = true -> columns_fits a fp dc mw s = true.
Proof.
  intros Ho Es Hfp Hf. unfold columns_fits in *. rewrite Es.
  assert (El : zlen a = zlen b).
  { unfold zlen. rewrite <- (map_length fst a), <- (map_length fst b), Ho. reflexivity. }
  rewrite El in *.
  assert (E1 : forallb (fun it : copt * bool * cinfo => 0 <=? static_w (fst (fst it)) mw) a
             = forallb (fun it : copt * bool * cinfo => 0 <=? static_w (fst (fst it)) mw) b).
  { rewrite (forallb_fst (fun ob : copt * bool => 0 <=? static_w (fst ob) mw) a),
            (forallb_fst (fun ob : copt * bool => 0 <=? static_w (fst ob) mw) b), Ho. reflexivity. }
  assert (E2 : map (fun it : copt * bool * cinfo => static_w (fst (fst it)) mw + dc) a
             = map (fun it : copt * bool * cinfo => static_w (fst (fst it)) mw + dc) b).
  { rewrite <- (map_map fst (fun ob : copt * bool => static_w (fst ob) mw + dc) a),
            <- (map_map fst (fun ob : copt * bool => static_w (fst ob) mw + dc) b), Ho. reflexivity. }
  rewrite E1, E2.
  repeat (apply andb_true_iff in Hf as [Hf ?]).
  repeat (apply andb_true_iff; split); try assumption; qlia.
Qed.

Lemma columns_place_refocus (items : col_items) fp fp' dc mw s q :
  columns_fits items fp dc mw s = true -> In q (columns_place items fp' dc mw s) ->
  exists q0, In q0 (columns_place items fp dc mw s) /\ p_idx q0 = p_idx q /\ p_size q0 = p_size q.
Proof.
  intros Hf Hq. destruct (columns_fits_inv items fp dc mw s Hf) as [_ [_ [_ [Hw _]]]].
  unfold columns_place in *. rewrite (columns_sizes_fp items fp fp' dc mw s Hf) in Hq.
  destruct (columns_place_from_inv fp' dc _ 0 0 _ q eq_refl Hw Hq) as [pre [x [post [E ->]]]].
  pose proof Hw as Hw'. rewrite E in Hw'. apply Forall_app in Hw' as [Hpre Hrest]. pose proof (Forall_inv Hrest) as Hx. cbn beta in Hx.
  exists (Placed (0 + zlen pre) (0 + xoff dc pre) 0 (snd x) (fp =? 0 + zlen pre) false).
  split; [|split; reflexivity]. rewrite E. apply columns_place_from_in; auto.
Qed.

Lemma columns_info_ieq s (a b : col_items) fp fp' dc mw :
  Forall2 (fun x y : copt * bool * cinfo => feq (snd x) (snd y)) a b ->
  (snd s = None -> columns_sizes a fp dc mw s = columns_sizes b fp' dc mw s) ->
  ieq s (columns_info a fp dc mw) (columns_info b fp' dc mw).
Proof.
  intros Hf Hs. unfold columns_info, ieq, feq. cbn [i_sel i_hascur i_hasmove i_box i_rows]. repeat split.
  - apply (existsb_cong _ _ _ _ (fun x y H => proj1 H) Hf).
  - apply (forallb_cong _ _ _ _ (fun x y H => proj2 (proj2 (proj2 H))) Hf).
  - intro Es. destruct s as [c r]. cbn [fst snd] in *. subst r. rewrite (Hs eq_refl). reflexivity.
Qed.

Lemma map_fst_combine_set {A} (opts : list A) ki i x :
  length opts = length ki -> map fst (combine opts (set_nth_i ki i x)) = opts.
Proof. intro H. apply map_fst_combine. rewrite set_nth_i_length. exact H. Qed.

Lemma forall2_refl {A} (R : A -> A -> Prop) l : (forall x, R x x) -> Forall2 R l l.
Proof. intro H. induction l; constructor; auto. Qed.

Lemma move_okf_columns items fp dc mw : Forall (fun it => MoveOKF (snd it)) items -> MoveOKF (Columns items fp dc mw).
Proof.
  intros IH s col row Hf Hm. unfold move_cursor, info, fits, cursor_coords, canvas_rows in *.
  rewrite view_eq in *. cbn [interp v_move v_info v_fits] in *. unfold interp_move.
  destruct (interp_fits_inv _ _ _ _ Hf) as [Hpos [Hn Hkids]].
  unfold wnode in *. cbn [kidviews kids_with node_of] in *.
  set (kids := map (fun it : copt * bool * widget => view (snd it)) items) in *.
  set (its := combine (map fst items) (map v_info kids)) in *.
  assert (Elen : length (map fst items) = length (map v_info kids)) by (unfold kids; rewrite !map_length; reflexivity).
  assert (Eki : map snd its = map v_info kids) by (apply map_snd_combine; exact Elen).
  assert (Eopts : map fst its = map fst items) by (apply map_fst_combine; exact Elen).
  assert (Ezl : zlen its = zlen items).
  { unfold its. rewrite (zlen_combine_same _ _ Elen). apply zlen_map. }
  assert (Ezk : zlen kids = zlen items) by (unfold kids; apply zlen_map).
  cbn [n_move n_fits n_place n_info] in *.
  destruct (columns_move its fp dc mw s col row) as [| |i|i cs c' r' nf] eqn:E; cbn [m_ok m_w m_asked].
  - discriminate.
  - exfalso. unfold columns_move in E. destruct (columns_best _ _ _ _ _ _ _) as [[[[? ?] ?] ?]|]; [|discriminate].
    destruct (i_hasmove _) in E; discriminate.
  - (* the chosen column has no move_cursor_to_coords: only the focus moves *)
    intros _. cbn [set_focus]. unfold columns_move in E.
    destruct (columns_best (columns_sizes its fp dc mw s) (map (fun it : copt * bool * cinfo => i_sel (snd it)) its) 0 0 dc col None)
      as [[[[i0 x0] e0] cs0]|] eqn:Ebest; [|discriminate].
    destruct (i_hasmove _) in E; [discriminate|]. inversion E; subst i0. clear E.
    destruct (columns_best_placed its fp dc mw s col i x0 e0 cs0 Hn Ebest) as [Hi _].
    rewrite view_eq. cbn [interp v_info v_fits]. unfold wnode. cbn [kidviews kids_with node_of].
    fold kids. fold its. cbn [n_info].
    split; [|split; [|intro H; congruence]].
    + apply columns_info_ieq; [apply forall2_refl; intro; apply feq_refl|]. intros _. apply (columns_sizes_fp its fp i dc mw s Hn).
    + eapply (interp_fits_renode (Columns items fp dc mw) (Columns items i dc mw)); [exact Hf| |].
      * cbn [n_fits]. apply (columns_fits_refocus its fp i dc mw s Hn). qlia.
      * cbn [n_place]. intros q Hq. apply (columns_place_refocus its fp i dc mw s q Hn Hq).
  - unfold columns_move in E.
    destruct (columns_best (columns_sizes its fp dc mw s) (map (fun it : copt * bool * cinfo => i_sel (snd it)) its) 0 0 dc col None)
      as [[[[i0 x0] e0] cs0]|] eqn:Ebest; [|discriminate].
    destruct (i_hasmove (nth_info (map snd its) i0)) eqn:Ehm; [|discriminate].
    inversion E; subst i0 cs0 c' r' nf. clear E.
    destruct (columns_best_placed its fp dc mw s col i x0 e0 cs Hn Ebest) as [Hi [Esel [Hp Hfun]]].
    assert (Hii : 0 <= i < zlen items) by qlia. assert (Hik : 0 <= i < zlen kids) by qlia.
    pose proof (columns_fits_refocus its fp i dc mw s Hn Hi) as Hni_fit.
    pose proof (columns_sizes_fp its fp i dc mw s Hn) as Esz.
    assert (Ebest' : columns_best (columns_sizes its i dc mw s) (map (fun it : copt * bool * cinfo => i_sel (snd it)) its) 0 0 dc col None
                     = Some (i, x0, e0, cs)) by (rewrite Esz; exact Ebest).
    destruct (columns_best_placed its i dc mw s col i x0 e0 cs Hni_fit Ebest') as [_ [_ [Hp' _]]].
    destruct (nthz_some items i) as [[o ci] Hni]; [exact Hii|].
    assert (Ekid : forall d, nth_view d kids i = view ci) by (intro d; unfold kids; apply (nth_view_kids d items i o ci Hni)).
    rewrite Ekid.
    assert (Einfo : nth_info (map snd its) i = v_info (view ci)).
    { rewrite Eki. rewrite <- (nth_view_info (Columns items fp dc mw)). rewrite Ekid. reflexivity. }
    rewrite Einfo in Esel, Ehm.
    assert (Hcf : v_fits (view ci) cs = true).
    { specialize (Hkids _ Hp). cbn [p_idx p_size] in Hkids. rewrite Ekid in Hkids. exact Hkids. }
    assert (IHi : MoveOKF ci).
    { rewrite Forall_forall in IH. apply (IH (o, ci)). eapply nthz_In; eauto. }
    specialize (IHi cs (Z.min (Z.max 0 (col - x0)) (e0 - x0 - 1)) row Hcf Ehm).
    unfold move_cursor, info, fits, cursor_coords, canvas_rows in IHi. cbv zeta in IHi.
    destruct (m_ok (v_move (view ci) cs (Z.min (Z.max 0 (col - x0)) (e0 - x0 - 1)) row)) eqn:Eok; cbn [m_ok m_w m_asked]; [|discriminate].
    intros _. cbn [set_child set_focus] in *.
    set (c2 := m_w (v_move (view ci) cs (Z.min (Z.max 0 (col - x0)) (e0 - x0 - 1)) row)) in *.
    destruct (IHi eq_refl) as [Hieq [Hfit' Hasked]]. clear IHi.
    rewrite view_eq. cbn [interp v_info v_fits v_cursor]. unfold wnode. cbn [kidviews kids_with node_of].
    rewrite kids_set_nth_w, map_fst_set_nth_w. fold kids.
    rewrite map_info_set_nth.
    set (its' := combine (map fst items) (set_nth_i (map v_info kids) i (v_info (view c2)))).
    assert (Hits : nthz its i = Some (o, v_info (view ci))).
    { unfold its. apply nthz_combine; [rewrite nthz_map, Hni; reflexivity|].
      rewrite <- Einfo, Eki. unfold nth_info. destruct (nthz_some (map v_info kids) i) as [x Hx]; [rewrite zlen_map; exact Hik|].
      rewrite Hx. reflexivity. }
    destruct o as [o ib].
    (* the entry of get_column_sizes for the chosen column *)
    assert (Hent : exists w h, nthz (columns_sizes its i dc mw s) i = Some (w, h, cs)).
    { destruct (columns_best_inv _ _ _ _ _ _ _ _ Ebest') as [Hx|[pre [t [post [Ecs [_ Hr]]]]]]; [discriminate|].
      injection Hr as Ei Ex Ee Ec. pose proof (nthz_app_mid pre t post) as Hx. rewrite <- Ecs in Hx.
      replace (zlen pre) with i in Hx by (clear - Ei; qlia). destruct t as [[w h] csz]. cbn [snd] in Ec. subst csz.
      exists w, h. exact Hx. }
    destruct Hent as [w [h Hent]].
    destruct (columns_sizes_nth_width its i dc mw s i w h cs o ib (v_info (view ci)) Hent Hits) as [Hwn Hflow].
    assert (Elen' : length (map fst items) = length (set_nth_i (map v_info kids) i (v_info (view c2)))).
    { rewrite set_nth_i_length. exact Elen. }
    assert (Eki' : map snd its' = set_nth_i (map v_info kids) i (v_info (view c2))) by (apply map_snd_combine; exact Elen').
    assert (Eopts' : map fst its' = map fst its).
    { unfold its'. rewrite (map_fst_combine _ _ Elen'). symmetry. exact Eopts. }
    assert (Esz' : columns_sizes its' i dc mw s = columns_sizes its i dc mw s).
    { apply columns_sizes_cong; [exact Eopts'|].
      unfold its', its.
      apply (zipped_set_forall2 s _ (map fst items) (map v_info kids) i (v_info (view c2)) (o, ib) (v_info (view ci)) w Hwn Hits).
      split; [reflexivity|]. split; [apply Hieq|]. cbn [fst snd]. intro Hu.
      destruct Hieq as [_ Hr]. rewrite (Hflow Hu) in Hr. apply Hr. reflexivity. }
    assert (Hfeq : Forall2 (fun x y : copt * bool * cinfo => feq (snd x) (snd y)) its' its).
    { unfold its', its.
      apply (combine_set_forall2 (fun x y : copt * bool * cinfo => feq (snd x) (snd y)) (map fst items) (map v_info kids) i
               (v_info (view c2)) (o, ib) (v_info (view ci))); [intro; apply feq_refl|exact Hits|apply Hieq]. }
    assert (Hfit2 : columns_fits its' i dc mw s = true).
    { apply (columns_fits_cong its' its i fp dc mw s Eopts'); [rewrite Esz'; exact Esz| |exact Hn].
      unfold zlen in *. rewrite <- (map_length fst its'), Eopts', map_length. exact Hi. }
    assert (Epl : columns_place its' i dc mw s = columns_place its i dc mw s).
    { unfold columns_place. rewrite Esz'. reflexivity. }
    cbn [n_info].
    split; [apply columns_info_ieq; [exact Hfeq|intros _; rewrite Esz'; exact Esz]|]. split.
    + eapply (interp_fits_after (Columns items fp dc mw) _ _ _ kids i (view c2) s Hf).
      * cbn [n_fits]. exact Hfit2.
      * cbn [n_place]. intros q Hq. rewrite Epl in Hq. apply (columns_place_refocus its fp i dc mw s q Hn Hq).
      * cbn [n_place]. intros q Hq Hqi. rewrite (Hfun q Hq Hqi). cbn [p_size]. exact Hfit'.
      * exact Hik.
    + intro Hne. destruct (Hasked Hne) as [_ [Hrow [x Hcur]]].
      destruct Hieq as [[Es [Ec [Em Eb]]] Erows].
      split; [|split].
      * unfold columns_info. cbn [i_sel]. apply existsb_exists.
        exists (o, ib, v_info (view ci)). split; [eapply nthz_In; eauto|]. exact Esel.
      * pose proof (columns_within its fp dc mw s _ Hn Hpos Hp) as [_ [_ [Hy0 Hy1]]]. cbn [p_y p_idx p_size n_info] in Hy0, Hy1.
        rewrite Einfo in Hy1. clear - Hy0 Hy1 Hrow. qlia.
      * eapply (interp_cursor_after _ _ (set_nth_v kids i (view c2)) s i cs x row row).
        -- rewrite map_info_set_nth, <- Eki'. apply (columns_cursor_ok its' i dc mw).
        -- cbn [n_fits]. exact Hfit2.
        -- exact Hpos.
        -- exists (Placed i x0 0 cs (i =? i) false). cbn [n_place p_isfocus p_idx p_size p_y].
           split; [rewrite Epl; exact Hp'|]. clear. repeat split; qlia.
        -- rewrite nth_view_set_same by exact Hik. exact Hcur.
        -- rewrite nth_view_set_same by exact Hik. rewrite Es. exact Esel.
        -- rewrite nth_view_set_same by exact Hik. apply hasmove_hascur. unfold info. rewrite Em. exact Ehm.
        -- destruct (view_good c2) as [FP _]. destruct (FP cs Hfit') as [H1 _]. exact H1.
        -- rewrite nth_view_set_same by exact Hik.
           rewrite (crows_ieq cs (v_info (view c2)) (v_info (view ci))); [apply Hrow|].
           split; [repeat split; assumption|exact Erows].
Qed.

(* ---- every widget ---- *)
Theorem move_okf_all : forall w, MoveOKF w.
Proof.
  induction w using widget_ind2.
  - apply move_okf_leaf.
  - apply move_okf_pile. exact H.
  - apply move_okf_columns. exact H.
  - apply move_okf_padding. exact IHw.
  - apply move_okf_filler. exact IHw.
  - apply move_okf_nomove. unfold info. rewrite view_eq. unfold wnode. rewrite frame_node_eq. reflexivity.
  - apply move_okf_boxadapter. exact IHw.
  - apply move_okf_attrmap. exact IHw.
  - apply move_okf_nomove. reflexivity.
Qed.
