(* Proofs about the hand model of Columns.column_widths (Model/Layout.v). *)
From Coq Require Import ZArith List Bool Lia ZifyBool Permutation.
Import ListNotations.
From Urwid Require Import PyBase layout_gen Layout LayoutArith LayoutLists.
Open Scope Z_scope.

Arguments Z.add : simpl never.
Arguments Z.sub : simpl never.
Arguments Z.mul : simpl never.
Arguments Z.div : simpl never.
Arguments Z.quot : simpl never.
Arguments Z.ltb : simpl never.
Arguments Z.leb : simpl never.
Arguments Z.eqb : simpl never.
Arguments Z.min : simpl never.
Arguments Z.max : simpl never.
Arguments Z.of_nat : simpl never.

Ltac znil := change (zlen (@nil col)) with 0 in *; change (zlen (@nil Z)) with 0 in *;
             change (zlen (@nil (Z * Z))) with 0 in *.

(* ------------------------------------------------------------------ *)
(* the (weight, index) list of the weighted columns of a segment        *)

Fixpoint weighted_of (cs : list col) (i : Z) : list (Z * Z) :=
  match cs with
  | [] => []
  | c :: r => if is_weight c then (snd c, i) :: weighted_of r (i + 1) else weighted_of r (i + 1)
  end.

Lemma weighted_of_In cs : forall i w j,
  In (w, j) (weighted_of cs i) <-> (i <= j /\ nthz cs (j - i) = Some (KWeight, w)).
Proof.
  induction cs as [|c r IH]; intros i w j; cbn [weighted_of].
  - split; [intros []|]. intros [_ H]. unfold nthz in H. destruct (j - i <? 0); [discriminate|].
    destruct (Z.to_nat (j - i)); discriminate.
  - assert (Hstep : forall (P : Prop), (P <-> (i + 1 <= j /\ nthz r (j - (i + 1)) = Some (KWeight, w))) ->
              (i < j -> (P <-> i <= j /\ nthz (c :: r) (j - i) = Some (KWeight, w)))).
    { intros P HP Hlt. rewrite HP. replace (j - i) with (j - (i + 1) + 1) by lia.
      rewrite nthz_cons_succ by lia. intuition lia. }
    destruct (is_weight c) eqn:Ew.
    + cbn [In]. destruct (Z.eq_dec i j) as [->|Hne].
      * replace (j - j) with 0 by lia. rewrite nthz_cons_zero.
        split.
        -- intros [H|H]; [|apply IH in H; lia]. injection H as <-. split; [lia|].
           destruct c as [[] a]; cbn in Ew; try discriminate. reflexivity.
        -- intros [_ H]. left. injection H as ->. reflexivity.
      * split.
        -- intros [H|H]; [injection H; intros; lia|].
           pose proof H as H'. apply IH in H'. apply (Hstep _ (IH _ _ _)); [lia|exact H].
        -- intros [Hle H]. right. apply (Hstep _ (IH (i + 1) w j)); [lia|]. split; assumption.
    + destruct (Z.eq_dec i j) as [->|Hne].
      * replace (j - j) with 0 by lia. rewrite nthz_cons_zero. split.
        -- intros H. apply IH in H. lia.
        -- intros [_ H]. injection H as ->. discriminate.
      * split.
        -- intros H. pose proof H as H'. apply IH in H'. apply (Hstep _ (IH _ _ _)); [lia|exact H].
        -- intros [Hle H]. apply (Hstep _ (IH (i + 1) w j)); [lia|]. split; assumption.
Qed.

Lemma weighted_of_ge cs i p : In p (weighted_of cs i) -> i <= snd p.
Proof. destruct p as [w j]. intros H. apply weighted_of_In in H. cbn. lia. Qed.

Lemma weighted_of_NoDup cs : forall i, NoDup (map snd (weighted_of cs i)).
Proof.
  induction cs as [|c r IH]; intros i; cbn [weighted_of]; [constructor|].
  destruct (is_weight c); [|apply IH]. cbn [map snd]. constructor; [|apply IH].
  intros H. apply in_map_iff in H. destruct H as [p [Hp Hin]].
  apply weighted_of_ge in Hin. lia.
Qed.

Lemma weighted_of_static minw cs i p :
  In p (weighted_of cs i) -> nthz (map (static_of minw) cs) (snd p - i) = Some minw.
Proof.
  destruct p as [w j]. intros H. apply weighted_of_In in H. destruct H as [_ H].
  cbn [snd]. rewrite nthz_map, H. reflexivity.
Qed.

Lemma weighted_of_weights cs i :
  Forall (fun c : col => is_weight c = true -> 1 <= snd c) cs ->
  Forall (fun p => 1 <= fst p) (weighted_of cs i).
Proof.
  intros H. revert i. induction H as [|c r Hc Hr IH]; intros i; cbn [weighted_of]; [constructor|].
  destruct (is_weight c) eqn:E; [constructor; [cbn; auto|apply IH]|apply IH].
Qed.

Lemma weighted_of_nil_iff cs i :
  weighted_of cs i = [] <-> Forall (fun c => is_weight c = false) cs.
Proof.
  revert i. induction cs as [|c r IH]; intros i; cbn [weighted_of].
  - split; constructor.
  - destruct (is_weight c) eqn:E.
    + split; [discriminate|]. intros H. inversion H; congruence.
    + split.
      * intros H. constructor; [assumption|]. now apply (IH (i + 1)).
      * intros H. apply (IH (i + 1)). now inversion H.
Qed.

(* ------------------------------------------------------------------ *)
(* first loop                                                          *)

Lemma cw_scan_spec div minw focus cs : forall i shared ws wt sh,
  cw_scan div minw focus cs i shared = (ws, wt, sh) ->
  exists pre post, cs = pre ++ post /\ ws = map (static_of minw) pre /\ wt = weighted_of pre i /\
    sh = shared - zsum ws - div * zlen ws /\
    (i <= focus < i + zlen cs -> focus < i + zlen pre) /\
    (pre <> [] -> focus < i + zlen pre - 1 -> 0 <= sh).
Proof.
  induction cs as [|c r IH]; intros i shared ws wt sh; cbn [cw_scan].
  - intros H. injection H as <- <- <-. exists [], []. cbn [map weighted_of zsum app].
    znil. repeat split; try reflexivity; try lia; congruence.
  - destruct ((shared <? static_of minw c + div) && (focus <? i)) eqn:Eb.
    + intros H. injection H as <- <- <-. exists [], (c :: r). cbn [map weighted_of zsum app].
      znil. repeat split; try reflexivity; try lia; congruence.
    + destruct (cw_scan div minw focus r (i + 1) (shared - (static_of minw c + div))) as [[ws' wt'] sh'] eqn:Er.
      intros H. injection H as <- <- <-.
      destruct (IH _ _ _ _ _ Er) as [pre [post [Hcs [Hws [Hwt [Hsh [Hf1 Hf2]]]]]]].
      exists (c :: pre), post. subst r ws' wt'.
      cbn [map weighted_of zsum app]. rewrite !zlen_cons, ?zlen_map in *.
      repeat split; try reflexivity.
      * lia.
      * intros Hr. destruct (Z.eq_dec focus i); [pose proof (zlen_nonneg pre); lia|].
        lia.
      * intros _ Hr. destruct pre as [|c2 pre'].
        -- cbn [map zsum] in *. znil. lia.
        -- apply Hf2; [congruence|]. lia.
Qed.

(* ------------------------------------------------------------------ *)
(* second loop                                                         *)

Lemma cw_drop_spec div minw pre : forall i sh ws2 wt2 sh2,
  cw_drop div (map (static_of minw) pre) i (weighted_of pre i) sh = (ws2, wt2, sh2) ->
  exists dr kept, pre = dr ++ kept /\
    ws2 = repeat 0 (length dr) ++ map (static_of minw) kept /\
    wt2 = weighted_of kept (i + zlen dr) /\
    sh2 = sh + zsum (map (static_of minw) dr) + div * zlen dr /\
    (kept <> [] -> 0 <= sh2) /\
    (forall a b, pre = a ++ b -> 0 <= sh + zsum (map (static_of minw) a) + div * zlen a ->
                 (length dr <= length a)%nat).
Proof.
  induction pre as [|c r IH]; intros i sh ws2 wt2 sh2; cbn [map cw_drop weighted_of].
  - intros H. injection H as <- <- <-. exists [], []. cbn. znil.
    repeat split; try lia; try reflexivity. congruence.
  - destruct (0 <=? sh) eqn:E0.
    + intros H. injection H as <- <- <-. exists [], (c :: r). cbn [length repeat app map zsum weighted_of].
      znil. replace (i + 0) with i by lia.
      repeat split; try reflexivity; try lia.
    + set (wt' := match (if is_weight c then (snd c, i) :: weighted_of r (i + 1) else weighted_of r (i + 1)) with
                  | (_, j) :: t => if j =? i then t else (if is_weight c then (snd c, i) :: weighted_of r (i + 1) else weighted_of r (i + 1))
                  | [] => []
                  end).
      assert (Hwt' : wt' = weighted_of r (i + 1)).
      { subst wt'. destruct (is_weight c).
        - rewrite Z.eqb_refl. reflexivity.
        - destruct (weighted_of r (i + 1)) as [|[w j] t] eqn:Ew; [reflexivity|].
          assert (i + 1 <= j) by (apply (weighted_of_ge r (i + 1) (w, j)); rewrite Ew; now left).
          destruct (j =? i) eqn:Ej; [lia|reflexivity]. }
      fold wt'. rewrite Hwt'.
      destruct (cw_drop div (map (static_of minw) r) (i + 1) (weighted_of r (i + 1)) (sh + (static_of minw c + div)))
        as [[r' wt2'] sh'] eqn:Er.
      intros H. injection H as <- <- <-.
      destruct (IH _ _ _ _ _ Er) as [dr [kept [Hpre [Hws [Hwt [Hsh [Hk Hmin]]]]]]].
      exists (c :: dr), kept. subst r r' wt2'.
      cbn [length repeat app map zsum]. rewrite zlen_cons.
      repeat split; try reflexivity.
      * f_equal. lia.
      * lia.
      * assumption.
      * intros a b Hab Hge. destruct a as [|c2 a'].
        -- cbn [map zsum] in Hge. znil. lia.
        -- cbn [app] in Hab. injection Hab as <- Hab. cbn [length].
           apply le_n_S. apply (Hmin a' b Hab). cbn [map zsum] in Hge. rewrite zlen_cons in Hge. lia.
Qed.

(* ------------------------------------------------------------------ *)
(* third loop: the shares of the weighted columns                      *)

(* a single remaining weight takes everything *)
Lemma rhu_all G a : 0 <= G -> 1 <= a -> round_half_up_div (G * a) a = G.
Proof.
  intros HG Ha. pose proof (rhu_bounds (G * a) a ltac:(nia) ltac:(lia)) as H. cbv zeta in H.
  revert H. generalize (round_half_up_div (G * a) a). intros r H. nia.
Qed.

(* the crux of the loop invariant: after giving the lightest of k remaining columns its
   share, at least (k-1)*min_width is left for the others *)
Lemma alloc_step_bound G a W k m :
  1 <= a -> k * a <= W -> 2 <= k -> 0 <= m -> k * m <= G ->
  Z.max (round_half_up_div (G * a) W) m <= G - (k - 1) * m.
Proof.
  intros Ha HW Hk Hm HG.
  assert (0 <= G) by nia.
  pose proof (rhu_bounds (G * a) W ltac:(nia) ltac:(nia)) as H0. cbv zeta in H0.
  revert H0. generalize (round_half_up_div (G * a) W). intros r [[Hr1 Hr2] Hr0].
  apply Z.max_lub; [|nia].
  (* suppose r >= G - (k-1) m + 1 *)
  destruct (Z_le_gt_dec r (G - (k - 1) * m)) as [|Hgt]; [assumption|exfalso].
  set (q := G - (k - 1) * m) in *.
  assert (Hq : m <= q) by (subst q; nia).
  assert (H1 : 2 * W * (q + 1) <= 2 * (G * a) + W) by nia.
  assert (H2 : k * (2 * (G * a)) <= 2 * G * W) by nia.
  assert (H3 : k * (2 * W * (q + 1)) <= 2 * G * W + k * W) by nia.
  (* k*(q+1) = k*G - k*(k-1)*m + k ; and G >= k m *)
  assert (H4 : W * (2 * k * (q + 1)) <= W * (2 * G + k)) by nia.
  assert (H5 : 2 * k * (q + 1) <= 2 * G + k) by (apply Zmult_le_reg_r with (p := W); nia).
  assert (H6 : 2 * (k - 1) * (G - k * m) + k <= 0) by (subst q; nia).
  assert (0 <= (k - 1) * (G - k * m)) by nia.
  lia.
Qed.

Lemma cw_alloc_spec minw : forall l G W,
  asc l -> Forall (fun p => 1 <= fst p) l -> W = zsum (map fst l) -> 0 <= minw -> zlen l * minw <= G ->
  exists al, cw_alloc minw l G W = Ok al /\ map fst al = map snd l /\
             Forall (fun p => minw <= snd p) al /\
             (l <> [] -> zsum (map snd al) = G).
Proof.
  induction l as [|[a i] r IH]; intros G W Hasc Hw HW Hm HG.
  - exists []. cbn. repeat split; try constructor. congruence.
  - cbn [cw_alloc]. cbn [asc] in Hasc. destruct Hasc as [Hmin Hasc].
    inversion Hw as [|? ? Ha Hwr]; subst. cbn [fst] in Ha.
    cbn [map zsum fst] in *. rewrite zlen_cons in HG.
    pose proof (zlen_nonneg r) as Hlen.
    assert (Hsum : zlen r <= zsum (map fst r)).
    { rewrite <- (zlen_map fst). apply zsum_ge_len. rewrite Forall_map. exact Hwr. }
    destruct (a + zsum (map fst r) =? 0) eqn:E0; [lia|].
    set (width := Z.max (round_half_up_div (G * a) (a + zsum (map fst r))) minw).
    assert (Hwm : minw <= width) by (subst width; lia).
    destruct r as [|[a2 i2] r2].
    + (* last column *)
      cbn [cw_alloc bind map zsum]. exists [(i, width)]. cbn [map fst snd zsum].
      znil. repeat split; try (repeat constructor; assumption).
      intros _. subst width. cbn [map zsum]. replace (a + 0) with a by lia.
      rewrite rhu_all by lia. lia.
    + assert (Hk : (zlen ((a2, i2) :: r2) + 1) * a <= a + zsum (map fst ((a2, i2) :: r2))).
      { (* every later weight is >= a *)
        assert (Hall : Forall (fun p => a <= fst p) ((a2, i2) :: r2)).
        { apply Forall_forall. intros y Hy. apply (Hmin y Hy). }
        clear - Hall. induction Hall as [|y t Hy Ht IHt]; cbn [map zsum]; znil; rewrite ?zlen_cons; [lia|].
        lia. }
      assert (Hb : width <= G - (zlen ((a2, i2) :: r2) + 1 - 1) * minw).
      { subst width. pose proof (zlen_nonneg r2). rewrite zlen_cons in *. apply alloc_step_bound; lia. }
      destruct (IH (G - width) (a + zsum (map fst ((a2, i2) :: r2)) - a) Hasc Hwr ltac:(lia) Hm ltac:(lia))
        as [al [Hal [Hidx [Hmin' Hs]]]].
      fold width. rewrite Hal. cbn [bind]. exists ((i, width) :: al). cbn [map fst snd zsum].
      repeat split.
      * f_equal. exact Hidx.
      * constructor; assumption.
      * intros _. rewrite Hs by congruence. lia.
Qed.

(* ------------------------------------------------------------------ *)
(* writing the shares back                                             *)

Lemma apply_allocs_cons ws p al :
  apply_allocs ws (p :: al) = apply_allocs (set_nthz ws (fst p) (snd p)) al.
Proof. reflexivity. Qed.

Lemma apply_allocs_len al : forall ws, zlen (apply_allocs ws al) = zlen ws.
Proof.
  induction al as [|p al IH]; intros ws; [reflexivity|].
  rewrite apply_allocs_cons, IH. apply set_nthz_length.
Qed.

Lemma apply_allocs_Forall (P : Z -> Prop) al : forall ws,
  Forall P ws -> Forall (fun p => P (snd p)) al -> Forall P (apply_allocs ws al).
Proof.
  induction al as [|p al IH]; intros ws Hws Hal; [exact Hws|].
  inversion Hal; subst. rewrite apply_allocs_cons. apply IH; [|assumption].
  apply set_nthz_Forall; assumption.
Qed.

Lemma apply_allocs_other al : forall ws j,
  ~ In j (map fst al) -> nthz (apply_allocs ws al) j = nthz ws j.
Proof.
  induction al as [|p al IH]; intros ws j Hj; [reflexivity|].
  rewrite apply_allocs_cons. cbn [map In] in Hj.
  rewrite IH by tauto. apply nthz_set_nthz_other. tauto.
Qed.

Lemma apply_allocs_in al : forall ws j v,
  NoDup (map fst al) -> In (j, v) al -> 0 <= j < zlen ws -> nthz (apply_allocs ws al) j = Some v.
Proof.
  induction al as [|p al IH]; intros ws j v Hnd Hin Hr; [destruct Hin|].
  rewrite apply_allocs_cons. cbn [map] in Hnd. inversion Hnd as [|? ? Hni Hnd']; subst.
  destruct Hin as [->|Hin].
  - cbn [fst snd] in *. rewrite apply_allocs_other by assumption. now apply nthz_set_nthz_same.
  - apply IH; try assumption. now rewrite set_nthz_length.
Qed.

Lemma apply_allocs_sum m al : forall ws,
  NoDup (map fst al) -> (forall p, In p al -> nthz ws (fst p) = Some m) ->
  zsum (apply_allocs ws al) = zsum ws - zlen al * m + zsum (map snd al).
Proof.
  induction al as [|p al IH]; intros ws Hnd Hm.
  - cbn. znil. lia.
  - rewrite apply_allocs_cons. cbn [map] in Hnd. inversion Hnd as [|? ? Hni Hnd']; subst.
    rewrite IH; try assumption.
    + rewrite (zsum_set_nthz ws (fst p) (snd p) m) by (apply Hm; now left).
      cbn [map zsum]. rewrite zlen_cons. lia.
    + intros q Hq. rewrite nthz_set_nthz_other; [apply Hm; now right|].
      intros Heq. apply Hni. rewrite Heq. now apply in_map.
Qed.

(* ------------------------------------------------------------------ *)
(* the shape of the result                                             *)

(* hypotheses of the statement: given and packed sizes are non-negative, weights positive *)
Definition col_ok (c : col) : Prop :=
  match fst c with KWeight => 1 <= snd c | _ => 0 <= snd c end.
(* every column has a positive own size (given >= 1, packed >= 1) *)
Definition col_pos (c : col) : Prop :=
  match fst c with KWeight => 1 <= snd c | _ => 1 <= snd c end.

Lemma col_ok_weight cs : Forall col_ok cs -> Forall (fun c : col => is_weight c = true -> 1 <= snd c) cs.
Proof.
  intros H. eapply Forall_impl; [|exact H]. intros [[] a]; unfold col_ok, is_weight; cbn; intros; try discriminate; lia.
Qed.

Lemma static_nonneg minw cs : 0 <= minw -> Forall col_ok cs -> Forall (fun x => 0 <= x) (map (static_of minw) cs).
Proof.
  intros Hm H. rewrite Forall_map. eapply Forall_impl; [|exact H].
  intros [[] a]; unfold col_ok, static_of; cbn; lia.
Qed.

(* The result of column_widths: [dr] columns dropped on the left (width 0), [kept] columns
   shown, [post] columns cut off on the right (absent from the list). *)
Record cw_shape (cs : list col) (div minw focus maxcol : Z) (F : list Z)
                (dr kept post : list col) : Prop := {
  sh_split : cs = dr ++ kept ++ post;
  sh_len : zlen F = zlen dr + zlen kept;
  sh_zero : forall j, 0 <= j < zlen dr -> nthz F j = Some 0;
  sh_fixed : forall j c, nthz kept j = Some c -> is_weight c = false -> nthz F (zlen dr + j) = Some (snd c);
  sh_weight : forall j c, nthz kept j = Some c -> is_weight c = true ->
                exists v, nthz F (zlen dr + j) = Some v /\ minw <= v;
  sh_sum_le : zsum F + div * zlen kept <= maxcol + div;
  sh_sum_eq : Exists (fun c => is_weight c = true) kept -> zsum F + div * zlen kept = maxcol + div;
  sh_focus_in : focus < zlen dr + zlen kept;
  sh_focus_kept : forall c, nthz cs focus = Some c -> static_of minw c <= maxcol -> zlen dr <= focus;
  sh_nonneg : Forall (fun x => 0 <= x) F;
  (* how the weighted columns that are kept got their widths: [l] is the sorted (weight, index)
     list, [al] the (index, width) assignments in the same order; either nothing was left to
     distribute (all stay at min_width) or al is what the sharing loop computed *)
  sh_alloc : exists l al,
      Permutation (weighted_of kept (zlen dr)) l /\ asc l /\ map fst al = map snd l /\
      (forall p, In p al -> nthz F (fst p) = Some (snd p)) /\
      (Forall (fun p => snd p = minw) al \/
       (cw_alloc minw l (zsum (map snd al)) (zsum (map fst l)) = Ok al /\
        zlen l * minw <= zsum (map snd al) /\ l <> []))
}.

Lemma Exists_weight_not_nil kept i :
  Exists (fun c => is_weight c = true) kept -> weighted_of kept i <> [].
Proof.
  intros H Hn. apply weighted_of_nil_iff in Hn. apply Exists_exists in H. destruct H as [c [Hin Hc]].
  rewrite Forall_forall in Hn. specialize (Hn c Hin). congruence.
Qed.

Theorem column_widths_total_shape cs div minw focus maxcol :
  Forall col_ok cs -> 0 <= div -> 0 <= minw -> 0 <= maxcol -> 0 <= focus < zlen cs ->
  exists F dr kept post, column_widths cs div minw focus maxcol = Ok F /\
    cw_shape cs div minw focus maxcol F dr kept post.
Proof.
  intros Hok Hdiv Hm Hmax Hfoc. unfold column_widths.
  destruct (cw_scan div minw focus cs 0 (maxcol + div)) as [[ws wt] sh] eqn:Escan.
  destruct (cw_scan_spec _ _ _ _ _ _ _ _ _ Escan) as [pre [post [Hcs [Hws [Hwt [Hsh [Hf1 Hf2]]]]]]].
  subst ws wt.
  destruct (cw_drop div (map (static_of minw) pre) 0 (weighted_of pre 0) sh) as [[ws2 wt2] sh2] eqn:Edrop.
  destruct (cw_drop_spec _ _ _ _ _ _ _ _ Edrop) as [dr [kept [Hpre [Hws2 [Hwt2 [Hsh2 [Hk Hmin]]]]]]].
  assert (Hokpre : Forall col_ok pre) by (subst cs; apply Forall_app in Hok; tauto).
  assert (Hokdr : Forall col_ok dr) by (subst pre; apply Forall_app in Hokpre; tauto).
  assert (Hokkept : Forall col_ok kept) by (subst pre; apply Forall_app in Hokpre; tauto).
  rewrite zlen_map in Hsh.
  assert (Hsh2' : sh2 = maxcol + div - zsum (map (static_of minw) kept) - div * zlen kept).
  { subst sh2 sh pre. rewrite map_app, zsum_app, zlen_app. lia. }
  assert (Hsh2nn : 0 <= sh2).
  { destruct kept as [|k0 kept']; [|apply Hk; congruence].
    rewrite Hsh2'. cbn [map zsum]. znil. lia. }
  assert (Hfocus_in : focus < zlen dr + zlen kept).
  { specialize (Hf1 ltac:(lia)). subst pre. rewrite zlen_app in Hf1. lia. }
  assert (Hfocus_kept : forall c, nthz cs focus = Some c -> static_of minw c <= maxcol -> zlen dr <= focus).
  { intros c Hc Hfit.
    (* either the scan went beyond the focus column (then nothing is dropped) or the focus
       column is the last one scanned *)
    destruct (Z_lt_ge_dec focus (0 + zlen pre - 1)) as [Hlt|Hge].
    - assert (pre <> []) by (intros ->; znil; lia).
      specialize (Hf2 H Hlt). specialize (Hmin [] pre eq_refl).
      cbn [map zsum length] in Hmin. znil. specialize (Hmin ltac:(lia)).
      unfold zlen. lia.
    - assert (Hfl : focus = zlen pre - 1) by (specialize (Hf1 ltac:(lia)); lia).
      (* split pre at the focus column *)
      assert (Hc' : nthz pre focus = Some c).
      { rewrite Hcs in Hc. rewrite nthz_app_l in Hc by lia. exact Hc. }
      unfold nthz in Hc'. destruct (focus <? 0) eqn:E; [lia|].
      apply nth_error_split in Hc'. destruct Hc' as [a [b [Hab Hla]]].
      assert (b = []).
      { assert (zlen pre = zlen a + 1 + zlen b) by (rewrite Hab, zlen_app, zlen_cons; lia).
        assert (zlen a = focus) by (unfold zlen; lia).
        apply zlen_zero_nil. lia. }
      subst b. specialize (Hmin a [c] Hab).
      assert (0 <= sh + zsum (map (static_of minw) a) + div * zlen a).
      { rewrite Hsh, Hab, map_app, zsum_app, zlen_app. cbn [map zsum]. rewrite zlen_cons; znil. lia. }
      specialize (Hmin H). unfold zlen. lia. }
  assert (Hbase_nn : Forall (fun x => 0 <= x) ws2).
  { subst ws2. apply Forall_app. split.
    - apply Forall_forall. intros x Hx. apply repeat_spec in Hx. lia.
    - now apply static_nonneg. }
  assert (Hbase_len : zlen ws2 = zlen dr + zlen kept).
  { subst ws2. rewrite zlen_app, zlen_repeat, zlen_map. unfold zlen. lia. }
  assert (Hbase_zero : forall j, 0 <= j < zlen dr -> nthz ws2 j = Some 0).
  { intros j Hj. subst ws2. rewrite nthz_app_l by (rewrite zlen_repeat; unfold zlen in *; lia).
    destruct (nthz (repeat 0 (length dr)) j) eqn:E.
    - apply nthz_repeat in E. now subst.
    - exfalso. unfold nthz in E. destruct (j <? 0) eqn:E2; [lia|].
      apply nth_error_None in E. rewrite repeat_length in E. unfold zlen in Hj. lia. }
  assert (Hbase_kept : forall j c, nthz kept j = Some c -> nthz ws2 (zlen dr + j) = Some (static_of minw c)).
  { intros j c Hc. pose proof (nthz_range _ _ _ Hc). subst ws2.
    rewrite nthz_app_r by (rewrite zlen_repeat; unfold zlen; lia).
    rewrite zlen_repeat. replace (zlen dr + j - Z.of_nat (length dr)) with j by (unfold zlen; lia).
    rewrite nthz_map, Hc. reflexivity. }
  assert (Hbase_sum : zsum ws2 = zsum (map (static_of minw) kept)).
  { subst ws2. rewrite zsum_app, zsum_repeat0. lia. }
  replace (0 + zlen dr) with (zlen dr) in Hwt2 by lia.
  destruct (sh2 =? 0) eqn:Ez.
  - (* nothing to distribute *)
    exists ws2, dr, kept, post. split; [reflexivity|]. split; try assumption.
    + subst cs pre. now rewrite app_assoc.
    + intros j c Hc Hw. rewrite (Hbase_kept _ _ Hc). f_equal.
      destruct c as [[] a]; cbn in Hw; try discriminate; reflexivity.
    + intros j c Hc Hw. exists minw. rewrite (Hbase_kept _ _ Hc). split; [|lia]. f_equal.
      destruct c as [[] a]; cbn in Hw; try discriminate; reflexivity.
    + lia.
    + intros _. lia.
    + exists (sort_pairs wt2), (map (fun p => (snd p, minw)) (sort_pairs wt2)).
      split; [subst wt2; apply sort_pairs_perm|]. split; [apply sort_pairs_asc|].
      split; [rewrite map_map; reflexivity|]. split.
      * intros p Hp. apply in_map_iff in Hp. destruct Hp as [[w j] [<- Hin]]. cbn [fst snd].
        apply (Permutation_in _ (Permutation_sym (sort_pairs_perm wt2))) in Hin. subst wt2.
        pose proof (weighted_of_static minw _ _ _ Hin) as Hs. cbn [snd] in Hs.
        pose proof (weighted_of_ge _ _ _ Hin) as Hge. cbn [snd] in Hge.
        subst ws2. rewrite nthz_app_r by (rewrite zlen_repeat; unfold zlen in *; lia).
        rewrite zlen_repeat. replace (Z.of_nat (length dr)) with (zlen dr) by reflexivity. exact Hs.
      * left. rewrite Forall_map. apply Forall_forall. intros; reflexivity.
  - (* share sh2 + k*minw among the weighted columns kept *)
    set (wtotal := zsum (map fst wt2)). set (grow := sh2 + zlen wt2 * minw).
    assert (Hperm : Permutation wt2 (sort_pairs wt2)) by apply sort_pairs_perm.
    assert (Hw1 : Forall (fun p => 1 <= fst p) wt2).
    { subst wt2. apply weighted_of_weights. now apply col_ok_weight. }
    destruct (cw_alloc_spec minw (sort_pairs wt2) grow wtotal) as [al [Hal [Hidx [Halmin Halsum]]]].
    + apply sort_pairs_asc.
    + eapply Permutation_Forall; [exact Hperm|exact Hw1].
    + subst wtotal. apply zsum_perm. now apply Permutation_map.
    + exact Hm.
    + subst grow. rewrite <- (perm_zlen _ _ Hperm). lia.
    + rewrite Hal. cbn [bind].
      assert (Hnd : NoDup (map fst al)).
      { rewrite Hidx. eapply Permutation_NoDup; [apply Permutation_map; exact Hperm|].
        subst wt2. apply weighted_of_NoDup. }
      assert (Hal_in : forall j, In j (map fst al) <-> exists w, In (w, j) wt2).
      { intros j. rewrite Hidx. split.
        - intros H. apply in_map_iff in H. destruct H as [[w j'] [Hj Hin]]. cbn in Hj. subst j'.
          exists w. eapply Permutation_in; [apply Permutation_sym; exact Hperm|exact Hin].
        - intros [w Hin]. apply in_map_iff. exists (w, j). split; [reflexivity|].
          eapply Permutation_in; [exact Hperm|exact Hin]. }
      assert (Hal_base : forall p, In p al -> nthz ws2 (fst p) = Some minw).
      { intros p Hp. assert (In (fst p) (map fst al)) by now apply in_map.
        apply Hal_in in H. destruct H as [w Hin]. subst wt2.
        pose proof (weighted_of_static minw _ _ _ Hin) as Hs. cbn [snd] in Hs.
        pose proof (weighted_of_ge _ _ _ Hin) as Hge. cbn [snd] in Hge.
        pose proof (nthz_range _ _ _ Hs) as Hrg. rewrite zlen_map in Hrg.
        subst ws2. rewrite nthz_app_r by (rewrite zlen_repeat; unfold zlen in *; lia).
        rewrite zlen_repeat. replace (Z.of_nat (length dr)) with (zlen dr) by reflexivity. exact Hs. }
      assert (Hlen_al : zlen al = zlen wt2).
      { rewrite <- (zlen_map fst al), Hidx, zlen_map. symmetry. now apply perm_zlen. }
      exists (apply_allocs ws2 al), dr, kept, post. split; [reflexivity|]. split; try assumption.
      * subst cs pre. now rewrite app_assoc.
      * rewrite apply_allocs_len. exact Hbase_len.
      * intros j Hj. rewrite apply_allocs_other; [now apply Hbase_zero|].
        intros Hin. apply Hal_in in Hin. destruct Hin as [w Hin]. subst wt2.
        apply weighted_of_ge in Hin. cbn in Hin. lia.
      * intros j c Hc Hw. rewrite apply_allocs_other.
        -- rewrite (Hbase_kept _ _ Hc). f_equal. destruct c as [[] a]; cbn in Hw; try discriminate; reflexivity.
        -- intros Hin. apply Hal_in in Hin. destruct Hin as [w Hin]. subst wt2.
           apply weighted_of_In in Hin. destruct Hin as [_ Hin].
           replace (zlen dr + j - zlen dr) with j in Hin by lia. rewrite Hc in Hin.
           injection Hin as ->. discriminate.
      * intros j c Hc Hw.
        assert (Hin : In (zlen dr + j) (map fst al)).
        { apply Hal_in. exists (snd c). subst wt2. apply weighted_of_In.
          pose proof (nthz_range _ _ _ Hc). split; [lia|].
          replace (zlen dr + j - zlen dr) with j by lia. rewrite Hc. f_equal.
          destruct c as [[] a]; cbn in Hw; try discriminate; reflexivity. }
        apply in_map_iff in Hin. destruct Hin as [[j' v] [Hj' Hin]]. cbn in Hj'. subst j'.
        exists v. split.
        -- apply apply_allocs_in; try assumption. pose proof (nthz_range _ _ _ Hc).
           pose proof (zlen_nonneg dr). rewrite Hbase_len. lia.
        -- rewrite Forall_forall in Halmin. apply (Halmin _ Hin).
      * rewrite (apply_allocs_sum minw) by assumption. rewrite Hbase_sum, Hlen_al.
        destruct wt2 as [|p0 wt2'] eqn:Ewt2.
        -- cbn [sort_pairs] in *. destruct al; [|discriminate]. cbn [map zsum]. znil. lia.
        -- rewrite Halsum.
           ++ subst grow. lia.
           ++ intros Hn. rewrite Hn in Hperm. apply Permutation_sym, Permutation_nil in Hperm. discriminate.
      * intros Hex. rewrite (apply_allocs_sum minw) by assumption. rewrite Hbase_sum, Hlen_al.
        rewrite Halsum.
        -- subst grow. lia.
        -- intros Hn. rewrite Hn in Hperm. apply Permutation_sym, Permutation_nil in Hperm.
           subst wt2. revert Hperm. now apply Exists_weight_not_nil.
      * apply apply_allocs_Forall; [assumption|].
        eapply Forall_impl; [|exact Halmin]. cbn. intros; lia.
      * exists (sort_pairs wt2), al. split; [subst wt2; exact Hperm|]. split; [apply sort_pairs_asc|].
        split; [exact Hidx|]. split.
        -- intros [j v] Hp. cbn [fst snd]. apply apply_allocs_in; try assumption.
           pose proof (Hal_base _ Hp) as Hb. cbn [fst] in Hb. apply nthz_range in Hb. exact Hb.
        -- destruct (sort_pairs wt2) as [|p0 l0] eqn:El.
           ++ left. destruct al; [constructor|discriminate].
           ++ right. rewrite <- El in *. assert (Hne : sort_pairs wt2 <> []) by (rewrite El; discriminate).
              rewrite (Halsum Hne). split; [|split; [|exact Hne]].
              ** replace (zsum (map fst (sort_pairs wt2))) with wtotal; [exact Hal|].
                 subst wtotal. apply zsum_perm. now apply Permutation_map.
              ** subst grow. rewrite <- (perm_zlen _ _ Hperm). lia.
Qed.

Corollary column_widths_shape cs div minw focus maxcol F :
  Forall col_ok cs -> 0 <= div -> 0 <= minw -> 0 <= maxcol -> 0 <= focus < zlen cs ->
  column_widths cs div minw focus maxcol = Ok F ->
  exists dr kept post, cw_shape cs div minw focus maxcol F dr kept post.
Proof.
  intros Hok Hdiv Hm Hmax Hfoc Hrun.
  destruct (column_widths_total_shape cs div minw focus maxcol Hok Hdiv Hm Hmax Hfoc) as [F' [dr [kept [post [HF S]]]]].
  rewrite Hrun in HF. injection HF as <-. eauto.
Qed.

(* with positive weights the division never fails: no exception *)
Corollary column_widths_total cs div minw focus maxcol :
  Forall col_ok cs -> 0 <= div -> 0 <= minw -> 0 <= maxcol -> 0 <= focus < zlen cs ->
  exists F, column_widths cs div minw focus maxcol = Ok F.
Proof.
  intros Hok Hdiv Hm Hmax Hfoc.
  destruct (column_widths_total_shape cs div minw focus maxcol Hok Hdiv Hm Hmax Hfoc) as [F [dr [kept [post [HF S]]]]].
  eauto.
Qed.

(* ------------------------------------------------------------------ *)
(* the clauses of the property, read off the shape                     *)

(* width of column i: a column beyond the end of the list is not shown *)
Definition width_at (F : list Z) (i : Z) : Z := match nthz F i with Some w => w | None => 0 end.
Definition visible (F : list Z) : list Z := filter (fun w => 0 <? w) F.
(* columns needed by the visible columns and the dividers between them *)
Definition vis_need (div : Z) (F : list Z) : Z :=
  zsum (visible F) + div * Z.max 0 (zlen (visible F) - 1).

Lemma nthz_none_beyond {A} (l : list A) j : zlen l <= j -> nthz l j = None.
Proof.
  intros H. unfold nthz. destruct (j <? 0); [reflexivity|]. apply nth_error_None. unfold zlen in H. lia.
Qed.

Lemma zsum_visible F : Forall (fun x => 0 <= x) F -> zsum (visible F) = zsum F.
Proof.
  induction 1 as [|x l Hx Hl IH]; [reflexivity|]. cbn [visible filter zsum].
  destruct (0 <? x) eqn:E; cbn [zsum]; fold (visible l); lia.
Qed.

Lemma visible_count_le F : forall d,
  0 <= d <= zlen F -> (forall j, 0 <= j < d -> nthz F j = Some 0) -> zlen (visible F) <= zlen F - d.
Proof.
  induction F as [|x l IH]; intros d Hd Hz.
  - cbn. znil. lia.
  - rewrite zlen_cons in *. cbn [visible filter]. fold (visible l).
    destruct (Z.eq_dec d 0) as [->|Hne].
    + destruct (0 <? x); rewrite ?zlen_cons; specialize (IH 0 ltac:(pose proof (zlen_nonneg l); lia) ltac:(intros; lia)); lia.
    + pose proof (Hz 0 ltac:(lia)) as H0. rewrite nthz_cons_zero in H0. injection H0 as ->.
      cbn [Z.ltb]. change (0 <? 0) with false. cbv iota.
      specialize (IH (d - 1) ltac:(lia)). 
      assert (forall j, 0 <= j < d - 1 -> nthz l j = Some 0).
      { intros j Hj. rewrite <- (nthz_cons_succ 0 l j) by lia. apply Hz. lia. }
      specialize (IH H). lia.
Qed.

Lemma visible_count_eq F : forall d,
  0 <= d <= zlen F -> (forall j, 0 <= j < d -> nthz F j = Some 0) ->
  (forall j, d <= j < zlen F -> exists v, nthz F j = Some v /\ 1 <= v) ->
  zlen (visible F) = zlen F - d.
Proof.
  induction F as [|x l IH]; intros d Hd Hz Hp.
  - cbn. znil. lia.
  - rewrite zlen_cons in *. cbn [visible filter]. fold (visible l).
    destruct (Z.eq_dec d 0) as [->|Hne].
    + destruct (Hp 0 ltac:(pose proof (zlen_nonneg l); lia)) as [v [Hv Hv1]].
      rewrite nthz_cons_zero in Hv. injection Hv as ->.
      destruct (0 <? v) eqn:E; [|lia]. rewrite zlen_cons.
      rewrite (IH 0); [lia|pose proof (zlen_nonneg l); lia|intros; lia|].
      intros j Hj. destruct (Hp (j + 1) ltac:(lia)) as [v' [Hv' Hv'1]].
      rewrite nthz_cons_succ in Hv' by lia. eauto.
    + pose proof (Hz 0 ltac:(lia)) as H0. rewrite nthz_cons_zero in H0. injection H0 as ->.
      change (0 <? 0) with false. cbv iota.
      rewrite (IH (d - 1)); [lia|lia| |].
      * intros j Hj. rewrite <- (nthz_cons_succ 0 l j) by lia. apply Hz. lia.
      * intros j Hj. destruct (Hp (j + 1) ltac:(lia)) as [v' [Hv' Hv'1]].
        rewrite nthz_cons_succ in Hv' by lia. eauto.
Qed.

Section Clauses.
Variables (cs : list col) (div minw focus maxcol : Z) (F : list Z).
Hypothesis Hok : Forall col_ok cs.
Hypothesis Hdiv : 0 <= div.
Hypothesis Hminw : 0 <= minw.
Hypothesis Hmax : 0 <= maxcol.
Hypothesis Hfoc : 0 <= focus < zlen cs.
Hypothesis Hrun : column_widths cs div minw focus maxcol = Ok F.

Lemma cw_nonneg : Forall (fun w => 0 <= w) F.
Proof.
  destruct (column_widths_shape _ _ _ _ _ _ Hok Hdiv Hminw Hmax Hfoc Hrun) as [dr [kept [post S]]].
  exact (sh_nonneg _ _ _ _ _ _ _ _ _ S).
Qed.

Lemma cw_length : focus < zlen F <= zlen cs.
Proof.
  destruct (column_widths_shape _ _ _ _ _ _ Hok Hdiv Hminw Hmax Hfoc Hrun) as [dr [kept [post S]]].
  pose proof (sh_len _ _ _ _ _ _ _ _ _ S). pose proof (sh_focus_in _ _ _ _ _ _ _ _ _ S).
  pose proof (sh_split _ _ _ _ _ _ _ _ _ S) as Hs. rewrite Hs, !zlen_app.
  pose proof (zlen_nonneg post). lia.
Qed.

(* position i of cs, seen through the split cs = dr ++ kept ++ post *)
Lemma split_cases dr kept post i c :
  cs = dr ++ kept ++ post -> nthz cs i = Some c ->
  (0 <= i < zlen dr) \/ (zlen dr <= i < zlen dr + zlen kept /\ nthz kept (i - zlen dr) = Some c) \/
  (zlen dr + zlen kept <= i).
Proof.
  intros Hs Hc. pose proof (nthz_range _ _ _ Hc) as Hr.
  destruct (Z_lt_ge_dec i (zlen dr)); [left; lia|].
  destruct (Z_lt_ge_dec i (zlen dr + zlen kept)); [|right; right; lia].
  right; left. split; [lia|]. rewrite Hs in Hc. rewrite nthz_app_r in Hc by lia.
  rewrite nthz_app_l in Hc by lia. exact Hc.
Qed.

Lemma cw_given_own_or_zero i c :
  nthz cs i = Some c -> is_weight c = false -> width_at F i = snd c \/ width_at F i = 0.
Proof.
  intros Hc Hw.
  destruct (column_widths_shape _ _ _ _ _ _ Hok Hdiv Hminw Hmax Hfoc Hrun) as [dr [kept [post S]]].
  destruct (split_cases _ _ _ _ _ (sh_split _ _ _ _ _ _ _ _ _ S) Hc) as [H|[[H Hk]|H]]; unfold width_at.
  - right. now rewrite (sh_zero _ _ _ _ _ _ _ _ _ S i H).
  - left. pose proof (sh_fixed _ _ _ _ _ _ _ _ _ S _ _ Hk Hw) as E.
    replace (zlen dr + (i - zlen dr)) with i in E by lia. now rewrite E.
  - right. rewrite nthz_none_beyond; [reflexivity|]. rewrite (sh_len _ _ _ _ _ _ _ _ _ S). lia.
Qed.

Lemma cw_focus_kept c :
  nthz cs focus = Some c -> static_of minw c <= maxcol ->
  (is_weight c = false -> width_at F focus = snd c) /\
  (is_weight c = true -> minw <= width_at F focus).
Proof.
  intros Hc Hfit.
  destruct (column_widths_shape _ _ _ _ _ _ Hok Hdiv Hminw Hmax Hfoc Hrun) as [dr [kept [post S]]].
  pose proof (sh_focus_kept _ _ _ _ _ _ _ _ _ S c Hc Hfit) as Hge.
  pose proof (sh_focus_in _ _ _ _ _ _ _ _ _ S) as Hlt.
  destruct (split_cases _ _ _ _ _ (sh_split _ _ _ _ _ _ _ _ _ S) Hc) as [H|[[H Hk]|H]]; try lia.
  unfold width_at. split; intros Hw.
  - pose proof (sh_fixed _ _ _ _ _ _ _ _ _ S _ _ Hk Hw) as E.
    replace (zlen dr + (focus - zlen dr)) with focus in E by lia. now rewrite E.
  - destruct (sh_weight _ _ _ _ _ _ _ _ _ S _ _ Hk Hw) as [v [E Hv]].
    replace (zlen dr + (focus - zlen dr)) with focus in E by lia. now rewrite E.
Qed.

Lemma cw_fits : vis_need div F <= maxcol.
Proof.
  destruct (column_widths_shape _ _ _ _ _ _ Hok Hdiv Hminw Hmax Hfoc Hrun) as [dr [kept [post S]]].
  unfold vis_need. rewrite (zsum_visible _ (sh_nonneg _ _ _ _ _ _ _ _ _ S)).
  pose proof (sh_len _ _ _ _ _ _ _ _ _ S) as Hl.
  pose proof (zlen_nonneg dr). pose proof (zlen_nonneg kept).
  pose proof (visible_count_le F (zlen dr) ltac:(lia) (sh_zero _ _ _ _ _ _ _ _ _ S)) as Hv.
  pose proof (sh_sum_le _ _ _ _ _ _ _ _ _ S) as Hs.
  pose proof (zlen_nonneg (visible F)).
  pose proof (zsum_nonneg _ (sh_nonneg _ _ _ _ _ _ _ _ _ S)).
  destruct (Z.eq_dec (zlen (visible F)) 0) as [E|E].
  - rewrite E. replace (Z.max 0 (0 - 1)) with 0 by lia.
    assert (zsum (visible F) = 0) by (apply zlen_zero_nil in E; now rewrite E).
    rewrite (zsum_visible _ (sh_nonneg _ _ _ _ _ _ _ _ _ S)) in *. lia.
  - replace (Z.max 0 (zlen (visible F) - 1)) with (zlen (visible F) - 1) by lia. nia.
Qed.

Lemma cw_fills :
  1 <= minw -> Forall col_pos cs ->
  (exists i c, nthz cs i = Some c /\ is_weight c = true /\ 0 < width_at F i) ->
  vis_need div F = maxcol.
Proof.
  intros Hm1 Hpos [i [c [Hc [Hw Hshown]]]].
  destruct (column_widths_shape _ _ _ _ _ _ Hok Hdiv Hminw Hmax Hfoc Hrun) as [dr [kept [post S]]].
  pose proof (sh_len _ _ _ _ _ _ _ _ _ S) as Hl.
  pose proof (zlen_nonneg dr). pose proof (zlen_nonneg kept).
  (* the shown weighted column is one of the kept ones *)
  assert (Hex : Exists (fun c => is_weight c = true) kept).
  { destruct (split_cases _ _ _ _ _ (sh_split _ _ _ _ _ _ _ _ _ S) Hc) as [Hi|[[Hi Hk]|Hi]]; unfold width_at in Hshown.
    - rewrite (sh_zero _ _ _ _ _ _ _ _ _ S i Hi) in Hshown. lia.
    - apply Exists_exists. exists c. split; [eapply nthz_In; exact Hk|exact Hw].
    - rewrite nthz_none_beyond in Hshown by lia. lia. }
  assert (Hkne : 1 <= zlen kept).
  { destruct kept; [inversion Hex|]. rewrite zlen_cons. pose proof (zlen_nonneg kept). lia. }
  assert (Hposk : Forall col_pos kept).
  { rewrite (sh_split _ _ _ _ _ _ _ _ _ S) in Hpos. apply Forall_app in Hpos. destruct Hpos as [_ Hpos].
    apply Forall_app in Hpos. tauto. }
  assert (Hcnt : zlen (visible F) = zlen kept).
  { rewrite (visible_count_eq F (zlen dr)); [lia|lia|exact (sh_zero _ _ _ _ _ _ _ _ _ S)|].
    intros j Hj. destruct (nthz kept (j - zlen dr)) as [c'|] eqn:Ek.
    - assert (Hc' : col_pos c') by (rewrite Forall_forall in Hposk; apply Hposk; eapply nthz_In; exact Ek).
      destruct (is_weight c') eqn:Ew'.
      + destruct (sh_weight _ _ _ _ _ _ _ _ _ S _ _ Ek Ew') as [v [E Hv]].
        replace (zlen dr + (j - zlen dr)) with j in E by lia. exists v. split; [exact E|lia].
      + pose proof (sh_fixed _ _ _ _ _ _ _ _ _ S _ _ Ek Ew') as E.
        replace (zlen dr + (j - zlen dr)) with j in E by lia. exists (snd c'). split; [exact E|].
        destruct c' as [[] a]; unfold col_pos in Hc'; cbn in *; try discriminate; lia.
    - exfalso. unfold nthz in Ek. destruct (j - zlen dr <? 0) eqn:E; [lia|].
      apply nth_error_None in Ek. unfold zlen in *. lia. }
  unfold vis_need. rewrite (zsum_visible _ (sh_nonneg _ _ _ _ _ _ _ _ _ S)), Hcnt.
  pose proof (sh_sum_eq _ _ _ _ _ _ _ _ _ S Hex). replace (Z.max 0 (zlen kept - 1)) with (zlen kept - 1) by lia. lia.
Qed.

End Clauses.

(* ------------------------------------------------------------------ *)
(* proportionality of the shares (third loop)                          *)

(* One step of the loop, seen from the start of the loop: G0 columns are shared among a
   total weight W0; (G, W) is what remains; a is the next weight, w its rounded share.
   If the remaining space deviates from the ideal remaining space G0*W/W0 by at most j/2,
   then w deviates from its ideal share G0*a/W0 by at most (j+1)/2 and the new remainder
   by at most (j+1)/2. *)
Lemma prop_step W0 G0 G W a w j :
  0 < a <= W -> 0 <= j -> 0 < W0 ->
  2 * W * w <= 2 * (G * a) + W < 2 * W * (w + 1) ->
  - (j * W0) <= 2 * (G * W0 - G0 * W) <= j * W0 ->
  (- ((j + 1) * W0) <= 2 * (w * W0 - G0 * a) <= (j + 1) * W0) /\
  (- ((j + 1) * W0) <= 2 * ((G - w) * W0 - G0 * (W - a)) <= (j + 1) * W0).
Proof.
  intros Ha Hj HW0 [Hr1 Hr2] [HD1 HD2].
  set (D := G * W0 - G0 * W) in *. set (dev := w * W0 - G0 * a).
  assert (E : (G - w) * W0 - G0 * (W - a) = D - dev) by (subst D dev; ring). rewrite E. clear E.
  assert (U : 2 * W * dev <= 2 * a * D + W * W0) by (subst D dev; nia).
  assert (L : 2 * a * D - W * W0 < 2 * W * dev) by (subst D dev; nia).
  clearbody D dev.
  assert (A1 : 2 * a * D <= a * (j * W0)) by nia.
  assert (A2 : - (a * (j * W0)) <= 2 * a * D) by nia.
  assert (A3 : a * (j * W0) <= W * (j * W0)) by nia.
  assert (B1 : 2 * (W - a) * D <= (W - a) * (j * W0)) by nia.
  assert (B2 : - ((W - a) * (j * W0)) <= 2 * (W - a) * D) by nia.
  assert (B3 : (W - a) * (j * W0) <= W * (j * W0)) by nia.
  assert (C1 : W * (2 * dev) <= W * ((j + 1) * W0)) by nia.
  assert (C2 : W * (- ((j + 1) * W0)) <= W * (2 * dev)) by nia.
  assert (C3 : W * (2 * (D - dev)) <= W * ((j + 1) * W0)) by nia.
  assert (C4 : W * (- ((j + 1) * W0)) <= W * (2 * (D - dev))) by nia.
  assert (HW : 0 < W) by lia.
  repeat split; apply Zmult_le_reg_r with (p := W); try lia; rewrite !(Z.mul_comm _ W); assumption.
Qed.

(* deviation of a share w of weight a from the ideal G0*a/W0, doubled and scaled by W0 *)
Definition dev_ok (G0 W0 bound : Z) (a w : Z) : Prop :=
  - (bound * W0) <= 2 * (w * W0 - G0 * a) <= bound * W0.

(* the loop never raised a share to min_width ("the minimum width does not intervene") *)
Definition unclamped (minw : Z) (al : list (Z * Z)) : Prop := Forall (fun p => minw < snd p) al.

Lemma cw_alloc_proportional_gen minw W0 G0 : 0 < W0 -> 0 <= minw ->
  forall l G W j al,
  asc l -> Forall (fun p => 1 <= fst p) l -> W = zsum (map fst l) -> zlen l * minw <= G -> 0 <= j ->
  - (j * W0) <= 2 * (G * W0 - G0 * W) <= j * W0 ->
  cw_alloc minw l G W = Ok al -> unclamped minw al ->
  Forall2 (fun x y => dev_ok G0 W0 (j + zlen l - 1) (fst x) (snd y)) l al.
Proof.
  intros HW0 Hm. induction l as [|[a i] r IH]; intros G W j al Hasc Hw HW HG Hj HD Hal Hun.
  - cbn in Hal. injection Hal as <-. constructor.
  - cbn [cw_alloc] in Hal. cbn [asc] in Hasc. destruct Hasc as [Hmin Hasc].
    inversion Hw as [|? ? Ha Hwr]; subst. cbn [fst] in Ha.
    cbn [map zsum fst] in *. rewrite zlen_cons in *.
    pose proof (zlen_nonneg r) as Hlen.
    assert (Hsum : zlen r <= zsum (map fst r)).
    { rewrite <- (zlen_map fst). apply zsum_ge_len. rewrite Forall_map. exact Hwr. }
    destruct (a + zsum (map fst r) =? 0) eqn:E0; [lia|].
    set (width := Z.max (round_half_up_div (G * a) (a + zsum (map fst r))) minw) in *.
    destruct (cw_alloc minw r (G - width) (a + zsum (map fst r) - a)) as [al'|] eqn:Er; [|discriminate].
    cbn [bind] in Hal. injection Hal as <-.
    inversion Hun as [|? ? Hu Hun']; subst. cbn [snd] in Hu.
    assert (HG0 : 0 <= G) by nia.
    pose proof (rhu_bounds (G * a) (a + zsum (map fst r)) ltac:(nia) ltac:(lia)) as Hb. cbv zeta in Hb.
    assert (Hwd : width = round_half_up_div (G * a) (a + zsum (map fst r))) by (subst width; lia).
    rewrite <- Hwd in Hb. destruct Hb as [Hb Hb0].
    destruct r as [|[a2 i2] r2].
    + (* last share: exactly what remains *)
      cbn [cw_alloc] in Er. injection Er as <-. constructor; [|constructor].
      cbn [fst snd map zsum] in *. znil.
      assert (width = G).
      { rewrite Hwd. replace (a + 0) with a by lia. apply rhu_all; lia. }
      unfold dev_ok. replace (j + (1 + 0) - 1) with j by lia. rewrite H.
      replace (a + 0) with a in HD by lia. lia.
    + assert (Hk : (zlen ((a2, i2) :: r2) + 1) * a <= a + zsum (map fst ((a2, i2) :: r2))).
      { assert (Hall : Forall (fun p => a <= fst p) ((a2, i2) :: r2)).
        { apply Forall_forall. intros y Hy. apply (Hmin y Hy). }
        clear - Hall. induction Hall as [|y t Hy Ht IHt]; cbn [map zsum]; znil; rewrite ?zlen_cons; [lia|].
        lia. }
      assert (Hbound : width <= G - (zlen ((a2, i2) :: r2) + 1 - 1) * minw).
      { subst width. pose proof (zlen_nonneg r2). rewrite zlen_cons in *. apply alloc_step_bound; lia. }
      pose proof (prop_step W0 G0 G (a + zsum (map fst ((a2, i2) :: r2))) a width j
                    ltac:(lia) Hj HW0 Hb HD) as [Hdev HD'].
      constructor.
      * unfold dev_ok. cbn [fst snd]. pose proof (zlen_nonneg r2). rewrite zlen_cons in *. nia.
      * replace (j + (1 + zlen ((a2, i2) :: r2)) - 1) with ((j + 1) + zlen ((a2, i2) :: r2) - 1) by lia.
        eapply IH; try eassumption; try lia.
Qed.

(* The loop as the code runs it: every share is within (k-1)/2 columns of the proportional
   share G*a/W, k the number of weighted columns; so within 1/2 for two and within one for
   three columns. *)
Theorem cw_alloc_proportional minw l G al :
  0 <= minw -> asc l -> Forall (fun p => 1 <= fst p) l -> zlen l * minw <= G -> l <> [] ->
  cw_alloc minw l G (zsum (map fst l)) = Ok al -> unclamped minw al ->
  Forall2 (fun x y => dev_ok G (zsum (map fst l)) (zlen l - 1) (fst x) (snd y)) l al.
Proof.
  intros Hm Hasc Hw HG Hne Hal Hun.
  assert (0 < zsum (map fst l)).
  { destruct l as [|p r]; [congruence|]. inversion Hw; subst. cbn [map zsum].
    assert (0 <= zsum (map fst r)); [|lia].
    apply zsum_nonneg. rewrite Forall_map. eapply Forall_impl; [|eassumption]. cbn; intros; lia. }
  replace (zlen l - 1) with (0 + zlen l - 1) by lia.
  eapply cw_alloc_proportional_gen; try eassumption; try reflexivity; lia.
Qed.
