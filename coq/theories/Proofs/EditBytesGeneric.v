(* C10 - bytes mode, generic in the byte encoding: an "encoding scheme" is a character type A with
   the bytes of each character ([enc1]), a well-formedness predicate ([okc]) and the facts about
   str_util's move_prev_char / move_next_char / calc_text_pos in the mode m on well-formed text
   (section hypotheses, discharged per mode in EditWideProofs.v from C11's theorems).  From those:
   - the editing keys of the bytes model simulate the character-level reference editor through the
     boundary map [off cs k] = byte offset of character index k;
   - the offset stays on a character boundary along every event history (layout-dependent events
     under the hypothesis that the layout cuts the text at character boundaries). *)
From Coq Require Import ZArith List Bool Lia ZifyBool.
From Urwid Require Import PyBase PyList Utf8 wcwidth_table_gen str_util_gen Width.
From Urwid Require Import Edit EditSpec EditProofs EditBytes.
Import ListNotations.
Open Scope Z_scope.

Arguments Z.add : simpl never.
Arguments Z.sub : simpl never.
Arguments Z.mul : simpl never.
Arguments Z.div : simpl never.
Arguments Z.modulo : simpl never.
Arguments Z.ltb : simpl never.
Arguments Z.leb : simpl never.
Arguments Z.eqb : simpl never.
Arguments Z.gtb : simpl never.
Arguments Z.geb : simpl never.
Arguments Z.min : simpl never.
Arguments Z.max : simpl never.
Arguments Z.to_nat : simpl never.
Arguments Z.of_nat : simpl never.

(* ---------- list facts ---------- *)
Lemma g_takez_dropz_id {A} (l : list A) k : takez k l ++ dropz k l = l.
Proof. unfold takez, dropz. apply firstn_skipn. Qed.

Lemma g_takez_app_zlen {A} (a b : list A) : takez (zlen a) (a ++ b) = a.
Proof.
  unfold takez, zlen. rewrite Nat2Z.id. rewrite firstn_app, Nat.sub_diag, firstn_all. cbn. apply app_nil_r.
Qed.

Lemma g_dropz_app_zlen {A} (a b : list A) : dropz (zlen a) (a ++ b) = b.
Proof.
  unfold dropz, zlen. rewrite Nat2Z.id. rewrite skipn_app, Nat.sub_diag, skipn_all. reflexivity.
Qed.

Lemma g_zlen_takez_le {A} (l : list A) k : 0 <= k <= zlen l -> zlen (takez k l) = k.
Proof. intros. rewrite zlen_takez by lia. lia. Qed.

Lemma g_Forall_takez {A} (P : A -> Prop) l n : Forall P l -> Forall P (takez n l).
Proof.
  intros H. unfold takez. generalize (Z.to_nat n). clear n. intros n. revert l H.
  induction n as [|n IH]; intros l H; [constructor|]. destruct H; cbn [firstn]; constructor; auto.
Qed.

Lemma g_Forall_dropz {A} (P : A -> Prop) l n : Forall P l -> Forall P (dropz n l).
Proof.
  intros H. unfold dropz. generalize (Z.to_nat n). clear n. intros n. revert l H.
  induction n as [|n IH]; intros l H; [exact H|]. destruct H; cbn [skipn]; [constructor|auto].
Qed.

Lemma g_map_takez {A B} (f : A -> B) l k : map f (takez k l) = takez k (map f l).
Proof. unfold takez. symmetry. apply firstn_map. Qed.

Lemma g_map_dropz {A B} (f : A -> B) l k : map f (dropz k l) = dropz k (map f l).
Proof. unfold dropz. symmetry. apply skipn_map. Qed.

Lemma g_zlen_map {A B} (f : A -> B) l : zlen (map f l) = zlen l.
Proof. unfold zlen. rewrite map_length. reflexivity. Qed.

Lemma g_split_at {A} (s : list A) a : 0 <= a < zlen s -> exists c, s = takez a s ++ c :: dropz (a + 1) s.
Proof.
  intros H. unfold takez, dropz. replace (Z.to_nat (a + 1)) with (S (Z.to_nat a)) by lia.
  assert (L: (Z.to_nat a < length s)%nat) by (unfold zlen in H; lia).
  revert L. generalize (Z.to_nat a). clear. intros n. revert s.
  induction n as [|n IH]; intros [|x s] L; cbn in L; try lia.
  - exists x. reflexivity.
  - destruct (IH s ltac:(lia)) as [c E]. exists c. cbn [firstn skipn app]. f_equal. exact E.
Qed.

Section Scheme.
Variable A : Type.
Variable enc1 : A -> list Z.           (* the bytes of one character *)
Variable okc : A -> Prop.              (* well-formed character *)
Variable code : A -> Z.                (* its name in the character-level text *)
Variable m : tmode.
Variable wcw : Z -> Z.
Variable upper : Z -> list Z.
Variable lower : list Z -> list Z.

Definition flat (cs : list A) : list Z := flat_map enc1 cs.
Definition off (cs : list A) (k : Z) : Z := zlen (flat (takez k cs)).
Definition oks (cs : list A) : Prop := Forall okc cs.

(* what is needed of the encoding and of str_util in the mode m *)
Hypothesis enc1_len : forall c, okc c -> 1 <= zlen (enc1 c).
Hypothesis H_prev : forall cs b, oks cs -> 0 < b <= zlen cs ->
  Width.move_prev_char m (flat cs) 0 (off cs b) = Ok (off cs (b - 1)).
Hypothesis H_next : forall cs a, oks cs -> 0 <= a < zlen cs ->
  Width.move_next_char m (flat cs) (off cs a) (zlen (flat cs)) = Ok (off cs (a + 1)).
Hypothesis H_tpos : forall d a b col p, oks d -> 0 <= a <= b -> b <= zlen d -> 0 <= col ->
  btpos wcw m (flat d) (off d a) (off d b) col = Ok p -> exists j, a <= j <= b /\ p = off d j.
(* key.encode(get_encoding(), "replace"); [keyok] = the key strings that are encoded as themselves
   (character names = code points), with their characters *)
Variable kenc : list Z -> list Z.
Variable keyok : list Z -> bool.
Variable keyA : list Z -> list A.
Hypothesis H_key : forall cs, keyok cs = true ->
  kenc cs = flat (keyA cs) /\ oks (keyA cs) /\ map code (keyA cs) = cs.
Variable chA : Z -> A.                 (* the character of an ASCII code (blank, newline) *)
Hypothesis H_ascii : forall c, c = 32 \/ c = 10 -> enc1 (chA c) = [c] /\ okc (chA c) /\ code (chA c) = c.

Notation ref_key := (ref_key (Width.cw wcw) upper lower).
Notation bkeypress := (bkeypress wcw m kenc).

(* ---------- the boundary map ---------- *)
Lemma flat_app a b : flat (a ++ b) = flat a ++ flat b.
Proof. apply flat_map_app. Qed.

Lemma off_0 cs : off cs 0 = 0.
Proof. reflexivity. Qed.

Lemma off_full cs : off cs (zlen cs) = zlen (flat cs).
Proof. unfold off, takez, zlen. rewrite Nat2Z.id, firstn_all. reflexivity. Qed.

Lemma takez_off cs k : takez (off cs k) (flat cs) = flat (takez k cs).
Proof.
  replace (flat cs) with (flat (takez k cs ++ dropz k cs)) by (now rewrite g_takez_dropz_id).
  rewrite flat_app. unfold off. apply g_takez_app_zlen.
Qed.

Lemma dropz_off cs k : dropz (off cs k) (flat cs) = flat (dropz k cs).
Proof.
  replace (flat cs) with (flat (takez k cs ++ dropz k cs)) by (now rewrite g_takez_dropz_id).
  rewrite flat_app. unfold off. apply g_dropz_app_zlen.
Qed.

Lemma off_nonneg cs k : 0 <= off cs k.
Proof. apply zlen_nonneg. Qed.

Lemma off_succ cs a : oks cs -> 0 <= a < zlen cs -> off cs a + 1 <= off cs (a + 1).
Proof.
  intros Ho H. destruct (g_split_at cs a H) as [c E].
  assert (Hc: okc c). { unfold oks in Ho. rewrite Forall_forall in Ho. apply Ho. rewrite E. apply in_or_app. right. left. reflexivity. }
  unfold off.
  assert (T: takez (a + 1) cs = takez a cs ++ [c]).
  { assert (E2: cs = (takez a cs ++ [c]) ++ dropz (a + 1) cs) by (rewrite <- app_assoc; exact E).
    rewrite E2 at 1.
    replace (a + 1) with (zlen (takez a cs ++ [c])) at 1 by (rewrite zlen_app, g_zlen_takez_le by lia; reflexivity).
    apply g_takez_app_zlen. }
  rewrite T, flat_app, zlen_app.
  assert (F1: flat [c] = enc1 c) by (unfold flat; cbn [flat_map]; apply app_nil_r).
  rewrite F1. pose proof (enc1_len c Hc). lia.
Qed.

Lemma off_mono_nat cs a : oks cs -> forall n, 0 <= a -> a + Z.of_nat n <= zlen cs -> off cs a + Z.of_nat n <= off cs (a + Z.of_nat n).
Proof.
  intros Ho n. induction n as [|n IH]; intros Ha Hb.
  - replace (a + Z.of_nat 0) with a by lia. lia.
  - pose proof (IH Ha ltac:(lia)). pose proof (off_succ cs (a + Z.of_nat n) Ho ltac:(lia)).
    replace (a + Z.of_nat (S n)) with (a + Z.of_nat n + 1) by lia. lia.
Qed.

Lemma off_mono cs a b : oks cs -> 0 <= a <= b -> b <= zlen cs -> off cs a + (b - a) <= off cs b.
Proof.
  intros Ho H1 H2. pose proof (off_mono_nat cs a Ho (Z.to_nat (b - a)) ltac:(lia) ltac:(lia)).
  replace (a + Z.of_nat (Z.to_nat (b - a))) with b in H by lia. lia.
Qed.

Lemma off_le_len cs k : oks cs -> 0 <= k <= zlen cs -> off cs k <= zlen (flat cs).
Proof. intros Ho H. rewrite <- off_full. pose proof (off_mono cs k (zlen cs) Ho ltac:(lia) ltac:(lia)). lia. Qed.

Lemma off_lt cs a b : oks cs -> 0 <= a < b -> b <= zlen cs -> off cs a < off cs b.
Proof. intros Ho H1 H2. pose proof (off_mono cs a b Ho ltac:(lia) H2). lia. Qed.

Lemma off_prefix_app a b k : 0 <= k <= zlen a -> off (a ++ b) k = off a k.
Proof.
  intros H. unfold off, takez. f_equal. f_equal.
  rewrite firstn_app. replace (Z.to_nat k - length a)%nat with 0%nat by (unfold zlen in H; lia).
  cbn. apply app_nil_r.
Qed.

Definition insA (cs : list A) (k : Z) (xs : list A) : list A := takez k cs ++ xs ++ dropz k cs.
Definition delA (cs : list A) (a b : Z) : list A := takez a cs ++ dropz b cs.

Lemma flat_insA cs k xs : ins_at (flat cs) (off cs k) (flat xs) = flat (insA cs k xs).
Proof. unfold ins_at, insA. rewrite takez_off, dropz_off, !flat_app. reflexivity. Qed.

Lemma off_insA cs k xs : 0 <= k <= zlen cs -> off (insA cs k xs) (k + zlen xs) = off cs k + zlen (flat xs).
Proof.
  intros H. unfold insA, off at 1.
  replace (k + zlen xs) with (zlen (takez k cs ++ xs)) by (rewrite zlen_app, g_zlen_takez_le by lia; lia).
  rewrite app_assoc, g_takez_app_zlen, flat_app, zlen_app. reflexivity.
Qed.

Lemma code_insA cs k xs : map code (insA cs k xs) = ins_at (map code cs) k (map code xs).
Proof. unfold insA, ins_at. rewrite !map_app, g_map_takez, g_map_dropz. reflexivity. Qed.

Lemma flat_delA cs a b : takez (off cs a) (flat cs) ++ dropz (off cs b) (flat cs) = flat (delA cs a b).
Proof. unfold delA. rewrite takez_off, dropz_off, flat_app. reflexivity. Qed.

Lemma oks_insA cs k xs : oks cs -> oks xs -> oks (insA cs k xs).
Proof.
  intros H1 H2. unfold oks, insA. apply Forall_app. split; [apply g_Forall_takez; exact H1|].
  apply Forall_app. split; [exact H2|apply g_Forall_dropz; exact H1].
Qed.

Lemma oks_delA cs a b : oks cs -> oks (delA cs a b).
Proof. intros H. unfold oks, delA. apply Forall_app. split; [apply g_Forall_takez|apply g_Forall_dropz]; exact H. Qed.

Lemma off_delA_prefix cs a b : 0 <= a <= zlen cs -> off (delA cs a b) a = off cs a.
Proof.
  intros H. unfold delA. rewrite off_prefix_app by (rewrite g_zlen_takez_le by lia; lia).
  unfold off. f_equal. f_equal. unfold takez. rewrite firstn_firstn. f_equal. lia.
Qed.

Lemma zlen_delA cs a b : 0 <= a <= b -> b <= zlen cs -> zlen (delA cs a b) = zlen cs - (b - a).
Proof. intros. unfold delA. rewrite zlen_app, zlen_takez, zlen_dropz by lia. lia. Qed.

Definition asciiA (l : list Z) : list A := map chA l.

Lemma flat_ascii l : Forall (fun c => c = 32 \/ c = 10) l -> flat (asciiA l) = l /\ oks (asciiA l) /\ map code (asciiA l) = l.
Proof.
  induction 1 as [|c r Hc Hr IH]; [repeat split; constructor|].
  destruct IH as (I1 & I2 & I3). destruct (H_ascii c Hc) as (E1 & E2 & E3).
  unfold asciiA, flat in *. cbn [map flat_map]. rewrite E1, I1, E3, I3. repeat split; auto. constructor; assumption.
Qed.

Lemma spaces_ascii n : Forall (fun c => c = 32 \/ c = 10) (spaces n).
Proof. unfold spaces. induction (Z.to_nat n); cbn [replz]; constructor; auto. Qed.

(* ---------- the representation relation ---------- *)
Definition Rg (sb ss : st) : Prop :=
  exists cs, text ss = map code cs /\ text sb = flat cs /\ pos sb = off cs (pos ss) /\ oks cs /\
             multiline sb = multiline ss /\ allow_tab sb = allow_tab ss /\ var ss = VEdit /\ Inv ss.

Lemma Rg_inv sb ss : Rg sb ss -> Inv sb.
Proof.
  intros (cs & Es & Ht & Hp & Ho & _ & _ & _ & HI). unfold Inv in *. rewrite Ht, Hp.
  rewrite Es, g_zlen_map in HI.
  pose proof (off_nonneg cs (pos ss)). pose proof (off_le_len cs (pos ss) Ho HI). lia.
Qed.

Lemma Rg_put sb ss cs' ps :
  Rg sb ss -> oks cs' -> 0 <= ps <= zlen cs' ->
  Rg (put sb (flat cs') (off cs' ps)) (put ss (map code cs') ps).
Proof.
  intros (cs & _ & _ & _ & _ & Hm & Ha & Hv & _) Ho Hr. exists cs'.
  unfold Inv. cbn [put text pos multiline allow_tab var]. rewrite g_zlen_map. tauto.
Qed.

(* insertion of well-formed characters *)
Lemma g_insert sb ss xs :
  Rg sb ss -> oks xs ->
  let '(sb', sg) := insert_text sb (flat xs) in
  Rg sb' (put ss (ins_at (text ss) (pos ss) (map code xs)) (pos ss + zlen (map code xs))) /\
  chain (text sb) sg (text sb').
Proof.
  intros R Hxs. pose proof (Rg_inv _ _ R) as HIb.
  rewrite (insert_text_put sb (flat xs) HIb).
  pose proof R as (cs & Es & Ht & Hp & Ho & Hm & Ha & Hv & HI). pose proof HI as HI'. unfold Inv in HI'.
  rewrite Es, g_zlen_map in HI'.
  split; [|cbn [chain put text]; auto].
  rewrite Ht, Hp, flat_insA. rewrite <- off_insA by exact HI'.
  rewrite Es, <- code_insA, g_zlen_map.
  apply Rg_put; [exact R|apply oks_insA; assumption|].
  unfold insA. rewrite !zlen_app, zlen_takez, zlen_dropz by lia. pose proof (zlen_nonneg xs). lia.
Qed.

(* ---------- the editing keys simulate the reference editor ---------- *)
Definition g_edit_key (k : key) : Prop :=
  match k with
  | KText cs => keyok cs = true
  | KEnter | KLeft | KRight | KBackspace | KDelete => True
  | KTab | KUp | KDown | KHome | KEnd => False
  end.

Theorem g_key_sim sb ss k w lay lay' :
  Rg sb ss -> g_edit_key k ->
  let '(sb', sg, r) := bkeypress sb k w lay in
  Rg sb' (fst (ref_key ss k w lay')) /\ r = snd (ref_key ss k w lay') /\
  chain (text sb) sg (text sb') /\ (r = Ok RUnhandled -> sg = []).
Proof.
  intros R Hk. pose proof (Rg_inv _ _ R) as HIb. pose proof HIb as HIb'. unfold Inv in HIb'.
  pose proof R as (cs & Es & Ht & Hp & Ho & Hm & Ha & Hv & HI). pose proof HI as HI'. unfold Inv in HI'.
  rewrite Es, g_zlen_map in HI'.
  assert (Hp0: (pos sb =? 0) = (pos ss =? 0)).
  { rewrite Hp. destruct (pos ss =? 0) eqn:E.
    - assert (pos ss = 0) by lia. rewrite H. reflexivity.
    - pose proof (off_lt cs 0 (pos ss) Ho ltac:(lia) ltac:(lia)). rewrite off_0 in H. lia. }
  assert (Hpe: (pos sb >=? zlen (text sb)) = (pos ss >=? zlen (text ss))).
  { rewrite Hp, Ht, Es, g_zlen_map, <- off_full. destruct (pos ss >=? zlen cs) eqn:E.
    - assert (pos ss = zlen cs) by lia. rewrite H. lia.
    - pose proof (off_lt cs (pos ss) (zlen cs) Ho ltac:(lia) ltac:(lia)). lia. }
  destruct k; cbn [g_edit_key] in Hk; try contradiction; unfold EditBytes.bkeypress, EditSpec.ref_key; cbv zeta.
  - (* KText *)
    destruct (H_key cs0 Hk) as (K1 & K2 & K3).
    unfold bvalid_char, Edit.valid_char. rewrite Hv.
    destruct cs0 as [|c r]; [cbn [fst snd chain]; splits; auto; discriminate|].
    destruct ((Width.cw wcw c =? 2) || match r with [] => 32 <=? c | _ :: _ => false end).
    + rewrite K1.
      pose proof (g_insert sb ss (keyA (c :: r)) R K2) as B. rewrite K3 in B.
      destruct (insert_text sb (flat (keyA (c :: r)))) as [sb' sg]. destruct B as (B1 & B2).
      cbn [fst snd]. splits; auto; discriminate.
    + cbn [fst snd chain]. splits; auto.
  - (* KEnter *)
    rewrite Hm. destruct (multiline ss).
    + destruct (flat_ascii [10] ltac:(constructor; [auto|constructor])) as (F1 & F2 & F3).
      pose proof (g_insert sb ss (asciiA [10]) R F2) as B. rewrite F1, F3 in B.
      destruct (insert_text sb [10]) as [sb' sg]. destruct B as (B1 & B2).
      cbn [fst snd]. splits; auto; discriminate.
    + cbn [fst snd chain]. splits; auto.
  - (* KLeft *)
    rewrite Hp0. destruct (pos ss =? 0) eqn:E.
    + cbn [fst snd chain]. splits; auto.
    + rewrite Ht, Hp. rewrite (H_prev cs (pos ss) Ho ltac:(lia)).
      pose proof (off_nonneg cs (pos ss - 1)).
      pose proof (off_le_len cs (pos ss - 1) Ho ltac:(lia)).
      rewrite <- Ht. rewrite set_edit_pos_put by (rewrite Ht; lia).
      cbn [fst snd chain put text]. splits; auto; try discriminate.
      rewrite Ht, Es. apply Rg_put; auto; lia.
  - (* KRight *)
    rewrite Hpe. destruct (pos ss >=? zlen (text ss)) eqn:E.
    + cbn [fst snd chain]. splits; auto.
    + rewrite Es, g_zlen_map in E. rewrite Ht, Hp. rewrite (H_next cs (pos ss) Ho ltac:(lia)).
      pose proof (off_nonneg cs (pos ss + 1)).
      pose proof (off_le_len cs (pos ss + 1) Ho ltac:(lia)).
      rewrite <- Ht. rewrite set_edit_pos_put by (rewrite Ht; lia).
      cbn [fst snd chain put text]. splits; auto; try discriminate.
      rewrite Ht, Es. apply Rg_put; auto; lia.
  - (* KBackspace *)
    change (pos (with_pref sb None)) with (pos sb). change (text (with_pref sb None)) with (text sb).
    rewrite Hp0. destruct (pos ss =? 0) eqn:E.
    + cbn [fst snd chain with_pref text]. splits; auto.
    + rewrite Ht, Hp. rewrite (H_prev cs (pos ss) Ho ltac:(lia)).
      rewrite flat_delA.
      set (cs' := delA cs (pos ss - 1) (pos ss)).
      assert (Et': map code cs' = del_at (text ss) (pos ss - 1)).
      { unfold cs', delA, del_at. rewrite Es, map_app, g_map_takez, g_map_dropz. repeat f_equal. lia. }
      pose proof (zlen_delA cs (pos ss - 1) (pos ss) ltac:(lia) ltac:(lia)) as L. fold cs' in L.
      pose proof (oks_delA cs (pos ss - 1) (pos ss) Ho) as Ho'. fold cs' in Ho'.
      pose proof (off_delA_prefix cs (pos ss - 1) (pos ss) ltac:(lia)) as Eb. fold cs' in Eb.
      destruct (set_edit_text (with_pref sb None) (flat cs')) as [s1 sg] eqn:Es1.
      pose proof (set_edit_text_state (with_pref sb None) (flat cs') ltac:(cbn [with_pref pos]; lia)) as H1.
      pose proof (set_edit_text_sigs (with_pref sb None) (flat cs')) as H2.
      rewrite Es1 in H1, H2. cbn [fst snd] in H1, H2. subst s1 sg.
      pose proof (off_nonneg cs' (pos ss - 1)).
      pose proof (off_le_len cs' (pos ss - 1) Ho' ltac:(lia)).
      rewrite set_edit_pos_put by (cbn [put text]; rewrite <- Eb; lia).
      rewrite put_put. cbn [fst snd chain put text with_pref pos]. rewrite <- Et', <- Eb.
      splits; auto; try discriminate.
      apply Rg_put; auto; lia.
  - (* KDelete *)
    change (pos (with_pref sb None)) with (pos sb). change (text (with_pref sb None)) with (text sb).
    rewrite Hpe. destruct (pos ss >=? zlen (text ss)) eqn:E.
    + cbn [fst snd chain with_pref text]. splits; auto.
    + rewrite Es, g_zlen_map in E. rewrite Ht, Hp. rewrite (H_next cs (pos ss) Ho ltac:(lia)).
      rewrite flat_delA.
      set (cs' := delA cs (pos ss) (pos ss + 1)).
      assert (Et': map code cs' = del_at (text ss) (pos ss)).
      { unfold cs', delA, del_at. rewrite Es, map_app, g_map_takez, g_map_dropz. reflexivity. }
      pose proof (zlen_delA cs (pos ss) (pos ss + 1) ltac:(lia) ltac:(lia)) as L. fold cs' in L.
      pose proof (oks_delA cs (pos ss) (pos ss + 1) Ho) as Ho'. fold cs' in Ho'.
      pose proof (off_delA_prefix cs (pos ss) (pos ss + 1) ltac:(lia)) as Eb. fold cs' in Eb.
      destruct (set_edit_text (with_pref sb None) (flat cs')) as [s1 sg] eqn:Es1.
      pose proof (set_edit_text_state (with_pref sb None) (flat cs') ltac:(cbn [with_pref pos]; lia)) as H1.
      pose proof (set_edit_text_sigs (with_pref sb None) (flat cs')) as H2.
      rewrite Es1 in H1, H2. cbn [fst snd] in H1, H2. subst s1 sg.
      pose proof (off_le_len cs' (pos ss) Ho' ltac:(lia)).
      cbn [fst snd chain put text with_pref pos]. rewrite ?Hp.
      replace (Z.min (off cs (pos ss)) (zlen (flat cs'))) with (off cs' (pos ss)) by lia.
      rewrite <- Et'. splits; auto; try discriminate.
      apply Rg_put; auto; lia.
Qed.

(* any accepted key string whose bytes in the byte encoding are the well-formed characters xs: those
   characters are inserted at the cursor (no restriction to ASCII; xs = "?" for an unencodable key) *)
Theorem g_text_key_sim sb ss cs xs w lay :
  Rg sb ss -> bvalid_char wcw cs = Ok true -> kenc cs = flat xs -> oks xs ->
  let '(sb', sg, r) := bkeypress sb (KText cs) w lay in
  Rg sb' (put ss (ins_at (text ss) (pos ss) (map code xs)) (pos ss + zlen (map code xs))) /\
  r = Ok RHandled /\ chain (text sb) sg (text sb').
Proof.
  intros R Hv Hk Ho. unfold EditBytes.bkeypress. rewrite Hv, Hk.
  pose proof (g_insert sb ss xs R Ho) as B.
  destruct (insert_text sb (flat xs)) as [sb' sg]. destruct B as (B1 & B2). auto.
Qed.

(* tab: the number of blanks comes from the BYTE offset *)
Theorem g_tab_sim sb ss w lay :
  Rg sb ss ->
  let n := 8 - (pos sb mod 8) in
  let '(sb', sg, r) := bkeypress sb KTab w lay in
  if allow_tab ss then
    Rg sb' (put ss (ins_at (text ss) (pos ss) (spaces n)) (pos ss + zlen (spaces n))) /\ r = Ok RHandled /\
    chain (text sb) sg (text sb')
  else sb' = sb /\ r = Ok RUnhandled /\ sg = [].
Proof.
  intros R. cbv zeta. unfold EditBytes.bkeypress.
  pose proof R as (cs & _ & _ & _ & _ & _ & Ha & _). rewrite Ha. destruct (allow_tab ss).
  - destruct (flat_ascii (spaces (8 - pos sb mod 8)) (spaces_ascii _)) as (F1 & F2 & F3).
    pose proof (g_insert sb ss (asciiA (spaces (8 - pos sb mod 8))) R F2) as B. rewrite F1, F3 in B.
    destruct (insert_text sb (spaces (8 - pos sb mod 8))) as [sb' sg]. destruct B as (B1 & B2). auto.
  - auto.
Qed.

(* ---------- layouts that cut the text at character boundaries ---------- *)
Definition gbnd (d : list A) (o : Z) : Prop := exists j, 0 <= j <= zlen d /\ o = off d j.

Definition gseg_bnd (d : list A) (s : seg) : Prop :=
  match s with
  | SPad _ => True
  | SHint _ o => gbnd d o
  | SText sc o e => 1 <= sc /\ exists a b, 0 <= a <= b /\ b <= zlen d /\ o = off d a /\ e = off d b
  end.
Definition gline_bnd (d : list A) (l : line) : Prop := Forall (gseg_bnd d) l.
Definition glay_bnd (d : list A) (lay : layout) : Prop := Forall (gline_bnd d) lay.

Definition gcpos_bnd (d : list A) (c : cpos) : Prop :=
  match c with
  | CNone => True
  | CInt o => gbnd d o
  | CSeg sc o e => gseg_bnd d (SText sc o e)
  end.

Lemma g_btpos_bnd d a b col p :
  oks d -> 0 <= a <= b -> b <= zlen d -> 0 <= col ->
  btpos wcw m (flat d) (off d a) (off d b) col = Ok p -> gbnd d p.
Proof.
  intros Ho H1 H2 Hc H. destruct (H_tpos d a b col p Ho H1 H2 Hc H) as (j & Hj & ->).
  exists j. split; [lia|reflexivity].
Qed.

Lemma g_finish_bnd d c p :
  oks d -> gcpos_bnd d c -> bclp_finish wcw m (flat d) c = Ok (Some p) -> gbnd d p.
Proof.
  intros Hc Hb H. destruct c as [|o|sc o e]; cbn [bclp_finish] in H.
  - discriminate.
  - inversion H; subst. exact Hb.
  - destruct Hb as (Hsc & a & b & H1 & H2 & -> & ->).
    destruct (btpos wcw m (flat d) (off d a) (off d b) (sc - 1)) as [q|] eqn:E; [|discriminate].
    inversion H; subst. eapply g_btpos_bnd; eauto. lia.
Qed.

Lemma g_common_bnd d pc cur o csc c :
  gbnd d o -> gcpos_bnd d c -> gcpos_bnd d (snd (fst (clp_common pc cur o csc c))).
Proof.
  intros Ho Hc. unfold clp_common.
  destruct csc as [v|]; [destruct (Z.abs (pc - cur) <? Z.abs (pc - v))|]; cbn [fst snd gcpos_bnd]; assumption.
Qed.

Lemma g_int_bnd d segs : forall pc csc c cur p,
  oks d -> gline_bnd d segs -> gcpos_bnd d c ->
  bclp_int wcw m (flat d) segs pc csc c cur = Ok (Some p) -> gbnd d p.
Proof.
  induction segs as [|s r IH]; intros pc csc c cur p Hc Hl Hb H; cbn [bclp_int] in H.
  - eapply g_finish_bnd; eauto.
  - inversion Hl as [|s' r' Hs Hr]; subst.
    destruct s as [sc|sc o|sc o e].
    + eapply IH; eauto.
    + pose proof (g_common_bnd d pc cur o csc c Hs Hb) as Hb1.
      destruct (clp_common pc cur o csc c) as [[csc1 cp1] brk]. cbn [fst snd] in Hb1.
      destruct brk; [eapply g_finish_bnd; eauto|eapply IH; eauto].
    + destruct ((cur <=? pc) && (pc <? cur + sc)) eqn:Ein.
      * destruct Hs as (Hsc & a & b & H1 & H2 & -> & ->).
        destruct (btpos wcw m (flat d) (off d a) (off d b) (pc - cur)) as [q|] eqn:E; [|discriminate].
        inversion H; subst. eapply g_btpos_bnd; eauto. lia.
      * assert (Ho: gbnd d o).
        { destruct Hs as (_ & a & b & H1 & H2 & -> & _). exists a. split; [lia|reflexivity]. }
        destruct (cur <=? pc).
        -- pose proof (g_common_bnd d pc cur o (Some (cur + sc - 1)) (CSeg sc o e) Ho Hs) as Hb1.
           destruct (clp_common pc cur o (Some (cur + sc - 1)) (CSeg sc o e)) as [[csc1 cp1] brk]. cbn [fst snd] in Hb1.
           destruct brk; [eapply g_finish_bnd; eauto|eapply IH; eauto].
        -- pose proof (g_common_bnd d pc cur o csc c Ho Hb) as Hb1.
           destruct (clp_common pc cur o csc c) as [[csc1 cp1] brk]. cbn [fst snd] in Hb1.
           destruct brk; [eapply g_finish_bnd; eauto|eapply IH; eauto].
Qed.

Lemma g_left_bnd d segs o : gline_bnd d segs -> clp_left segs = Some o -> gbnd d o.
Proof.
  induction segs as [|s r IH]; intros Hl H; cbn [clp_left] in H; [discriminate|].
  inversion Hl as [|s' r' Hs Hr]; subst.
  destruct s as [sc|sc o'|sc o' e].
  - apply IH; assumption.
  - inversion H; subst. exact Hs.
  - inversion H; subst. destruct Hs as (_ & a & b & H1 & H2 & -> & _). exists a. split; [lia|reflexivity].
Qed.

Lemma g_last_bnd d segs : forall acc s,
  gline_bnd d segs -> (forall a, acc = Some a -> gseg_bnd d a) -> clp_last segs acc = Some s -> gseg_bnd d s.
Proof.
  induction segs as [|s0 r IH]; intros acc s Hl Ha H; cbn [clp_last] in H.
  - apply Ha. exact H.
  - inversion Hl as [|s' r' Hs Hr]; subst.
    destruct s0 as [sc|sc o|sc o e].
    + eapply IH; eauto.
    + eapply IH; [exact Hr| |exact H]. intros a Ea. inversion Ea; subst. exact Hs.
    + eapply IH; [exact Hr| |exact H]. intros a Ea. inversion Ea; subst. exact Hs.
Qed.

Lemma g_line_pos_bnd d segs pc p :
  oks d -> gline_bnd d segs -> bcalc_line_pos wcw m (flat d) segs pc = Ok (Some p) -> gbnd d p.
Proof.
  intros Hc Hl H. destruct pc as [x| |]; cbn [bcalc_line_pos] in H.
  - eapply g_int_bnd; eauto. exact I.
  - inversion H as [H1]. eapply g_left_bnd; eauto.
  - unfold bclp_right in H.
    destruct (clp_last segs None) as [s|] eqn:E; [|discriminate].
    pose proof (g_last_bnd d segs None s Hl ltac:(intros a Ea; discriminate) E) as Hs.
    destruct s as [sc|sc o|sc o e]; [discriminate| |].
    + inversion H; subst. exact Hs.
    + destruct Hs as (Hsc & a & b & H1 & H2 & -> & ->).
      destruct (btpos wcw m (flat d) (off d a) (off d b) (sc - 1)) as [q|] eqn:Eq; [|discriminate].
      inversion H; subst. eapply g_btpos_bnd; eauto. lia.
Qed.

Lemma g_nth_line_bnd d (lay : layout) n : glay_bnd d lay -> gline_bnd d (nth n lay []).
Proof.
  intros H. destruct (nth_in_or_default n lay []) as [Hin|E].
  - unfold glay_bnd in H. rewrite Forall_forall in H. apply H. exact Hin.
  - rewrite E. constructor.
Qed.

Lemma gbnd_0 d : gbnd d 0.
Proof. exists 0. split; [pose proof (zlen_nonneg d); lia|reflexivity]. Qed.

Lemma g_alt_bnd d lay pc : forall above below p,
  oks d -> glay_bnd d lay -> bcp_alt wcw m (flat d) lay pc above below = Ok p -> gbnd d p.
Proof.
  induction above as [|a ar IH]; intros below p Hc Hl H; cbn [bcp_alt] in H.
  - inversion H; subst. apply gbnd_0.
  - destruct below as [|b br]; [inversion H; subst; apply gbnd_0|].
    destruct (bcalc_line_pos wcw m (flat d) (nth (Z.to_nat a) lay []) pc) as [[q|]|] eqn:E1; try discriminate.
    + inversion H; subst. eapply g_line_pos_bnd; eauto. apply g_nth_line_bnd; exact Hl.
    + destruct (bcalc_line_pos wcw m (flat d) (nth (Z.to_nat b) lay []) pc) as [[q|]|] eqn:E2; try discriminate.
      * inversion H; subst. eapply g_line_pos_bnd; eauto. apply g_nth_line_bnd; exact Hl.
      * eapply IH; eauto.
Qed.

Lemma g_calc_pos_bnd d lay pc row p :
  oks d -> glay_bnd d lay -> bcalc_pos wcw m (flat d) lay pc row = Ok p -> gbnd d p.
Proof.
  intros Hc Hl H. unfold bcalc_pos in H.
  destruct ((row <? 0) || (row >=? zlen lay)); [discriminate|].
  destruct (bcalc_line_pos wcw m (flat d) (nth (Z.to_nat row) lay []) pc) as [[q|]|] eqn:E1; try discriminate.
  - inversion H; subst. eapply g_line_pos_bnd; eauto. apply g_nth_line_bnd; exact Hl.
  - eapply g_alt_bnd; eauto.
Qed.

Lemma g_shift_line_bnd d l a : gline_bnd d l -> gline_bnd d (shift_line l a).
Proof.
  intros H. unfold shift_line. destruct l as [|[sc|sc o|sc o e] r].
  - destruct (a =? 0); [exact H|constructor; [exact I|exact H]].
  - inversion H; subst. destruct (a + sc =? 0); [assumption|constructor; [exact I|assumption]].
  - destruct (a =? 0); [exact H|constructor; [exact I|exact H]].
  - destruct (a =? 0); [exact H|constructor; [exact I|exact H]].
Qed.

Lemma g_replace_row_bnd d (lay : layout) y l :
  glay_bnd d lay -> gline_bnd d l -> glay_bnd d (takez y lay ++ [l] ++ dropz (y + 1) lay).
Proof.
  intros H Hl. unfold glay_bnd. apply Forall_app. split; [apply g_Forall_takez; exact H|].
  apply Forall_app. split; [constructor; [exact Hl|constructor]|apply g_Forall_dropz; exact H].
Qed.

Lemma g_glt_bnd d s w lay trans :
  glay_bnd d lay -> bget_line_translation wcw m s w lay = Ok trans -> glay_bnd d trans.
Proof.
  intros Hl H. unfold bget_line_translation in H.
  destruct (negb (shiftv s)); [inversion H; subst; exact Hl|].
  destruct (bcalc_coords wcw m (disp s) lay (pos s + zlen (caption s))) as [[x y]|]; [|discriminate].
  destruct (x <? 0).
  - inversion H; subst. apply g_replace_row_bnd; [exact Hl|]. apply g_shift_line_bnd, g_nth_line_bnd. exact Hl.
  - destruct (x >=? w); inversion H; subst; [|exact Hl].
    apply g_replace_row_bnd; [exact Hl|]. apply g_shift_line_bnd, g_nth_line_bnd. exact Hl.
Qed.

(* ---------- the invariant ---------- *)
Definition OnG (sb : st) : Prop :=
  exists c t k, caption sb = flat c /\ oks c /\ text sb = flat t /\ oks t /\
                0 <= k <= zlen t /\ pos sb = off t k /\ mask sb = None.

Lemma OnG_disp sb c t :
  caption sb = flat c -> text sb = flat t -> mask sb = None -> disp sb = flat (c ++ t).
Proof. intros Hc Ht Hm. unfold disp. rewrite Hm, Hc, Ht, flat_app. reflexivity. Qed.

Lemma g_clamp_bnd c t j :
  oks c -> oks t -> 0 <= j <= zlen (c ++ t) ->
  exists k, 0 <= k <= zlen t /\ clampz (off (c ++ t) j - zlen (flat c)) 0 (zlen (flat t)) = off t k.
Proof.
  intros Oc Ot H. rewrite zlen_app in H. pose proof (zlen_nonneg c). pose proof (zlen_nonneg t).
  destruct (Z_le_gt_dec j (zlen c)) as [L|G].
  - exists 0. split; [lia|]. rewrite off_prefix_app by lia.
    pose proof (off_le_len c j Oc ltac:(lia)). pose proof (zlen_nonneg (flat t)).
    rewrite off_0. unfold clampz. lia.
  - exists (j - zlen c). split; [lia|].
    assert (E: off (c ++ t) j = zlen (flat c) + off t (j - zlen c)).
    { unfold off, takez. rewrite firstn_app, flat_app, zlen_app.
      rewrite firstn_all2 by (unfold zlen in *; lia).
      replace (Z.to_nat j - length c)%nat with (Z.to_nat (j - zlen c)) by (unfold zlen in *; lia).
      reflexivity. }
    rewrite E. pose proof (off_nonneg t (j - zlen c)). pose proof (off_le_len t (j - zlen c) Ot ltac:(lia)).
    unfold clampz. lia.
Qed.

Definition g_same_frame (s s' : st) : Prop :=
  caption s' = caption s /\ mask s' = mask s /\ multiline s' = multiline s /\ allow_tab s' = allow_tab s.

Lemma g_same_frame_refl s : g_same_frame s s.
Proof. unfold g_same_frame; auto. Qed.

Lemma g_same_frame_trans a b c : g_same_frame a b -> g_same_frame b c -> g_same_frame a c.
Proof. unfold g_same_frame. intuition congruence. Qed.

Lemma OnG_flags sb s' :
  OnG sb -> g_same_frame sb s' -> text s' = text sb -> pos s' = pos sb -> OnG s'.
Proof.
  intros (c & t & k & Hc & Sc & Ht & St & Hk & Hp & Hm) (F1 & F2 & _) Et Ep.
  exists c, t, k. rewrite F1, F2, Et, Ep. auto 10.
Qed.

Lemma g_disp_flags sb s' : g_same_frame sb s' -> text s' = text sb -> disp s' = disp sb.
Proof. intros (F1 & F2 & _) Et. unfold disp. rewrite F1, F2, Et. reflexivity. Qed.

Lemma g_mctc_OnG sb w lay x y :
  OnG sb -> (forall d, disp sb = flat d -> oks d -> glay_bnd d lay) ->
  OnG (fst (bmove_cursor_to_coords wcw m sb w lay x y)).
Proof.
  intros HB HL. pose proof HB as (c & t & k & Hc & Sc & Ht & St & Hk & Hp & Hm).
  unfold bmove_cursor_to_coords.
  destruct (bget_line_translation wcw m sb w lay) as [trans|] eqn:Et; [|cbn [fst]; auto].
  destruct (bposition_coords wcw m sb w lay 0) as [[tx ty]|]; [|cbn [fst]; auto].
  destruct ((y <? ty) || (y >=? zlen trans)); [cbn [fst]; auto|].
  destruct (bcalc_pos wcw m (disp sb) trans x y) as [p|] eqn:Ep; [|cbn [fst]; auto].
  cbn [fst].
  pose proof (OnG_disp sb c t Hc Ht Hm) as Ed.
  assert (Sd: oks (c ++ t)) by (apply Forall_app; auto).
  pose proof (g_glt_bnd (c ++ t) sb w lay trans (HL _ Ed Sd) Et) as Hb.
  rewrite Ed in Ep.
  destruct (g_calc_pos_bnd (c ++ t) trans x y p Sd Hb Ep) as (j & Hj & ->).
  destruct (g_clamp_bnd c t j Sc St Hj) as (k' & Hk' & Ek).
  rewrite Hc, Ht. rewrite Ek.
  pose proof (off_nonneg t k'). pose proof (off_le_len t k' St Hk').
  rewrite set_edit_pos_put by (rewrite Ht; lia).
  exists c, t, k'. cbn [with_pref put caption text pos mask]. auto 10.
Qed.

Lemma g_mctc_frame sb w lay x y :
  g_same_frame sb (fst (bmove_cursor_to_coords wcw m sb w lay x y)) /\
  text (fst (bmove_cursor_to_coords wcw m sb w lay x y)) = text sb.
Proof.
  unfold bmove_cursor_to_coords.
  destruct (bget_line_translation wcw m sb w lay) as [trans|]; [|split; [apply g_same_frame_refl|reflexivity]].
  destruct (bposition_coords wcw m sb w lay 0) as [[tx ty]|]; [|split; [apply g_same_frame_refl|reflexivity]].
  destruct ((y <? ty) || (y >=? zlen trans)); [split; [apply g_same_frame_refl|reflexivity]|].
  destruct (bcalc_pos wcw m (disp sb) trans x y) as [p|]; split; try apply g_same_frame_refl; try reflexivity.
  unfold g_same_frame; cbn; auto.
Qed.

Lemma g_gpc_state sb w lay :
  fst (bget_pref_col wcw m sb w lay) = sb \/ fst (bget_pref_col wcw m sb w lay) = with_shiftv sb true.
Proof.
  unfold bget_pref_col, bget_cursor_coords.
  destruct (pref sb) as [[c w']|]; [destruct (w' =? w); [left; reflexivity|]|];
    destruct (bposition_coords wcw m (with_shiftv sb true) w lay (pos (with_shiftv sb true))) as [[x y]|]; right; reflexivity.
Qed.

Lemma g_keypress_frame sb k w lay :
  g_same_frame sb (fst (fst (bkeypress sb k w lay))).
Proof.
  unfold EditBytes.bkeypress.
  destruct k.
  - destruct (bvalid_char wcw cs) as [[|]|]; try apply g_same_frame_refl.
    unfold g_same_frame; cbn; auto.
  - destruct (allow_tab sb) eqn:E; [|apply g_same_frame_refl]. unfold g_same_frame; cbn; auto.
  - destruct (multiline sb) eqn:E; [|apply g_same_frame_refl]. unfold g_same_frame; cbn; auto.
  - destruct (pos sb =? 0); [apply g_same_frame_refl|].
    destruct (Width.move_prev_char m (text sb) 0 (pos sb)); [|apply g_same_frame_refl]. unfold g_same_frame; cbn; auto.
  - destruct (pos sb >=? zlen (text sb)); [apply g_same_frame_refl|].
    destruct (Width.move_next_char m (text sb) (pos sb) (zlen (text sb))); [|apply g_same_frame_refl].
    unfold g_same_frame; cbn; auto.
  - unfold bget_cursor_coords.
    destruct (bposition_coords wcw m (with_shiftv sb true) w lay (pos (with_shiftv sb true))) as [[x y]|]; [|unfold g_same_frame; cbn; auto].
    pose proof (g_gpc_state (with_shiftv sb true) w lay) as G.
    destruct (bget_pref_col wcw m (with_shiftv sb true) w lay) as [s2 [pc|]]; cbn [fst] in G;
      [|destruct G as [-> | ->]; unfold g_same_frame; cbn; auto].
    pose proof (g_mctc_frame s2 w lay pc (y - 1)) as [F _].
    assert (F0: g_same_frame sb s2) by (destruct G as [-> | ->]; unfold g_same_frame; cbn; auto).
    destruct (bmove_cursor_to_coords wcw m s2 w lay pc (y - 1)) as [s3 [[|]|]]; cbn [fst] in *; eapply g_same_frame_trans; eauto.
  - unfold bget_cursor_coords.
    destruct (bposition_coords wcw m (with_shiftv sb true) w lay (pos (with_shiftv sb true))) as [[x y]|]; [|unfold g_same_frame; cbn; auto].
    pose proof (g_gpc_state (with_shiftv sb true) w lay) as G.
    destruct (bget_pref_col wcw m (with_shiftv sb true) w lay) as [s2 [pc|]]; cbn [fst] in G;
      [|destruct G as [-> | ->]; unfold g_same_frame; cbn; auto].
    pose proof (g_mctc_frame s2 w lay pc (y + 1)) as [F _].
    assert (F0: g_same_frame sb s2) by (destruct G as [-> | ->]; unfold g_same_frame; cbn; auto).
    destruct (bmove_cursor_to_coords wcw m s2 w lay pc (y + 1)) as [s3 [[|]|]]; cbn [fst] in *; eapply g_same_frame_trans; eauto.
  - change (pos (with_pref sb None)) with (pos sb). change (text (with_pref sb None)) with (text sb).
    destruct (pos sb =? 0); [unfold g_same_frame; cbn; auto|].
    destruct (Width.move_prev_char m (text sb) 0 (pos sb)); unfold g_same_frame; cbn; auto.
  - change (pos (with_pref sb None)) with (pos sb). change (text (with_pref sb None)) with (text sb).
    destruct (pos sb >=? zlen (text sb)); [unfold g_same_frame; cbn; auto|].
    destruct (Width.move_next_char m (text sb) (pos sb) (zlen (text sb))); unfold g_same_frame; cbn; auto.
  - unfold bget_cursor_coords.
    destruct (bposition_coords wcw m (with_shiftv (with_pref sb None) true) w lay (pos (with_shiftv (with_pref sb None) true))) as [[x y]|];
      [|unfold g_same_frame; cbn; auto].
    pose proof (g_mctc_frame (with_shiftv (with_pref sb None) true) w lay PLeft y) as [F _].
    destruct (bmove_cursor_to_coords wcw m (with_shiftv (with_pref sb None) true) w lay PLeft y) as [s3 [b|]]; cbn [fst] in *;
      (eapply g_same_frame_trans; [|exact F]); unfold g_same_frame; cbn; auto.
  - unfold bget_cursor_coords.
    destruct (bposition_coords wcw m (with_shiftv (with_pref sb None) true) w lay (pos (with_shiftv (with_pref sb None) true))) as [[x y]|];
      [|unfold g_same_frame; cbn; auto].
    pose proof (g_mctc_frame (with_shiftv (with_pref sb None) true) w lay PRight y) as [F _].
    destruct (bmove_cursor_to_coords wcw m (with_shiftv (with_pref sb None) true) w lay PRight y) as [s3 [b|]]; cbn [fst] in *;
      (eapply g_same_frame_trans; [|exact F]); unfold g_same_frame; cbn; auto.
Qed.

(* ---------- one event ---------- *)
Lemma OnG_Rg sb c t k :
  caption sb = flat c -> text sb = flat t -> oks t -> 0 <= k <= zlen t -> pos sb = off t k ->
  Rg sb (St [] (map code t) k None false None (multiline sb) (allow_tab sb) None VEdit).
Proof.
  intros Hc Ht St_ Hk Hp. exists t. unfold Inv. cbn [text pos multiline allow_tab var].
  rewrite g_zlen_map. repeat split; auto; lia.
Qed.

Lemma g_Rg_OnG sb sb' ss' c :
  caption sb = flat c -> oks c -> mask sb = None -> g_same_frame sb sb' -> Rg sb' ss' -> OnG sb'.
Proof.
  intros Hc Sc Hm (F1 & F2 & _) (cs & Es & Ht & Hp & Ho & _ & _ & _ & HI).
  unfold Inv in HI. rewrite Es, g_zlen_map in HI.
  exists c, cs, (pos ss'). rewrite F1, F2. auto 10.
Qed.

Lemma g_key_edit_OnG sb k w lay : OnG sb -> g_edit_key k -> OnG (fst (fst (bkeypress sb k w lay))).
Proof.
  intros (c & t & j & Hc & Sc & Ht & St_ & Hj & Hp & Hm) Hk.
  pose proof (OnG_Rg sb c t j Hc Ht St_ Hj Hp) as R.
  pose proof (g_key_sim sb _ k w lay lay R Hk) as S.
  pose proof (g_keypress_frame sb k w lay) as F.
  destruct (bkeypress sb k w lay) as [[sb' sg] r]. cbn [fst] in *.
  destruct S as (R' & _). eapply g_Rg_OnG; eauto.
Qed.

Lemma g_key_layout_OnG sb k w lay :
  OnG sb -> (forall d, disp sb = flat d -> oks d -> glay_bnd d lay) ->
  match k with KUp | KDown | KHome | KEnd => True | _ => False end ->
  OnG (fst (fst (bkeypress sb k w lay))).
Proof.
  intros HB HL Hk. unfold EditBytes.bkeypress.
  assert (Flag: forall s', g_same_frame sb s' -> text s' = text sb -> pos s' = pos sb ->
                 OnG s' /\ (forall d, disp s' = flat d -> oks d -> glay_bnd d lay)).
  { intros s' F Et Ep. split; [eapply OnG_flags; eauto|].
    intros d Ed Sd. apply HL; [|exact Sd]. rewrite <- (g_disp_flags sb s' F Et). exact Ed. }
  destruct k; try contradiction; unfold bget_cursor_coords.
  - destruct (Flag (with_shiftv sb true)) as [B1 L1]; [unfold g_same_frame; cbn; auto|reflexivity|reflexivity|].
    destruct (bposition_coords wcw m (with_shiftv sb true) w lay (pos (with_shiftv sb true))) as [[x y]|]; [|exact B1].
    pose proof (g_gpc_state (with_shiftv sb true) w lay) as G.
    destruct (bget_pref_col wcw m (with_shiftv sb true) w lay) as [s2 [pc|]]; cbn [fst] in G.
    + assert (E2: s2 = with_shiftv sb true) by (destruct G as [-> | ->]; reflexivity). subst s2.
      pose proof (g_mctc_OnG (with_shiftv sb true) w lay pc (y - 1) B1 L1) as B3.
      destruct (bmove_cursor_to_coords wcw m (with_shiftv sb true) w lay pc (y - 1)) as [s3 [[|]|]]; exact B3.
    + destruct G as [-> | ->]; exact B1.
  - destruct (Flag (with_shiftv sb true)) as [B1 L1]; [unfold g_same_frame; cbn; auto|reflexivity|reflexivity|].
    destruct (bposition_coords wcw m (with_shiftv sb true) w lay (pos (with_shiftv sb true))) as [[x y]|]; [|exact B1].
    pose proof (g_gpc_state (with_shiftv sb true) w lay) as G.
    destruct (bget_pref_col wcw m (with_shiftv sb true) w lay) as [s2 [pc|]]; cbn [fst] in G.
    + assert (E2: s2 = with_shiftv sb true) by (destruct G as [-> | ->]; reflexivity). subst s2.
      pose proof (g_mctc_OnG (with_shiftv sb true) w lay pc (y + 1) B1 L1) as B3.
      destruct (bmove_cursor_to_coords wcw m (with_shiftv sb true) w lay pc (y + 1)) as [s3 [[|]|]]; exact B3.
    + destruct G as [-> | ->]; exact B1.
  - destruct (Flag (with_shiftv (with_pref sb None) true)) as [B1 L1]; [unfold g_same_frame; cbn; auto|reflexivity|reflexivity|].
    destruct (bposition_coords wcw m (with_shiftv (with_pref sb None) true) w lay (pos (with_shiftv (with_pref sb None) true))) as [[x y]|]; [|exact B1].
    pose proof (g_mctc_OnG (with_shiftv (with_pref sb None) true) w lay PLeft y B1 L1) as B3.
    destruct (bmove_cursor_to_coords wcw m (with_shiftv (with_pref sb None) true) w lay PLeft y) as [s3 [b|]]; exact B3.
  - destruct (Flag (with_shiftv (with_pref sb None) true)) as [B1 L1]; [unfold g_same_frame; cbn; auto|reflexivity|reflexivity|].
    destruct (bposition_coords wcw m (with_shiftv (with_pref sb None) true) w lay (pos (with_shiftv (with_pref sb None) true))) as [[x y]|]; [|exact B1].
    pose proof (g_mctc_OnG (with_shiftv (with_pref sb None) true) w lay PRight y B1 L1) as B3.
    destruct (bmove_cursor_to_coords wcw m (with_shiftv (with_pref sb None) true) w lay PRight y) as [s3 [b|]]; exact B3.
Qed.

(* what an event must satisfy *)
Definition g_ev_ok (sb : st) (e : event) : Prop :=
  match e with
  | EKey (KText cs) _ _ =>
      (* a refused key changes nothing; an accepted one is inserted as the bytes the codec gives, which
         must be well-formed characters *)
      bvalid_char wcw cs <> Ok true \/ (exists xs, kenc cs = flat xs /\ oks xs)
  | EKey (KUp | KDown | KHome | KEnd) _ lay | EClick _ _ _ _ lay =>
      forall d, disp sb = flat d -> oks d -> glay_bnd d lay
  | ESetPos p => forall t, text sb = flat t -> oks t -> gbnd t (clampz p 0 (zlen (text sb)))
  | _ => True
  end.

Theorem g_step_OnG sb e :
  OnG sb -> g_ev_ok sb e -> OnG (fst (fst (bstep wcw m kenc sb e))).
Proof.
  intros HB Hok. destruct e as [k w lay|b c rw w lay|f w lay|w lay|p]; cbn [bstep].
  - destruct k; cbn [g_ev_ok] in Hok;
      try (apply g_key_layout_OnG; [exact HB|exact Hok|exact I]);
      try (apply g_key_edit_OnG; [exact HB|exact I]).
    + (* KText *)
      destruct Hok as [Hok|(xs & Hx & Ox)].
      * unfold EditBytes.bkeypress. destruct (bvalid_char wcw cs) as [[|]|]; try exact HB. contradiction Hok; reflexivity.
      * destruct (bvalid_char wcw cs) as [[|]|] eqn:Ev.
        -- pose proof HB as (c & t & j & Hc & Sc & Ht & St_ & Hj & Hp & Hm).
           pose proof (OnG_Rg sb c t j Hc Ht St_ Hj Hp) as R.
           pose proof (g_text_key_sim sb _ cs xs w lay R Ev Hx Ox) as S.
           pose proof (g_keypress_frame sb (KText cs) w lay) as F.
           destruct (bkeypress sb (KText cs) w lay) as [[sb' sg] r]. cbn [fst] in *.
           destruct S as (R' & _). eapply g_Rg_OnG; eauto.
        -- unfold EditBytes.bkeypress. rewrite Ev. exact HB.
        -- unfold EditBytes.bkeypress. rewrite Ev. exact HB.
    + (* KTab *)
      pose proof HB as (c & t & j & Hc & Sc & Ht & St_ & Hj & Hp & Hm).
      pose proof (OnG_Rg sb c t j Hc Ht St_ Hj Hp) as R.
      pose proof (g_tab_sim sb _ w lay R) as S. cbv zeta in S.
      pose proof (g_keypress_frame sb KTab w lay) as F.
      destruct (bkeypress sb KTab w lay) as [[sb' sg] r]. cbn [fst allow_tab] in *.
      destruct (allow_tab sb).
      * destruct S as (R' & _). eapply g_Rg_OnG; eauto.
      * destruct S as (-> & _). exact HB.
  - cbn [g_ev_ok] in Hok. destruct (b =? 1); [|exact HB].
    pose proof (g_mctc_OnG sb w lay (PInt c) rw HB Hok) as B.
    destruct (bmove_cursor_to_coords wcw m sb w lay (PInt c) rw) as [s1 [bb|]]; exact B.
  - assert (Fl: forall s', g_same_frame sb s' -> text s' = text sb -> pos s' = pos sb -> OnG s')
      by (intros; eapply OnG_flags; eauto).
    unfold bget_cursor_coords.
    destruct (match rcache sb with Some (w', f') => (w' =? w) && Bool.eqb f' f | None => false end).
    + destruct (bget_line_translation wcw m (with_shiftv sb f) w lay); [|exact HB].
      destruct f; [|exact HB].
      destruct (bposition_coords wcw m (with_shiftv (with_shiftv sb true) true) w lay (pos (with_shiftv (with_shiftv sb true) true))) as [[x y]|]; exact HB.
    + destruct (bget_line_translation wcw m (with_shiftv sb f) w lay); [|apply Fl; [unfold g_same_frame; cbn; auto|reflexivity|reflexivity]].
      destruct f; [|apply Fl; [unfold g_same_frame; cbn; auto|reflexivity|reflexivity]].
      destruct (bposition_coords wcw m (with_shiftv (with_shiftv sb true) true) w lay (pos (with_shiftv (with_shiftv sb true) true))) as [[x y]|];
        apply Fl; try reflexivity; unfold g_same_frame; cbn; auto.
  - pose proof (g_gpc_state sb w lay) as G.
    destruct (bget_pref_col wcw m sb w lay) as [s1 [pc|]]; cbn [fst] in *;
      (destruct G as [-> | ->]; [exact HB|eapply OnG_flags; [exact HB|unfold g_same_frame; cbn; auto|reflexivity|reflexivity]]).
  - cbn [g_ev_ok] in Hok. destruct HB as (c & t & j & Hc & Sc & Ht & St_ & Hj & Hp & Hm).
    destruct (Hok t Ht St_) as (k' & Hk' & Ek).
    exists c, t, k'. unfold set_edit_pos, with_pos. cbn [caption text pos mask]. auto 10.
Qed.

Fixpoint g_evs_ok (sb : st) (es : list event) : Prop :=
  match es with
  | [] => True
  | e :: r => g_ev_ok sb e /\ g_evs_ok (fst (fst (bstep wcw m kenc sb e))) r
  end.

Theorem g_run_OnG es : forall sb,
  OnG sb -> g_evs_ok sb es ->
  Forall (fun o => OnG (fst (fst o))) (snd (brun wcw m kenc sb es)) /\ OnG (fst (brun wcw m kenc sb es)).
Proof.
  induction es as [|e r IH]; intros sb HB Hok.
  - cbn. auto.
  - cbn [brun]. destruct Hok as [H1 H2].
    pose proof (g_step_OnG sb e HB H1) as B1.
    destruct (bstep wcw m kenc sb e) as [[s1 sg] rt]. cbn [fst] in *.
    destruct (IH s1 B1 H2) as [A0 B].
    destruct (brun wcw m kenc s1 r) as [s2 outs]. cbn [fst snd] in *. split; [constructor; assumption|assumption].
Qed.

End Scheme.
