(* C11 - move_next_char / move_prev_char on ARBITRARY input (any list of integers, valid text or not):
   termination (the loops never run out of fuel), progress, range - and the witnesses showing where
   "stays in range" fails for malformed input. *)
From Coq Require Import ZArith List Bool Lia ZifyBool.
Import ListNotations.
From Urwid Require Import PyBase PyList Utf8 wcwidth_table_gen str_util_gen Width WidthFacts WideProofs.
Open Scope Z_scope.
Arguments Z.add : simpl never.
Arguments Z.sub : simpl never.
Arguments Z.mul : simpl never.
Arguments Z.ltb : simpl never.
Arguments Z.leb : simpl never.
Arguments Z.eqb : simpl never.
Arguments Z.land : simpl never.
Arguments Z.of_nat : simpl never.
Arguments Z.to_nat : simpl never.

Definition is_contb (b : Z) : bool := Z.land b 192 =? 128.

Lemma get_index_ok_range {A} (l : list A) i b : get_index l i = Ok b -> - zlen l <= i < zlen l.
Proof.
  unfold get_index, norm_index, nthz. intros H.
  destruct (i <? 0) eqn:E.
  - destruct (i + zlen l <? 0) eqn:E2; [discriminate|].
    destruct (nth_error l (Z.to_nat (i + zlen l))) eqn:En; [|discriminate]. lia.
  - rewrite E in H. destruct (nth_error l (Z.to_nat i)) eqn:En; [|discriminate].
    assert (Z.to_nat i < length l)%nat by (apply nth_error_Some; congruence). unfold zlen. lia.
Qed.

Lemma get_index_err {A} (l : list A) i e : get_index l i = Err e -> e = IndexError.
Proof. unfold get_index. destruct (nthz l (norm_index (zlen l) i)); [discriminate|]. intros H. now inversion H. Qed.

(* ---------- move_next_char, utf8 ---------- *)
Lemma mnc_total text b : forall fuel o,
  0 <= o -> b <= zlen text -> b - o <= Z.of_nat fuel ->
  exists r, mnc_loop text fuel o b = Ok r /\ o <= r /\ (o <= b -> r <= b) /\
    (forall t, o <= t < r -> exists v, nthz text t = Some v /\ is_contb v = true) /\
    (b <= r \/ exists v, nthz text r = Some v /\ is_contb v = false).
Proof.
  induction fuel as [|k IH]; intros o Ho Hb Hf; cbn [mnc_loop]; destruct (o <? b) eqn:E.
  - lia.
  - exists o. split; [reflexivity|]. split; [lia|]. split; [lia|]. split; [intros; lia|left; lia].
  - destruct (get_index_ok text o ltac:(lia)) as (v & G & Hn). rewrite G.
    destruct (Z.land v 192 =? 128) eqn:Ec.
    + destruct (IH (o + 1) ltac:(lia) Hb ltac:(lia)) as (r & Er & H1 & H2 & H3 & H4).
      exists r. split; [exact Er|]. split; [lia|]. split; [lia|]. split; [|exact H4].
      intros t Ht. destruct (Z.eq_dec t o) as [->|]; [exists v; split; [exact Hn|exact Ec]|apply H3; lia].
    + exists o. split; [reflexivity|]. split; [lia|]. split; [lia|]. split; [intros; lia|].
      right. exists v. split; [exact Hn|exact Ec].
  - exists o. split; [reflexivity|]. split; [lia|]. split; [lia|]. split; [intros; lia|left; lia].
Qed.

Theorem move_next_char_utf8_any text a b :
  0 <= a < b -> b <= zlen text ->
  exists r, move_next_char MUtf8 text a b = Ok r /\ a < r <= b /\
    (forall t, a < t < r -> exists v, nthz text t = Some v /\ is_contb v = true) /\
    (r = b \/ exists v, nthz text r = Some v /\ is_contb v = false).
Proof.
  intros H1 H2. unfold move_next_char. destruct (b <=? a) eqn:E; [lia|].
  destruct (mnc_total text b (Z.to_nat (b - a)) (a + 1) ltac:(lia) H2 ltac:(lia)) as (r & Er & R1 & R2 & R3 & R4).
  exists r. split; [exact Er|]. split; [lia|]. split; [intros t Ht; apply R3; lia|].
  destruct R4 as [R4|R4]; [left; lia|right; exact R4].
Qed.

(* ---------- move_prev_char, utf8 ---------- *)
(* never out of fuel: the scan ends at a non-continuation item or with IndexError *)
Lemma mpc_terminates text : forall fuel o,
  0 < Z.of_nat fuel -> o + zlen text + 1 < Z.of_nat fuel -> mpc_loop text fuel o <> Err RuntimeErrorK.
Proof.
  induction fuel as [|k IH]; intros o Hp Hf; cbn [mpc_loop]; [lia|].
  destruct (get_index text o) as [b|e] eqn:G.
  - apply get_index_ok_range in G. destruct (Z.land b 192 =? 128); [apply IH; lia|discriminate].
  - apply get_index_err in G. subst e. discriminate.
Qed.

Theorem move_prev_char_utf8_terminates text a b :
  move_prev_char MUtf8 text a b <> Err RuntimeErrorK.
Proof.
  unfold move_prev_char. destruct (b <=? a); [discriminate|].
  pose proof (zlen_nonneg text). apply mpc_terminates; lia.
Qed.

(* scanning back from o with a non-continuation item at a <= o: stops inside [a, o] *)
Lemma mpc_stops text a : forall fuel o v,
  0 <= a <= o -> o < zlen text -> nthz text a = Some v -> is_contb v = false -> o - a < Z.of_nat fuel ->
  exists r, mpc_loop text fuel o = Ok r /\ a <= r <= o /\
    (exists w, nthz text r = Some w /\ is_contb w = false) /\
    (forall t, r < t <= o -> exists w, nthz text t = Some w /\ is_contb w = true).
Proof.
  induction fuel as [|k IH]; intros o v Ha Ho Hv Hc Hf; [lia|]. cbn [mpc_loop].
  destruct (get_index_ok text o ltac:(lia)) as (w & G & Hn). rewrite G.
  destruct (Z.land w 192 =? 128) eqn:Ec.
  - assert (a < o).
    { destruct (Z.eq_dec a o) as [->|]; [|lia]. rewrite Hv in Hn. inversion Hn. subst. unfold is_contb in Hc. congruence. }
    destruct (IH (o - 1) v ltac:(lia) ltac:(lia) Hv Hc ltac:(lia)) as (r & Er & R1 & R2 & R3).
    exists r. split; [exact Er|]. split; [lia|]. split; [exact R2|].
    intros t Ht. destruct (Z.eq_dec t o) as [->|]; [exists w; split; [exact Hn|exact Ec]|apply R3; lia].
  - exists o. split; [reflexivity|]. split; [lia|]. split; [exists w; split; [exact Hn|exact Ec]|intros; lia].
Qed.

Theorem move_prev_char_utf8_any text a b v :
  0 <= a < b -> b <= zlen text -> nthz text a = Some v -> is_contb v = false ->
  exists r, move_prev_char MUtf8 text a b = Ok r /\ a <= r < b /\
    (exists w, nthz text r = Some w /\ is_contb w = false) /\
    (forall t, r < t < b -> exists w, nthz text t = Some w /\ is_contb w = true).
Proof.
  intros H1 H2 Hv Hc. unfold move_prev_char. destruct (b <=? a) eqn:E; [lia|].
  pose proof (zlen_nonneg text).
  destruct (mpc_stops text a (Z.to_nat (2 * zlen text + Z.abs b + 3)) (b - 1) v ltac:(lia) ltac:(lia) Hv Hc ltac:(lia))
    as (r & Er & R1 & R2 & R3).
  exists r. split; [exact Er|]. split; [lia|]. split; [exact R2|]. intros t Ht. apply R3. lia.
Qed.

(* when the start offset is NOT on a character boundary the result may leave the range: witnesses *)
Theorem move_prev_char_utf8_out_of_range_witnesses :
  (* a negative offset *)
  move_prev_char MUtf8 [128; 97] 0 1 = Ok (-1) /\
  (* an offset before start_offs *)
  move_prev_char MUtf8 [97; 128; 128] 1 3 = Ok 0 /\
  (* IndexError after wrapping around the text *)
  move_prev_char MUtf8 [128; 128] 0 2 = Err IndexError.
Proof. vm_compute. repeat split. Qed.

(* ---------- double-byte mode ---------- *)
Theorem move_prev_char_wide_any text a b :
  0 <= a < b -> b <= zlen text ->
  exists r, move_prev_char MWide text a b = Ok r /\ a <= r < b /\ (r = b - 1 \/ r = b - 2).
Proof.
  intros H1 H2. unfold move_prev_char. destruct (b <=? a) eqn:E; [lia|].
  destruct (wdb_total text a (b - 1) ltac:(lia) ltac:(lia)) as (r & Er & Hr). rewrite Er.
  destruct (r =? 2) eqn:E2.
  - assert (r = 2) by lia. subst r. destruct (wdb_2_prev_1 text a (b - 1) ltac:(lia) ltac:(lia) Er) as [Hp _].
    exists (b - 2). split; [reflexivity|]. lia.
  - exists (b - 1). split; [reflexivity|]. lia.
Qed.

Theorem move_next_char_wide_any text a b :
  0 <= a < b -> b <= zlen text ->
  exists r, move_next_char MWide text a b = Ok r /\ (r = a + 1 \/ r = a + 2) /\ r <= b + 1.
Proof.
  intros H1 H2. unfold move_next_char. destruct (b <=? a) eqn:E; [lia|].
  destruct (wdb_total text a a ltac:(lia) ltac:(lia)) as (r & Er & Hr). rewrite Er.
  destruct (r =? 1); [exists (a + 2)|exists (a + 1)]; (split; [reflexivity|lia]).
Qed.

(* a lone lead byte at the end of the range: the next offset is one past the end *)
Theorem move_next_char_wide_overshoot_witness : move_next_char MWide [164] 0 1 = Ok 2.
Proof. vm_compute. reflexivity. Qed.
