(* C01 - Padding(width='clip'): a flow widget around a fixed widget, clipped to the available columns. *)
From Coq Require Import ZArith List Bool Lia ZifyBool.
Import ListNotations.
From Urwid Require Import WidgetDims WidgetDimsProofs WidgetDimsFixed.
Open Scope Z_scope.

Arguments Z.add : simpl never.
Arguments Z.sub : simpl never.
Arguments Z.mul : simpl never.
Arguments Z.quot : simpl never.
Arguments Z.div : simpl never.
Arguments Z.ltb : simpl never.
Arguments Z.leb : simpl never.
Arguments Z.eqb : simpl never.
Arguments Z.max : simpl never.
Arguments Z.min : simpl never.

(* calculate_left_right_padding in clip mode: the paddings and the widget fill maxcol exactly, and the two
   paddings never have opposite signs *)
Lemma clrp_clip c a w l r :
  let L := fst (clrp c a WClip w None l r) in
  let R := snd (clrp c a WClip w None l r) in
  L + w + R = c /\ ((0 <= L /\ 0 <= R) \/ (L <= 0 /\ R <= 0)).
Proof.
  unfold clrp.
  generalize (int_scale (100 - a) 101 (c - w - l - r + 1)) as k. intros k.
  destruct ((r + k <? 0) && (0 <? c - w - (r + k))) eqn:E1.
  - cbn [fst snd]. lia.
  - destruct ((c - w - (r + k) <? 0) && (0 <? r + k)) eqn:E2; cbn [fst snd]; lia.
Qed.

Lemma padding_clip_good s align mw l r :
  GoodFx s -> s_fixed (m_sizing s) = true -> Good (padding_sem s align WClip mw l r).
Proof.
  intros GX Hfx. unfold padding_sem. apply mk_node_good; cbn [padding_sizing s_flow s_box].
  - (* rows *)
    intros c f _ Hc. unfold padding_rows, padding_values.
    pose proof (gx_pack s GX Hfx f) as P.
    destruct (m_pack s SFixed f) as [[w h]|e]; cbn [bind fst snd]; [|exact P]. lia.
  - (* flow *)
    intros c f _ Hc. unfold padding_render, padding_rows, padding_values.
    pose proof (gx_pack s GX Hfx f) as P. pose proof (gx_render s GX Hfx f) as R.
    destruct (m_pack s SFixed f) as [[w h]|e] eqn:EP; cbn [bind fst snd]; [|exact P].
    pose proof (clrp_clip c align w l r) as [CS CG].
    destruct (clrp c align WClip w None l r) as [L Rr]. cbn [fst snd] in CS, CG.
    destruct (m_render s SFixed f) as [d|e]; cbn [bind]; [|exact R].
    destruct R as [R1 [R2 R3]]. rewrite EP in R1. inversion R1; subst w h.
    replace (cc d =? 0) with false by lia.
    destruct ((negb (L =? 0)) || (negb (Rr =? 0))) eqn:ELR.
    + unfold pad_trim_lr.
      destruct ((L <? 0) || (Rr <? 0)) eqn:EN.
      * assert (HL : L <= 0 /\ Rr <= 0) by lia.
        replace (cc d - Z.max 0 (- L) - Z.max 0 (- Rr) <=? 0) with false by lia.
        cbn [cc cr rect cur].
        replace (cc d - Z.max 0 (- L) - Z.max 0 (- Rr) + Z.max 0 L + Z.max 0 Rr) with c by lia.
        repeat split; auto.
        unfold inside. cbn [cc cr cur].
        pose proof (drop_outside_inside c (cr d) (shift_cur (cur d) L 0)) as D.
        destruct (drop_outside c (cr d) (shift_cur (cur d) L 0)) as [[x y]|]; auto.
      * pose proof (inside_pad_lr d L Rr ltac:(lia) ltac:(lia) R3) as IP. cbn in IP |- *.
        repeat split; auto. lia.
    + assert (L = 0 /\ Rr = 0) as [-> ->] by lia. repeat split; auto. lia.
  - intros; discriminate.
Qed.
