(* C17 part 3: attribute maps replace exactly what they list and compose outer-after-inner. *)
From Coq Require Import ZArith List Bool Lia ZifyBool.
Import ListNotations.
From Urwid Require Import PyBase PyList AttrFlow AttrFlowBasics.
Open Scope Z_scope.

Arguments Z.add : simpl never.
Arguments Z.eqb : simpl never.

Definition uniq (m : amap) : Prop := NoDup (map fst m).

Lemma lookup_none_notin k m : lookup k m = None <-> ~ In k (map fst m).
Proof.
  induction m as [|[k' v] t IH]; cbn [lookup map fst In]; [tauto|].
  destruct (attr_eqb k' k) eqn:E.
  - apply attr_eqb_eq in E. split; [discriminate | intro H; exfalso; apply H; now left].
  - apply attr_eqb_neq in E. rewrite IH. tauto.
Qed.

Lemma lookup_dict_set m : forall k v k0,
  lookup k0 (dict_set m k v) = if attr_eqb k k0 then Some v else lookup k0 m.
Proof.
  induction m as [|[k' v'] t IH]; intros k v k0; cbn [dict_set lookup].
  - reflexivity.
  - destruct (attr_eqb k' k) eqn:E; cbn [lookup].
    + apply attr_eqb_eq in E; subst k'. destruct (attr_eqb _ _); reflexivity.
    + rewrite IH. destruct (attr_eqb k' k0) eqn:E2; [|reflexivity].
      apply attr_eqb_eq in E2; subst k'. apply attr_eqb_neq in E.
      destruct (attr_eqb k k0) eqn:E3; [apply attr_eqb_eq in E3; congruence | reflexivity].
Qed.

Lemma keys_dict_set m : forall k v x, In x (map fst (dict_set m k v)) <-> x = k \/ In x (map fst m).
Proof.
  induction m as [|[k' v'] t IH]; intros k v x; cbn [dict_set map fst In].
  - intuition.
  - destruct (attr_eqb k' k) eqn:E; cbn [map fst In].
    + apply attr_eqb_eq in E; subst k'. intuition.
    + rewrite IH. intuition.
Qed.

Lemma uniq_dict_set m : forall k v, uniq m -> uniq (dict_set m k v).
Proof.
  unfold uniq. induction m as [|[k' v'] t IH]; intros k v H; cbn [dict_set map fst].
  - repeat constructor. intros [].
  - inversion H as [|? ? Hn Ht]; subst. destruct (attr_eqb k' k) eqn:E; cbn [map fst].
    + now constructor.
    + constructor; [|now apply IH]. rewrite keys_dict_set. apply attr_eqb_neq in E. intros [->|]; tauto.
Qed.

(* the fold inside fill_attr_apply *)
Definition upd_step (mapping : amap) (acc : amap) (kv : attr * attr) : amap :=
  dict_set acc (fst kv) (dict_get mapping (snd kv) (snd kv)).

Lemma combine_maps_fold mapping cv4 : combine_maps mapping cv4 = fold_left (upd_step mapping) cv4 mapping.
Proof. reflexivity. Qed.

Lemma lookup_fold mapping inner : uniq inner -> forall acc k,
  lookup k (fold_left (upd_step mapping) inner acc) =
  match lookup k inner with
  | Some v => Some (dict_get mapping v v)
  | None => lookup k acc
  end.
Proof.
  unfold uniq. induction inner as [|[k1 v1] t IH]; intros Hu acc k; cbn [fold_left lookup]; [reflexivity|].
  cbn [map fst] in Hu. inversion Hu as [|? ? Hn Ht]; subst.
  rewrite IH by assumption. unfold upd_step; cbn [fst snd].
  destruct (attr_eqb k1 k) eqn:E.
  - apply attr_eqb_eq in E; subst k1.
    apply lookup_none_notin in Hn. rewrite Hn, lookup_dict_set, attr_eqb_refl. reflexivity.
  - destruct (lookup k t); [reflexivity|]. now rewrite lookup_dict_set, E.
Qed.

Lemma uniq_fold mapping inner : forall acc, uniq acc -> uniq (fold_left (upd_step mapping) inner acc).
Proof.
  induction inner as [|kv t IH]; intros acc H; cbn [fold_left]; [assumption|].
  apply IH. now apply uniq_dict_set.
Qed.

Definition uniq_opt (m : option amap) : Prop := match m with None => True | Some d => uniq d end.

Lemma apply_map_some d a : apply_map (Some d) a = match lookup a d with Some v => v | None => a end.
Proof. destruct d; reflexivity. Qed.

(* fill_attr_apply composes: the outer map is applied to the result of the inner one *)
Lemma fill_attr_compose_lemma outer cv4 a : uniq_opt cv4 ->
  apply_map (fill_attr_apply_cv outer cv4) a = apply_map (Some outer) (apply_map cv4 a).
Proof.
  destruct cv4 as [inner|]; cbn [fill_attr_apply_cv uniq_opt]; intro Hu.
  - rewrite !apply_map_some, combine_maps_fold, lookup_fold by assumption.
    unfold dict_get. destruct (lookup a inner) as [v|]; reflexivity.
  - reflexivity.
Qed.

Lemma uniq_fill outer cv4 : uniq outer -> uniq_opt cv4 -> uniq_opt (fill_attr_apply_cv outer cv4).
Proof.
  destruct cv4 as [inner|]; cbn [fill_attr_apply_cv uniq_opt]; intros Ho Hi; [|assumption].
  rewrite combine_maps_fold. now apply uniq_fold.
Qed.

(* a map replaces exactly the attributes it lists *)
Lemma apply_map_listed m a v : uniq m -> In (a, v) m -> apply_map (Some m) a = v.
Proof.
  intros Hu Hin. rewrite apply_map_some.
  induction m as [|[k' v'] t IH]; [destruct Hin|].
  unfold uniq in Hu; cbn [map fst] in Hu; inversion Hu as [|? ? Hn Ht]; subst.
  cbn [lookup]. destruct Hin as [E|Hin].
  - inversion E; subst. now rewrite attr_eqb_refl.
  - destruct (attr_eqb k' a) eqn:E.
    + apply attr_eqb_eq in E; subst k'. exfalso. apply Hn. now apply (in_map fst) in Hin.
    + now apply IH.
Qed.

Lemma apply_map_unlisted m a : ~ In a (map fst m) -> apply_map (Some m) a = a.
Proof. intro H. rewrite apply_map_some. apply lookup_none_notin in H. now rewrite H. Qed.

(* ---- whole widget trees ---- *)

(* the maps on the path from a leaf view up to the root, innermost first, each chosen by the
   focus flag that reaches its AttrMap *)
Fixpoint chains (t : wtree) (focus : bool) : list (list amap * Z) :=
  match t with
  | WLeaf id => [([], id)]
  | WAttr am fm c => map (fun ch => (fst ch ++ [choose_map am fm focus], snd ch)) (chains c focus)
  | WBox fpos cs =>
      (fix go (cs : list (wtree * bool)) (i : Z) : list (list amap * Z) :=
         match cs with
         | [] => []
         | (c, pad) :: r =>
             chains c (focus && (i =? fpos)) ++ (if pad then [([], -1)] else []) ++ go r (i + 1)
         end) cs 0
  end.

Definition seq_apply (ms : list amap) (a : attr) : attr :=
  fold_left (fun x m => apply_map (Some m) x) ms a.

Fixpoint tree_uniq (t : wtree) : Prop :=
  match t with
  | WLeaf _ => True
  | WAttr am fm c => uniq am /\ uniq_opt fm /\ tree_uniq c
  | WBox _ cs => (fix go (cs : list (wtree * bool)) : Prop :=
                    match cs with [] => True | (c, _) :: r => tree_uniq c /\ go r end) cs
  end.

Section TreeInd.
  Variable P : wtree -> Prop.
  Hypothesis HL : forall id, P (WLeaf id).
  Hypothesis HA : forall am fm c, P c -> P (WAttr am fm c).
  Hypothesis HB : forall fpos cs, Forall (fun cp => P (fst cp)) cs -> P (WBox fpos cs).
  Fixpoint wtree_ind' (t : wtree) : P t :=
    match t with
    | WLeaf id => HL id
    | WAttr am fm c => HA am fm c (wtree_ind' c)
    | WBox fpos cs => HB fpos cs ((fix go (l : list (wtree * bool)) : Forall (fun cp => P (fst cp)) l :=
                                    match l with
                                    | [] => Forall_nil _
                                    | x :: r => Forall_cons x (wtree_ind' (fst x)) (go r)
                                    end) cs)
    end.
End TreeInd.

Definition box_render (focus : bool) (fpos : Z) :=
  fix go (cs : list (wtree * bool)) (i : Z) : list cview :=
    match cs with
    | [] => []
    | (c, pad) :: r => render c (focus && (i =? fpos)) ++ (if pad then [(None, -1)] else []) ++ go r (i + 1)
    end.
Definition box_chains (focus : bool) (fpos : Z) :=
  fix go (cs : list (wtree * bool)) (i : Z) : list (list amap * Z) :=
    match cs with
    | [] => []
    | (c, pad) :: r => chains c (focus && (i =? fpos)) ++ (if pad then [([], -1)] else []) ++ go r (i + 1)
    end.
Definition box_uniq :=
  fix go (cs : list (wtree * bool)) : Prop :=
    match cs with [] => True | (c, _) :: r => tree_uniq c /\ go r end.

Definition view_ok (a : attr) (cv : cview) (ch : list amap * Z) : Prop :=
  snd cv = snd ch /\ uniq_opt (fst cv) /\ apply_map (fst cv) a = seq_apply (fst ch) a.

Lemma choose_uniq am fm focus : uniq am -> uniq_opt fm -> uniq (choose_map am fm focus).
Proof. unfold choose_map. destruct focus, fm; cbn [uniq_opt]; auto. Qed.

Lemma seq_apply_app ms m a : seq_apply (ms ++ [m]) a = apply_map (Some m) (seq_apply ms a).
Proof. unfold seq_apply. now rewrite fold_left_app. Qed.

(* every view of the rendered tree carries a map that acts as the maps on its path applied in
   order, inner to outer *)
Lemma render_chains t : forall focus a, tree_uniq t ->
  Forall2 (view_ok a) (render t focus) (chains t focus).
Proof.
  induction t using wtree_ind'; intros focus a Hu.
  - cbn. constructor; [|constructor]. repeat split.
  - cbn [render chains]. destruct Hu as (Ham & Hfm & Hc).
    specialize (IHt focus a Hc).
    induction IHt as [|cv ch l l' (E1 & E2 & E3) _ IH2]; cbn [map]; constructor; [|assumption].
    pose proof (choose_uniq am fm focus Ham Hfm) as Hch.
    repeat split; cbn [fst snd].
    + assumption.
    + now apply uniq_fill.
    + rewrite fill_attr_compose_lemma by assumption. rewrite seq_apply_app. now rewrite E3.
  - change (render (WBox fpos cs) focus) with (box_render focus fpos cs 0).
    change (chains (WBox fpos cs) focus) with (box_chains focus fpos cs 0).
    change (tree_uniq (WBox fpos cs)) with (box_uniq cs) in Hu.
    generalize 0 as i. induction H as [|[c pad] r Hc Hr IH]; intro i; cbn [box_render box_chains]; [constructor|].
    cbn [box_uniq] in Hu. destruct Hu as [Hu1 Hu2]. cbn [fst] in Hc.
    apply Forall2_app; [now apply Hc|].
    apply Forall2_app; [|now apply IH].
    destruct pad; constructor; [|constructor]. repeat split.
Qed.

Lemma choose_map_focus am fm focus :
  choose_map am fm focus = match focus, fm with true, Some f => f | _, _ => am end.
Proof. destruct focus, fm; reflexivity. Qed.
