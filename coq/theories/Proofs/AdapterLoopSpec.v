(* C13, adapters - (1) the HOST SPECIFICATION: what the wrapper of Model/AdapterLoop.v assumes of the host
   runtime, as a predicate on the log of its calls and the host's answers ([a_hlog], newest first);
   (2) the CONTRACT the wrapper then guarantees on the observable history.  Definitions only.
   Vocabulary of SelectLoopSpec.v (histories are newest first: e :: older). *)
From Coq Require Import ZArith List Bool.
Import ListNotations.
From Urwid Require Import PyBase SelectLoop AdapterLoop SelectLoopSpec.
Open Scope Z_scope.

(* ---------- reading the host log ---------- *)
Definition hlater (h : Z) (c : tcb) (w : Z) (hl : list hcall) : Prop := exists t d, In (CLater t d c h w) hl.
Definition hcancelled (h : Z) (hl : list hcall) : Prop := In (CCancel h) hl.
Definition hfired (h : Z) (hl : list hcall) : Prop := exists t c, In (CNext t (HTimer h c)) hl.
(* timer h (callback c, due w) was created, not cancelled, has not run *)
Definition hpending (h : Z) (c : tcb) (w : Z) (hl : list hcall) : Prop :=
  hlater h c w hl /\ ~ hcancelled h hl /\ ~ hfired h hl.

(* the callback of the reader registered for fd *)
Fixpoint hreader (fd : Z) (hl : list hcall) : option Z :=
  match hl with
  | [] => None
  | CAddReader f id :: r => if f =? fd then Some id else hreader fd r
  | CRemoveReader f true :: r => if f =? fd then None else hreader fd r
  | _ :: r => hreader fd r
  end.

(* stop() was called and run_forever() has not returned since *)
Fixpoint stop_pending (hl : list hcall) : bool :=
  match hl with
  | [] => false
  | CStop :: _ => true
  | CNext _ HStopped :: _ => false
  | _ :: r => stop_pending r
  end.

Definition htime (c : hcall) : option Z :=
  match c with CLater t _ _ _ _ => Some t | CNext t _ => Some t | _ => None end.
(* the host clock never goes backwards *)
Definition time_le (t : Z) (older : list hcall) : Prop :=
  forall c t', In c older -> htime c = Some t' -> t' <= t.

Definition wait_ok (to : option Z) (t0 : Z) (older : list hcall) : Prop :=
  stop_pending older = false /\ time_le t0 older /\
  match to with
  | None => forall h c w, ~ hpending h c w older
  | Some d => 0 <= d /\ (0 < d -> forall h c w, hpending h c w older -> t0 + d <= w)
  end.

(* ---------- the host specification, call by call ---------- *)
Definition hcall_ok (c : hcall) (older : list hcall) : Prop :=
  match c with
  | CLater t d cb h w =>                       (* a fresh handle, due at now + delay *)
      w = t + d /\ (forall cb' w', ~ hlater h cb' w' older) /\ time_le t older
  | CCancelledQ h b => b = true <-> hcancelled h older
  | CRemoveReader fd ok => ok = true <-> hreader fd older <> None
  | CNext t ev =>
      time_le t older /\
      match ev with
      | HTimer h cb => exists w, hpending h cb w older /\ w <= t     (* once, not cancelled, not early *)
      | HReader fd id => hreader fd older = Some id                   (* only a registered reader *)
      | HSelect to regs t0 ready => wait_ok to t0 older /\ t0 <= t   (* never waits past a pending timer; not after stop() *)
      | HEnvEnd to regs t0 => wait_ok to t0 older
      | HBlocked regs t0 => wait_ok None t0 older
      | HStopped => stop_pending older = true                        (* returns only after stop() *)
      end
  | _ => True
  end.

Definition host_ok (hl : list hcall) : Prop :=
  (fix go (l : list hcall) : Prop := match l with [] => True | c :: older => hcall_ok c older /\ go older end) hl.

(* ---------- the contract of the wrapper ---------- *)
(* an idle round has run since the last alarm / watch callback *)
Definition idle_done_a (tr : list event) : Prop :=
  exists batch rest, tr = batch ++ rest /\
    (forall e, In e batch -> is_aw_call e = false) /\
    (forall h id, iset h id rest -> ~ iremoved h tr -> exists t', In (EIdleCall h id t') batch).

Definition aev_ok (e : event) (older : list event) : Prop :=
  match e with
  | EAlarmSet k due id => forall d i, ~ aset k d i older
  | ERmAlarm k ok => ok = true <-> ((exists d i, aset k d i older) /\ ~ aremoved k older)
  | EAlarmCall k id t => exists due, pending k due id older /\ due <= t
  | EWatchSet _ _ => True
  | ERmWatch fd ok => ok = true <-> watched fd older <> None
  | EWatchCall fd id t => watched fd older = Some id
  | EIdleSet h id => forall i, ~ iset h i older
  | ERmIdle h ok => ok = true <-> ((exists id, iset h id older) /\ ~ iremoved h older)
  | EIdleCall h id t => iset h id older /\ ~ iremoved h older
  | ESelect to regs t ready =>
      no_raise older /\
      match to with
      | None => forall k d i, ~ pending k d i older
      | Some d => 0 < d -> forall k due i, pending k due i older -> t + d <= due
      end /\
      (quiescent to -> idle_done_a older)
  | ERaise _ => True
  end.
