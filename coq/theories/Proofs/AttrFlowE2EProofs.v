(* C17 end to end: composing this property's theorems (markup -> runs -> layout -> canvas rows, palette
   resolution) with property C04's theorem about draw_screen (draw_paints), imported read-only. *)
From Coq Require Import ZArith List Bool Lia ZifyBool.
Import ListNotations.
From Urwid Require Import PyBase PyList attrspec_escape_gen TermRef DrawScreen PaintSpec TermRefFacts DrawScreenProofs.
From Urwid Require Import AttrFlow AttrFlowBasics AttrFlowMarkup AttrFlowLayout AttrFlowClip AttrFlowTrim AttrFlowCells
  AttrFlowSgr AttrFlowPalette AttrFlowE2E.
Open Scope Z_scope.

Arguments Z.add : simpl never.
Arguments Z.sub : simpl never.
Arguments Z.mul : simpl never.
Arguments Z.div : simpl never.
Arguments Z.modulo : simpl never.
Arguments Z.ltb : simpl never.
Arguments Z.leb : simpl never.
Arguments Z.eqb : simpl never.
Arguments Z.to_nat : simpl never.
Arguments Z.of_nat : simpl never.

(* ---------- _attrspec_to_escape: this property's hand model IS the function py2v translates from the
   source on every run (Gen/attrspec_escape_gen.v, translator module of property C04), and so agrees with
   the one draw_screen's model uses ---------- *)
Lemma escape_is_translated bib bbb (a : AttrFlow.aspec) :
  attrspec_escape_gen.attrspec_to_sgr_gen
    (fg_true a) (fg_high a) (fg_basic a) (fg_num a)
    (fg_num a / 65536) ((fg_num a / 256) mod 256) (fg_num a mod 256)
    (a_bold a) (a_italics a) (a_underline a) (a_blink a) (a_standout a) (a_strike a)
    (bg_true a) (bg_high a) (bg_basic a) (bg_num a)
    (bg_num a / 65536) ((bg_num a / 256) mod 256) (bg_num a mod 256) bib bbb
  = AttrFlow.attrspec_to_escape bib bbb a.
Proof.
  unfold attrspec_escape_gen.attrspec_to_sgr_gen, AttrFlow.attrspec_to_escape, rgb_of, flag. cbv zeta.
  destruct (fg_true a), (fg_high a), (fg_basic a), (bg_true a), (bg_high a), (bg_basic a);
    cbn [app]; rewrite <- ?app_assoc; reflexivity.
Qed.

Lemma enc_agree bib bbb (a : AttrFlow.aspec) :
  DrawScreen.spec_to_sgr bib bbb (conv a) = AttrFlow.attrspec_to_escape bib bbb a.
Proof.
  rewrite <- escape_is_translated. unfold DrawScreen.spec_to_sgr, conv, rgb_of.
  cbn [s_fgk s_fgn s_fr s_fg s_fb s_bgk s_bgn s_br s_bg s_bb s_bold s_ital s_under s_blink s_stand s_strike].
  destruct (fg_true a), (fg_high a), (fg_basic a), (bg_true a), (bg_high a), (bg_basic a); reflexivity.
Qed.

Lemma enc_agree_default bib bbb :
  DrawScreen.spec_to_sgr bib bbb DrawScreen.default_spec = AttrFlow.attrspec_to_escape bib bbb AttrFlow.default_spec.
Proof. destruct bib, bbb; reflexivity. Qed.

(* ---------- the attribute table built from the palette ---------- *)
Lemma nthz_ids {A} (f : Z -> A) n : forall start i, 0 <= i < Z.of_nat n ->
  nthz (map f (ids n start)) i = Some (f (start + i)).
Proof.
  induction n; intros start i H; [lia|].
  cbn [ids map]. unfold nthz. destruct (i <? 0) eqn:E; [lia|].
  destruct (Z.to_nat i) eqn:Ei.
  - cbn. f_equal. f_equal. lia.
  - cbn [nth_error]. specialize (IHn (start + 1) (i - 1) ltac:(lia)).
    unfold nthz in IHn. destruct (i - 1 <? 0) eqn:E2; [lia|].
    replace (Z.to_nat (i - 1)) with n0 in IHn by lia. rewrite IHn. f_equal. f_equal. lia.
Qed.

Lemma nthz_ids_none {A} (f : Z -> A) n start i : Z.of_nat n <= i -> nthz (map f (ids n start)) i = None.
Proof.
  intro H. unfold nthz. destruct (i <? 0) eqn:E; [reflexivity|].
  apply nth_error_None. rewrite map_length.
  assert (L : forall k s0, length (ids k s0) = k) by (induction k; intro; cbn; [reflexivity | now rewrite IHk]).
  rewrite L. lia.
Qed.

Definition name_ok (a : attr) : Prop := match a with None => True | Some n => 0 <= n end.

Lemma attr_of_id_of a : name_ok a -> attr_of_id (id_of_attr a) = a.
Proof.
  destruct a as [n|]; cbn [id_of_attr name_ok]; intro H; unfold attr_of_id.
  - destruct (n + 1 =? 0) eqn:E; [lia|]. f_equal. lia.
  - reflexivity.
Qed.

(* names outside the table have no palette entry *)
Definition table_covers (s : screen) (ntab : Z) : Prop :=
  forall a, name_ok a -> ntab <= id_of_attr a -> spec_for s a = None.

Lemma lookup_cfg_of s ntab u b a : 0 <= ntab -> name_ok a -> table_covers s ntab ->
  lookup_attr (cfg_of s ntab u b) (id_of_attr a) = entry_of s a.
Proof.
  intros Hn Ha Hc. unfold lookup_attr, cfg_of. cbn [g_atab].
  assert (Hid : 0 <= id_of_attr a) by (destruct a; cbn in *; lia).
  destruct (Z_lt_le_dec (id_of_attr a) ntab) as [Hlt|Hge].
  - rewrite nthz_ids by lia. now rewrite Z.add_0_l, attr_of_id_of.
  - rewrite nthz_ids_none by lia. unfold entry_of. now rewrite (Hc a Ha Hge).
Qed.

Definition pen_spec (s : screen) (a : attr) : DrawScreen.aspec :=
  match spec_for s a with Some sp => conv sp | None => DrawScreen.default_spec end.

Lemma attr_vis_cfg_of s ntab u b a : 0 <= ntab -> name_ok a -> table_covers s ntab ->
  attr_vis (cfg_of s ntab u b) (id_of_attr a) = PaintSpec.visual (s_bib s) (s_bbb s) (pen_spec s a).
Proof.
  intros Hn Ha Hc. unfold attr_vis. rewrite lookup_cfg_of by assumption.
  unfold entry_of, pen_spec. destruct (spec_for s a); reflexivity.
Qed.

(* what draw_screen's model sends for a name is what this property's palette model resolves it to *)
Lemma attr_to_escape_agree s ntab u b a : consistent s -> 0 <= ntab -> name_ok a -> table_covers s ntab ->
  DrawScreen.attr_to_escape (cfg_of s ntab u b) (id_of_attr a) = [TSgr (AttrFlow.attr_to_escape s (DName a))].
Proof.
  intros [_ Hc] Hn Ha Ht. unfold DrawScreen.attr_to_escape. rewrite lookup_cfg_of by assumption.
  cbn [AttrFlow.attr_to_escape g_bib g_bbb cfg_of]. rewrite Hc.
  unfold entry_of, spec_for, esc_of.
  destruct (plookup a (s_palette s)) as [e|].
  - destruct (select_spec (s_colors s) e) as [sp|].
    + change (0 =? 2) with false. cbv iota. now rewrite enc_agree.
    + change (2 =? 2) with true. cbv iota. now rewrite enc_agree_default.
  - change (2 =? 2) with true. cbv iota. now rewrite enc_agree_default.
Qed.

(* the table is acceptable to the draw_screen theorem when the palette entries are valid AttrSpecs *)
Definition palette_valid (s : screen) : Prop := forall a sp, spec_for s a = Some sp -> valid_spec sp.

Lemma conv_spec_ok sp : valid_spec sp -> spec_ok (conv sp).
Proof.
  intros (V1 & V2 & V3 & V4 & V5 & V6). unfold spec_ok, conv.
  cbn [s_fgk s_fgn s_bgk s_bgn]. split.
  - destruct (fg_true sp) eqn:E1; [discriminate|]. destruct (fg_high sp) eqn:E2; [discriminate|].
    destruct (fg_basic sp) eqn:E3; [|discriminate]. intros _. now apply V3.
  - destruct (bg_true sp) eqn:E1; [discriminate|]. destruct (bg_high sp) eqn:E2; [discriminate|].
    destruct (bg_basic sp) eqn:E3; [|discriminate]. intros _. now apply V6.
Qed.

Lemma cfg_of_ok s ntab u b : palette_valid s -> cfg_ok (cfg_of s ntab u b).
Proof.
  intro Hv. unfold cfg_ok, cfg_of. cbn [g_atab]. apply Forall_forall. intros e Hin.
  apply in_map_iff in Hin. destruct Hin as (i & <- & _). unfold entry_of.
  destruct (spec_for s (attr_of_id i)) as [sp|] eqn:E; cbn [snd].
  - apply conv_spec_ok. now apply (Hv (attr_of_id i)).
  - unfold spec_ok. cbn. split; discriminate.
Qed.

(* ---------- the pen of every cell of a painted row ---------- *)
Lemma c_at_combine_last P cp : map c_at (combine_last P cp) = map c_at P.
Proof.
  unfold combine_last. assert (HP : P = rev (rev P)) by (symmetry; apply rev_involutive).
  destruct (rev P) as [|c r] eqn:E.
  - rewrite HP. reflexivity.
  - cbn [rev] in HP. destruct (c_w c =? 0).
    + destruct r as [|c2 r2]; [reflexivity|].
      rewrite HP. cbn [rev]. rewrite !map_app. cbn [map]. rewrite <- !app_assoc. reflexivity.
    + rewrite HP. rewrite !map_app. reflexivity.
Qed.

Definition w012 (ch : DrawScreen.chr) : Prop := snd ch = 0 \/ snd ch = 1 \/ snd ch = 2.

Lemma c_at_paint_chr cs v P ch : w012 ch ->
  map c_at (paint_chr cs v P ch) = map c_at P ++ repeat v (Z.to_nat (snd ch)).
Proof.
  intros [H|[H|H]]; unfold paint_chr; rewrite H.
  - change (0 =? 0) with true. cbv iota. rewrite c_at_combine_last. cbn. now rewrite app_nil_r.
  - change (1 =? 0) with false. cbv iota. rewrite map_app. unfold char_cells.
    change (1 =? 0) with false. change (1 =? 2) with false. reflexivity.
  - change (2 =? 0) with false. cbv iota. rewrite map_app. unfold char_cells.
    change (2 =? 0) with false. change (2 =? 2) with true. reflexivity.
Qed.

Lemma c_at_paint_text cs v text : Forall w012 text -> forall P,
  map c_at (paint_text P cs v text) = map c_at P ++ repeat v (Z.to_nat (DrawScreen.calc_width text)).
Proof.
  unfold paint_text. induction 1 as [|ch t Hc Ht IH]; intro P; cbn [fold_left DrawScreen.calc_width].
  - cbn. now rewrite app_nil_r.
  - rewrite IH, c_at_paint_chr by assumption. rewrite <- app_assoc. f_equal.
    assert (0 <= DrawScreen.calc_width t).
    { clear -Ht. induction Ht as [|x l [H|[H|H]] _ IH]; cbn [DrawScreen.calc_width]; lia. }
    destruct Hc as [H0|[H0|H0]]; rewrite H0; rewrite <- repeat_Z_add by lia; reflexivity.
Qed.

Lemma map_repeat' {A B} (f : A -> B) x n : map f (repeat x n) = repeat (f x) n.
Proof. induction n; cbn; [reflexivity | now rewrite IHn]. Qed.

(* per column: the attribute id of the run that covers it *)
Definition row_cols (c : cfg) (row : DrawScreen.crow) : list Z :=
  flat_map (fun r : crun => let '(a, cs, text) := r in
              repeat a (Z.to_nat (DrawScreen.calc_width (out_text c cs text)))) row.

Lemma out_text_w012 c cs text : Forall w012 text -> Forall w012 (out_text c cs text).
Proof.
  intro H. unfold out_text, trans_text. destruct (cs =? 2); [assumption|].
  destruct (g_utf8 c).
  - apply Forall_forall. intros x Hx. apply filter_In in Hx. rewrite Forall_forall in H. now apply H.
  - apply Forall_forall. intros x Hx. apply in_map_iff in Hx. destruct Hx as (y & <- & Hy).
    rewrite Forall_forall in H. specialize (H y Hy). unfold trans_chr. destruct (fst y <? 32); [right; left; reflexivity | assumption].
Qed.

Lemma chr_ok_w012 u ch : chr_ok u ch -> w012 ch.
Proof. intros (_ & [H|(_ & [H|H])] & _); unfold w012; auto. Qed.

Lemma row_pens c row : Forall (run_ok c) row ->
  map c_at (row_cells c row) = map (attr_vis c) (row_cols c row).
Proof.
  induction 1 as [|[[a cs] text] r Hr Hrest IH]; [reflexivity|].
  unfold row_cells, row_cols in *. cbn [flat_map]. rewrite !map_app, IH. f_equal.
  unfold run_cells. destruct Hr as (_ & _ & Hch & _).
  rewrite c_at_paint_text.
  - cbn [map app]. now rewrite map_repeat'.
  - apply out_text_w012. eapply Forall_impl; [|exact Hch]. intros x Hx. eapply chr_ok_w012; eassumption.
Qed.

(* ---------- markup: the run list read at ANY offset is the innermost tag ---------- *)
Definition tag_at (m : markup) (i : Z) : attr := nth (Z.to_nat i) (tags m None) None.

Lemma al_is_tags m b codes al : decompose_tagmarkup m = Ok (b, codes, al) ->
  forall i, 0 <= i -> rle_get_at al i = tag_at m i.
Proof.
  intros H i Hi. destruct (decompose_innermost m b codes al H) as (Ht & Hn & Hl & _ & Hget).
  destruct (Z_lt_le_dec i (zlen codes)) as [Hlt|Hge]; [now apply Hget|].
  unfold tag_at. rewrite rle_get_at_expand by assumption.
  rewrite !nth_overflow; [reflexivity| |].
  - rewrite length_tags, <- Ht. unfold zlen in Hge. lia.
  - pose proof (length_expand al Hn). lia.
Qed.

(* the per-column demand with the attribute of an offset given by any function *)
Definition seg_cells_f (f : Z -> attr) (text : list AttrFlow.chr) (s : seg) : list attr :=
  match s with
  | SText _ o e =>
      flat_map (fun p : AttrFlow.chr * attr => repeat (snd p) (Z.to_nat (c_wid (fst p))))
               (combine (sub text o e) (map f (zrange' o e)))
  | SIns sc o txt _ => if rc_len txt =? 0 then repeat (f o) (Z.to_nat sc) else repeat (f o) (Z.to_nat (rc_wid txt))
  | SPad sc None => repeat None (Z.to_nat sc)
  | SPad sc (Some o) => repeat (f o) (Z.to_nat sc)
  end.

Lemma seg_cells_is_f text attrs f s : wf_seg text s -> (forall i, 0 <= i -> rle_get_at attrs i = f i) ->
  seg_cells text attrs s = seg_cells_f f text s.
Proof.
  intros Hwf Hf. destruct s as [sc o e|sc o txt ilen|sc [o|]]; cbn [seg_cells seg_cells_f wf_seg] in *.
  - destruct Hwf as (_ & Ho & _). do 2 f_equal. apply map_ext_zrange. intros p Hp. apply Hf. lia.
  - destruct Hwf as (_ & Ho & _). unfold pad_attr. now rewrite Hf.
  - destruct Hwf as (_ & Ho). unfold pad_attr. now rewrite Hf.
  - reflexivity.
Qed.

Lemma seg_cells_f_forall (P : attr -> Prop) f text s : (forall i, P (f i)) -> P None -> Forall P (seg_cells_f f text s).
Proof.
  intros Hf Hn. destruct s as [sc o e|sc o txt ilen|sc [o|]]; cbn [seg_cells_f].
  - apply Forall_forall. intros a Ha. apply in_flat_map in Ha. destruct Ha as ([c a'] & Hin & Hr).
    apply repeat_spec in Hr. subst a. apply in_combine_r in Hin. apply in_map_iff in Hin.
    destruct Hin as (i & <- & _). apply Hf.
  - destruct (rc_len txt =? 0); apply Forall_forall; intros a Ha; apply repeat_spec in Ha; subst; apply Hf.
  - apply Forall_forall; intros a Ha; apply repeat_spec in Ha; subst; apply Hf.
  - apply Forall_forall; intros a Ha; apply repeat_spec in Ha; subst; exact Hn.
Qed.

(* ---------- reading a canvas row per column ---------- *)
(* the characters a (trimmed) segment puts on the line *)
Definition seg_chars (text : list AttrFlow.chr) (s : seg) : list rchr :=
  match s with
  | SText _ o e => map disp (sub text o e)
  | SIns sc o txt _ => if rc_len txt =? 0 then repeat (RC 1 1) (Z.to_nat sc) else txt
  | SPad sc _ => repeat (RC 1 1) (Z.to_nat sc)
  end.

Lemma map_fst_repeat_blank a n : map fst (repeat (blank a) n) = repeat (RC 1 1) n.
Proof. induction n; cbn; [reflexivity | now rewrite IHn]. Qed.

Lemma shown_seg_chars text attrs s : wf_seg text s -> map fst (shown_seg text attrs s) = seg_chars text s.
Proof.
  intro Hwf. destruct s as [sc o e|sc o txt ilen|sc [o|]]; cbn [shown_seg seg_chars wf_seg] in *.
  - destruct Hwf as (_ & Ho & Hoe & He). apply map_fst_combine.
    rewrite !map_length, length_zrange, length_sub by lia. reflexivity.
  - destruct (rc_len txt =? 0); [apply map_fst_repeat_blank|].
    rewrite map_map. cbn [fst]. apply map_id.
  - apply map_fst_repeat_blank.
  - apply map_fst_repeat_blank.
Qed.

(* per column the attribute of the first byte of the character occupying it *)
Fixpoint cols_of_bytes (rc : list rchr) (ba : list attr) : list attr :=
  match rc with
  | [] => []
  | c :: t => repeat (hd None ba) (Z.to_nat (r_wid c)) ++ cols_of_bytes t (skipn (Z.to_nat (r_len c)) ba)
  end.

(* a character without bytes (SO/SI) has no column *)
Definition solid (c : rchr) : Prop := 0 <= r_len c /\ (r_len c = 0 -> r_wid c <= 0).

Lemma cols_of_bytes_rbytes (S : AttrFlowClip.crow) : Forall (fun x => solid (fst x)) S ->
  cols_of_bytes (map fst S) (rbytes S) = colattrs S.
Proof.
  induction 1 as [|[c a] t [Hl Hz] Ht IH]; [reflexivity|].
  cbn [map fst cols_of_bytes] in *.
  change (rbytes ((c, a) :: t)) with (repeat a (Z.to_nat (r_len c)) ++ rbytes t).
  change (colattrs ((c, a) :: t)) with (repeat a (Z.to_nat (r_wid c)) ++ colattrs t).
  rewrite skipn_len_app by (now rewrite repeat_length). rewrite IH. f_equal.
  destruct (Z.eq_dec (r_len c) 0) as [E|E].
  - specialize (Hz E). replace (Z.to_nat (r_wid c)) with 0%nat by lia. reflexivity.
  - replace (Z.to_nat (r_len c)) with (S (Z.to_nat (r_len c - 1))) by lia. reflexivity.
Qed.

(* ---------- what is assumed of the canvas outside both models ----------
   The TEXT of canvas row y is the characters of its trimmed segments followed by fill blanks
   (the text part of apply_text_layout and TextCanvas.__init__), as many bytes as the attribute
   runs have positions; and TextCanvas.content() hands draw_screen runs which give every column the
   attribute of the first byte of the character occupying it (rle_product).  [rc] is the
   character structure of the row's byte string. *)
Definition canvas_row_reads (c : cfg) (text : list AttrFlow.chr) (segs : list seg) (row : rle) (content_row : DrawScreen.crow) : Prop :=
  exists (rc : list rchr) (k : nat),
    rc = flat_map (seg_chars text) segs ++ repeat (RC 1 1) k /\
    rc_len rc = Z.of_nat (length (expand row)) /\
    row_cols c content_row = map id_of_attr (cols_of_bytes rc (expand row)).

Lemma rc_len_app a b : rc_len (a ++ b) = rc_len a + rc_len b.
Proof. induction a; cbn [rc_len app]; lia. Qed.
Lemma rc_len_blanks n : rc_len (repeat (RC 1 1) n) = Z.of_nat n.
Proof. induction n; cbn [repeat rc_len r_len]; lia. Qed.

Lemma Forall2_nth_error {A B} (R : A -> B -> Prop) l1 l2 : Forall2 R l1 l2 ->
  forall n x, nth_error l1 n = Some x -> exists y, nth_error l2 n = Some y /\ R x y.
Proof.
  induction 1 as [|a b l l' H _ IH]; intros n x Hn; [destruct n; discriminate|].
  destruct n; cbn in *; [inversion Hn; subst; eauto | now apply IH].
Qed.

Lemma nth_error_map_eq {A B C} (f : A -> C) (g : B -> C) la lb : map f la = map g lb ->
  forall n b, nth_error lb n = Some b -> exists a, nth_error la n = Some a /\ f a = g b.
Proof.
  revert lb. induction la as [|a t IH]; intros [|b u] H n x Hn; cbn in H; try discriminate; [destruct n; discriminate|].
  inversion H. destruct n; cbn in *; [inversion Hn; subst; eauto | eapply IH; eassumption].
Qed.

Definition names_ok (m : markup) : Prop := Forall name_ok (tags m None).

Lemma tag_at_ok m : names_ok m -> forall i, name_ok (tag_at m i).
Proof.
  intros H i. unfold tag_at. destruct (nth_in_or_default (Z.to_nat i) (tags m None) None) as [Hin|E].
  - unfold names_ok in H. rewrite Forall_forall in H. now apply H.
  - rewrite E. exact I.
Qed.

Lemma Forall2_nth_error_r {A B} (R : A -> B -> Prop) l1 l2 : Forall2 R l1 l2 ->
  forall n y, nth_error l2 n = Some y -> exists x, nth_error l1 n = Some x /\ R x y.
Proof.
  induction 1 as [|a b l l' H _ IH]; intros n y Hn; [destruct n; discriminate|].
  destruct n; cbn in *; [inversion Hn; subst; eauto | now apply IH].
Qed.

Lemma nth_error_combine {A B} (la : list A) : forall (lb : list B) n a b,
  nth_error la n = Some a -> nth_error lb n = Some b -> nth_error (combine la lb) n = Some (a, b).
Proof.
  induction la as [|x t IH]; intros [|y u] n a b Ha Hb; destruct n; cbn in *; try discriminate.
  - now inversion Ha; inversion Hb.
  - now apply IH.
Qed.

Lemma length_rbytes_solid (S : AttrFlowClip.crow) : Forall (fun x => solid (fst x)) S ->
  Z.of_nat (length (rbytes S)) = rc_len (map fst S).
Proof.
  induction 1 as [|[c a] t [Hl _] _ IH]; [reflexivity|].
  change (rbytes ((c, a) :: t)) with (repeat a (Z.to_nat (r_len c)) ++ rbytes t).
  cbn [map fst rc_len] in *. rewrite app_length, repeat_length, Nat2Z.inj_add, IH. lia.
Qed.

Lemma nthz_of_nat {A} (l : list A) n : nthz l (Z.of_nat n) = nth_error l n.
Proof. unfold nthz. destruct (Z.of_nat n <? 0) eqn:E; [lia|]. now rewrite Nat2Z.id. Qed.

(* ---------- the end-to-end statement ---------- *)
Lemma e2e_lemma ops bib bbb m isb codes al text lines tl maxcol rows ntab bce content sc t :
  let s := fst (prun (screen_init bib bbb) ops) in
  let c := cfg_of s ntab true bce in
  (* markup -> runs -> layout -> canvas rows: this property's model *)
  decompose_tagmarkup m = Ok (isb, codes, al) -> names_ok m ->
  enc_ok isb text -> trimmed_lines text maxcol lines tl -> Forall (Forall ins_plain) tl ->
  Forall (Forall (fun sg => Forall solid (seg_chars text sg))) tl ->
  apply_text_layout isb text al lines maxcol = Ok rows ->
  (* palette: any history; the table handed to draw_screen covers the registered names *)
  palette_valid s -> 0 <= ntab -> table_covers s ntab ->
  (* the canvas as draw_screen receives it *)
  canvas_ok c maxcol (zlen content) content ->
  Forall2 (fun (sr : list seg * rle) crow_ => canvas_row_reads c text (fst sr) (snd sr) crow_) (combine tl rows) content ->
  (* the screen object and the terminal agree (whatever was drawn before) *)
  Sync c sc t -> t_cols t = maxcol -> t_rows t = zlen content ->
  exists toks sc',
    draw_screen c sc maxcol (zlen content) content None false false = Ok (toks, sc') /\
    forall y segs, nth_error tl y = Some segs ->
      exists k, forall x a,
        nth_error (flat_map (seg_cells_f (tag_at m) text) segs ++ repeat None k) x = Some a ->
        exists e g, nth_error (get_row (t_grid (TermRef.run t toks)) (Z.of_nat y)) x = Some g /\ vis_eq e g /\
                    c_at e = PaintSpec.visual (s_bib s) (s_bbb s) (pen_spec s a).
Proof.
  intros s c Hdec Hnames Henc Htrim Hplain Hsolid Hlay Hpv Hnt Hcov Hcan Hreads Hsync Hcols Hrows.
  assert (Hcfg : cfg_ok c) by (now apply cfg_of_ok).
  destruct (draw_paints_lemma c sc t maxcol (zlen content) content None Hcfg Hsync Hcols Hrows Hcan I)
    as (toks & sc' & Hdraw & ((Hgl & Hgrid) & _) & _).
  exists toks, sc'. split; [exact Hdraw|].
  intros y segs Hy.
  pose proof (proj1 (proj2 (decompose_innermost m isb codes al Hdec))) as Hal.
  pose proof (al_is_tags m isb codes al Hdec) as Htags.
  (* the segments of row y are well-formed, plain, solid *)
  destruct (Forall2_nth_error_r _ _ _ Htrim y segs Hy) as (line & _ & _ & Hwf).
  assert (Hpl : Forall ins_plain segs).
  { rewrite Forall_forall in Hplain. apply Hplain. eapply nth_error_In; eassumption. }
  assert (Hso : Forall (fun sg => Forall solid (seg_chars text sg)) segs).
  { rewrite Forall_forall in Hsolid. apply Hsolid. eapply nth_error_In; eassumption. }
  (* this property's byte-level theorem for row y *)
  pose proof (layout_rows_spec isb text al lines tl maxcol rows Henc Hal Htrim Hlay) as Hrowsp.
  destruct (Forall2_nth_error _ _ _ Hrowsp y segs Hy) as (row & Hrow & ([kb Hkb] & _)).
  (* the canvas row draw_screen receives *)
  pose proof (nth_error_combine tl rows y segs row Hy Hrow) as Hcomb.
  destruct (Forall2_nth_error _ _ _ Hreads y (segs, row) Hcomb) as (crow_ & Hcrow & (rc & k & Hrc & Hlen & Hcolsrow)).
  cbn [fst snd] in *.
  set (S := flat_map (shown_seg text al) segs).
  assert (HS1 : map fst S = flat_map (seg_chars text) segs).
  { unfold S. clear -Hwf. induction Hwf as [|sg r Hs _ IH]; [reflexivity|].
    cbn [flat_map]. now rewrite map_app, IH, shown_seg_chars. }
  assert (HSsolid : Forall (fun x => solid (fst x)) S).
  { apply Forall_forall. intros x Hx. assert (Hin : In (fst x) (map fst S)) by (now apply in_map).
    rewrite HS1 in Hin. apply in_flat_map in Hin. destruct Hin as (sg & Hsg & Hc).
    rewrite Forall_forall in Hso. specialize (Hso sg Hsg). rewrite Forall_forall in Hso. now apply Hso. }
  assert (HSb : rbytes S = flat_map (seg_spec text al) segs) by (now apply shown_line_bytes).
  (* the number of fill blanks is the number of None positions appended *)
  assert (Hk : k = kb).
  { rewrite Hrc, rc_len_app, rc_len_blanks, <- HS1, <- length_rbytes_solid, HSb in Hlen by assumption.
    rewrite Hkb, app_length, repeat_length in Hlen. lia. }
  subst kb.
  set (fill := repeat (blank None) k).
  assert (Hfs : Forall (fun x : rchr * attr => solid (fst x)) (S ++ fill)).
  { apply Forall_app. split; [assumption|]. apply Forall_forall. intros x Hx. apply repeat_spec in Hx. subst x.
    unfold solid, blank. cbn. lia. }
  assert (Hread : cols_of_bytes rc (expand row) = flat_map (seg_cells_f (tag_at m) text) segs ++ repeat None k).
  { assert (E1 : rc = map fst (S ++ fill)).
    { rewrite Hrc, map_app, HS1. unfold fill. now rewrite map_fst_repeat_blank. }
    assert (E2 : expand row = rbytes (S ++ fill)).
    { rewrite Hkb, rbytes_app, HSb. unfold fill. now rewrite rbytes_blanks. }
    rewrite E1, E2, cols_of_bytes_rbytes by assumption.
    rewrite colattrs_app. unfold fill. rewrite colattrs_blanks. f_equal.
    unfold S. rewrite shown_line_cells by assumption.
    clear -Hwf Htags. induction Hwf as [|sg r Hs _ IH]; [reflexivity|].
    cbn [flat_map]. rewrite IH. f_equal. now apply seg_cells_is_f. }
  exists k. intros x a Hxa.
  (* the pens of the expected cells of that row *)
  assert (Hrok : Forall (run_ok c) crow_).
  { destruct Hcan as [_ Hall]. rewrite Forall_forall in Hall.
    destruct (Hall crow_ (nth_error_In _ _ Hcrow)) as [Hr _]. exact Hr. }
  pose proof (row_pens c crow_ Hrok) as Hpens.
  rewrite Hcolsrow, Hread, map_map in Hpens.
  destruct (nth_error_map_eq c_at (fun a0 => attr_vis c (id_of_attr a0)) _ _ Hpens x a Hxa) as (e & He & Hat).
  specialize (Hgrid (Z.of_nat y) crow_). rewrite nthz_of_nat in Hgrid. specialize (Hgrid Hcrow).
  destruct (Forall2_nth_error _ _ _ Hgrid x e He) as (g & Hg & Hvis).
  exists e, g. split; [exact Hg|]. split; [exact Hvis|].
  rewrite Hat. apply attr_vis_cfg_of; try assumption.
  (* the attribute of the column is None or a tag of the markup *)
  assert (Hall : Forall name_ok (flat_map (seg_cells_f (tag_at m) text) segs ++ repeat None k)).
  { apply Forall_app. split.
    - apply Forall_forall. intros b Hb. apply in_flat_map in Hb. destruct Hb as (sg & _ & Hb).
      pose proof (seg_cells_f_forall name_ok (tag_at m) text sg (tag_at_ok m Hnames) I) as F.
      rewrite Forall_forall in F. now apply F.
    - apply Forall_forall. intros b Hb. apply repeat_spec in Hb. subst b. exact I. }
  rewrite Forall_forall in Hall. apply Hall. eapply nth_error_In; eassumption.
Qed.
