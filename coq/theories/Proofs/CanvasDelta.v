(* C02: content_delta, part 1.  The delta machine (the polymorphic shard machinery run over
   cviews flagged "unchanged") refines the abstract machine run over TAGGED cells: every
   cell of a cview carries its flag in front of its code-point list.  The rows that
   content_delta yields, expanded column by column, are the tagged rows. *)
From Coq Require Import ZArith List Bool Lia ZifyBool.
From Urwid Require Import PyBase Canvas CanvasGrid CanvasFacts CanvasAbs CanvasVert CanvasHoriz.
Import ListNotations.
Open Scope Z_scope.
Arguments Z.add : simpl never.
Arguments Z.sub : simpl never.
Arguments Z.mul : simpl never.
Arguments Z.ltb : simpl never.
Arguments Z.leb : simpl never.
Arguments Z.eqb : simpl never.
Arguments Z.min : simpl never.
Arguments Z.max : simpl never.
Arguments Z.to_nat : simpl never.
Arguments Z.of_nat : simpl never.

(* ------------------------------------------------------------------ tagged cells *)
Definition tag (u : bool) (c : cell) : cell := Cell (ck c) (ca c) (ccs c) ((if u then 1 else 0) :: cch c).
Definition untag (c : cell) : cell := Cell (ck c) (ca c) (ccs c) (List.tl (cch c)).
Definition is_skip (c : cell) : bool := match cch c with 1 :: _ => true | _ => false end.
Definition optcell (t : cell) : option cell := if is_skip t then None else Some (untag t).

Lemma untag_tag u c : untag (tag u c) = c.
Proof. destruct c; reflexivity. Qed.
Lemma is_skip_tag u c : is_skip (tag u c) = u.
Proof. destruct u; reflexivity. Qed.
Lemma ck_tag u c : ck (tag u c) = ck c.
Proof. reflexivity. Qed.
Lemma ck_untag c : ck (untag c) = ck c.
Proof. reflexivity. Qed.

Definition trows (dc : dcview) : list row := map (map (tag (snd dc))) (rows_of (fst dc)).
Definition tabs (dc : dcview) : acv := (dcols dc, trows dc).
Definition tabs_e (e : body_entry dcview) : acv := (dcols (snd e), dropz (fst e) (trows (snd e))).
Definition tabs_sh (s : Z * list dcview) : ashard := (fst s, map tabs (snd s)).
Definition tslots_of_tail (tail : list (tail_entry dcview)) : list slot :=
  flat_map (fun t : tail_entry dcview => [Free (fst (fst t)); Busy (tabs_e (snd (fst t), snd t))]) tail.

Definition dentry_ok (e : body_entry dcview) : Prop := entry_ok (fst e, fst (snd e)).
Definition dtail_ok (tail : list (tail_entry dcview)) : Prop :=
  Forall (fun t : tail_entry dcview => dentry_ok (snd (fst t), snd t)) tail.

Lemma zlen_trows dc : cview_ok (fst dc) -> zlen (trows dc) = drows dc.
Proof. intros H. unfold trows, drows. rewrite zlen_map. now apply zlen_rows_of. Qed.

Lemma tabs_e_0 dc : tabs_e (0, dc) = tabs dc.
Proof. unfold tabs_e, tabs; cbn [fst snd]. now rewrite dropz_le0 by lia. Qed.

Lemma zlen_tabs_e e : dentry_ok e -> zlen (snd (tabs_e e)) = drows (snd e) - fst e.
Proof.
  intros [[? ?] ?]. cbn [fst snd] in *. unfold tabs_e; cbn [snd]. rewrite zlen_dropz_le; rewrite zlen_trows by assumption; unfold drows; lia.
Qed.

Lemma row_clean_tag u r : row_cleanb (map (tag u) r) = row_cleanb r.
Proof. apply row_clean_map. intros c. reflexivity. Qed.

Lemma tabs_ok dc : cview_ok (fst dc) -> acv_ok (tabs dc).
Proof.
  intros H. split; cbn [tabs fst snd]; [apply (cview_ok_pos _ H)|]. unfold trows. apply Forall_forall. intros r Hr.
  apply in_map_iff in Hr as (r0 & <- & Hr0). rewrite zlen_map, row_clean_tag.
  pose proof (rows_of_width _ H) as Fw. pose proof (rows_of_clean _ H) as Fc. rewrite Forall_forall in Fw, Fc. split; auto.
Qed.
Lemma tabs_e_ok e : dentry_ok e -> acv_ok (tabs_e e).
Proof.
  intros [_ H]. cbn [fst snd] in H. destruct (tabs_ok (snd e) H) as [A B]. split; cbn [tabs_e fst snd]; [exact A|].
  apply Forall_dropz. exact B.
Qed.

(* ------------------------------------------------------------------ the machinery over flagged cviews *)
Lemma datake_abs cvs g :
  atake (map tabs cvs) g =
  rmap (fun br : list (body_entry dcview) * list dcview => (map tabs_e (fst br), map tabs (snd br))) (take_gap dcols cvs g).
Proof.
  revert g; induction cvs as [|cv cvs IH]; intros g; cbn [map atake take_gap].
  - destruct (g =? 0); reflexivity.
  - destruct (g =? 0); [reflexivity|]. cbn [tabs fst].
    destruct (g - dcols cv <? 0); [reflexivity|]. rewrite IH.
    destruct (take_gap dcols cvs (g - dcols cv)) as [[b r]|e]; cbn [rmap fst snd map]; [|reflexivity].
    now rewrite tabs_e_0.
Qed.

Lemma dfill_abs tail cvs :
  fill (tslots_of_tail tail) (map tabs cvs) 0 = rmap (map tabs_e) (shard_body dcols cvs tail).
Proof.
  revert cvs; induction tail as [|[[g d] tcv] tail IH]; intros cvs; cbn [tslots_of_tail flat_map fill shard_body app fst snd].
  - cbn [rmap]. f_equal. rewrite map_map. apply map_ext. intros cv. now rewrite tabs_e_0.
  - rewrite Z.add_0_l. rewrite datake_abs. destruct (take_gap dcols cvs g) as [[b r]|e]; cbn [rmap fst snd]; [|reflexivity].
    fold (tslots_of_tail tail). rewrite IH. destruct (shard_body dcols r tail) as [b'|e]; cbn [rmap]; [|reflexivity].
    now rewrite map_app.
Qed.

Lemma dtail_abs n sb gap :
  0 <= n -> Forall dentry_ok sb ->
  forall C g, fill (tslots_of_tail (shard_body_tail_go dcols drows n sb gap)) C g
              = fill (slots_after n (map tabs_e sb)) C (g + gap).
Proof.
  intros Hn. revert gap; induction sb as [|[d cv] sb IH]; intros gap F C g; cbn [shard_body_tail_go map slots_after]; [reflexivity|].
  inversion F; subst. fold (slots_after n (map tabs_e sb)).
  unfold slot_after at 1. rewrite (zlen_tabs_e _ H1). cbn [fst snd tabs_e]. destruct H1 as [[? ?] ?]; cbn [fst snd] in *.
  unfold drows in *. cbn [fst].
  destruct (d + n =? crows (fst cv)) eqn:E.
  - destruct (n =? crows (fst cv) - d) eqn:E'; [|lia]. cbn [fill]. rewrite IH by assumption. f_equal. lia.
  - destruct (n =? crows (fst cv) - d) eqn:E'; [lia|]. cbn [tslots_of_tail flat_map fill app fst snd tabs_e].
    fold (tslots_of_tail (shard_body_tail_go dcols drows n sb 0)).
    rewrite dropz_dropz by lia. rewrite (Z.add_comm n d).
    destruct (atake C (g + gap)) as [[b r]|e]; [|reflexivity].
    rewrite IH by assumption. rewrite Z.add_0_l. reflexivity.
Qed.

(* ------------------------------------------------------------------ projection onto the plain machine *)
Definition projE (e : body_entry dcview) : body_entry cview := (fst e, fst (snd e)).
Definition projT (t : tail_entry dcview) : tail_entry cview := (fst (fst t), snd (fst t), fst (snd t)).
Definition projS (s : Z * list dcview) : shard := (fst s, map fst (snd s)).

Lemma take_gap_proj cvs g :
  take_gap ccols (map fst cvs) g =
  rmap (fun br : list (body_entry dcview) * list dcview => (map projE (fst br), map fst (snd br))) (take_gap dcols cvs g).
Proof.
  revert g; induction cvs as [|cv cvs IH]; intros g; cbn [map take_gap].
  - destruct (g =? 0); reflexivity.
  - destruct (g =? 0); [reflexivity|]. change (ccols (fst cv)) with (dcols cv). destruct (g - dcols cv <? 0); [reflexivity|].
    rewrite IH. destruct (take_gap dcols cvs (g - dcols cv)) as [[b r]|e]; reflexivity.
Qed.

Lemma shard_body_proj tail cvs :
  shard_body ccols (map fst cvs) (map projT tail) = rmap (map projE) (shard_body dcols cvs tail).
Proof.
  revert cvs; induction tail as [|[[g d] tcv] tail IH]; intros cvs; cbn [map shard_body projT fst snd].
  - cbn [rmap]. f_equal. rewrite !map_map. reflexivity.
  - rewrite take_gap_proj. destruct (take_gap dcols cvs g) as [[b r]|e]; cbn [rmap fst snd]; [|reflexivity].
    rewrite IH. destruct (shard_body dcols r tail) as [b'|e]; cbn [rmap]; [|reflexivity]. now rewrite map_app.
Qed.

Lemma shard_body_tail_proj n sb : forall gap,
  map projT (shard_body_tail_go dcols drows n sb gap) = shard_body_tail_go ccols crows n (map projE sb) gap.
Proof.
  induction sb as [|[d cv] sb IH]; intros gap; cbn [shard_body_tail_go map projE fst snd]; [reflexivity|].
  unfold drows, dcols. cbn [fst]. destruct (d + n =? crows (fst cv)); [apply IH|]. cbn [map projT fst snd]. now rewrite IH.
Qed.

(* ------------------------------------------------------------------ rows of the delta *)
Definition expand_item (d : ditem) : list (option cell) :=
  match d with DSkip n => repeatz None n | DCell c => [Some c] end.
Definition expand (items : list ditem) : list (option cell) := flat_map expand_item items.

Lemma expand_app a b : expand (a ++ b) = expand a ++ expand b.
Proof. unfold expand. apply flat_map_app. Qed.

Lemma expand_map_DCell r : expand (map DCell r) = map Some r.
Proof. induction r as [|c r IH]; cbn [map expand flat_map expand_item app]; [reflexivity|]. unfold expand in IH. now rewrite IH. Qed.

(* one row: the accumulator of delta_body_row *)
Lemma delta_body_row_abs sb k : forall acc,
  0 <= k -> Forall dentry_ok sb -> Forall (fun e : body_entry dcview => fst e + k < drows (snd e)) sb ->
  Forall (fun d => match d with DSkip n => 0 <= n | DCell _ => True end) acc ->
  exists items, delta_body_row sb k acc = Ok items /\
                expand items = expand (rev acc) ++ map optcell (arow (map tabs_e sb) k).
Proof.
  intros acc Hk. revert acc. induction sb as [|[d [cv u]] sb IH]; intros acc F W Hacc; cbn [delta_body_row map arow flat_map].
  - exists (rev acc). split; [reflexivity|]. now rewrite app_nil_r.
  - inversion F as [|? ? [[Hd1 Hd2] Hok] F']; subst. inversion W; subst. cbn [fst snd] in *. unfold drows in *. cbn [fst] in *.
    fold (arow (map tabs_e sb) k).
    destruct (cview_ok_pos _ Hok) as [Hc Hr].
    destruct (nthz_lt_some (rows_of cv) (d + k)) as [r Hr']; [rewrite zlen_rows_of by assumption; lia|].
    assert (nthz (snd (tabs_e (d, (cv, u)))) k = Some (map (tag u) r)) as Ent.
    { cbn [tabs_e fst snd]. rewrite nthz_dropz by lia. unfold trows. cbn [fst snd].
      apply (f_equal (option_map (map (tag u)))) in Hr'. cbn [option_map] in Hr'. rewrite <- Hr'. apply nthz_map. }
    match goal with |- context [match ?X with Some _ => _ | None => _ end] => replace X with (Some (map (tag u) r)) by (symmetry; exact Ent) end.
    assert (zlen r = ccols cv) as Hz.
    { pose proof (rows_of_width _ Hok) as Fw. rewrite Forall_forall in Fw. apply Fw.
      unfold nthz in Hr'. destruct (d + k <? 0); [discriminate|]. eapply nth_error_In; eauto. }
    destruct u.
    + (* unchanged: a skip of ccols cv, merged with a preceding skip *)
      assert (map optcell (map (tag true) r) = repeatz None (ccols cv)) as Eskip.
      { rewrite <- Hz. unfold repeatz, zlen. rewrite Nat2Z.id. clear. induction r as [|c r IH]; cbn [map repeat length]; [reflexivity|].
        rewrite IH. unfold optcell. now rewrite is_skip_tag. }
      destruct acc as [|[m|c0] acc'].
      * destruct (IH [DSkip (ccols cv)] F' H2) as (items & E & X); [constructor; [lia|constructor]|].
        exists items. split; [exact E|]. rewrite X, map_app, Eskip. cbn [rev app expand flat_map expand_item]. now rewrite app_nil_r.
      * inversion Hacc; subst. destruct (IH (DSkip (m + ccols cv) :: acc') F' H2) as (items & E & X); [constructor; [lia|assumption]|].
        exists items. split; [exact E|]. rewrite X, map_app, Eskip. cbn [rev]. rewrite !expand_app. cbn [expand flat_map expand_item].
        rewrite !app_nil_r. rewrite repeatz_app by lia. now rewrite <- !app_assoc.
      * destruct (IH (DSkip (ccols cv) :: DCell c0 :: acc') F' H2) as (items & E & X); [constructor; [lia|assumption]|].
        exists items. split; [exact E|]. rewrite X, map_app, Eskip. cbn [rev]. rewrite !expand_app. cbn [expand flat_map expand_item].
        rewrite !app_nil_r. now rewrite <- !app_assoc.
    + (* changed: the cells *)
      rewrite (cview_next_ok _ _ _ Hok Hr').
      destruct (IH (rev (map DCell r) ++ acc) F' H2) as (items & E & X).
      { apply Forall_app; split; [|assumption]. apply Forall_forall. intros x Hx. apply in_rev in Hx. apply in_map_iff in Hx as (c & <- & _). exact I. }
      exists items. split; [exact E|]. rewrite X, map_app. rewrite rev_app_distr, rev_involutive, expand_app, expand_map_DCell.
      rewrite <- app_assoc. do 2 f_equal. rewrite map_map. apply map_ext. intros c. unfold optcell. now rewrite is_skip_tag, untag_tag.
Qed.

(* ------------------------------------------------------------------ the row loop (with the "[int] row is yielded again" shortcut) *)
Definition allskip (sb : list (body_entry dcview)) : Prop := Forall (fun e : body_entry dcview => snd (snd e) = true) sb.

Lemma arow_tabs_width sb k :
  0 <= k -> Forall dentry_ok sb -> Forall (fun e : body_entry dcview => fst e + k < drows (snd e)) sb ->
  zlen (arow (map tabs_e sb) k) = body_width (map tabs_e sb).
Proof.
  intros Hk F W. apply arow_width; [assumption| |].
  - apply Forall_forall. intros a Ha. apply in_map_iff in Ha as (e & <- & He). apply tabs_e_ok. rewrite Forall_forall in F; auto.
  - apply Forall_forall. intros a Ha. apply in_map_iff in Ha as (e & <- & He). rewrite Forall_forall in F, W.
    rewrite zlen_tabs_e by auto. specialize (W _ He). lia.
Qed.

Lemma nthz_default_all {A} (P : A -> Prop) (l : list (list A)) k :
  Forall (Forall P) l -> Forall P (match nthz l k with Some r => r | None => [] end).
Proof.
  intros F. destruct (nthz l k) as [r|] eqn:E; [|constructor]. rewrite Forall_forall in F. apply F.
  unfold nthz in E. destruct (k <? 0); [discriminate|]. eapply nth_error_In; eauto.
Qed.

Lemma allskip_row sb k :
  0 <= k -> Forall dentry_ok sb -> Forall (fun e : body_entry dcview => fst e + k < drows (snd e)) sb -> allskip sb ->
  map optcell (arow (map tabs_e sb) k) = repeatz None (body_width (map tabs_e sb)).
Proof.
  intros Hk F W A. rewrite <- (arow_tabs_width sb k Hk F W).
  assert (Forall (fun c => is_skip c = true) (arow (map tabs_e sb) k)) as Fs.
  { clear F W. induction sb as [|[d [cv u]] sb IH]; [constructor|]. inversion A; subst. cbn [snd] in *. subst u.
    unfold arow. cbn [map flat_map]. apply Forall_app; split; [|apply IH; assumption].
    apply nthz_default_all. cbn [tabs_e fst snd]. apply Forall_dropz. unfold trows. cbn [fst snd].
    apply Forall_forall. intros r Hin. apply in_map_iff in Hin as (r0 & <- & _).
    apply Forall_forall. intros c Hc. apply in_map_iff in Hc as (c0 & <- & _). apply is_skip_tag. }
  generalize dependent (arow (map tabs_e sb) k). intros r Fs. unfold repeatz, zlen. rewrite Nat2Z.id.
  induction Fs as [|c r Hc _ IH]; cbn [map length repeat]; [reflexivity|]. rewrite IH. unfold optcell. now rewrite Hc.
Qed.

Lemma row_allskip sb k p :
  0 <= k -> Forall dentry_ok sb -> Forall (fun e : body_entry dcview => fst e + k < drows (snd e)) sb ->
  map optcell (arow (map tabs_e sb) k) = repeatz None p -> allskip sb.
Proof.
  intros Hk F W. revert p. induction sb as [|[d [cv u]] sb IH]; intros p E; [constructor|].
  inversion F as [|? ? [[Hd1 Hd2] Hok] F']; subst. inversion W; subst. cbn [fst snd] in *. unfold drows in *. cbn [fst] in *.
  destruct (nthz_lt_some (rows_of cv) (d + k)) as [r Hr']; [rewrite zlen_rows_of by assumption; lia|].
  assert (nthz (snd (tabs_e (d, (cv, u)))) k = Some (map (tag u) r)) as Ent.
  { cbn [tabs_e fst snd]. rewrite nthz_dropz by lia. unfold trows. cbn [fst snd].
    apply (f_equal (option_map (map (tag u)))) in Hr'. cbn [option_map] in Hr'. rewrite <- Hr'. apply nthz_map. }
  assert (zlen r = ccols cv) as Hz.
  { pose proof (rows_of_width _ Hok) as Fw. rewrite Forall_forall in Fw. apply Fw.
    unfold nthz in Hr'. destruct (d + k <? 0); [discriminate|]. eapply nth_error_In; eauto. }
  destruct (cview_ok_pos _ Hok) as [Hc _].
  unfold arow in E. cbn [map flat_map] in E. fold (arow (map tabs_e sb) k) in E.
  match type of E with context [match ?X with Some _ => _ | None => _ end] => replace X with (Some (map (tag u) r)) in E by (symmetry; exact Ent) end.
  rewrite map_app, map_map in E.
  destruct r as [|c r]; [rewrite zlen_nil in Hz; lia|].
  assert (u = true) as ->.
  { cbn [map app] in E. unfold repeatz in E. destruct (Z.to_nat p); cbn [repeat] in E; [discriminate|].
    injection E as E1 _. unfold optcell in E1. rewrite is_skip_tag in E1. destruct u; [reflexivity|discriminate]. }
  constructor; [reflexivity|].
  assert (map (fun x : cell => optcell (tag true x)) (c :: r) = repeatz None (zlen (c :: r))) as Es.
  { unfold repeatz, zlen. rewrite Nat2Z.id. generalize (c :: r). intros l. induction l; cbn [map length repeat]; [reflexivity|].
    rewrite IHl. unfold optcell. now rewrite is_skip_tag. }
  rewrite Es in E.
  apply (IH F' H2 (p - zlen (c :: r))).
  assert (zlen (c :: r) <= p) as Hle.
  { apply (f_equal (@length _)) in E. rewrite app_length in E. unfold repeatz in E. rewrite !repeat_length in E. pose proof (zlen_nonneg (c :: r)). lia. }
  replace p with (zlen (c :: r) + (p - zlen (c :: r))) in E by lia. rewrite repeatz_app in E by (pose proof (zlen_nonneg (c :: r)); lia).
  apply app_inv_head in E. exact E.
Qed.

Definition prev_ok (sb : list (body_entry dcview)) (prev : list ditem) : Prop :=
  match prev with
  | [DSkip p] => allskip sb /\ p = body_width (map tabs_e sb)
  | _ => True
  end.

Lemma delta_rows_abs sb : forall m k prev,
  0 <= k -> Forall dentry_ok sb -> Forall (fun e : body_entry dcview => fst e + k + Z.of_nat m <= drows (snd e)) sb ->
  0 < body_width (map tabs_e sb) -> prev_ok sb prev ->
  exists rows, delta_rows sb k m prev = Ok rows /\
               map expand rows = map (map optcell) (arows (map tabs_e sb) k m).
Proof.
  induction m as [|m IH]; intros k prev Hk F W Hw P; cbn [delta_rows arows map]; [exists []; auto|].
  assert (Forall (fun e : body_entry dcview => fst e + k < drows (snd e)) sb) as Wk by (eapply Forall_impl; [|exact W]; cbn beta; intros; lia).
  assert (Forall (fun e : body_entry dcview => fst e + (k + 1) + Z.of_nat m <= drows (snd e)) sb) as W' by (eapply Forall_impl; [|exact W]; cbn beta; intros; lia).
  assert (exists r, (match prev with [DSkip _] => Ok prev | _ => delta_body_row sb k [] end) = Ok r /\
                    expand r = map optcell (arow (map tabs_e sb) k)) as (r & Er & Xr).
  { assert (exists items, delta_body_row sb k [] = Ok items /\ expand items = map optcell (arow (map tabs_e sb) k)) as Hgen.
    { destruct (delta_body_row_abs sb k [] Hk F Wk) as (items & E & X); [constructor|]. exists items. split; [exact E|exact X]. }
    destruct prev as [|[p|c] [|x prev']]; try exact Hgen.
    destruct P as [A ->]. eexists; split; [reflexivity|]. cbn [expand flat_map expand_item]. rewrite app_nil_r.
    symmetry. now apply allskip_row. }
  assert (prev_ok sb r) as Pr.
  { unfold prev_ok. destruct r as [|[p|c] [|x r']]; try exact I. cbn [expand flat_map expand_item] in Xr. rewrite app_nil_r in Xr.
    split; [eapply row_allskip; eauto|].
    apply (f_equal (@length _)) in Xr. unfold repeatz in Xr. rewrite repeat_length, map_length in Xr.
    pose proof (arow_tabs_width sb k Hk F Wk) as Hlen. unfold zlen in Hlen. lia. }
  destruct (IH (k + 1) r ltac:(lia) F W' Hw Pr) as (rows & E & X).
  assert (delta_rows sb k (S m) prev = match (match prev with [DSkip _] => Ok prev | _ => delta_body_row sb k [] end) with
                                        | Err e => Err e
                                        | Ok r0 => match delta_rows sb (k + 1) m r0 with Err e => Err e | Ok rs => Ok (r0 :: rs) end end) as Eun by reflexivity.
  exists (r :: rows). split.
  - cbn [delta_rows]. cbn [delta_rows] in Eun. rewrite Er in *. rewrite E. reflexivity.
  - cbn [map]. now rewrite Xr, X.
Qed.

(* ------------------------------------------------------------------ the delta machine refines the tagged run *)
Lemma body_width_tabs sb : body_width (map tabs_e sb) = body_cols (map projE sb).
Proof.
  induction sb as [|[d [cv u]] sb IH]; cbn [map body_width body_cols fold_right tabs_e projE fst snd]; [reflexivity|].
  unfold body_width, body_cols in IH. rewrite IH. reflexivity.
Qed.

Lemma dwf_abs w : 0 < w -> forall D dtail sl,
  dtail_ok dtail -> sl_equiv sl (tslots_of_tail dtail) ->
  wf_fromb w (map projS D) (map projT dtail) = true ->
  AWF w (map tabs_sh D) sl /\
  exists d, delta_from D dtail = Ok d /\ map expand d = map (map optcell) (acontent_from (map tabs_sh D) sl).
Proof.
  intros Hw. induction D as [|[n dcvs] D IH]; intros dtail sl T E H.
  - cbn [map wf_fromb AWF delta_from acontent_from] in *. destruct dtail; [|discriminate]. split; [|exists []; auto].
    intros C g. rewrite E. reflexivity.
  - cbn [map projS fst snd wf_fromb] in H.
    apply andb_prop in H as [H H3]. apply andb_prop in H as [H1 H2].
    assert (Forall cview_ok (map fst dcvs)) as Fc by (apply Forall_forall; intros cv Hcv; rewrite forallb_forall in H2; exact (H2 _ Hcv)).
    unfold sbody in H3. rewrite shard_body_proj in H3.
    destruct (shard_body dcols dcvs dtail) as [sbD|e] eqn:Eb; [|discriminate]. cbn [rmap] in H3.
    apply andb_prop in H3 as [H3 H6]. apply andb_prop in H3 as [H4 H5].
    assert (tail_ok (map projT dtail)) as Tn.
    { unfold tail_ok. apply Forall_forall. intros t Ht. apply in_map_iff in Ht as (t0 & <- & Ht0). unfold dtail_ok in T. rewrite Forall_forall in T. exact (T _ Ht0). }
    assert (Forall entry_ok (map projE sbD)) as FeN.
    { eapply sbody_ok; [exact Fc|exact Tn|]. unfold sbody. rewrite shard_body_proj, Eb. reflexivity. }
    assert (Forall dentry_ok sbD) as Fe.
    { apply Forall_forall. intros e He. rewrite Forall_forall in FeN. apply (FeN (projE e)). now apply in_map. }
    assert (Forall (fun e : body_entry dcview => fst e + n <= drows (snd e)) sbD) as Fn.
    { apply Forall_forall. intros e He. rewrite forallb_forall in H4. specialize (H4 (projE e) (in_map _ _ _ He)). unfold projE, drows in *. cbn [fst snd] in H4. lia. }
    assert (body_width (map tabs_e sbD) = w) as Hbw by (rewrite body_width_tabs; lia).
    assert (fill sl (map tabs dcvs) 0 = Ok (map tabs_e sbD)) as Ef by (rewrite E, dfill_abs, Eb; reflexivity).
    set (dtail' := shard_body_tail dcols drows n sbD).
    assert (map projT dtail' = stail n (map projE sbD)) as Ept by apply shard_body_tail_proj.
    assert (dtail_ok dtail') as T'.
    { assert (tail_ok (stail n (map projE sbD))) as Tk.
      { apply stail_go_ok; [lia|assumption|]. apply Forall_forall. intros e He. apply in_map_iff in He as (e0 & <- & He0).
        rewrite Forall_forall in Fn. specialize (Fn _ He0). unfold projE, drows in *. cbn [fst snd]. lia. }
      rewrite <- Ept in Tk. unfold tail_ok, dtail_ok in *. apply Forall_forall. intros t Ht. rewrite Forall_forall in Tk.
      exact (Tk (projT t) (in_map _ _ _ Ht)). }
    assert (sl_equiv (slots_after n (map tabs_e sbD)) (tslots_of_tail dtail')) as E'.
    { intros C g. subst dtail'. unfold shard_body_tail. rewrite dtail_abs by (try assumption; lia). f_equal. lia. }
    rewrite <- Ept in H6. destruct (IH dtail' _ T' E' H6) as (A' & d' & Ed' & Xd').
    destruct (delta_rows_abs sbD (Z.to_nat n) 0 [] ltac:(lia) Fe) as (rows & Er & Xr); [|lia|exact I|].
    { eapply Forall_impl; [|exact Fn]. cbn beta. intros; lia. }
    split.
    + cbn [map tabs_sh fst snd AWF]. split; [lia|]. split.
      * apply Forall_forall. intros a Ha. apply in_map_iff in Ha as (dc & <- & Hdc). apply tabs_ok. rewrite Forall_forall in Fc. apply Fc. now apply in_map.
      * exists (map tabs_e sbD). split; [assumption|]. split.
        -- apply Forall_forall. intros a Ha. apply in_map_iff in Ha as (e & <- & He). apply tabs_e_ok. rewrite Forall_forall in Fe; auto.
        -- split; [|split; [assumption|assumption]]. apply Forall_forall. intros a Ha. apply in_map_iff in Ha as (e & <- & He).
           rewrite Forall_forall in Fe, Fn. rewrite zlen_tabs_e by auto. specialize (Fn _ He). lia.
    + exists (rows ++ d'). split.
      * cbn [delta_from]. rewrite Eb, Er. fold dtail'. rewrite Ed'. reflexivity.
      * cbn [map tabs_sh fst snd acontent_from]. rewrite Ef. rewrite !map_app, Xr, Xd'. reflexivity.
Qed.
