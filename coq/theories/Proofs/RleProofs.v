(* C11 - run-length lists (util.rle_* ) and apply_target_encoding. *)
From Coq Require Import ZArith List Bool Lia ZifyBool.
Import ListNotations.
From Urwid Require Import PyBase PyList Utf8 wcwidth_table_gen str_util_gen Width WidthFacts.
Open Scope Z_scope.
Arguments Z.add : simpl never.
Arguments Z.sub : simpl never.
Arguments Z.mul : simpl never.
Arguments Z.ltb : simpl never.
Arguments Z.leb : simpl never.
Arguments Z.eqb : simpl never.
Arguments Z.min : simpl never.
Arguments Z.max : simpl never.
Arguments Z.of_nat : simpl never.
Arguments Z.to_nat : simpl never.

Lemma rle_len_app {A} (a b : list (A * Z)) : rle_len (a ++ b) = rle_len a + rle_len b.
Proof. induction a as [|[x n] a IH]; cbn [rle_len app]; [lia|]. rewrite IH. lia. Qed.

Lemma rle_append_core_len {A} (eqb : A -> A -> bool) (r : list (A * Z)) a n :
  rle_len (rle_append_core eqb r a n) = rle_len r + n.
Proof.
  induction r as [|[la lr] t IH]; [cbn; lia|].
  destruct t as [|y t'].
  - cbn [rle_append_core]. destruct (eqb la a); cbn [rle_len]; lia.
  - change (rle_append_core eqb ((la, lr) :: y :: t') a n)
      with ((la, lr) :: rle_append_core eqb (y :: t') a n).
    cbn [rle_len] in *. rewrite IH. destruct y. lia.
Qed.

Lemma rle_append_modify_gen_len {A} (eqb : A -> A -> bool) (r : list (A * Z)) a n :
  rle_len (rle_append_modify_gen eqb r a n) = rle_len r + n.
Proof.
  unfold rle_append_modify_gen. destruct (n =? 0) eqn:E; [lia|]. apply rle_append_core_len.
Qed.

Lemma rle_append_modify_len r a n : rle_len (rle_append_modify r a n) = rle_len r + n.
Proof. apply rle_append_modify_gen_len. Qed.

Lemma rle_prepend_modify_len r a n : rle_len (rle_prepend_modify r a n) = n + rle_len r.
Proof.
  destruct r as [|[al run] t]; cbn [rle_prepend_modify rle_len]; [lia|].
  destruct (oz_eqb a al); cbn [rle_len]; lia.
Qed.

Lemma rle_join_modify_len r r2 : rle_len (rle_join_modify r r2) = rle_len r + rle_len r2.
Proof.
  destruct r2 as [|[a n] t]; cbn [rle_join_modify rle_len]; [lia|].
  rewrite rle_len_app, rle_append_modify_len. lia.
Qed.

(* rle_subseg: the covered length, for any state of the loop *)
Lemma rle_subseg_loop_len {A} (r : list (A * Z)) : forall start x end_,
  Forall (fun p => 0 <= snd p) r -> 0 <= start ->
  rle_len (rle_subseg_loop r start x end_) = Z.max 0 (Z.min end_ (x + rle_len r) - (x + start)).
Proof.
  induction r as [|[a run] t IH]; intros start x end_ Hr Hs; cbn [rle_subseg_loop rle_len].
  - lia.
  - inversion Hr as [|p l Hrun Ht Heq]. cbn [snd] in Hrun.
    assert (Hlen : 0 <= rle_len t).
    { clear - Ht. induction t as [|[b n] t IH]; cbn [rle_len]; [lia|].
      inversion Ht as [|p l Hn Ht' Heq]. cbn [snd] in Hn. specialize (IH Ht'). lia. }
    destruct (negb (start =? 0) && (run <=? start)) eqn:E1.
    + rewrite IH by (assumption || lia). lia.
    + destruct (negb (start =? 0)) eqn:E2.
      * destruct (end_ <=? x + start) eqn:E3; [cbn [rle_len]; lia|].
        destruct (end_ <? x + start + (run - start)) eqn:E4; cbn [rle_len];
          rewrite IH by (assumption || lia); lia.
      * destruct (end_ <=? x) eqn:E3; [cbn [rle_len]; lia|].
        destruct (end_ <? x + run) eqn:E4; cbn [rle_len]; rewrite IH by (assumption || lia); lia.
Qed.

Theorem rle_subseg_len {A} (r : list (A * Z)) start end_ :
  Forall (fun p => 0 <= snd p) r -> 0 <= start <= end_ -> end_ <= rle_len r ->
  rle_len (rle_subseg r start end_) = end_ - start.
Proof.
  intros Hr H1 H2. unfold rle_subseg. rewrite rle_subseg_loop_len by (assumption || lia). lia.
Qed.

(* ---------- apply_target_encoding ---------- *)
Lemma zlen_concat_app (a : list (list Z)) b : zlen (concat (a ++ [b])) = zlen (concat a) + zlen b.
Proof. rewrite concat_app, zlen_app. cbn [concat]. rewrite app_nil_r. reflexivity. Qed.

Lemma nonempty_false_zlen {A} (l : list A) : nonempty l = false -> zlen l = 0.
Proof. destruct l; [reflexivity|discriminate]. Qed.

Definition ate_inv (acc : list (list Z) * rle) : Prop := rle_len (snd acc) = zlen (concat (fst acc)).

Lemma ate_step_inv acc sn : ate_inv acc -> ate_inv (ate_step acc sn).
Proof.
  destruct acc as [sout cout]. unfold ate_inv, ate_step. cbn [fst snd]. intros H.
  destruct (split_first esc_SI sn) as [[sin son]|].
  - destruct (nonempty sin) eqn:E1; destruct (nonempty (drop_si son)) eqn:E2; cbn [fst snd];
      rewrite ?rle_append_modify_len, ?zlen_concat_app; lia.
  - cbn [fst snd]. rewrite rle_append_modify_len, zlen_concat_app. lia.
Qed.

Lemma ate_fold_inv rest : forall acc, ate_inv acc -> ate_inv (fold_left ate_step rest acc).
Proof.
  induction rest as [|sn rest IH]; intros acc H; cbn [fold_left]; [exact H|].
  apply IH, ate_step_inv, H.
Qed.

Theorem ate_bytes_len s : rle_len (snd (ate_bytes s)) = zlen (fst (ate_bytes s)).
Proof.
  unfold ate_bytes. destruct (split_all esc_SO s) as [|s0 rest]; [reflexivity|].
  destruct rest as [|s1 rest].
  - cbn [fst snd]. destruct (nonempty (drop_si s0)) eqn:E; cbn [rle_len]; [lia|].
    rewrite (nonempty_false_zlen _ E). reflexivity.
  - pose proof (ate_fold_inv (s1 :: rest)
                  (if nonempty (drop_si s0) then [drop_si s0] else [],
                   if nonempty (drop_si s0) then [(None, zlen (drop_si s0))] else [])) as F.
    destruct (fold_left ate_step (s1 :: rest) _) as [sout cout] eqn:Ef. cbn [fst snd].
    unfold ate_inv in F. cbn [fst snd] in F. apply F.
    destruct (nonempty (drop_si s0)) eqn:E; cbn [rle_len concat]; [rewrite app_nil_r; lia|reflexivity].
Qed.

Section Enc.
Variable enc : Z -> list Z.

Theorem apply_target_encoding_len ud s :
  rle_len (snd (apply_target_encoding enc ud s)) = zlen (fst (apply_target_encoding enc ud s)).
Proof. unfold apply_target_encoding. apply ate_bytes_len. Qed.

(* each DEC special character alone: its alternate byte under one "0" run of length 1 *)
Hypothesis enc_ascii : forall c, 0 <= c < 128 -> enc c = [c].

Definition dec_ok (p : Z * Z) : Prop :=
  apply_target_encoding enc true [fst p] = ([snd p], [(Some esc_DEC_TAG, 1)]).

Lemma dec_charmap_ok : Forall dec_ok dec_charmap.
Proof.
  unfold dec_charmap.
  let t := eval vm_compute in (combine dec_special_chars alt_dec_special_chars) in
  change (combine dec_special_chars alt_dec_special_chars) with t.
  repeat (apply Forall_cons; [
    unfold dec_ok, apply_target_encoding, translate_dec; cbn [fst snd flat_map];
    match goal with |- context [dec_alt ?d] =>
      let v := eval vm_compute in (dec_alt d) in change (dec_alt d) with v end;
    cbn [app];
    match goal with |- context [remove_si_so ?l] =>
      let v := eval vm_compute in (remove_si_so l) in change (remove_si_so l) with v end;
    cbn [flat_map]; rewrite !enc_ascii by (vm_compute; split; congruence);
    vm_compute; reflexivity |]).
  apply Forall_nil.
Qed.

Lemma nth_error_combine {A B} (l1 : list A) : forall (l2 : list B) i a b,
  nth_error l1 i = Some a -> nth_error l2 i = Some b -> In (a, b) (combine l1 l2).
Proof.
  induction l1 as [|x l1 IH]; intros l2 i a b H1 H2; [destruct i; discriminate|].
  destruct l2 as [|y l2]; [destruct i; discriminate|].
  destruct i as [|i]; cbn in *.
  - inversion H1. inversion H2. now left.
  - right. eapply IH; eassumption.
Qed.

Theorem target_encoding_dec_char i d alt :
  nth_error dec_special_chars i = Some d -> nth_error alt_dec_special_chars i = Some alt ->
  apply_target_encoding enc true [d] = ([alt], [(Some esc_DEC_TAG, 1)]).
Proof.
  intros H1 H2. pose proof dec_charmap_ok as F. rewrite Forall_forall in F.
  apply (F (d, alt)). unfold dec_charmap. eapply nth_error_combine; eassumption.
Qed.

End Enc.

(* ---------- SO ... SI bracketed byte strings ---------- *)
Fixpoint expand_runs (r : rle) : list oz :=
  match r with [] => [] | (a, n) :: t => repeat a (Z.to_nat n) ++ expand_runs t end.

Definition plain (l : list Z) : Prop := Forall (fun b => b <> esc_SO /\ b <> esc_SI) l.
Definition seg_bytes (b : list Z * list Z) : list Z := fst b ++ esc_SI :: snd b.
Definition block_bytes (b : list Z * list Z) : list Z := esc_SO :: seg_bytes b.
Definition blocks_bytes (p0 : list Z) (bl : list (list Z * list Z)) : list Z := p0 ++ flat_map block_bytes bl.
Definition block_out (b : list Z * list Z) : list Z := fst b ++ snd b.
Definition block_marks (b : list Z * list Z) : list oz :=
  repeat (Some esc_DEC_TAG) (length (fst b)) ++ repeat None (length (snd b)).
Definition block_ok (b : list Z * list Z) : Prop := plain (fst b) /\ plain (snd b).
Definition nn (r : rle) : Prop := Forall (fun p => 0 <= snd p) r.

Lemma oz_eqb_eq a b : oz_eqb a b = true -> a = b.
Proof. destruct a, b; cbn; intros H; try discriminate; [f_equal; lia|reflexivity]. Qed.

Lemma append_nn r a n : nn r -> 0 <= n -> nn (rle_append_modify r a n).
Proof.
  unfold nn, rle_append_modify, rle_append_modify_gen. intros Hr Hn. destruct (n =? 0) eqn:E0; [exact Hr|].
  induction r as [|[la lr] t IH]; [repeat constructor; exact Hn|].
  inversion Hr as [|p l Hp Ht Heq]. cbn [snd] in Hp. destruct t as [|y t'].
  - cbn [rle_append_core]. destruct (oz_eqb la a); repeat constructor; cbn [snd]; lia.
  - change (rle_append_core oz_eqb ((la, lr) :: y :: t') a n)
      with ((la, lr) :: rle_append_core oz_eqb (y :: t') a n).
    constructor; [exact Hp|apply IH, Ht].
Qed.

Lemma expand_append r a n : nn r -> 0 <= n ->
  expand_runs (rle_append_modify r a n) = expand_runs r ++ repeat a (Z.to_nat n).
Proof.
  unfold nn, rle_append_modify, rle_append_modify_gen. intros Hr Hn. destruct (n =? 0) eqn:E0.
  { replace n with 0 by lia. cbn [repeat]. change (Z.to_nat 0) with 0%nat. cbn [repeat]. now rewrite app_nil_r. }
  induction r as [|[la lr] t IH]; [cbn; now rewrite app_nil_r|].
  inversion Hr as [|p l Hp Ht Heq]. cbn [snd] in Hp. destruct t as [|y t'].
  - cbn [rle_append_core]. destruct (oz_eqb la a) eqn:E.
    + apply oz_eqb_eq in E. subst la. cbn [expand_runs]. rewrite !app_nil_r.
      replace (Z.to_nat (lr + n)) with (Z.to_nat lr + Z.to_nat n)%nat by lia. apply repeat_app.
    + cbn [expand_runs]. now rewrite !app_nil_r.
  - change (rle_append_core oz_eqb ((la, lr) :: y :: t') a n)
      with ((la, lr) :: rle_append_core oz_eqb (y :: t') a n).
    cbn [expand_runs] in *. rewrite IH by exact Ht. now rewrite app_assoc.
Qed.

Lemma split_first_plain d p : plain d -> split_first esc_SI (d ++ esc_SI :: p) = Some (d, p).
Proof.
  intros Hd. induction d as [|x d IH]; cbn [app split_first].
  - destruct (esc_SI =? esc_SI) eqn:E; [reflexivity|lia].
  - inversion Hd as [|y l [_ Hx] Hd' Heq]. destruct (x =? esc_SI) eqn:E; [lia|]. now rewrite IH.
Qed.

Lemma drop_si_plain p : plain p -> drop_si p = p.
Proof.
  intros Hp. induction p as [|x p IH]; [reflexivity|]. inversion Hp as [|y l [_ Hx] Hp' Heq].
  cbn [drop_si filter]. destruct (x =? esc_SI) eqn:E; [lia|]. cbn [negb]. f_equal. apply IH, Hp'.
Qed.

Lemma to_nat_zlen' {A} (l : list A) : Z.to_nat (zlen l) = length l.
Proof. apply to_nat_zlen. Qed.

Definition acc_ok (acc : list (list Z) * rle) (out : list Z) (marks : list oz) : Prop :=
  concat (fst acc) = out /\ nn (snd acc) /\ expand_runs (snd acc) = marks.

Lemma ate_step_block acc out marks b :
  acc_ok acc out marks -> block_ok b ->
  acc_ok (ate_step acc (seg_bytes b)) (out ++ block_out b) (marks ++ block_marks b).
Proof.
  destruct acc as [sout cout]. destruct b as [d p]. unfold acc_ok, block_ok, seg_bytes, block_out, block_marks.
  cbn [fst snd]. intros (Ho & Hn & He) (Hd & Hp).
  unfold ate_step. rewrite split_first_plain by exact Hd. rewrite drop_si_plain by exact Hp.
  pose proof (zlen_nonneg d). pose proof (zlen_nonneg p).
  destruct d as [|d0 d']; destruct p as [|p0 p']; cbn [nonempty fst snd].
  - cbn. rewrite !app_nil_r. repeat split; assumption.
  - rewrite concat_app, Ho. cbn [concat]. rewrite app_nil_r. cbn [app length repeat].
    split; [reflexivity|]. split; [apply append_nn; assumption|].
    rewrite expand_append by assumption. rewrite He, to_nat_zlen'. reflexivity.
  - rewrite concat_app, Ho. cbn [concat]. rewrite !app_nil_r.
    split; [reflexivity|]. split; [apply append_nn; assumption|].
    rewrite expand_append by assumption. rewrite He, to_nat_zlen'. cbn [length repeat]. rewrite ?app_nil_r. reflexivity.
  - rewrite !concat_app, Ho. cbn [concat]. rewrite !app_nil_r, <- app_assoc.
    split; [reflexivity|]. split; [apply append_nn; [apply append_nn|]; assumption|].
    rewrite !expand_append by (try apply append_nn; assumption). rewrite He, !to_nat_zlen'.
    now rewrite <- app_assoc.
Qed.

Lemma ate_fold_blocks bl : forall acc out marks,
  acc_ok acc out marks -> Forall block_ok bl ->
  acc_ok (fold_left ate_step (map seg_bytes bl) acc)
         (out ++ flat_map block_out bl) (marks ++ flat_map block_marks bl).
Proof.
  induction bl as [|b bl IH]; intros acc out marks Ha Hb; cbn [map fold_left flat_map].
  - now rewrite !app_nil_r.
  - inversion Hb as [|b0 l0 Hb0 Hbl Heq]. rewrite !app_assoc. apply IH; [|exact Hbl].
    apply ate_step_block; assumption.
Qed.

Definition noSO (l : list Z) : Prop := Forall (fun b => b <> esc_SO) l.

Lemma split_all_noSO q : noSO q -> split_all esc_SO q = [q].
Proof.
  intros Hq. induction q as [|x q IH]; [reflexivity|]. inversion Hq as [|y l Hx Hq' Heq].
  cbn [split_all]. rewrite IH by exact Hq'. destruct (x =? esc_SO) eqn:E; [lia|]. reflexivity.
Qed.

Lemma split_all_sep q x : noSO q -> split_all esc_SO (q ++ esc_SO :: x) = q :: split_all esc_SO x.
Proof.
  intros Hq. induction q as [|y q IH]; cbn [app split_all].
  - destruct (esc_SO =? esc_SO) eqn:E; [reflexivity|lia].
  - inversion Hq as [|z l Hy Hq' Heq]. rewrite IH by exact Hq'. destruct (y =? esc_SO) eqn:E; [lia|]. reflexivity.
Qed.

Lemma seg_noSO b : block_ok b -> noSO (seg_bytes b).
Proof.
  destruct b as [d p]. unfold block_ok, seg_bytes, noSO, plain. cbn [fst snd]. intros [Hd Hp].
  apply Forall_app. split; [eapply Forall_impl; [|exact Hd]; cbn; tauto|].
  constructor; [vm_compute; discriminate|]. eapply Forall_impl; [|exact Hp]. cbn. tauto.
Qed.

Lemma split_all_blocks bl : forall q, noSO q -> Forall block_ok bl ->
  split_all esc_SO (q ++ flat_map block_bytes bl) = q :: map seg_bytes bl.
Proof.
  induction bl as [|b bl IH]; intros q Hq Hb; cbn [flat_map map].
  - rewrite app_nil_r. now apply split_all_noSO.
  - inversion Hb as [|b0 l0 Hb0 Hbl Heq]. unfold block_bytes at 1. cbn [app].
    rewrite split_all_sep by exact Hq. f_equal. apply IH; [apply seg_noSO, Hb0|exact Hbl].
Qed.

Theorem ate_bytes_blocks p0 bl :
  plain p0 -> Forall block_ok bl ->
  fst (ate_bytes (blocks_bytes p0 bl)) = p0 ++ flat_map block_out bl /\
  expand_runs (snd (ate_bytes (blocks_bytes p0 bl))) = repeat None (length p0) ++ flat_map block_marks bl.
Proof.
  intros Hp Hb. unfold ate_bytes, blocks_bytes.
  rewrite split_all_blocks; [|eapply Forall_impl; [|exact Hp]; cbn; tauto|exact Hb].
  rewrite drop_si_plain by exact Hp.
  assert (A0 : acc_ok (if nonempty p0 then [p0] else [], if nonempty p0 then [(None, zlen p0)] else [])
                      p0 (repeat None (length p0))).
  { destruct p0 as [|x p0']; cbn [nonempty]; unfold acc_ok; cbn [fst snd concat expand_runs length repeat].
    - repeat split. constructor.
    - rewrite !app_nil_r. split; [reflexivity|]. split.
      + repeat constructor. cbn [snd]. apply zlen_nonneg.
      + rewrite to_nat_zlen'. reflexivity. }
  destruct bl as [|b bl]; cbn [map].
  - cbn [flat_map]. rewrite !app_nil_r. cbn [fst snd]. destruct A0 as (_ & _ & E). split; [reflexivity|exact E].
  - pose proof (ate_fold_blocks (b :: bl) _ _ _ A0 Hb) as F. cbn [map] in F.
    destruct (fold_left ate_step (seg_bytes b :: map seg_bytes bl) _) as [sout cout]. cbn [fst snd] in *.
    destruct F as (F1 & _ & F3). split; assumption.
Qed.

(* ---------- rle_product ---------- *)
Definition pos_runs {A} (r : list (A * Z)) : Prop := Forall (fun q => 0 < snd q) r.

Lemma pos_runs_len {A} (r : list (A * Z)) : pos_runs r -> 0 <= rle_len r.
Proof.
  induction r as [|[a n] t IH]; intros H; cbn [rle_len]; [lia|].
  inversion H as [|q l Hq Ht Heq]. cbn [snd] in Hq. specialize (IH Ht). lia.
Qed.

Definition live (r1 r2 : Z) : nat := if negb (r1 =? 0) && negb (r2 =? 0) then 1%nat else 0%nat.

Lemma rle_product_loop_len fuel : forall a1 r1 t1 a2 r2 t2 res,
  0 <= r1 -> 0 <= r2 -> pos_runs t1 -> pos_runs t2 ->
  (r1 = 0 -> t1 = []) -> (r2 = 0 -> t2 = []) ->
  (length t1 + length t2 + live r1 r2 <= fuel)%nat ->
  exists p, rle_product_loop fuel a1 r1 t1 a2 r2 t2 res = Ok p /\
            rle_len p = rle_len res + Z.min (r1 + rle_len t1) (r2 + rle_len t2).
Proof.
  induction fuel as [|k IH]; intros a1 r1 t1 a2 r2 t2 res H1 H2 P1 P2 Z1 Z2 Hf; cbn [rle_product_loop];
    pose proof (pos_runs_len t1 P1); pose proof (pos_runs_len t2 P2);
    unfold live in Hf; destruct (negb (r1 =? 0) && negb (r2 =? 0)) eqn:E.
  - lia.
  - exists res. split; [reflexivity|].
    destruct (Z.eq_dec r1 0) as [->|]; [rewrite (Z1 eq_refl); cbn [rle_len]; lia|].
    assert (r2 = 0) by lia. subst r2. rewrite (Z2 eq_refl). cbn [rle_len]. lia.
  - set (r := Z.min r1 r2).
    assert (Hr : 0 < r) by (unfold r; lia).
    (* the refill of side 1 *)
    destruct (r1 - r =? 0) eqn:E1; destruct (r2 - r =? 0) eqn:E2.
    + destruct t1 as [|[b1 n1] t1']; destruct t2 as [|[b2 n2] t2'].
      * destruct (IH a1 (r1 - r) [] a2 (r2 - r) [] (rle_append_modify_gen pair_eqb res (a1, a2) r))
          as (p & Ep & Hp); try (intros; reflexivity); try assumption; try lia.
        { cbn [length]. unfold live. destruct (negb (r1 - r =? 0) && negb (r2 - r =? 0)) eqn:E3; lia. }
        exists p. split; [exact Ep|]. rewrite Hp, rle_append_modify_gen_len. cbn [rle_len]. lia.
      * inversion P2 as [|q l Hq Ht Heq]. cbn [snd] in Hq.
        destruct (IH a1 (r1 - r) [] b2 n2 t2' (rle_append_modify_gen pair_eqb res (a1, a2) r))
          as (p & Ep & Hp); try (intros; reflexivity); try assumption; try lia.
        { cbn [length] in *. unfold live. destruct (negb (r1 - r =? 0) && negb (n2 =? 0)) eqn:E3; lia. }
        exists p. split; [exact Ep|]. rewrite Hp, rle_append_modify_gen_len. cbn [rle_len] in *. lia.
      * inversion P1 as [|q l Hq Ht Heq]. cbn [snd] in Hq.
        destruct (IH b1 n1 t1' a2 (r2 - r) [] (rle_append_modify_gen pair_eqb res (a1, a2) r))
          as (p & Ep & Hp); try (intros; reflexivity); try assumption; try lia.
        { cbn [length] in *. unfold live. destruct (negb (n1 =? 0) && negb (r2 - r =? 0)) eqn:E3; lia. }
        exists p. split; [exact Ep|]. rewrite Hp, rle_append_modify_gen_len. cbn [rle_len] in *. lia.
      * inversion P1 as [|q l Hq Ht Heq]. cbn [snd] in Hq. inversion P2 as [|q' l' Hq' Ht' Heq']. cbn [snd] in Hq'.
        destruct (IH b1 n1 t1' b2 n2 t2' (rle_append_modify_gen pair_eqb res (a1, a2) r))
          as (p & Ep & Hp); try (intros; lia); try assumption; try lia.
        { cbn [length] in *. unfold live. destruct (negb (n1 =? 0) && negb (n2 =? 0)) eqn:E3; lia. }
        exists p. split; [exact Ep|]. rewrite Hp, rle_append_modify_gen_len. cbn [rle_len] in *. lia.
    + destruct t1 as [|[b1 n1] t1'].
      * destruct (IH a1 (r1 - r) [] a2 (r2 - r) t2 (rle_append_modify_gen pair_eqb res (a1, a2) r))
          as (p & Ep & Hp); try (intros; reflexivity); try assumption; try lia.
        { cbn [length] in *. unfold live. destruct (negb (r1 - r =? 0) && negb (r2 - r =? 0)) eqn:E3; lia. }
        exists p. split; [exact Ep|]. rewrite Hp, rle_append_modify_gen_len. cbn [rle_len] in *. lia.
      * inversion P1 as [|q l Hq Ht Heq]. cbn [snd] in Hq.
        destruct (IH b1 n1 t1' a2 (r2 - r) t2 (rle_append_modify_gen pair_eqb res (a1, a2) r))
          as (p & Ep & Hp); try (intros; lia); try assumption; try lia.
        { cbn [length] in *. unfold live. destruct (negb (n1 =? 0) && negb (r2 - r =? 0)) eqn:E3; lia. }
        exists p. split; [exact Ep|]. rewrite Hp, rle_append_modify_gen_len. cbn [rle_len] in *. lia.
    + destruct t2 as [|[b2 n2] t2'].
      * destruct (IH a1 (r1 - r) t1 a2 (r2 - r) [] (rle_append_modify_gen pair_eqb res (a1, a2) r))
          as (p & Ep & Hp); try (intros; reflexivity); try assumption; try lia.
        { cbn [length] in *. unfold live. destruct (negb (r1 - r =? 0) && negb (r2 - r =? 0)) eqn:E3; lia. }
        exists p. split; [exact Ep|]. rewrite Hp, rle_append_modify_gen_len. cbn [rle_len] in *. lia.
      * inversion P2 as [|q l Hq Ht Heq]. cbn [snd] in Hq.
        destruct (IH a1 (r1 - r) t1 b2 n2 t2' (rle_append_modify_gen pair_eqb res (a1, a2) r))
          as (p & Ep & Hp); try (intros; lia); try assumption; try lia.
        { cbn [length] in *. unfold live. destruct (negb (r1 - r =? 0) && negb (n2 =? 0)) eqn:E3; lia. }
        exists p. split; [exact Ep|]. rewrite Hp, rle_append_modify_gen_len. cbn [rle_len] in *. lia.
    + exfalso. unfold r in *. lia.
  - exists res. split; [reflexivity|].
    destruct (Z.eq_dec r1 0) as [->|]; [rewrite (Z1 eq_refl); cbn [rle_len]; lia|].
    assert (r2 = 0) by lia. subst r2. rewrite (Z2 eq_refl). cbn [rle_len]. lia.
Qed.

Theorem rle_product_len x y :
  pos_runs x -> pos_runs y ->
  exists p, rle_product x y = Ok p /\ rle_len p = Z.min (rle_len x) (rle_len y).
Proof.
  intros Px Py. unfold rle_product.
  destruct x as [|[a1 r1] t1]; [exists []; split; [reflexivity|]; cbn [rle_len]; pose proof (pos_runs_len y Py); lia|].
  destruct y as [|[a2 r2] t2]; [exists []; split; [reflexivity|]; cbn [rle_len]; pose proof (pos_runs_len _ Px); cbn [rle_len] in *; lia|].
  inversion Px as [|q l Hq Ht Heq]. cbn [snd] in Hq. inversion Py as [|q' l' Hq' Ht' Heq']. cbn [snd] in Hq'.
  destruct (rle_product_loop_len (S (length ((a1, r1) :: t1) + length ((a2, r2) :: t2))) a1 r1 t1 a2 r2 t2 [])
    as (p & Ep & Hp); try assumption; try lia.
  { cbn [length]. unfold live. destruct (negb (r1 =? 0) && negb (r2 =? 0)); lia. }
  exists p. split; [exact Ep|]. rewrite Hp. cbn [rle_len]. lia.
Qed.

(* ---------- trim_text_attr_cs: text, attribute runs and charset runs of the result have one length ---------- *)
Lemma zlen_repeat {A} (x : A) n : zlen (repeat x n) = Z.of_nat n.
Proof. unfold zlen. now rewrite repeat_length. Qed.

Theorem trim_text_attr_cs_lens wcw m text (attr cs : rle) sc ec spos epos pl pr :
  calc_trim_text wcw m text 0 (zlen text) sc ec = Ok (spos, epos, pl, pr) ->
  0 <= spos <= epos -> epos <= zlen text -> (pl = 0 \/ pl = 1) -> (pr = 0 \/ pr = 1) ->
  nn attr -> nn cs -> rle_len attr = zlen text -> rle_len cs = zlen text ->
  exists t a c, trim_text_attr_cs wcw m text attr cs sc ec = Ok (t, a, c) /\
    zlen t = pl + (epos - spos) + pr /\ rle_len a = zlen t /\ rle_len c = zlen t.
Proof.
  intros E H1 H2 Hpl Hpr Na Nc La Lc. unfold trim_text_attr_cs. rewrite E.
  assert (Sa : rle_len (rle_subseg attr spos epos) = epos - spos) by (apply rle_subseg_len; [exact Na|lia|lia]).
  assert (Sc : rle_len (rle_subseg cs spos epos) = epos - spos) by (apply rle_subseg_len; [exact Nc|lia|lia]).
  assert (St : zlen (py_slice text spos epos) = epos - spos).
  { rewrite py_slice_in by lia. apply zlen_slice_in; lia. }
  destruct Hpl as [-> | ->]; destruct Hpr as [-> | ->];
    cbn [Z.eqb negb]; change (0 =? 0) with true; change (1 =? 0) with false; cbn [negb];
    eexists _, _, _; (split; [reflexivity|]);
    rewrite ?zlen_app, ?zlen_repeat, ?rle_append_modify_len, ?rle_prepend_modify_len, ?Sa, ?Sc, St;
    change (Z.of_nat (Z.to_nat 0)) with 0; change (Z.of_nat (Z.to_nat 1)) with 1; repeat split; lia.
Qed.

(* ---------- apply_target_encoding end to end: every DEC character of a string ---------- *)
Lemma assoc_last_in c m : forall found a, assoc_last c m found = Some a -> found = Some a \/ In (c, a) m.
Proof.
  induction m as [|[k v] t IH]; intros found a H; cbn [assoc_last] in H; [now left|].
  destruct (IH _ _ H) as [Hf|Hin]; [|right; now right].
  destruct (k =? c) eqn:E; [|now left]. inversion Hf. subst. right. left. f_equal. lia.
Qed.

Lemma alts_plain_ascii : Forall (fun p => 0 <= snd p < 128 /\ snd p <> esc_SO /\ snd p <> esc_SI) dec_charmap.
Proof.
  unfold dec_charmap.
  let t := eval vm_compute in (combine dec_special_chars alt_dec_special_chars) in
  change (combine dec_special_chars alt_dec_special_chars) with t.
  repeat (apply Forall_cons; [vm_compute; repeat split; congruence|]). apply Forall_nil.
Qed.

Lemma dec_alt_plain c a : dec_alt c = Some a -> 0 <= a < 128 /\ a <> esc_SO /\ a <> esc_SI.
Proof.
  unfold dec_alt. intros H. destruct (assoc_last_in _ _ _ _ H) as [Hf|Hin]; [discriminate|].
  pose proof alts_plain_ascii as F. rewrite Forall_forall in F. exact (F _ Hin).
Qed.

Lemma SO_SI_vals : esc_SO <> esc_SI /\ 0 <= esc_SO < 128 /\ 0 <= esc_SI < 128.
Proof. vm_compute. repeat split; congruence. Qed.

(* remove_si_so after translate_dec, as a two-state scan (P: plain context, D: a shift-in is pending) *)
Fixpoint outP (s : list Z) : list Z :=
  match s with
  | [] => []
  | c :: s' => match dec_alt c with Some a => esc_SO :: a :: outD s' | None => c :: outP s' end
  end
with outD (s : list Z) : list Z :=
  match s with
  | [] => [esc_SI]
  | c :: s' => match dec_alt c with Some a => a :: outD s' | None => esc_SI :: c :: outP s' end
  end.

Lemma remove_cons x l : x <> esc_SI -> remove_si_so (x :: l) = x :: remove_si_so l.
Proof.
  intros Hx. destruct l as [|y l]; [reflexivity|].
  change (remove_si_so (x :: y :: l)) with (if (x =? esc_SI) && (y =? esc_SO) then remove_si_so l else x :: remove_si_so (y :: l)).
  destruct (x =? esc_SI) eqn:E; [lia|]. reflexivity.
Qed.

Lemma remove_si_other y l : y <> esc_SO -> remove_si_so (esc_SI :: y :: l) = esc_SI :: remove_si_so (y :: l).
Proof.
  intros Hy.
  change (remove_si_so (esc_SI :: y :: l)) with (if (esc_SI =? esc_SI) && (y =? esc_SO) then remove_si_so l else esc_SI :: remove_si_so (y :: l)).
  destruct (y =? esc_SO) eqn:E; [lia|]. now rewrite andb_false_r.
Qed.

Lemma remove_si_so_pair l : remove_si_so (esc_SI :: esc_SO :: l) = remove_si_so l.
Proof.
  change (remove_si_so (esc_SI :: esc_SO :: l)) with (if (esc_SI =? esc_SI) && (esc_SO =? esc_SO) then remove_si_so l else esc_SI :: remove_si_so (esc_SO :: l)).
  destruct (esc_SI =? esc_SI) eqn:E1; [|lia]. destruct (esc_SO =? esc_SO) eqn:E2; [|lia]. reflexivity.
Qed.

Lemma remove_translate s :
  ~ In esc_SO s -> ~ In esc_SI s ->
  remove_si_so (translate_dec s) = outP s /\ remove_si_so (esc_SI :: translate_dec s) = outD s.
Proof.
  destruct SO_SI_vals as (Hne & _).
  induction s as [|c s IH]; intros H1 H2; [split; reflexivity|].
  assert (Hc1 : c <> esc_SO) by (intros ->; apply H1; now left).
  assert (Hc2 : c <> esc_SI) by (intros ->; apply H2; now left).
  destruct IH as [IHP IHD]; [intros H; apply H1; now right|intros H; apply H2; now right|].
  unfold translate_dec in *. cbn [flat_map outP outD].
  destruct (dec_alt c) as [a|] eqn:Ed.
  - destruct (dec_alt_plain c a Ed) as (_ & Ha1 & Ha2). cbn [app]. split.
    + rewrite remove_cons by exact Hne. rewrite remove_cons by exact Ha2. now rewrite IHD.
    + rewrite remove_si_so_pair. rewrite remove_cons by exact Ha2. now rewrite IHD.
  - cbn [app]. split.
    + rewrite remove_cons by exact Hc2. now rewrite IHP.
    + rewrite remove_si_other by exact Hc1. rewrite remove_cons by exact Hc2. now rewrite IHP.
Qed.

Section Full.
Variable enc : Z -> list Z.
Hypothesis enc_ascii : forall c, 0 <= c < 128 -> enc c = [c].

Definition spec_out (c : Z) : list Z := match dec_alt c with Some a => [a] | None => enc c end.
Definition spec_marks (c : Z) : list oz :=
  match dec_alt c with Some _ => [Some esc_DEC_TAG] | None => repeat None (length (enc c)) end.

(* the block structure of the encoded string, by the same two-state scan *)
Fixpoint normP (s : list Z) : list Z * list (list Z * list Z) :=
  match s with
  | [] => ([], [])
  | c :: s' =>
      match dec_alt c with
      | Some a => let '(d, p, bl) := normD s' in ([], (a :: d, p) :: bl)
      | None => let '(p0, bl) := normP s' in (enc c ++ p0, bl)
      end
  end
with normD (s : list Z) : list Z * list Z * list (list Z * list Z) :=
  match s with
  | [] => ([], [], [])
  | c :: s' =>
      match dec_alt c with
      | Some a => let '(d, p, bl) := normD s' in (a :: d, p, bl)
      | None => let '(p0, bl) := normP s' in ([], enc c ++ p0, bl)
      end
  end.

Lemma repeat_app' {A} (x : A) a b : repeat x (a + b) = repeat x a ++ repeat x b.
Proof. apply repeat_app. Qed.

Lemma norm_facts s :
  (forall c b, In c s -> In b (enc c) -> b <> esc_SO /\ b <> esc_SI) ->
  (let '(p0, bl) := normP s in
     flat_map enc (outP s) = blocks_bytes p0 bl /\ plain p0 /\ Forall block_ok bl /\
     p0 ++ flat_map block_out bl = flat_map spec_out s /\
     repeat None (length p0) ++ flat_map block_marks bl = flat_map spec_marks s) /\
  (let '(d, p, bl) := normD s in
     flat_map enc (outD s) = d ++ esc_SI :: p ++ flat_map block_bytes bl /\ plain d /\ plain p /\ Forall block_ok bl /\
     d ++ p ++ flat_map block_out bl = flat_map spec_out s /\
     repeat (Some esc_DEC_TAG) (length d) ++ repeat None (length p) ++ flat_map block_marks bl = flat_map spec_marks s).
Proof.
  destruct SO_SI_vals as (Hne & HSO & HSI).
  induction s as [|c s IH]; intros Henc.
  - cbn [normP normD outP outD flat_map]. rewrite (enc_ascii esc_SI HSI). unfold blocks_bytes, plain. cbn.
    repeat split; constructor.
  - destruct IH as [IHP IHD]; [intros c' b Hc' Hb; apply (Henc c' b); [now right|exact Hb]|].
    cbn [normP normD outP outD].
    destruct (dec_alt c) as [a|] eqn:Ed.
    + destruct (dec_alt_plain c a Ed) as (Ha0 & Ha1 & Ha2).
      destruct (normD s) as [[d p] bl]. destruct IHD as (E & Pd & Pp & Pb & Eo & Em).
      assert (So : spec_out c = [a]) by (unfold spec_out; now rewrite Ed).
      assert (Sm : spec_marks c = [Some esc_DEC_TAG]) by (unfold spec_marks; now rewrite Ed).
      cbn [flat_map]. rewrite So, Sm, (enc_ascii esc_SO HSO), (enc_ascii a Ha0). cbn [app]. rewrite E. split.
      * split.
        { unfold blocks_bytes. cbn [app flat_map].
          change (block_bytes (a :: d, p)) with (esc_SO :: (a :: d) ++ esc_SI :: p).
          cbn [app]. f_equal. f_equal. now rewrite <- app_assoc. }
        split; [constructor|]. split.
        { constructor; [split; cbn [fst snd]; [constructor; [split; assumption|exact Pd]|exact Pp]|exact Pb]. }
        cbn [flat_map]. change (block_out (a :: d, p)) with ((a :: d) ++ p).
        change (block_marks (a :: d, p)) with (repeat (Some esc_DEC_TAG) (length (a :: d)) ++ repeat None (length p)).
        cbn [app length repeat]. rewrite <- Eo, <- Em. split; [now rewrite <- app_assoc|]. now rewrite <- app_assoc.
      * split; [reflexivity|]. split; [constructor; [split; assumption|exact Pd]|]. split; [exact Pp|]. split; [exact Pb|].
        cbn [app length repeat]. rewrite <- Eo, <- Em. split; reflexivity.
    + destruct (normP s) as [p0 bl]. destruct IHP as (E & Pp & Pb & Eo & Em).
      assert (So : spec_out c = enc c) by (unfold spec_out; now rewrite Ed).
      assert (Sm : spec_marks c = repeat None (length (enc c))) by (unfold spec_marks; now rewrite Ed).
      assert (Pe : plain (enc c)).
      { unfold plain. apply Forall_forall. intros b Hb. apply (Henc c b); [now left|exact Hb]. }
      cbn [flat_map]. rewrite So, Sm. split.
      * rewrite E. unfold blocks_bytes. split; [now rewrite app_assoc|]. split; [apply Forall_app; split; assumption|].
        split; [exact Pb|]. rewrite <- Eo, <- Em. rewrite app_length, repeat_app'. split; now rewrite <- app_assoc.
      * rewrite (enc_ascii esc_SI HSI). cbn [app]. rewrite E. unfold blocks_bytes.
        split; [now rewrite <- app_assoc|]. split; [constructor|]. split; [apply Forall_app; split; assumption|].
        split; [exact Pb|]. cbn [app length repeat]. rewrite <- Eo, <- Em. rewrite app_length, repeat_app'.
        split; now rewrite <- !app_assoc.
Qed.

Theorem target_encoding_dec_string s :
  (forall c b, In c s -> In b (enc c) -> b <> esc_SO /\ b <> esc_SI) ->
  ~ In esc_SO s -> ~ In esc_SI s ->
  fst (apply_target_encoding enc true s) = flat_map spec_out s /\
  expand_runs (snd (apply_target_encoding enc true s)) = flat_map spec_marks s.
Proof.
  intros Henc H1 H2. unfold apply_target_encoding.
  destruct (remove_translate s H1 H2) as [R _]. rewrite R.
  pose proof (norm_facts s Henc) as [NP _]. destruct (normP s) as [p0 bl].
  destruct NP as (E & Pp & Pb & Eo & Em). rewrite E.
  destruct (ate_bytes_blocks p0 bl Pp Pb) as [B1 B2]. rewrite B1, B2. split; assumption.
Qed.

End Full.
