(* C11 - run-length lists (util.rle_* ) and apply_target_encoding. *)
From Coq Require Import ZArith List Bool Lia ZifyBool.
Import ListNotations.
From Urwid Require Import PyBase PyList Utf8 wcwidth_table_gen str_util_gen Width WidthFacts.
Open Scope Z_scope.
Arguments Z.add : simpl never.
Arguments Z.sub : simpl never.
Arguments Z.mul : simpl never.
Arguments Z.ltb : simpl never.
Arguments Z.leb : simpl never.
Arguments Z.eqb : simpl never.
Arguments Z.min : simpl never.
Arguments Z.max : simpl never.
Arguments Z.of_nat : simpl never.
Arguments Z.to_nat : simpl never.

Lemma rle_len_app {A} (a b : list (A * Z)) : rle_len (a ++ b) = rle_len a + rle_len b.
Proof. induction a as [|[x n] a IH]; cbn [rle_len app]; [lia|]. rewrite IH. lia. Qed.

Lemma rle_append_modify_gen_len {A} (eqb : A -> A -> bool) (r : list (A * Z)) a n :
  rle_len (rle_append_modify_gen eqb r a n) = rle_len r + n.
Proof.
  induction r as [|[la lr] t IH]; [cbn; lia|].
  destruct t as [|y t'].
  - cbn [rle_append_modify_gen]. destruct (eqb la a); cbn [rle_len]; lia.
  - change (rle_append_modify_gen eqb ((la, lr) :: y :: t') a n)
      with ((la, lr) :: rle_append_modify_gen eqb (y :: t') a n).
    cbn [rle_len] in *. rewrite IH. destruct y. lia.
Qed.

Lemma rle_append_modify_len r a n : rle_len (rle_append_modify r a n) = rle_len r + n.
Proof. apply rle_append_modify_gen_len. Qed.

Lemma rle_prepend_modify_len r a n : rle_len (rle_prepend_modify r a n) = n + rle_len r.
Proof.
  destruct r as [|[al run] t]; cbn [rle_prepend_modify rle_len]; [lia|].
  destruct (oz_eqb a al); cbn [rle_len]; lia.
Qed.

Lemma rle_join_modify_len r r2 : rle_len (rle_join_modify r r2) = rle_len r + rle_len r2.
Proof.
  destruct r2 as [|[a n] t]; cbn [rle_join_modify rle_len]; [lia|].
  rewrite rle_len_app, rle_append_modify_len. lia.
Qed.

(* rle_subseg: the covered length, for any state of the loop *)
Lemma rle_subseg_loop_len {A} (r : list (A * Z)) : forall start x end_,
  Forall (fun p => 0 <= snd p) r -> 0 <= start ->
  rle_len (rle_subseg_loop r start x end_) = Z.max 0 (Z.min end_ (x + rle_len r) - (x + start)).
Proof.
  induction r as [|[a run] t IH]; intros start x end_ Hr Hs; cbn [rle_subseg_loop rle_len].
  - lia.
  - inversion Hr as [|p l Hrun Ht Heq]. cbn [snd] in Hrun.
    assert (Hlen : 0 <= rle_len t).
    { clear - Ht. induction t as [|[b n] t IH]; cbn [rle_len]; [lia|].
      inversion Ht as [|p l Hn Ht' Heq]. cbn [snd] in Hn. specialize (IH Ht'). lia. }
    destruct (negb (start =? 0) && (run <=? start)) eqn:E1.
    + rewrite IH by (assumption || lia). lia.
    + destruct (negb (start =? 0)) eqn:E2.
      * destruct (end_ <=? x + start) eqn:E3; [cbn [rle_len]; lia|].
        destruct (end_ <? x + start + (run - start)) eqn:E4; cbn [rle_len];
          rewrite IH by (assumption || lia); lia.
      * destruct (end_ <=? x) eqn:E3; [cbn [rle_len]; lia|].
        destruct (end_ <? x + run) eqn:E4; cbn [rle_len]; rewrite IH by (assumption || lia); lia.
Qed.

Theorem rle_subseg_len {A} (r : list (A * Z)) start end_ :
  Forall (fun p => 0 <= snd p) r -> 0 <= start <= end_ -> end_ <= rle_len r ->
  rle_len (rle_subseg r start end_) = end_ - start.
Proof.
  intros Hr H1 H2. unfold rle_subseg. rewrite rle_subseg_loop_len by (assumption || lia). lia.
Qed.

(* ---------- apply_target_encoding ---------- *)
Lemma zlen_concat_app (a : list (list Z)) b : zlen (concat (a ++ [b])) = zlen (concat a) + zlen b.
Proof. rewrite concat_app, zlen_app. cbn [concat]. rewrite app_nil_r. reflexivity. Qed.

Lemma nonempty_false_zlen {A} (l : list A) : nonempty l = false -> zlen l = 0.
Proof. destruct l; [reflexivity|discriminate]. Qed.

Definition ate_inv (acc : list (list Z) * rle) : Prop := rle_len (snd acc) = zlen (concat (fst acc)).

Lemma ate_step_inv acc sn : ate_inv acc -> ate_inv (ate_step acc sn).
Proof.
  destruct acc as [sout cout]. unfold ate_inv, ate_step. cbn [fst snd]. intros H.
  destruct (split_first esc_SI sn) as [[sin son]|].
  - destruct (nonempty sin) eqn:E1; destruct (nonempty (drop_si son)) eqn:E2; cbn [fst snd];
      rewrite ?rle_append_modify_len, ?zlen_concat_app; lia.
  - cbn [fst snd]. rewrite rle_append_modify_len, zlen_concat_app. lia.
Qed.

Lemma ate_fold_inv rest : forall acc, ate_inv acc -> ate_inv (fold_left ate_step rest acc).
Proof.
  induction rest as [|sn rest IH]; intros acc H; cbn [fold_left]; [exact H|].
  apply IH, ate_step_inv, H.
Qed.

Theorem ate_bytes_len s : rle_len (snd (ate_bytes s)) = zlen (fst (ate_bytes s)).
Proof.
  unfold ate_bytes. destruct (split_all esc_SO s) as [|s0 rest]; [reflexivity|].
  destruct rest as [|s1 rest].
  - cbn [fst snd]. destruct (nonempty (drop_si s0)) eqn:E; cbn [rle_len]; [lia|].
    rewrite (nonempty_false_zlen _ E). reflexivity.
  - pose proof (ate_fold_inv (s1 :: rest)
                  (if nonempty (drop_si s0) then [drop_si s0] else [],
                   if nonempty (drop_si s0) then [(None, zlen (drop_si s0))] else [])) as F.
    destruct (fold_left ate_step (s1 :: rest) _) as [sout cout] eqn:Ef. cbn [fst snd].
    unfold ate_inv in F. cbn [fst snd] in F. apply F.
    destruct (nonempty (drop_si s0)) eqn:E; cbn [rle_len concat]; [rewrite app_nil_r; lia|reflexivity].
Qed.

Section Enc.
Variable enc : Z -> list Z.

Theorem apply_target_encoding_len ud s :
  rle_len (snd (apply_target_encoding enc ud s)) = zlen (fst (apply_target_encoding enc ud s)).
Proof. unfold apply_target_encoding. apply ate_bytes_len. Qed.

(* each DEC special character alone: its alternate byte under one "0" run of length 1 *)
Hypothesis enc_ascii : forall c, 0 <= c < 128 -> enc c = [c].

Definition dec_ok (p : Z * Z) : Prop :=
  apply_target_encoding enc true [fst p] = ([snd p], [(Some esc_DEC_TAG, 1)]).

Lemma dec_charmap_ok : Forall dec_ok dec_charmap.
Proof.
  unfold dec_charmap.
  let t := eval vm_compute in (combine dec_special_chars alt_dec_special_chars) in
  change (combine dec_special_chars alt_dec_special_chars) with t.
  repeat (apply Forall_cons; [
    unfold dec_ok, apply_target_encoding, translate_dec; cbn [fst snd flat_map];
    match goal with |- context [dec_alt ?d] =>
      let v := eval vm_compute in (dec_alt d) in change (dec_alt d) with v end;
    cbn [app];
    match goal with |- context [remove_si_so ?l] =>
      let v := eval vm_compute in (remove_si_so l) in change (remove_si_so l) with v end;
    cbn [flat_map]; rewrite !enc_ascii by (vm_compute; split; congruence);
    vm_compute; reflexivity |]).
  apply Forall_nil.
Qed.

Lemma nth_error_combine {A B} (l1 : list A) : forall (l2 : list B) i a b,
  nth_error l1 i = Some a -> nth_error l2 i = Some b -> In (a, b) (combine l1 l2).
Proof.
  induction l1 as [|x l1 IH]; intros l2 i a b H1 H2; [destruct i; discriminate|].
  destruct l2 as [|y l2]; [destruct i; discriminate|].
  destruct i as [|i]; cbn in *.
  - inversion H1. inversion H2. now left.
  - right. eapply IH; eassumption.
Qed.

Theorem target_encoding_dec_char i d alt :
  nth_error dec_special_chars i = Some d -> nth_error alt_dec_special_chars i = Some alt ->
  apply_target_encoding enc true [d] = ([alt], [(Some esc_DEC_TAG, 1)]).
Proof.
  intros H1 H2. pose proof dec_charmap_ok as F. rewrite Forall_forall in F.
  apply (F (d, alt)). unfold dec_charmap. eapply nth_error_combine; eassumption.
Qed.

End Enc.
