(* C08 - proofs, part 6: input follows the focus path also while ListBox focus requests are pending.
   A container forwards a key / passes focus=True only to the widget that is its focus in the heap in which it
   dispatches: the heap after its own preparation (ListBox: the pending set_focus request completed;
   Columns: pref_col reset).  [KeyRoute] / [FocusRender] chain these dispatch steps from the root to the leaf. *)
From Coq Require Import ZArith List Bool Lia ZifyBool.
Import ListNotations.
From Urwid Require Import PyBase PyList c08_container_gen Containers ContainersBase ContainersSel ContainersStable ContainersRouting.
From Urwid Require MonitoredList.
Open Scope Z_scope.
Arguments Z.add : simpl never. Arguments Z.sub : simpl never. Arguments Z.mul : simpl never.
Arguments Z.ltb : simpl never. Arguments Z.leb : simpl never. Arguments Z.eqb : simpl never.

(* the heap in which container [id] picks the widget it forwards the key to *)
Definition kp_dispatch_heap (f : nat) (id : Z) (key : list Z) (h : heap) : heap :=
  match getn h id with
  | Some n =>
    match nk n with
    | KCols => if is_empty n then h
               else fst ((if negb (is_vert_or_page (cmd_of (Some key))) then w_pref id PNone else ret tt) h)
    | KLBox => fst ((if pending n then lb_complete f id true else ret tt) h)
    | _ => h
    end
  | None => h
  end.

Inductive KeyRoute (key : list Z) : nat -> Z -> heap -> Z -> Prop :=
  | kr_leaf : forall f id h n, getn h id = Some n -> nk n = KLeaf -> is_dis n = false -> KeyRoute key (S f) id h id
  | kr_step : forall f id h n c l,
      getn h id = Some n -> is_dis n = false ->        (* never through a WidgetDisable *)
      focus_child (kp_dispatch_heap f id key h) id = Some c ->
      KeyRoute key f c (kp_dispatch_heap f id key h) l ->
      KeyRoute key (S f) id h l.

Theorem key_follows_focus_route f :
  forall id key h h' k1 off, kp f id key h = (h', ROk (k1, off)) -> forall l, In l off -> KeyRoute key f id h l.
Proof.
  induction f as [|f IH]; intros id key h h' k1 off H l Hl; cbn [kp] in H; [exfalso; eapply raise_inv; exact H|].
  apply mbind_inv in H. destruct H as (h0 & n & Hrd & H). apply rd_inv in Hrd. destruct Hrd as [-> G].
  assert (Hsub : forall c hc' r, focus_child (kp_dispatch_heap f id key h) id = Some c ->
                   kp f c key (kp_dispatch_heap f id key h) = (hc', ROk r) -> In l (snd r) -> is_dis n = false ->
                   KeyRoute key (S f) id h l).
  { intros c hc' [k2 off2] Hfc Hk Hin Hd. eapply kr_step; [exact G|exact Hd|exact Hfc|]. eapply IH; [exact Hk|exact Hin]. }
  assert (Hun : forall hc hc' r, unhandled key hc = (hc', ROk r) -> In l (snd r) -> False).
  { intros hc hc' r Hu Hin. apply ret_inv in Hu. destruct Hu as [_ ->]. exact Hin. }
  assert (Hdis : forall k, nk n = k -> k <> KCols -> k <> KLBox -> kp_dispatch_heap f id key h = h).
  { intros k Hk H1 H2. unfold kp_dispatch_heap. rewrite G, Hk. destruct k; try reflexivity; contradiction. }
  destruct (is_dis n) eqn:Edis; [exfalso; eapply Hun; [exact H|exact Hl]|].
  destruct (nk n) eqn:K.
  - apply ret_inv in H. destruct H as [_ Hr]. injection Hr as _ ->. destruct Hl as [<-|[]]. eapply kr_leaf; eassumption.
  - (* pile *)
    specialize (Hdis KPile eq_refl ltac:(discriminate) ltac:(discriminate)).
    destruct (is_empty n) eqn:Ee; [exfalso; eapply Hun; [exact H|exact Hl]|].
    apply mbind_inv in H. destruct H as (h1 & r & Hr & H).
    assert (Hoff : In l (snd r)).
    { destruct (negb (is_vert (cmd_of (fst r)))).
      - apply ret_inv in H. destruct H as [_ <-]. exact Hl.
      - apply mbind_inv in H. destruct H as (h2 & moved & _ & H). apply ret_inv in H. destruct H as [_ Hq]. injection Hq as _ <-. exact Hl. }
    destruct (n_selc n); [|exfalso; eapply Hun; eassumption].
    destruct (nthz (items n) (nfocus n)) as [c|] eqn:En; [|exfalso; eapply raise_inv; exact Hr].
    pose proof (focus_child_list h id n c G Ee En) as Hf. rewrite K in Hf.
    rewrite Hdis in Hsub. eapply Hsub; try eassumption; reflexivity.
  - (* columns *)
    destruct (is_empty n) eqn:Ee; [exfalso; eapply Hun; [exact H|exact Hl]|].
    destruct (nthz (items n) (nfocus n)) as [w|] eqn:En; [|exfalso; eapply raise_inv; exact H].
    pose proof (focus_child_list h id n w G Ee En) as Hf. rewrite K in Hf.
    apply mbind_inv in H. destruct H as (h1 & u & Hw & H).
    assert (Hd : kp_dispatch_heap f id key h = h1).
    { unfold kp_dispatch_heap. rewrite G, K, Ee, Hw. reflexivity. }
    apply mbind_inv in H. destruct H as (h1' & hh & Hg & H). apply get_heap_inv in Hg. destruct Hg as [-> ->].
    apply mbind_inv in H. destruct H as (h2 & r & Hr & H).
    assert (Hoff : In l (snd r)).
    { destruct (negb (is_horiz (cmd_of (fst r)))).
      - apply ret_inv in H. destruct H as [_ <-]. exact Hl.
      - apply mbind_inv in H. destruct H as (h3 & moved & _ & H). apply ret_inv in H. destruct H as [_ Hq]. injection Hq as _ <-. exact Hl. }
    destruct (sel f h1 w); [|exfalso; eapply Hun; eassumption].
    assert (Hf1 : focus_child h1 id = Some w).
    { destruct (negb (is_vert_or_page (cmd_of (Some key)))).
      - apply w_pref_inv in Hw. destruct Hw as (n0 & G0 & ->). rewrite G in G0. injection G0 as <-.
        rewrite focus_child_set_pref by exact G. exact Hf.
      - apply ret_inv in Hw. destruct Hw as [-> _]. exact Hf. }
    rewrite Hd in Hsub. eapply Hsub; try eassumption; reflexivity.
  - (* gridflow *)
    specialize (Hdis KGrid eq_refl ltac:(discriminate) ltac:(discriminate)).
    destruct (is_empty n) eqn:Ee; [exfalso; eapply Hun; [exact H|exact Hl]|].
    apply mbind_inv in H. destruct H as (h1 & hh & Hg & H). apply get_heap_inv in Hg. destruct Hg as [-> ->].
    destruct (find_row (grid_rows n) 0 (nfocus n)) as [[rr cells]|]; [|exfalso; eapply raise_inv; exact H].
    apply mbind_inv in H. destruct H as (h2 & r & Hr & H).
    assert (Hoff : In l (snd r)).
    { destruct (any_sel f h n && is_horiz (cmd_of (fst r))).
      - match type of H with (match ?x with _ => _ end) _ = _ => destruct x end.
        + apply mbind_inv in H. destruct H as (h3 & u & _ & H). apply ret_inv in H. destruct H as [_ Hq]. injection Hq as _ <-. exact Hl.
        + apply ret_inv in H. destruct H as [_ <-]. exact Hl.
      - destruct (any_sel f h n && negb (is_vert (cmd_of (fst r)))).
        + apply ret_inv in H. destruct H as [_ <-]. exact Hl.
        + match type of H with (match ?x with _ => _ end) _ = _ => destruct x end.
          * match type of H with (match ?x with _ => _ end) _ = _ => destruct x end; [|exfalso; eapply raise_inv; exact H].
            apply mbind_inv in H. destruct H as (h3 & u & _ & H). apply ret_inv in H. destruct H as [_ Hq]. injection Hq as _ <-. exact Hl.
          * apply ret_inv in H. destruct H as [_ <-]. exact Hl. }
    destruct (any_sel f h n && sel f h (cell_id n (nfocus n))); [|exfalso; eapply Hun; eassumption].
    unfold cell_id in Hr. destruct (nthz (items n) (nfocus n)) as [c|] eqn:En.
    + pose proof (focus_child_list h id n c G Ee En) as Hf. rewrite K in Hf.
      rewrite Hdis in Hsub. eapply Hsub; try eassumption; reflexivity.
    + exfalso. apply kp_ok_getn in Hr. destruct Hr as (m & Gm). rewrite getn_neg in Gm by lia. discriminate.
  - (* frame *)
    specialize (Hdis KFrame eq_refl ltac:(discriminate) ltac:(discriminate)).
    apply mbind_inv in H. destruct H as (h1 & hh & Hg & H). apply get_heap_inv in Hg. destruct Hg as [-> ->].
    assert (Hfc : forall c, (n_part n =? 100 = true -> c = n_a n) -> (n_part n =? 100 = false -> n_part n =? 101 = true -> n_b n = Some c) ->
                   (n_part n =? 100 = false -> n_part n =? 101 = false -> n_d n = Some c) -> focus_child h id = Some c).
    { intros c H0 H1 H2. unfold focus_child. rewrite G, K. destruct (n_part n =? 100) eqn:E0; [rewrite H0; reflexivity|].
      destruct (n_part n =? 101) eqn:E1; [apply H1; reflexivity|apply H2; reflexivity]. }
    destruct (n_part n =? 101) eqn:E1.
    + destruct (n_b n) as [hd|] eqn:Eb.
      * destruct (sel f h hd); [|exfalso; eapply Hun; eassumption].
        rewrite Hdis in Hsub. eapply (Hsub hd h' (k1, off)); [apply Hfc; intros; try congruence; lia|exact H|exact Hl|reflexivity].
      * destruct (n_part n =? 102) eqn:E2; [lia|]. cbn in H.
        assert (E0 : n_part n =? 100 = false) by lia. rewrite E0 in H. cbn in H. exfalso; eapply Hun; eassumption.
    + destruct (n_part n =? 102) eqn:E2.
      * destruct (n_d n) as [ft|] eqn:Ed.
        -- destruct (sel f h ft); [|exfalso; eapply Hun; eassumption].
           rewrite Hdis in Hsub. eapply (Hsub ft h' (k1, off)); [apply Hfc; intros; try congruence; lia|exact H|exact Hl|reflexivity].
        -- assert (E0 : n_part n =? 100 = false) by lia. rewrite E0 in H. cbn in H. exfalso; eapply Hun; eassumption.
      * destruct (n_part n =? 100) eqn:E0; cbn in H; [|exfalso; eapply Hun; eassumption].
        destruct (sel f h (n_a n)); [|exfalso; eapply Hun; eassumption].
        rewrite Hdis in Hsub. eapply (Hsub (n_a n) h' (k1, off)); [apply Hfc; intros; try congruence; lia|exact H|exact Hl|reflexivity].
  - (* overlay *)
    specialize (Hdis KOvl eq_refl ltac:(discriminate) ltac:(discriminate)).
    rewrite Hdis in Hsub. eapply (Hsub (n_a n) h' (k1, off)); [unfold focus_child; rewrite G, K; reflexivity|exact H|exact Hl|reflexivity].
  - (* list box: the pending request is completed, then the key goes to the focus widget of that heap *)
    apply mbind_inv in H. destruct H as (h1 & u & Hu & H).
    assert (Hd : kp_dispatch_heap f id key h = h1).
    { unfold kp_dispatch_heap. rewrite G, K, Hu. reflexivity. }
    apply mbind_inv in H. destruct H as (h1' & hh & Hg & H). apply get_heap_inv in Hg. destruct Hg as [-> ->].
    destruct (focus_child h1 id) as [fw|] eqn:Hfc; [|exfalso; eapply Hun; [exact H|exact Hl]].
    apply mbind_inv in H. destruct H as (h2 & r & Hr & H).
    assert (Hoff : In l (snd r)).
    { destruct (fst r) as [kk|].
      - destruct (is_vert (cmd_of (Some kk))).
        + apply mbind_inv in H. destruct H as (h3 & ua & _ & H).
          apply mbind_inv in H. destruct H as (h4 & n2 & _ & H).
          apply mbind_inv in H. destruct H as (h5 & hh2 & _ & H).
          match type of H with (match ?x with _ => _ end) _ = _ => destruct x end.
          * apply mbind_inv in H. destruct H as (h6 & u2 & _ & H). apply ret_inv in H. destruct H as [_ Hq]. injection Hq as _ <-. exact Hl.
          * apply ret_inv in H. destruct H as [_ <-]. exact Hl.
        + destruct ((cmd_of (Some kk) =? C_PGUP) || (cmd_of (Some kk) =? C_PGDN)); [exfalso; eapply raise_inv; exact H|].
          destruct ((cmd_of (Some kk) =? C_MAXL) || (cmd_of (Some kk) =? C_MAXR)).
          * apply mbind_inv in H. destruct H as (h3 & n2 & _ & H).
            apply mbind_inv in H. destruct H as (h4 & ub & _ & H).
            apply mbind_inv in H. destruct H as (h5 & n3 & _ & H).
            apply mbind_inv in H. destruct H as (h6 & u2 & _ & H). apply ret_inv in H. destruct H as [_ Hq]. injection Hq as _ <-. exact Hl.
          * apply ret_inv in H. destruct H as [_ <-]. exact Hl.
      - apply mbind_inv in H. destruct H as (h3 & hh2 & _ & H).
        apply mbind_inv in H. destruct H as (h4 & uc & _ & H). apply ret_inv in H. destruct H as [_ <-]. exact Hl. }
    destruct (sel f h1 fw); [|exfalso; eapply Hun; eassumption].
    rewrite Hd in Hsub. eapply Hsub; try eassumption; reflexivity.
Qed.

(* when nothing is pending the dispatch heaps differ from h only in pref_col: the route is the focus path of h *)
Lemma kp_dispatch_nopending f id key h : NoPending h ->
  NoPending (kp_dispatch_heap f id key h) /\ (forall r x, OnPath (kp_dispatch_heap f id key h) r x -> OnPath h r x) /\
  (forall x, focus_child (kp_dispatch_heap f id key h) x = focus_child h x).
Proof.
  intros HN. unfold kp_dispatch_heap. destruct (getn h id) as [n|] eqn:G; [|repeat split; auto].
  destruct (nk n); try (repeat split; auto; fail).
  - destruct (is_empty n); [repeat split; auto|].
    destruct (negb (is_vert_or_page (cmd_of (Some key)))); [|repeat split; auto].
    unfold w_pref, w_node. rewrite G. cbn [fst].
    split; [apply NoPending_set_pref; assumption|]. split; [intros r x; apply OnPath_set_pref; exact G|].
    intros x. apply focus_child_set_pref. exact G.
  - rewrite (HN id n G). repeat split; auto.
Qed.

Theorem key_route_on_path key f : forall id h l, NoPending h -> KeyRoute key f id h l -> OnPath h id l.
Proof.
  induction f as [|f IH]; intros id h l HN HR; inversion HR; subst.
  - apply op_root.
  - destruct (kp_dispatch_nopending f id key h HN) as (HN1 & Hp & Hf).
    eapply OnPath_cons; [rewrite <- Hf; eassumption|]. apply Hp. apply IH; assumption.
Qed.

(* ---------- render ---------- *)
(* the heap in which container [id] decides which child is rendered with focus *)
Definition rn_dispatch_heap (f : nat) (id : Z) (focus : bool) (h : heap) : heap :=
  match getn h id with
  | Some n => match nk n with KLBox => fst (lb_visible f id focus h) | _ => h end
  | None => h
  end.

(* [hc]: the heap in which that child is then rendered (the siblings drawn before it may have completed
   pending requests of their own list boxes) *)
Inductive FocusRender : nat -> Z -> heap -> Z -> Prop :=
  | fr_leaf : forall f id h n, getn h id = Some n -> nk n = KLeaf -> is_dis n = false -> FocusRender (S f) id h id
  | fr_step : forall f id h n c hc x,
      getn h id = Some n -> is_dis n = false ->        (* never through a WidgetDisable *)
      focus_child (rn_dispatch_heap f id true h) id = Some c -> FocusRender f c hc x -> FocusRender (S f) id h x.

Section RenderRoute.
Variable f : nat.
Hypothesis IHrn : forall id focus h h' l, rn f id focus h = (h', ROk l) ->
  forall x, In x l -> focus = true /\ FocusRender f id h x.

Lemma rn_list_route keep l0 : forall j fi focus h h' out,
  0 <= j -> rn_list (rn f) keep l0 j fi focus h = (h', ROk out) ->
  forall x, In x out -> focus = true /\ exists c hc, nthz l0 (fi - j) = Some c /\ FocusRender f c hc x.
Proof.
  induction l0 as [|c r IH]; intros j fi focus h h' out Hj H; cbn [rn_list] in H.
  - apply ret_inv in H. destruct H as [_ ->]. intros x [].
  - apply mbind_inv in H. destruct H as (h1 & a & Ha & H).
    apply mbind_inv in H. destruct H as (h2 & b & Hb & H). apply ret_inv in H. destruct H as [_ ->].
    intros x Hx. apply in_app_or in Hx. destruct Hx as [Hx|Hx].
    + destruct (keep j); [|apply ret_inv in Ha; destruct Ha as [_ ->]; destruct Hx].
      destruct (IHrn c _ h h1 a Ha x Hx) as [Hf Hr]. split; [lia|]. exists c, h. split; [|exact Hr].
      replace (fi - j) with 0 by lia. reflexivity.
    + destruct (IH (j + 1) fi focus h1 h2 b ltac:(lia) Hb x Hx) as [Hf (c' & hc & Hn & Hr)]. split; [exact Hf|].
      exists c', hc. split; [|exact Hr].
      pose proof (nthz_bounds _ _ _ Hn) as Hb2.
      replace (fi - j) with ((fi - (j + 1)) + 1) by lia. rewrite nthz_cons_succ by lia. exact Hn.
Qed.
End RenderRoute.

Theorem render_focus_follows_route f : forall id focus h h' l, rn f id focus h = (h', ROk l) ->
  forall x, In x l -> focus = true /\ FocusRender f id h x.
Proof.
  induction f as [|f IH]; intros id focus0 h h' l H x Hx; cbn [rn] in H; [exfalso; eapply raise_inv; exact H|].
  apply mbind_inv in H. destruct H as (h0 & n & Hrd & H). apply rd_inv in Hrd. destruct Hrd as [-> G].
  cbv zeta in H. remember (focus0 && negb (is_dis n)) as focus eqn:Efoc.
  cut (focus = true /\ FocusRender (S f) id h x).
  { intros [Hf Hp]. split; [|exact Hp]. subst focus. apply andb_prop in Hf. apply Hf. }
  assert (Hnd : focus = true -> is_dis n = false) by (intros Hf; subst focus; destruct (is_dis n); [rewrite andb_false_r in Hf; discriminate|reflexivity]).
  clear Efoc.
  assert (Hdis : nk n <> KLBox -> rn_dispatch_heap f id true h = h).
  { intros Hk. unfold rn_dispatch_heap. rewrite G. destruct (nk n); try reflexivity. contradiction. }
  (* a list-like container whose focus index is read from node m of heap hd (the dispatch heap) *)
  assert (Hlist : forall keep hh hd m, is_list_kind_b (nk m) = true -> getn hd id = Some m ->
            rn_dispatch_heap f id true h = hd \/ focus = false ->
            rn_list (rn f) keep (items m) 0 (nfocus m) focus hh = (h', ROk l) -> focus = true /\ FocusRender (S f) id h x).
  { intros keep hh hd m Hk Gm Hd Hl.
    destruct (rn_list_route f IH keep (items m) 0 (nfocus m) focus hh h' l ltac:(lia) Hl x Hx) as [Hf (c & hc & Hn & Hr)].
    split; [exact Hf|]. destruct Hd as [Hd|Hd]; [|congruence].
    rewrite Z.sub_0_r in Hn. eapply fr_step; [exact G|exact (Hnd Hf)| |exact Hr]. rewrite Hd.
    unfold focus_child. rewrite Gm. destruct (nk m); try discriminate; destruct (items m) eqn:Ei;
      try exact Hn; unfold nthz in Hn; destruct (nfocus m <? 0); try discriminate; destruct (Z.to_nat (nfocus m)); discriminate. }
  destruct (nk n) eqn:K.
  - apply ret_inv in H. destruct H as [_ ->]. destruct focus; [|destruct Hx]. destruct Hx as [<-|[]].
    split; [reflexivity|eapply fr_leaf; [exact G|exact K|exact (Hnd eq_refl)]].
  - apply mbind_inv in H. destruct H as (h1 & hh & Hg & H). apply get_heap_inv in Hg. destruct Hg as [-> ->].
    eapply (Hlist _ h h n); [rewrite K; reflexivity|exact G|left; apply Hdis; discriminate|exact H].
  - eapply (Hlist _ h h n); [rewrite K; reflexivity|exact G|left; apply Hdis; discriminate|exact H].
  - eapply (Hlist _ h h n); [rewrite K; reflexivity|exact G|left; apply Hdis; discriminate|exact H].
  - (* frame *)
    specialize (Hdis ltac:(discriminate)).
    apply mbind_inv in H. destruct H as (h1 & hh & Hg & H). apply get_heap_inv in Hg. destruct Hg as [-> ->].
    apply mbind_inv in H. destruct H as (h1 & a & Ha & H).
    apply mbind_inv in H. destruct H as (h2 & b & Hb & H).
    apply mbind_inv in H. destruct H as (h2' & hh & Hg & H). apply get_heap_inv in Hg. destruct Hg as [-> ->].
    apply mbind_inv in H. destruct H as (h3 & c & Hc & H). apply ret_inv in H. destruct H as [_ ->].
    assert (Hpart : forall p w hw, focus && (n_part n =? p) = true -> FocusRender f w hw x ->
               (p = 100 /\ w = n_a n) \/ (p = 101 /\ n_b n = Some w) \/ (p = 102 /\ n_d n = Some w) ->
               focus = true /\ FocusRender (S f) id h x).
    { intros p w hw Hf Hr Hw. split; [lia|]. eapply fr_step; [exact G|apply Hnd; lia| |exact Hr]. rewrite Hdis. unfold focus_child. rewrite G, K.
      destruct Hw as [[-> ->]|[[-> Hw]|[-> Hw]]].
      - assert (E : n_part n =? 100 = true) by lia. rewrite E. reflexivity.
      - assert (E0 : n_part n =? 100 = false) by lia. assert (E1 : n_part n =? 101 = true) by lia. rewrite E0, E1. exact Hw.
      - assert (E0 : n_part n =? 100 = false) by lia. assert (E1 : n_part n =? 101 = false) by lia. rewrite E0, E1. exact Hw. }
    apply in_app_or in Hx. destruct Hx as [Hx|Hx].
    + destruct (n_b n) as [hd|] eqn:Eb; [|apply ret_inv in Ha; destruct Ha as [_ ->]; destruct Hx].
      destruct (truthy h hd && (0 <? rows f h hd)); [|apply ret_inv in Ha; destruct Ha as [_ ->]; destruct Hx].
      destruct (IH hd _ h h1 a Ha x Hx) as [Hf Hr]. eapply (Hpart 101); [exact Hf|exact Hr|right; left; split; reflexivity].
    + apply in_app_or in Hx. destruct Hx as [Hx|Hx].
      * destruct (IH (n_a n) _ h1 h2 b Hb x Hx) as [Hf Hr]. eapply (Hpart 100); [exact Hf|exact Hr|left; split; reflexivity].
      * destruct (n_d n) as [ft|] eqn:Ed; [|apply ret_inv in Hc; destruct Hc as [_ ->]; destruct Hx].
        destruct (truthy h2 ft && (0 <? rows f h2 ft)); [|apply ret_inv in Hc; destruct Hc as [_ ->]; destruct Hx].
        destruct (IH ft _ h2 h3 c Hc x Hx) as [Hf Hr]. eapply (Hpart 102); [exact Hf|exact Hr|right; right; split; reflexivity].
  - (* overlay *)
    specialize (Hdis ltac:(discriminate)).
    apply mbind_inv in H. destruct H as (h1 & b & Hb & H).
    apply mbind_inv in H. destruct H as (h2 & t & Ht & H). apply ret_inv in H. destruct H as [_ ->].
    apply in_app_or in Hx. destruct Hx as [Hx|Hx].
    + exfalso. destruct (n_b n) as [bt|]; [|apply ret_inv in Hb; destruct Hb as [_ ->]; destruct Hx].
      destruct (IH bt false h h1 b Hb x Hx) as [Hf _]. discriminate.
    + destruct (IH (n_a n) focus h1 h2 t Ht x Hx) as [Hf Hr]. split; [exact Hf|].
      eapply fr_step; [exact G|exact (Hnd Hf)| |exact Hr]. rewrite Hdis. unfold focus_child. rewrite G, K. reflexivity.
  - (* list box *)
    apply mbind_inv in H. destruct H as (h1 & vis & Hv & H).
    destruct (negb vis); [apply ret_inv in H; destruct H as [_ ->]; destruct Hx|].
    apply mbind_inv in H. destruct H as (h1' & n1 & Hrd & H). apply rd_inv in Hrd. destruct Hrd as [-> G1].
    assert (Hk1 : is_list_kind_b (nk n1) = true).
    { pose proof (lb_visible_static h f id focus h (same_static_init h)) as HI. rewrite Hv in HI. cbn [fst] in HI.
      destruct (HI id n1 G1) as (n0 & G0 & Hk & _). rewrite G in G0. injection G0 as <-. rewrite Hk, K. reflexivity. }
    destruct focus.
    + eapply (Hlist _ h1 h1 n1); [exact Hk1|exact G1|left; unfold rn_dispatch_heap; rewrite G, K, Hv; reflexivity|exact H].
    + eapply (Hlist _ h1 h1 n1); [exact Hk1|exact G1|right; reflexivity|exact H].
Qed.
