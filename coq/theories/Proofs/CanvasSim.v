(* C02: the step / run simulation between the shard machine and the grid machine. *)
From Coq Require Import ZArith List Bool Lia ZifyBool.
From Urwid Require Import PyBase Canvas CanvasGrid CanvasFacts CanvasAbs CanvasVert CanvasHoriz CanvasJoin CanvasProg CanvasProgH.
Import ListNotations.
Open Scope Z_scope.
Arguments Z.add : simpl never.
Arguments Z.sub : simpl never.
Arguments Z.mul : simpl never.
Arguments Z.ltb : simpl never.
Arguments Z.leb : simpl never.
Arguments Z.eqb : simpl never.
Arguments Z.min : simpl never.
Arguments Z.max : simpl never.
Arguments Z.to_nat : simpl never.
Arguments Z.of_nat : simpl never.

(* ------------------------------------------------------------------ the simulation *)
Definition srel (st : mstate) (gst : gstate) : Prop :=
  Forall2 vrel (stack st) (gstack gst) /\ Forall2 vrel (env st) (genv gst).

Lemma Forall2_firstn {A B} (R : A -> B -> Prop) n l1 l2 : Forall2 R l1 l2 -> Forall2 R (firstn n l1) (firstn n l2).
Proof. intros F; revert n; induction F; intros [|n]; cbn [firstn]; constructor; auto. Qed.
Lemma Forall2_skipn {A B} (R : A -> B -> Prop) n l1 l2 : Forall2 R l1 l2 -> Forall2 R (skipn n l1) (skipn n l2).
Proof. intros F; revert n; induction F; intros [|n]; cbn [skipn]; try constructor; auto. Qed.
Lemma Forall2_rev {A B} (R : A -> B -> Prop) l1 l2 : Forall2 R l1 l2 -> Forall2 R (rev l1) (rev l2).
Proof. induction 1; cbn [rev]; [constructor|]. apply Forall2_app; [assumption|constructor; [assumption|constructor]]. Qed.
Lemma Forall2_zlen {A B} (R : A -> B -> Prop) l1 l2 : Forall2 R l1 l2 -> zlen l1 = zlen l2.
Proof. intros F. unfold zlen. f_equal. induction F; cbn [length]; congruence. Qed.
Lemma Forall2_nthz {A B} (R : A -> B -> Prop) l1 l2 k y :
  Forall2 R l1 l2 -> nthz l2 k = Some y -> exists x, nthz l1 k = Some x /\ R x y.
Proof.
  unfold nthz. destruct (k <? 0); [discriminate|]. generalize (Z.to_nat k) as n. intros n F; revert n.
  induction F; intros [|n] H'; cbn [nth_error] in *; try discriminate.
  - injection H' as <-. eauto.
  - eauto.
Qed.

Lemma pop_n_rel {A B} (R : A -> B -> Prop) n l1 l2 vs2 r2 :
  Forall2 R l1 l2 -> pop_n n l2 = Ok (vs2, r2) ->
  exists vs1 r1, pop_n n l1 = Ok (vs1, r1) /\ Forall2 R vs1 vs2 /\ Forall2 R r1 r2.
Proof.
  intros F. unfold pop_n. rewrite (Forall2_zlen _ _ _ F). destruct ((n <? 0) || (zlen l2 <? n)); [discriminate|].
  intros [= <- <-]. eexists _, _. split; [reflexivity|]. unfold takez, dropz.
  split; [apply Forall2_rev, Forall2_firstn, F|apply Forall2_skipn, F].
Qed.

(* every instruction has a simulation lemma; kept as a definition so that the step lemma
   names its hypothesis *)
Definition proved_instr (i : instr) : bool := true.

Lemma pop_n_len {A} n (l : list A) vs r : pop_n n l = Ok (vs, r) -> zlen vs = n.
Proof.
  unfold pop_n. destruct ((n <? 0) || (zlen l <? n)) eqn:E; [discriminate|]. intros [= <- <-].
  rewrite zlen_rev, zlen_takez by lia. lia.
Qed.

Lemma on_comp_sim st gst gst' (f : comp -> result comp) (fg : gval -> option gval) :
  srel st gst ->
  (forall c gv gv', vrel (VComp c) gv -> gfin gv = false -> fg gv = Some gv' ->
                    exists c', f c = Ok c' /\ vrel (VComp c') gv') ->
  on_gcomp gst fg = Some gst' -> exists st', on_comp st f = Ok st' /\ srel st' gst'.
Proof.
  intros [Fs Fe] Hf. unfold on_gcomp, on_comp. inversion Fs as [|v gv vs gvs Rv Rs Es Eg]; [discriminate|].
  destruct (gleaf gv || gfin gv) eqn:E; [discriminate|]. apply orb_false_elim in E as [El Efn].
  destruct (fg gv) as [gv'|] eqn:Eg'; [|discriminate]. intros [= <-].
  destruct v as [c cu|c]; [destruct Rv as (Rl & _); congruence|].
  destruct (Hf _ _ _ Rv Efn Eg') as (c' & -> & Rv'). eexists; split; [reflexivity|].
  split; cbn [stack env gstack genv]; [constructor; assumption|assumption].
Qed.

Lemma step_sim leaves st gst i gst' :
  srel st gst -> proved_instr i = true -> gstep leaves gst i = Some gst' ->
  exists st', step leaves st i = Ok st' /\ srel st' gst'.
Proof.
  intros R P. pose proof R as [Fs Fe]. destruct i; cbn [proved_instr] in P; try discriminate; cbn [gstep step].
  - (* ILeaf *)
    destruct (nthz leaves (i - 1)) as [[c cu]|]; [|discriminate]. destruct (leaf_okb c) eqn:L; [|discriminate].
    intros [= <-]. eexists; split; [reflexivity|]. split; cbn [stack env gstack genv]; [|assumption].
    constructor; [|assumption]. cbn [vrel gleaf gfin gg gco]. auto.
  - (* IRef *)
    destruct (nthz (genv gst) k) as [gv|] eqn:E; [|discriminate]. intros [= <-].
    destruct (Forall2_nthz _ _ _ _ _ Fe E) as (v & -> & Rv). eexists; split; [reflexivity|].
    split; cbn [stack env gstack genv]; [constructor; assumption|assumption].
  - (* IWrap *)
    inversion Fs as [|v gv vs gvs Rv Rs Es Eg]; [discriminate|]. intros [= <-].
    destruct (wrap_rel _ _ Rv) as (c & -> & Rc). eexists; split; [reflexivity|].
    split; cbn [stack env gstack genv]; [constructor; assumption|assumption].
  - (* ICombine *)
    destruct (pop_n n (gstack gst)) as [[gvs grest]|e] eqn:E; [|discriminate].
    destruct (same_width gvs) eqn:S; [|discriminate]. intros [= <-].
    destruct (pop_n_rel _ _ _ _ _ _ Fs E) as (vs & rest & -> & Rvs & Rrest).
    destruct (canvas_combine_rel _ _ Rvs S) as (c & -> & Rc). eexists; split; [reflexivity|].
    split; cbn [stack env gstack genv]; [constructor; assumption|assumption].
  - (* IJoin *)
    destruct (pop_n (zlen cols) (gstack gst)) as [[gvs grest]|e] eqn:E; [|discriminate].
    destruct ((0 <? zlen cols) && forallb (fun vc : gval * Z => gwidth (gg (fst vc)) <=? snd vc) (combine gvs cols)) eqn:S; [|discriminate].
    intros [= <-]. apply andb_prop in S as [S1 S2].
    destruct (pop_n_rel _ _ _ _ _ _ Fs E) as (vs & rest & -> & Rvs & Rrest).
    destruct (canvas_join_rel vs gvs cols Rvs) as (c & -> & Rc); [symmetry; eapply pop_n_len; eauto|lia|assumption|].
    eexists; split; [reflexivity|]. split; cbn [stack env gstack genv]; [constructor; assumption|assumption].
  - (* IOverlay *)
    inversion Fs as [|vt gvt vs1 gvs1 Rt Rs1 Es Eg]; [discriminate|]. inversion Rs1 as [|vb gvb vs2 gvs2 Rb Rs2 Es2 Eg2]; [discriminate|].
    destruct (negb (gleaf gvt) && (0 <=? left) && (0 <=? top) && (left + gwidth (gg gvt) <=? gwidth (gg gvb))
              && (top + gheight (gg gvt) <=? gheight (gg gvb))) eqn:E; [|discriminate].
    intros [= <-].
    repeat (apply andb_prop in E as [E ?]).
    assert (gleaf gvt = false) as Hlf by (destruct (gleaf gvt); [discriminate|reflexivity]).
    destruct (canvas_overlay_rel vt vb gvt gvb left top Rt Rb Hlf) as (c & -> & Rc); [lia|lia|lia|lia|].
    eexists; split; [reflexivity|]. split; cbn [stack env gstack genv]; [constructor; assumption|assumption].
  - (* IPadLR *)
    apply on_comp_sim; [assumption|]. intros c gv gv' Rv Hf. destruct (0 <? gwidth (gg gv) + Z.min l 0 + Z.min r 0) eqn:E; [|discriminate].
    intros [= <-]. apply comp_pad_trim_left_right_rel; [assumption|assumption|lia].
  - (* IPadTB *)
    apply on_comp_sim; [assumption|]. intros c gv gv' Rv Hf. destruct (0 <? gheight (gg gv) + Z.min t 0 + Z.min b 0) eqn:E; [|discriminate].
    intros [= <-]. apply comp_pad_trim_top_bottom_rel; [assumption|assumption|lia].
  - (* ITrim *)
    apply on_comp_sim; [assumption|]. intros c gv gv' Rv Hf.
    destruct ((0 <=? top) && (top <? gheight (gg gv)) && match count with Some n => 0 <? n | None => true end) eqn:E; [|discriminate].
    intros [= <-]. apply comp_trim_rel; [assumption|assumption|lia|destruct count; [lia|exact I]].
  - (* ITrimEnd *)
    apply on_comp_sim; [assumption|]. intros c gv gv' Rv Hf. destruct ((0 <? e) && (e <? gheight (gg gv))) eqn:E; [|discriminate].
    intros [= <-]. apply comp_trim_end_rel; [assumption|assumption|lia].
  - (* IFillAttr *)
    apply on_comp_sim; [assumption|]. intros c gv gv' Rv Hf [= <-]. now apply comp_fill_attr_rel.
  - (* ISetCursor *)
    apply on_comp_sim; [assumption|]. intros c0 gv gv' Rv Hf [= <-]. now apply comp_set_cursor_rel.
  - (* ISetPopUp *)
    apply on_comp_sim; [assumption|]. intros c gv gv' Rv Hf [= <-]. now apply comp_set_pop_up_rel.
  - (* IFinalize *)
    apply on_comp_sim; [assumption|]. intros c gv gv' Rv Hf [= <-]. now apply comp_finalize_rel.
  - (* IBind *)
    inversion Fs as [|v gv vs gvs Rv Rs Es Eg]; [discriminate|]. intros [= <-].
    eexists; split; [reflexivity|]. split; cbn [stack env gstack genv]; [assumption|].
    apply Forall2_app; [assumption|constructor; [assumption|constructor]].
  - (* IDelta *)
    destruct (nthz (genv gst) i) as [ga|] eqn:Ea; [|discriminate]. destruct (nthz (genv gst) j) as [gb|] eqn:Eb; [|discriminate].
    intros [= <-]. destruct (Forall2_nthz _ _ _ _ _ Fe Ea) as (va & -> & _). destruct (Forall2_nthz _ _ _ _ _ Fe Eb) as (vb & -> & _).
    eexists; split; [reflexivity|]. split; assumption.
Qed.

Lemma run_sim leaves prog : forall st gst gst',
  srel st gst -> Forall (fun i => proved_instr i = true) prog -> grun leaves gst prog = Some gst' ->
  exists st', run leaves st prog = (st', None) /\ srel st' gst'.
Proof.
  induction prog as [|i prog IH]; intros st gst gst' R P; cbn [grun run].
  - intros [= <-]. eauto.
  - inversion P; subst. destruct (gstep leaves gst i) as [gst1|] eqn:E; [|discriminate]. intros G.
    destruct (step_sim _ _ _ _ _ R H1 E) as (st1 & -> & R1). eapply IH; eauto.
Qed.

(* what the relation says about the observable methods content(), cols(), rows(), coords *)
Lemma leaf_content_default c : leaf_okb c = true -> canvas_content_default c = Ok (leaf_grid c).
Proof.
  unfold leaf_okb, canvas_content_default, leaf_grid. destruct (cknd c) as [rws mc|cs ch cols rows|] eqn:E; [| |discriminate].
  - intros L. apply andb_prop in L as [L0 L]. unfold text_content.
    replace (0 =? 0) with true by lia. rewrite !Z.sub_0_r.
    destruct (negb ((0 <=? 0) && (0 <? mc) && (0 <? mc) && (0 + mc <=? mc))) eqn:E1; [lia|].
    destruct (negb ((0 <=? 0) && (0 <? zlen rws) && (0 <? zlen rws) && (0 + zlen rws <=? zlen rws))) eqn:E2; [lia|].
    destruct (negb true || (zlen rws <? zlen rws)) eqn:E3; [lia|].
    destruct (negb true || (mc <? mc)) eqn:E4; [lia|]. f_equal.
    rewrite <- (map_id rws) at 2. apply map_ext. intros r.
    rewrite map_ext with (g := fun c => c) by apply cell_map_attr_none. apply map_id.
  - intros _. reflexivity.
Qed.

Lemma vrel_observables v gv :
  vrel v gv ->
  value_content v = Ok (gg gv) /\ vcols v = Ok (gwidth (gg gv)) /\ vrows v = Ok (gheight (gg gv)) /\ vcoords v = gco gv.
Proof.
  intros R. destruct (vrel_dims _ _ R) as (A & B & _). split; [|split; [assumption|split; [assumption|]]].
  - destruct v as [c cu|c]; cbn [vrel value_content] in *.
    + destruct R as (_ & _ & L & -> & _). now apply leaf_content_default.
    + now destruct R as (_ & _ & C & _).
  - destruct v as [c cu|c]; cbn [vrel vcoords] in *.
    + now destruct R as (_ & _ & _ & _ & ->).
    + now destruct R as (_ & _ & _ & -> & _).
Qed.

(* after a trim the cursor, if any, lies inside the canvas *)
Lemma g_drop_cursor_inside g c x y :
  cur (g_drop_cursor g c) = Some (x, y) -> 0 <= x < gwidth g /\ 0 <= y < gheight g.
Proof.
  unfold g_drop_cursor. destruct (cur c) as [[x0 y0]|] eqn:E.
  - destruct ((0 <=? x0) && (x0 <? gwidth g) && (0 <=? y0) && (y0 <? gheight g)) eqn:B; cbn [cur]; [rewrite E; intros [= <- <-]; lia|discriminate].
  - rewrite E. discriminate.
Qed.
Lemma g_drop_cursor_keeps g c x y :
  cur c = Some (x, y) -> 0 <= x < gwidth g -> 0 <= y < gheight g -> g_drop_cursor g c = c.
Proof.
  intros E Hx Hy. unfold g_drop_cursor. rewrite E.
  destruct ((0 <=? x) && (x <? gwidth g) && (0 <=? y) && (y <? gheight g)) eqn:B; [reflexivity|lia].
Qed.
