(* C09: induction principle over widget trees, unfolding of [view], list and arithmetic facts. *)
From Coq Require Import ZArith List Bool Lia ZifyBool.
Import ListNotations.
From Urwid Require Import PyBase geo_padfill_gen Geometry.
Open Scope Z_scope.

Arguments Z.add : simpl never. Arguments Z.sub : simpl never. Arguments Z.mul : simpl never.
Arguments Z.div : simpl never. Arguments Z.modulo : simpl never. Arguments Z.ltb : simpl never.
Arguments Z.leb : simpl never. Arguments Z.eqb : simpl never. Arguments Z.min : simpl never.
Arguments Z.max : simpl never. Arguments Z.quot : simpl never.

(* ---------- structural induction over the nested tree ---------- *)
Section widget_induction.
  Variable P : widget -> Prop.
  Hypothesis HLeaf : forall l, P (Leaf l).
  Hypothesis HPile : forall items fp, Forall (fun it => P (snd it)) items -> P (Pile items fp).
  Hypothesis HColumns : forall items fp dc mw, Forall (fun it => P (snd it)) items -> P (Columns items fp dc mw).
  Hypothesis HPadding : forall w a b c d e f g, P w -> P (Padding w a b c d e f g).
  Hypothesis HFiller : forall w a b c d e f g, P w -> P (Filler w a b c d e f g).
  Hypothesis HFrame : forall body hdr ftr fpt, P body ->
      (forall h, hdr = Some h -> P h) -> (forall f, ftr = Some f -> P f) -> P (Frame body hdr ftr fpt).
  Hypothesis HBoxAdapter : forall w h, P w -> P (BoxAdapter w h).
  Hypothesis HAttrMap : forall w, P w -> P (AttrMap w).
  Hypothesis HOverlay : forall t b a1 a2 a3 a4 a5 a6 a7 b1 b2 b3 b4 b5 b6 b7, P t -> P b ->
      P (Overlay t b a1 a2 a3 a4 a5 a6 a7 b1 b2 b3 b4 b5 b6 b7).

  Fixpoint widget_ind2 (w : widget) : P w :=
    match w with
    | Leaf l => HLeaf l
    | Pile items fp =>
        HPile items fp ((fix go (l : list (popt * widget)) : Forall (fun it => P (snd it)) l :=
                           match l with
                           | [] => Forall_nil _
                           | it :: r => Forall_cons it (widget_ind2 (snd it)) (go r)
                           end) items)
    | Columns items fp dc mw =>
        HColumns items fp dc mw ((fix go (l : list (copt * bool * widget)) : Forall (fun it => P (snd it)) l :=
                           match l with
                           | [] => Forall_nil _
                           | it :: r => Forall_cons it (widget_ind2 (snd it)) (go r)
                           end) items)
    | Padding c a b c0 d e f g => HPadding c a b c0 d e f g (widget_ind2 c)
    | Filler c a b c0 d e f g => HFiller c a b c0 d e f g (widget_ind2 c)
    | Frame body hdr ftr fpt =>
        HFrame body hdr ftr fpt (widget_ind2 body)
          (match hdr as o return (forall h, o = Some h -> P h) with
           | Some h0 => fun h E => match E in (_ = y) return (match y with Some z => P z | None => True end) with eq_refl => widget_ind2 h0 end
           | None => fun h E => match E in (_ = y) return (match y with Some z => P z | None => True end) with eq_refl => I end
           end)
          (match ftr as o return (forall h, o = Some h -> P h) with
           | Some h0 => fun h E => match E in (_ = y) return (match y with Some z => P z | None => True end) with eq_refl => widget_ind2 h0 end
           | None => fun h E => match E in (_ = y) return (match y with Some z => P z | None => True end) with eq_refl => I end
           end)
    | BoxAdapter c h => HBoxAdapter c h (widget_ind2 c)
    | AttrMap c => HAttrMap c (widget_ind2 c)
    | Overlay t b a1 a2 a3 a4 a5 a6 a7 b1 b2 b3 b4 b5 b6 b7 =>
        HOverlay t b a1 a2 a3 a4 a5 a6 a7 b1 b2 b3 b4 b5 b6 b7 (widget_ind2 t) (widget_ind2 b)
    end.
End widget_induction.

(* ---------- [view] one level at a time ---------- *)
Lemma view_eq : forall w,
  view w = match w with
           | Leaf l => leaf_view l
           | _ => interp w (wnode w) (kidviews w)
           end.
Proof. destruct w; reflexivity. Qed.

(* ---------- small facts ---------- *)
Lemma nthz_In {A} (l : list A) i x : nthz l i = Some x -> In x l.
Proof. unfold nthz. destruct (i <? 0); [discriminate|]. apply nth_error_In. Qed.

Lemma nthz_nil {A} i : nthz (@nil A) i = None.
Proof. unfold nthz. destruct (i <? 0); [reflexivity|]. destruct (Z.to_nat i); reflexivity. Qed.

Lemma nthz_cons {A} (a : A) l i : nthz (a :: l) i = if i =? 0 then Some a else if i <? 0 then None else nthz l (i - 1).
Proof.
  unfold nthz. destruct (i =? 0) eqn:E0.
  - assert (i = 0) by lia. subst. reflexivity.
  - destruct (i <? 0) eqn:E1; [reflexivity|].
    assert (H : i - 1 <? 0 = false) by lia. rewrite H.
    replace (Z.to_nat i) with (S (Z.to_nat (i - 1))) by lia. reflexivity.
Qed.

Lemma nthz_map {A B} (f : A -> B) l i : nthz (map f l) i = option_map f (nthz l i).
Proof. unfold nthz. destruct (i <? 0); [reflexivity|]. apply nth_error_map. Qed.

Lemma nthz_range {A} (l : list A) i x : nthz l i = Some x -> 0 <= i < zlen l.
Proof.
  unfold nthz, zlen. destruct (i <? 0) eqn:E; [discriminate|]. intro H.
  assert (nth_error l (Z.to_nat i) <> None) by congruence.
  apply nth_error_Some in H0. lia.
Qed.

Lemma nthz_some {A} (l : list A) i : 0 <= i < zlen l -> exists x, nthz l i = Some x.
Proof.
  unfold nthz, zlen. intros H. assert (E : i <? 0 = false) by lia. rewrite E.
  destruct (nth_error l (Z.to_nat i)) eqn:E2; [eauto|].
  apply nth_error_None in E2. lia.
Qed.

Lemma nth_view_info d kids i : v_info (nth_view d kids i) = nth_info (map v_info kids) i.
Proof. unfold nth_view, nth_info. rewrite nthz_map. destruct (nthz kids i); reflexivity. Qed.

Lemma map_snd_combine {A B} (a : list A) (b : list B) : length a = length b -> map snd (combine a b) = b.
Proof. revert b; induction a; destruct b; cbn; intros; try discriminate; [reflexivity|]. f_equal. apply IHa. lia. Qed.

Lemma map_fst_combine {A B} (a : list A) (b : list B) : length a = length b -> map fst (combine a b) = a.
Proof. revert b; induction a; destruct b; cbn; intros; try discriminate; [reflexivity|]. f_equal. apply IHa. lia. Qed.

Lemma zsum_app a b : zsum (a ++ b) = zsum a + zsum b.
Proof. induction a; cbn [zsum app]; lia. Qed.

Lemma zmaxl_ge l x : In x l -> x <= zmaxl l.
Proof.
  induction l as [|a l IH]; [contradiction|]. intros [->|H].
  - destruct l; cbn [zmaxl]; lia.
  - specialize (IH H). destruct l; [contradiction|]. cbn [zmaxl] in *. lia.
Qed.

Lemma fold_left_ext {A B} (F G : B -> A -> B) l acc :
  (forall a q, F a q = G a q) -> fold_left F l acc = fold_left G l acc.
Proof. intro H. revert acc. induction l; cbn; intros; [reflexivity|]. rewrite H. apply IHl. Qed.

Definition upd {A B} (g : A -> option B) (a : option B) (q : A) : option B :=
  match g q with Some b => Some b | None => a end.

Lemma fold_upd_stable {A B} (g : A -> option B) l p acc :
  (forall q, In q l -> g q <> None -> q = p) ->
  fold_left (upd g) l (upd g acc p) = upd g acc p.
Proof.
  revert acc. induction l as [|a l IH]; intros acc H; [reflexivity|]. cbn [fold_left].
  assert (E : upd g (upd g acc p) a = upd g acc p).
  { unfold upd at 1. destruct (g a) eqn:Ea; [|reflexivity].
    assert (a = p) by (apply H; [left; reflexivity|congruence]). subst a. unfold upd. rewrite Ea. reflexivity. }
  rewrite E. apply IH. intros q Hq. apply H. right; exact Hq.
Qed.

Lemma fold_upd_unique {A B} (g : A -> option B) l p acc :
  In p l -> (forall q, In q l -> g q <> None -> q = p) ->
  fold_left (upd g) l acc = upd g acc p.
Proof.
  revert acc. induction l as [|a l IH]; intros acc Hin H; [contradiction|]. cbn [fold_left].
  destruct Hin as [->|Hin].
  - apply fold_upd_stable. intros q Hq. apply H. right; exact Hq.
  - rewrite IH; [|exact Hin|intros q Hq; apply H; right; exact Hq].
    unfold upd. destruct (g p) eqn:Ep; [reflexivity|].
    destruct (g a) eqn:Ea; [|reflexivity].
    assert (a = p) by (apply H; [left; reflexivity|congruence]). congruence.
Qed.

Lemma fold_upd_none {A B} (g : A -> option B) l acc :
  (forall q, In q l -> g q = None) -> fold_left (upd g) l acc = acc.
Proof.
  revert acc. induction l as [|a l IH]; intros acc H; [reflexivity|]. cbn [fold_left].
  unfold upd at 2. rewrite (H a) by (left; reflexivity). apply IH. intros q Hq. apply H. right; exact Hq.
Qed.

(* ---------- splitting a list at an index ---------- *)
Lemma nthz_app_mid {A} (pre : list A) x post : nthz (pre ++ x :: post) (zlen pre) = Some x.
Proof.
  unfold nthz, zlen. assert (E : Z.of_nat (length pre) <? 0 = false) by lia. rewrite E.
  rewrite Nat2Z.id. rewrite nth_error_app2 by lia. rewrite Nat.sub_diag. reflexivity.
Qed.

Lemma nthz_split {A} (l : list A) i x :
  nthz l i = Some x -> exists pre post, l = pre ++ x :: post /\ zlen pre = i /\ pre = takez i l.
Proof.
  intro H. pose proof (nthz_range _ _ _ H) as R. unfold nthz in H.
  assert (E : i <? 0 = false) by lia. rewrite E in H.
  apply nth_error_split in H as [pre [post [-> L]]].
  exists pre, post. split; [reflexivity|]. split; [unfold zlen; lia|].
  unfold takez. rewrite <- L. rewrite firstn_app, Nat.sub_diag, firstn_all. cbn. rewrite app_nil_r. reflexivity.
Qed.

Lemma app_mid_eq {A} (p1 p2 : list A) x1 x2 q1 q2 :
  p1 ++ x1 :: q1 = p2 ++ x2 :: q2 -> length p1 = length p2 -> p1 = p2 /\ x1 = x2 /\ q1 = q2.
Proof.
  revert p2. induction p1 as [|a p1 IH]; destruct p2 as [|b p2]; cbn; intros H L; try discriminate.
  - inversion H. auto.
  - inversion H; subst. destruct (IH p2 H2) as [-> [-> ->]]; [lia|]. auto.
Qed.

Lemma zlen_map {A B} (f : A -> B) l : zlen (map f l) = zlen l.
Proof. unfold zlen. rewrite map_length. reflexivity. Qed.

Lemma nth_error_combine {A B} (a : list A) (b : list B) n x y :
  nth_error (combine a b) n = Some (x, y) <-> nth_error a n = Some x /\ nth_error b n = Some y.
Proof.
  revert b n. induction a as [|a0 a IH]; intros b n.
  - cbn. destruct n; split; intros H; try discriminate; destruct H; discriminate.
  - destruct b as [|b0 b].
    + cbn. destruct n; split; intros H; try discriminate; destruct H; discriminate.
    + destruct n; cbn.
      * split; [intro H; inversion H; auto|intros [H1 H2]; congruence].
      * apply IH.
Qed.

Lemma nthz_combine {A B} (a : list A) (b : list B) i x y :
  nthz a i = Some x -> nthz b i = Some y -> nthz (combine a b) i = Some (x, y).
Proof. unfold nthz. destruct (i <? 0); [discriminate|]. intros. apply nth_error_combine. auto. Qed.

Lemma nthz_combine_inv {A B} (a : list A) (b : list B) i x y :
  nthz (combine a b) i = Some (x, y) -> nthz a i = Some x /\ nthz b i = Some y.
Proof. unfold nthz. destruct (i <? 0); [discriminate|]. apply nth_error_combine. Qed.

Lemma existsb_false_In {A} (f : A -> bool) l x : existsb f l = false -> In x l -> f x = false.
Proof.
  intros H Hin. destruct (f x) eqn:E; [|reflexivity].
  assert (existsb f l = true) by (apply existsb_exists; eauto). congruence.
Qed.

Lemma nth_info_map_snd {A} (its : list (A * cinfo)) i a ci :
  nthz its i = Some (a, ci) -> nth_info (map snd its) i = ci.
Proof. intro H. unfold nth_info. rewrite nthz_map, H. reflexivity. Qed.

(* ---------- Pile: sizes ---------- *)
Lemma pile_pass1_length items c : length (fst (fst (pile_pass1 items c))) = length items.
Proof.
  induction items as [|[o ci] items IH]; [reflexivity|]. cbn [pile_pass1].
  destruct (pile_pass1 items c) as [[l used] wt]. cbn [fst] in *.
  destruct o; cbn [fst length]; try (destruct (n =? 0)); cbn [fst length]; lia.
Qed.

Lemma pile_pass2_length items l rem wt : length l = length items -> length (pile_pass2 items l rem wt) = length items.
Proof.
  revert l rem wt. induction items as [|[o ci] items IH]; intros l rem wt H; [destruct l; reflexivity|].
  destruct l as [|x l]; [discriminate|]. cbn [pile_pass2]. destruct x; cbn [length]; rewrite IH; cbn in H; lia.
Qed.

Lemma pile_item_rows_length items s : length (pile_item_rows items s) = length items.
Proof.
  unfold pile_item_rows. destruct (snd s).
  - pose proof (pile_pass1_length items (fst s)) as H.
    destruct (pile_pass1 items (fst s)) as [[l used] wt]. cbn [fst] in H. apply pile_pass2_length. exact H.
  - apply map_length.
Qed.

Lemma pile_rows_sizes_length items s : length (pile_rows_sizes items s) = length items.
Proof.
  unfold pile_rows_sizes. rewrite map_length, combine_length, pile_item_rows_length. lia.
Qed.

(* every entry of get_rows_sizes: the height is the number of rows of the child's canvas at the size handed
   to it, and the child gets the full width *)
Lemma pile_rows_sizes_nth items s i h cs :
  nthz (pile_rows_sizes items s) i = Some (h, cs) ->
  exists o ci, nthz items i = Some (o, ci) /\ crows ci cs = h /\ fst cs = fst s /\
               (snd s = None -> h = match o with PGiven n => n | _ => i_rows ci (fst s) end).
Proof.
  unfold pile_rows_sizes. rewrite nthz_map. intro H.
  destruct (nthz (combine items (pile_item_rows items s)) i) as [[[o ci] ir]|] eqn:E; [|discriminate].
  apply nthz_combine_inv in E as [E1 E2]. exists o, ci. split; [exact E1|].
  cbn [option_map] in H. unfold crows.
  destruct o; [|inversion H; subst; cbn [snd fst]; auto|].
  - inversion H; subst; cbn [snd fst]; auto.
  - destruct (snd s); inversion H; subst; cbn [snd fst]; auto. repeat split; auto. discriminate.
Qed.

Ltac peq := repeat match goal with
                   | |- (_, _) = (_, _) => f_equal
                   | |- Some _ = Some _ => f_equal
                   end; try lia; try reflexivity.

(* ---------- Pile: placement and the row search ---------- *)
Lemma pile_place_from_in fp pre x post i0 y0 :
  Forall (fun q : Z * size => 1 <= fst q) pre -> 0 < fst x ->
  In (Placed (i0 + zlen pre) 0 (y0 + zsum (map fst pre)) (snd x) (fp =? i0 + zlen pre) false)
     (pile_place_from (pre ++ x :: post) i0 y0 fp).
Proof.
  revert i0 y0. induction pre as [|[h cs] pre IH]; intros i0 y0 Hall Hx.
  - cbn [app pile_place_from]. destruct x as [hx cx]. cbn [fst snd] in *.
    assert (E : 0 <? hx = true) by lia. rewrite E. left.
    change (zlen (@nil (Z * size))) with 0. cbn [map zsum]. f_equal; lia.
  - inversion Hall as [|? ? H1 H2]; subst. cbn [fst] in H1. cbn [app pile_place_from].
    assert (E : 0 <? h = true) by lia. rewrite E. right.
    specialize (IH (i0 + 1) (y0 + h) H2 Hx).
    rewrite zlen_cons. cbn [map zsum fst].
    replace (i0 + (1 + zlen pre)) with (i0 + 1 + zlen pre) by lia.
    replace (y0 + (h + zsum (map fst pre))) with (y0 + h + zsum (map fst pre)) by lia. exact IH.
Qed.

Lemma pile_place_from_inv fp rs i0 y0 p :
  Forall (fun q : Z * size => 1 <= fst q) rs -> In p (pile_place_from rs i0 y0 fp) ->
  exists pre x post, rs = pre ++ x :: post /\
    p = Placed (i0 + zlen pre) 0 (y0 + zsum (map fst pre)) (snd x) (fp =? i0 + zlen pre) false.
Proof.
  revert i0 y0. induction rs as [|[h cs] rs IH]; intros i0 y0 Hall Hp; [contradiction|].
  inversion Hall as [|? ? H1 H2]; subst. cbn [fst] in H1. cbn [pile_place_from] in Hp.
  assert (E : 0 <? h = true) by lia. rewrite E in Hp. destruct Hp as [<-|Hp].
  - exists [], (h, cs), rs. split; [reflexivity|]. change (zlen (@nil (Z * size))) with 0. cbn [map zsum snd]. f_equal; lia.
  - destruct (IH _ _ H2 Hp) as [pre [x [post [-> ->]]]].
    exists ((h, cs) :: pre), x, post. split; [reflexivity|].
    rewrite zlen_cons. cbn [map zsum fst]. f_equal; lia.
Qed.

Lemma zsum_nonneg (l : list (Z * size)) : Forall (fun q => 1 <= fst q) l -> 0 <= zsum (map fst l).
Proof. induction 1; cbn [map zsum]; lia. Qed.

Lemma pile_find_split pre x post i0 wrow0 row :
  Forall (fun q : Z * size => 1 <= fst q) pre ->
  wrow0 + zsum (map fst pre) <= row < wrow0 + zsum (map fst pre) + fst x ->
  pile_find (pre ++ x :: post) i0 wrow0 row = Some (i0 + zlen pre, wrow0 + zsum (map fst pre), snd x).
Proof.
  revert i0 wrow0. induction pre as [|[h cs] pre IH]; intros i0 wrow0 Hall Hr.
  - cbn [app pile_find]. destruct x as [hx cx]. cbn [map zsum fst snd] in *.
    assert (E : row <? wrow0 + hx = true) by lia. rewrite E. change (zlen (@nil (Z * size))) with 0. peq.
  - inversion Hall as [|? ? H1 H2]; subst. cbn [fst] in H1. cbn [app pile_find]. cbn [map zsum fst] in Hr.
    pose proof (zsum_nonneg pre H2).
    assert (E : row <? wrow0 + h = false) by lia. rewrite E.
    rewrite (IH (i0 + 1) (wrow0 + h) H2) by lia.
    rewrite zlen_cons. cbn [map zsum fst]. peq.
Qed.

(* ---------- Columns: sizes ---------- *)
Definition cw (t : Z * Z * size) : Z := fst (fst t).
Definition chh (t : Z * Z * size) : Z := snd (fst t).
Definition xoff (dc : Z) (l : list (Z * Z * size)) : Z := zsum (map (fun t => cw t + dc) l).

Lemma columns_sizes_nth (items : col_items) fp dc mw s i w h csz :
  nthz (columns_sizes items fp dc mw s) i = Some (w, h, csz) ->
  exists o isbox ci, nthz items i = Some (o, isbox, ci) /\ fst csz = w /\
    (1 <= w -> crows ci csz = h).
Proof.
  unfold columns_sizes. destruct (snd s) as [maxrow|].
  - rewrite nthz_map. intro H.
    destruct (nthz (combine _ items) i) as [[w0 [[o isbox] ci]]|] eqn:E; [|discriminate].
    apply nthz_combine_inv in E as [_ E]. cbn [option_map] in H.
    exists o, isbox, ci. split; [exact E|].
    destruct (i_box ci || isbox); inversion H; subst; cbn [fst snd crows]; repeat split; auto.
    intro Hw. assert (E0 : 0 <? w = true) by lia. rewrite E0. reflexivity.
  - rewrite nthz_map. intro H.
    destruct (nthz (combine _ items) i) as [[w0 [[o isbox] ci]]|] eqn:E; [|discriminate].
    apply nthz_combine_inv in E as [_ E]. cbn [option_map] in H.
    exists o, isbox, ci. split; [exact E|].
    destruct isbox; inversion H; subst; cbn [fst snd crows]; repeat split; auto.
    intro Hw. assert (E0 : 0 <? w = true) by lia. rewrite E0. reflexivity.
Qed.

Lemma columns_sizes_length_le (items : col_items) fp dc mw s : zlen (columns_sizes items fp dc mw s) <= zlen items.
Proof.
  unfold columns_sizes, zlen. destruct (snd s); rewrite map_length, combine_length; lia.
Qed.

Lemma xoff_app dc a b : xoff dc (a ++ b) = xoff dc a + xoff dc b.
Proof. unfold xoff. rewrite map_app, zsum_app. reflexivity. Qed.

Lemma xoff_nonneg dc l : 0 <= dc -> Forall (fun t => 1 <= cw t) l -> 0 <= xoff dc l.
Proof. intros Hd H. unfold xoff. induction H; cbn [map zsum]; lia. Qed.

Lemma xoff_sum dc l : xoff dc l = zsum (map cw l) + dc * zlen l.
Proof.
  unfold xoff. induction l as [|a l IH]; [cbn; lia|]. cbn [map zsum]. rewrite zlen_cons. rewrite IH. lia.
Qed.

(* ---------- Columns: placement, routing, column choice ---------- *)
Lemma columns_place_from_in fp dc pre x post i0 x0 n :
  n = i0 + zlen (pre ++ x :: post) ->
  Forall (fun t => 1 <= cw t) pre -> 1 <= cw x ->
  In (Placed (i0 + zlen pre) (x0 + xoff dc pre) 0 (snd x) (fp =? i0 + zlen pre) false)
     (columns_place_from (pre ++ x :: post) i0 x0 n fp dc).
Proof.
  revert i0 x0. induction pre as [|[[w h] c] pre IH]; intros i0 x0 Hn Hall Hx.
  - cbn [app columns_place_from]. destruct x as [[wx hx] cx]. unfold cw in Hx. cbn [fst snd] in *.
    assert (E : wx <=? 0 = false) by lia. rewrite E. left.
    change (zlen (@nil (Z * Z * size))) with 0. unfold xoff. cbn [map zsum]. f_equal; lia.
  - pose proof (Forall_inv Hall) as H1. pose proof (Forall_inv_tail Hall) as H2. unfold cw in H1. cbn [fst] in H1. cbn [app columns_place_from].
    assert (E : w <=? 0 = false) by lia. rewrite E. right.
    cbn [app] in Hn. rewrite zlen_cons in Hn. pose proof (zlen_nonneg pre). pose proof (zlen_nonneg post).
    assert (E2 : i0 <? n - 1 = true) by (rewrite zlen_app, zlen_cons in Hn; lia). rewrite E2.
    specialize (IH (i0 + 1) (x0 + w + dc)).
    rewrite zlen_cons.
    replace (i0 + (1 + zlen pre)) with (i0 + 1 + zlen pre) by lia.
    replace (x0 + xoff dc ((w, h, c) :: pre)) with (x0 + w + dc + xoff dc pre)
      by (unfold xoff, cw; cbn [map zsum fst]; lia).
    apply IH; auto. lia.
Qed.

Lemma columns_place_from_inv fp dc cs i0 x0 n p :
  n = i0 + zlen cs -> Forall (fun t => 1 <= cw t) cs -> In p (columns_place_from cs i0 x0 n fp dc) ->
  exists pre x post, cs = pre ++ x :: post /\
    p = Placed (i0 + zlen pre) (x0 + xoff dc pre) 0 (snd x) (fp =? i0 + zlen pre) false.
Proof.
  revert i0 x0. induction cs as [|[[w h] c] cs IH]; intros i0 x0 Hn Hall Hp; [contradiction|].
  pose proof (Forall_inv Hall) as H1. pose proof (Forall_inv_tail Hall) as H2. unfold cw in H1. cbn [fst] in H1. cbn [columns_place_from] in Hp.
  assert (E : w <=? 0 = false) by lia. rewrite E in Hp. destruct Hp as [<-|Hp].
  - exists [], (w, h, c), cs. split; [reflexivity|].
    change (zlen (@nil (Z * Z * size))) with 0. unfold xoff. cbn [map zsum snd]. f_equal; lia.
  - rewrite zlen_cons in Hn.
    destruct (i0 <? n - 1) eqn:E2.
    + destruct (IH (i0 + 1) (x0 + w + dc)) as [pre [x [post [-> ->]]]]; auto.
      { lia. }
      exists ((w, h, c) :: pre), x, post. split; [reflexivity|].
      rewrite zlen_cons. unfold xoff, cw. cbn [map zsum fst]. f_equal; lia.
    + pose proof (zlen_nonneg cs). assert (zlen cs = 0) by lia.
      apply zlen_zero_nil in H0. subst cs. contradiction.
Qed.

Lemma columns_route_from_split fp dc pre x post i0 x0 col row focus :
  0 <= dc -> Forall (fun t => 1 <= cw t) pre ->
  x0 + xoff dc pre <= col < x0 + xoff dc pre + cw x ->
  columns_route_from (pre ++ x :: post) i0 x0 fp dc col row focus
  = Some (Routed (i0 + zlen pre) (snd x) (col - (x0 + xoff dc pre)) row (focus && (fp =? i0 + zlen pre))).
Proof.
  intros Hd. revert i0 x0. induction pre as [|[[w h] c] pre IH]; intros i0 x0 Hall Hc.
  - cbn [app columns_route_from]. destruct x as [[wx hx] cx]. unfold xoff, cw in *. cbn [map zsum fst snd] in *.
    assert (E1 : col <? x0 = false) by lia. assert (E2 : x0 + wx <=? col = false) by lia. rewrite E1, E2.
    change (zlen (@nil (Z * Z * size))) with 0. f_equal. f_equal; lia.
  - pose proof (Forall_inv Hall) as H1. pose proof (Forall_inv_tail Hall) as H2. unfold cw in H1. cbn [fst] in H1. cbn [app columns_route_from].
    pose proof (xoff_nonneg dc pre Hd H2).
    assert (Ex : xoff dc ((w, h, c) :: pre) = w + dc + xoff dc pre) by (unfold xoff, cw; cbn [map zsum fst]; lia).
    rewrite Ex in Hc.
    assert (E1 : col <? x0 = false) by lia. assert (E2 : x0 + w <=? col = true) by lia. rewrite E1, E2.
    rewrite (IH (i0 + 1) (x0 + w + dc) H2) by lia.
    rewrite zlen_cons, Ex. f_equal. f_equal; lia.
Qed.

Lemma columns_best_split dc pre x post spre spost i0 x0 col best :
  0 <= dc -> Forall (fun t => 1 <= cw t) pre -> length spre = length pre ->
  x0 + xoff dc pre <= col < x0 + xoff dc pre + cw x ->
  columns_best (pre ++ x :: post) (spre ++ true :: spost) i0 x0 dc col best
  = Some (i0 + zlen pre, x0 + xoff dc pre, x0 + xoff dc pre + cw x, snd x).
Proof.
  intros Hd. revert spre i0 x0 best. induction pre as [|[[w h] c] pre IH]; intros spre i0 x0 best Hall Hl Hc.
  - destruct spre; [|discriminate]. cbn [app columns_best]. destruct x as [[wx hx] cx].
    unfold xoff, cw in *. cbn [map zsum fst snd] in *.
    change (zlen (@nil (Z * Z * size))) with 0.
    assert (E1 : col <? x0 = false) by lia. assert (E2 : col <? x0 + wx = true) by lia.
    destruct best as [[[[bi bx] bend] bc]|]; rewrite E1, ?E2; cbn [andb]; peq.
  - destruct spre as [|b spre]; [discriminate|]. cbn [length] in Hl.
    pose proof (Forall_inv Hall) as H1. pose proof (Forall_inv_tail Hall) as H2. unfold cw in H1. cbn [fst] in H1. cbn [app columns_best].
    pose proof (xoff_nonneg dc pre Hd H2).
    assert (Ex : xoff dc ((w, h, c) :: pre) = w + dc + xoff dc pre) by (unfold xoff, cw; cbn [map zsum fst]; lia).
    rewrite Ex in Hc.
    assert (E1 : col <? x0 = false) by lia. assert (E2 : col <? x0 + w = false) by lia.
    assert (G : forall b', columns_best (pre ++ x :: post) (spre ++ true :: spost) (i0 + 1) (x0 + w + dc) dc col b'
                           = Some (i0 + zlen ((w, h, c) :: pre), x0 + xoff dc ((w, h, c) :: pre),
                                   x0 + xoff dc ((w, h, c) :: pre) + cw x, snd x)).
    { intro b'. rewrite (IH spre (i0 + 1) (x0 + w + dc) b' H2) by lia. rewrite zlen_cons, Ex. peq. }
    destruct b.
    + destruct best as [[[[bi bx] bend] bc]|]; rewrite E1, ?E2; cbn [andb]; apply G.
    + apply G.
Qed.
