(* Run-length lists as per-position attribute lists: shared lemmas for the C17 proofs. *)
From Coq Require Import ZArith List Bool Lia ZifyBool.
Import ListNotations.
From Urwid Require Import PyBase PyList AttrFlow.
Open Scope Z_scope.

Arguments Z.add : simpl never.
Arguments Z.sub : simpl never.
Arguments Z.mul : simpl never.
Arguments Z.div : simpl never.
Arguments Z.modulo : simpl never.
Arguments Z.ltb : simpl never.
Arguments Z.leb : simpl never.
Arguments Z.eqb : simpl never.
Arguments Z.min : simpl never.
Arguments Z.max : simpl never.
Arguments Z.to_nat : simpl never.
Arguments Z.of_nat : simpl never.

(* the attribute of every position covered by a run-length list *)
Fixpoint expand (r : rle) : list attr :=
  match r with
  | [] => []
  | (a, n) :: t => repeat a (Z.to_nat n) ++ expand t
  end.

Definition nonneg (r : rle) : Prop := Forall (fun x : run => 0 <= snd x) r.

Lemma attr_eqb_eq a b : attr_eqb a b = true <-> a = b.
Proof.
  destruct a as [x|], b as [y|]; cbn; split; intro H; try discriminate; try reflexivity.
  - apply Z.eqb_eq in H; now subst.
  - inversion H; apply Z.eqb_refl.
Qed.

Lemma attr_eqb_refl a : attr_eqb a a = true.
Proof. now apply attr_eqb_eq. Qed.

Lemma attr_eqb_neq a b : attr_eqb a b = false <-> a <> b.
Proof.
  split; intro H.
  - intro E; apply attr_eqb_eq in E; congruence.
  - destruct (attr_eqb a b) eqn:E; [apply attr_eqb_eq in E; contradiction | reflexivity].
Qed.

Lemma repeat_app {A} (x : A) n m : repeat x (n + m) = repeat x n ++ repeat x m.
Proof. induction n; cbn; [reflexivity | now rewrite IHn]. Qed.

Lemma repeat_Z_add {A} (x : A) a b : 0 <= a -> 0 <= b ->
  repeat x (Z.to_nat (a + b)) = repeat x (Z.to_nat a) ++ repeat x (Z.to_nat b).
Proof. intros; rewrite Z2Nat.inj_add by lia; apply repeat_app. Qed.

Lemma expand_app a b : expand (a ++ b) = expand a ++ expand b.
Proof.
  induction a as [|[x n] t IH]; cbn [expand app]; [reflexivity|].
  now rewrite IH, app_assoc.
Qed.

Lemma nonneg_app a b : nonneg (a ++ b) <-> nonneg a /\ nonneg b.
Proof. unfold nonneg; apply Forall_app. Qed.

Lemma nonneg_cons x t : nonneg (x :: t) <-> 0 <= snd x /\ nonneg t.
Proof. unfold nonneg; split; intro H; [inversion H; auto | constructor; tauto]. Qed.

Lemma rle_len_app a b : rle_len (a ++ b) = rle_len a + rle_len b.
Proof. induction a as [|[x n] t IH]; cbn [rle_len app]; lia. Qed.

Lemma rle_len_nonneg r : nonneg r -> 0 <= rle_len r.
Proof.
  induction r as [|[x n] t IH]; cbn [rle_len]; intro H; [lia|].
  apply nonneg_cons in H; cbn [snd] in H; destruct H; specialize (IH H0); lia.
Qed.

Lemma length_expand r : nonneg r -> Z.of_nat (length (expand r)) = rle_len r.
Proof.
  induction r as [|[x n] t IH]; cbn [expand rle_len]; intro H; [reflexivity|].
  apply nonneg_cons in H; cbn [snd] in H; destruct H.
  rewrite app_length, repeat_length, Nat2Z.inj_add, IH by assumption; lia.
Qed.

Lemma expand_zero r : nonneg r -> rle_len r = 0 -> expand r = [].
Proof.
  induction r as [|[x n] t IH]; cbn [expand rle_len]; intros H E; [reflexivity|].
  apply nonneg_cons in H; cbn [snd] in H; destruct H as [H1 H2].
  pose proof (rle_len_nonneg t H2).
  assert (n = 0) by lia; subst n. rewrite IH by (assumption || lia). reflexivity.
Qed.

(* rle_append_nz adds the positions at the end, whatever it merges *)
Lemma expand_append_nz r a n : nonneg r -> 0 <= n ->
  expand (rle_append_nz r (a, n)) = expand r ++ repeat a (Z.to_nat n).
Proof.
  induction r as [|[la lr] t IH]; intros Hr Hn; [cbn; now rewrite app_nil_r|].
  apply nonneg_cons in Hr; cbn [snd] in Hr; destruct Hr as [H1 H2].
  destruct t as [|y t'].
  - cbn [rle_append_nz fst snd].
    destruct (attr_eqb la a) eqn:E.
    + apply attr_eqb_eq in E; subst la. cbn [expand]. rewrite !app_nil_r. now apply repeat_Z_add.
    + cbn [expand]. now rewrite !app_nil_r.
  - change (rle_append_nz ((la, lr) :: y :: t') (a, n)) with ((la, lr) :: rle_append_nz (y :: t') (a, n)).
    cbn [expand]. rewrite IH by assumption. cbn [expand]. now rewrite !app_assoc.
Qed.

Lemma nonneg_append_nz r a n : nonneg r -> 0 <= n -> nonneg (rle_append_nz r (a, n)).
Proof.
  induction r as [|[la lr] t IH]; intros Hr Hn; [repeat constructor; assumption|].
  apply nonneg_cons in Hr; cbn [snd] in Hr; destruct Hr as [H1 H2].
  destruct t as [|y t'].
  - cbn [rle_append_nz fst snd]. destruct (attr_eqb la a); repeat constructor; cbn [snd]; lia.
  - change (rle_append_nz ((la, lr) :: y :: t') (a, n)) with ((la, lr) :: rle_append_nz (y :: t') (a, n)).
    apply nonneg_cons; split; [assumption | now apply IH].
Qed.

Lemma rle_len_append_nz r a n : rle_len (rle_append_nz r (a, n)) = rle_len r + n.
Proof.
  induction r as [|[la lr] t IH]; [cbn; lia|].
  destruct t as [|y t'].
  - cbn [rle_append_nz fst snd]. destruct (attr_eqb la a); cbn [rle_len]; lia.
  - change (rle_append_nz ((la, lr) :: y :: t') (a, n)) with ((la, lr) :: rle_append_nz (y :: t') (a, n)).
    cbn [rle_len] in *. rewrite IH. lia.
Qed.

(* rle_append_modify: the same, a zero-length run being dropped *)
Lemma expand_append_modify r a n : nonneg r -> 0 <= n ->
  expand (rle_append_modify r (a, n)) = expand r ++ repeat a (Z.to_nat n).
Proof.
  intros Hr Hn. unfold rle_append_modify. cbn [snd]. destruct (n =? 0) eqn:E.
  - replace n with 0 by lia. cbn. now rewrite app_nil_r.
  - now apply expand_append_nz.
Qed.

Lemma nonneg_append_modify r a n : nonneg r -> 0 <= n -> nonneg (rle_append_modify r (a, n)).
Proof.
  intros Hr Hn. unfold rle_append_modify. cbn [snd]. destruct (n =? 0); [assumption | now apply nonneg_append_nz].
Qed.

Lemma rle_len_append_modify r a n : rle_len (rle_append_modify r (a, n)) = rle_len r + n.
Proof.
  unfold rle_append_modify. cbn [snd]. destruct (n =? 0) eqn:E; [lia | apply rle_len_append_nz].
Qed.

(* no zero-length run is ever added *)
Definition nozero (r : rle) : Prop := Forall (fun x : run => snd x <> 0) r.

Lemma nozero_append_nz r a n : nozero r -> 0 <= n -> n <> 0 -> nonneg r -> nozero (rle_append_nz r (a, n)).
Proof.
  unfold nozero. induction r as [|[la lr] t IH]; intros Hz Hn Hn0 Hr; [repeat constructor; assumption|].
  inversion Hz as [|? ? Z1 Z2]; subst. apply nonneg_cons in Hr; cbn [snd] in *; destruct Hr as [H1 H2].
  destruct t as [|y t'].
  - cbn [rle_append_nz fst snd]. destruct (attr_eqb la a); repeat constructor; cbn [snd]; lia.
  - change (rle_append_nz ((la, lr) :: y :: t') (a, n)) with ((la, lr) :: rle_append_nz (y :: t') (a, n)).
    constructor; [assumption | now apply IH].
Qed.

Lemma nozero_append_modify r a n : nozero r -> nonneg r -> 0 <= n -> nozero (rle_append_modify r (a, n)).
Proof.
  intros Hz Hr Hn. unfold rle_append_modify. cbn [snd]. destruct (n =? 0) eqn:E; [assumption|].
  apply nozero_append_nz; try assumption. lia.
Qed.

Lemma nth_repeat_lt {A} (a d : A) m k : (k < m)%nat -> nth k (repeat a m) d = a.
Proof. revert k; induction m; intros k H; [lia|]. destruct k; cbn; [reflexivity | apply IHm; lia]. Qed.

(* rle_get_at reads the expansion *)
Lemma rle_get_at_from_expand r : forall x pos, nonneg r -> x <= pos ->
  rle_get_at_from x r pos = nth (Z.to_nat (pos - x)) (expand r) None.
Proof.
  induction r as [|[a n] t IH]; intros x pos Hr Hx; cbn [rle_get_at_from expand].
  - now destruct (Z.to_nat (pos - x)).
  - apply nonneg_cons in Hr; cbn [snd] in Hr; destruct Hr as [H1 H2].
    destruct (pos <? x + n) eqn:E.
    + rewrite app_nth1 by (rewrite repeat_length; lia).
      symmetry. apply nth_repeat_lt. lia.
    + rewrite app_nth2 by (rewrite repeat_length; lia).
      rewrite repeat_length, IH by (assumption || lia).
      f_equal. lia.
Qed.

Lemma rle_get_at_expand r pos : nonneg r -> 0 <= pos ->
  rle_get_at r pos = nth (Z.to_nat pos) (expand r) None.
Proof.
  intros Hr Hp. unfold rle_get_at.
  destruct (pos <? 0) eqn:E; [lia|].
  rewrite rle_get_at_from_expand by (assumption || lia). f_equal. lia.
Qed.
