(* C07 - proofs, part 9: the list box over a SimpleFocusListWalker (Model/ListBoxWalker.v).  Walker
   edits are executed by C16's MonitoredFocusList model; C16's theorem step_sound (every edit leaves a
   valid focus) is used to show that over whole histories of keys, mouse events, focus and alignment
   requests AND walker edits the focus position stays inside the list, so a non-empty list is never
   rendered as a blank box and the window always contains the focus widget. *)
From Coq Require Import ZArith List Bool Lia ZifyBool.
Import ListNotations.
From Urwid Require Import PyBase ListBoxView ListBoxViewProofs ListBoxWindowProofs ListBoxHistoryProofs
  ListBoxMouseProofs ListBoxPendingProofs ListBoxPageProofs ListBoxReachProofs ListBoxWalker.
From Urwid Require MonitoredList MonitoredListProofs.
Open Scope Z_scope.

Definition WInv (ws : wstate) : Prop :=
  zlen (items (w_lb ws)) = zlen (w_ids ws) /\ FocR (w_lb ws) /\ ViewOK (w_lb ws).

Definition wop_ok (o : wop) : Prop := match o with WLb o => own_op o = true | _ => True end.

Lemma mfl_valid ws : WInv ws -> MonitoredListProofs.Valid (mfl_of ws).
Proof.
  intros (Hl & Hf & _). unfold MonitoredListProofs.Valid, mfl_of.
  destruct (w_ids ws) as [|i ids] eqn:E; cbn [MonitoredList.items MonitoredList.focus_raw]; [left; split; reflexivity|]. right.
  rewrite zlen_cons in *. pose proof (zlen_nonneg ids) as Hn. unfold FocR in Hf. destruct Hf as [Hf|Hf].
  - rewrite Hf, zlen_nil in Hl. lia.
  - lia.
Qed.

Lemma zlen_map {A B} (f : A -> B) l : zlen (map f l) = zlen l.
Proof. unfold zlen. now rewrite map_length. Qed.

Lemma w_edit_inv ws new o : WInv ws -> WInv (fst (w_edit ws new o)).
Proof.
  intros H. pose proof (mfl_valid ws H) as Hv. destruct H as (Hl & Hf & Hvo).
  unfold w_edit. pose proof (MonitoredListProofs.step_sound (mfl_of ws) o Hv) as [Hv' _].
  destruct (MonitoredList.step (mfl_of ws) o) as [ms out]. cbn [fst] in *.
  unfold WInv. cbn [w_lb w_ids]. split; [cbn; apply zlen_map|]. split; [|now apply viewok_set_items].
  unfold FocR. cbn [items focus set_items].
  destruct (MonitoredList.items ms) as [|i ids] eqn:E; [left; reflexivity|]. right.
  unfold focus_out, MonitoredList.focus. rewrite E. rewrite zlen_map.
  unfold MonitoredListProofs.Valid in Hv'. rewrite E in Hv'. destruct Hv' as [[H0 _]|H0]; [discriminate | exact H0].
Qed.

Lemma w_step_inv ws o ws' out : WInv ws -> wop_ok o -> w_step ws o = Ok (ws', out) -> WInv ws'.
Proof.
  intros H Ho. destruct o as [o|new o|new]; cbn [w_step].
  - destruct (step (w_lb ws) o) as [[s' out']|] eqn:E; [|discriminate]. intros [= <- _].
    destruct H as (Hl & Hf & Hv). cbn in Ho.
    destruct (reach_keeps _ _ (reach_step _ _ _ _ Ho E)) as [Hz Hk].
    unfold WInv. cbn [w_lb w_ids]. split; [congruence|]. split; [now apply Hk|].
    eapply pres_step; [exact Hv | | exact E]. destruct o; try exact I; discriminate.
  - pose proof (w_edit_inv ws new o H) as Hi. destruct (w_edit ws new o) as [ws1 e]. intros [= <- _]. exact Hi.
  - intros [= <- _]. destruct H as (Hl & Hf & Hv). unfold WInv. cbn [w_lb w_ids].
    split; [cbn; apply zlen_map|]. split; [|now apply viewok_set_items].
    unfold FocR in *. cbn [items focus set_items]. rewrite zlen_map.
    destruct Hf as [Hf|Hf].
    + left. assert (E0 : w_ids ws = []) by (apply zlen_zero_nil; rewrite <- Hl, Hf; reflexivity). rewrite E0. reflexivity.
    + right. lia.
Qed.

Lemma walker_history_inv : forall ops ws, WInv ws -> Forall wop_ok ops ->
  forall ws' out, In (Ok (ws', out)) (w_run ws ops) -> WInv ws'.
Proof.
  induction ops as [|o ops IH]; intros ws Hs Hops ws' out Hin; cbn [w_run] in Hin; [contradiction|].
  inversion Hops as [|? ? Ho Hrest]; subst.
  destruct (w_step ws o) as [[ws1 out1]|] eqn:E.
  - pose proof (w_step_inv _ _ _ _ Hs Ho E) as Hs1.
    destruct Hin as [Heq|Hin]; [inversion Heq; subst; assumption|]. eapply IH; eassumption.
  - destruct Hin as [Heq|[]]. discriminate.
Qed.

(* after any history of list box operations and walker edits: render does not raise, shows a gap-free
   window, and - the list being non-empty - the window is that of an existing focus widget *)
Lemma walker_render_lemma : forall ops ws ws' out maxrow fflag,
  WInv ws -> Forall wop_ok ops -> In (Ok (ws', out)) (w_run ws ops) ->
  WidgetsOK (items (w_lb ws')) -> 1 <= maxrow ->
  exists s'' win cur,
    render (w_lb ws') maxrow fflag = Ok (s'', (win, cur)) /\
    items s'' = items (w_lb ws') /\ ShowsWindow s'' maxrow fflag win cur /\
    (w_ids ws' <> [] -> exists w, nthz (items s'') (focus s'') = Some w).
Proof.
  intros ops ws ws' out maxrow fflag Hs Hops Hin HW Hm.
  destruct (walker_history_inv ops ws Hs Hops ws' out Hin) as (Hl & Hf & Hv).
  destruct (render_ok_lemma (w_lb ws') maxrow fflag Hv HW Hm) as (s'' & win & cur & Er & _ & Hi & _ & Hsw & _).
  exists s'', win, cur. splits; try assumption.
  intros Hne. destruct (reach_keeps _ _ (reach_render _ _ _ _ _ _ (R_refl _) Er)) as [Hz Hk].
  destruct (Hk Hf) as [He|Hr].
  - exfalso. apply Hne. apply zlen_zero_nil. rewrite <- Hl, <- Hz, He. reflexivity.
  - now apply nthz_some.
Qed.
