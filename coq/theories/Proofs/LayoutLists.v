(* List plumbing for the Columns / Pile / GridFlow proofs: sums, set_nth, the insertion
   sort on (weight, index) pairs. *)
From Coq Require Import ZArith List Bool Lia ZifyBool Permutation.
Import ListNotations.
From Urwid Require Import PyBase layout_gen Layout.
Open Scope Z_scope.

Arguments Z.add : simpl never.
Arguments Z.sub : simpl never.
Arguments Z.mul : simpl never.
Arguments Z.div : simpl never.
Arguments Z.quot : simpl never.
Arguments Z.ltb : simpl never.
Arguments Z.leb : simpl never.
Arguments Z.eqb : simpl never.
Arguments Z.min : simpl never.
Arguments Z.max : simpl never.
Arguments Z.of_nat : simpl never.

(* ---------------- zsum ---------------- *)
Lemma zsum_app a b : zsum (a ++ b) = zsum a + zsum b.
Proof. induction a; cbn [zsum app]; lia. Qed.

Lemma zsum_repeat0 n : zsum (repeat 0 n) = 0.
Proof. induction n; cbn [zsum repeat]; lia. Qed.

Lemma zsum_nonneg l : Forall (fun x => 0 <= x) l -> 0 <= zsum l.
Proof. induction 1; cbn [zsum]; lia. Qed.

Lemma zsum_perm a b : Permutation a b -> zsum a = zsum b.
Proof. induction 1; cbn [zsum]; lia. Qed.

Lemma zsum_ge_len l : Forall (fun x => 1 <= x) l -> zlen l <= zsum l.
Proof. induction 1; [reflexivity|]. rewrite zlen_cons. cbn [zsum]. lia. Qed.

Lemma zlen_map {A B} (f : A -> B) l : zlen (map f l) = zlen l.
Proof. unfold zlen. now rewrite map_length. Qed.

Lemma zlen_repeat {A} (x : A) n : zlen (repeat x n) = Z.of_nat n.
Proof. unfold zlen. now rewrite repeat_length. Qed.

(* ---------------- set_nth ---------------- *)
Lemma set_nth_length l i v : length (set_nth l i v) = length l.
Proof. revert i; induction l; intros [|i]; cbn [set_nth length]; auto. Qed.

Lemma set_nthz_length l i v : zlen (set_nthz l i v) = zlen l.
Proof. unfold set_nthz, zlen. destruct (i <? 0); [reflexivity|]. now rewrite set_nth_length. Qed.

Lemma set_nth_Forall (P : Z -> Prop) l i v : Forall P l -> P v -> Forall P (set_nth l i v).
Proof.
  intros H Hv. revert i. induction H; intros [|i]; cbn [set_nth]; constructor; auto.
Qed.

Lemma set_nthz_Forall (P : Z -> Prop) l i v : Forall P l -> P v -> Forall P (set_nthz l i v).
Proof. intros. unfold set_nthz. destruct (i <? 0); auto using set_nth_Forall. Qed.

Lemma nth_error_set_nth_same l i v : (i < length l)%nat -> nth_error (set_nth l i v) i = Some v.
Proof. revert i; induction l; intros [|i] H; cbn [set_nth nth_error length] in *; try lia; auto. apply IHl; lia. Qed.

Lemma nth_error_set_nth_other l i j v : i <> j -> nth_error (set_nth l i v) j = nth_error l j.
Proof.
  revert i j; induction l; intros [|i] [|j] H; cbn [set_nth nth_error]; auto; try congruence.
Qed.

Lemma nthz_set_nthz_same l i v : 0 <= i < zlen l -> nthz (set_nthz l i v) i = Some v.
Proof.
  intros H. unfold nthz, set_nthz. destruct (i <? 0) eqn:E; [lia|].
  apply nth_error_set_nth_same. unfold zlen in H. lia.
Qed.

Lemma nthz_set_nthz_other l i j v : i <> j -> nthz (set_nthz l i v) j = nthz l j.
Proof.
  intros H. unfold nthz, set_nthz. destruct (j <? 0) eqn:Ej; [reflexivity|].
  destruct (i <? 0) eqn:Ei; [reflexivity|].
  apply nth_error_set_nth_other. lia.
Qed.

Lemma zsum_set_nth l i v x : nth_error l i = Some x -> zsum (set_nth l i v) = zsum l - x + v.
Proof.
  revert i; induction l; intros [|i] H; cbn [set_nth nth_error zsum] in *; try discriminate.
  - injection H as ->. lia.
  - rewrite (IHl _ H). lia.
Qed.

Lemma zsum_set_nthz l i v x : nthz l i = Some x -> zsum (set_nthz l i v) = zsum l - x + v.
Proof.
  unfold nthz, set_nthz. destruct (i <? 0); [discriminate|]. apply zsum_set_nth.
Qed.

Lemma nthz_app_r {A} (a b : list A) j : zlen a <= j -> nthz (a ++ b) j = nthz b (j - zlen a).
Proof.
  intros H. unfold nthz, zlen in *.
  destruct (j <? 0) eqn:E1; [lia|]. destruct (j - Z.of_nat (length a) <? 0) eqn:E2; [lia|].
  rewrite nth_error_app2 by lia. f_equal. lia.
Qed.

Lemma nthz_app_l {A} (a b : list A) j : j < zlen a -> nthz (a ++ b) j = nthz a j.
Proof.
  intros H. unfold nthz, zlen in *.
  destruct (j <? 0) eqn:E1; [reflexivity|]. rewrite nth_error_app1 by lia. reflexivity.
Qed.

Lemma nthz_cons_succ {A} (x : A) l j : 0 <= j -> nthz (x :: l) (j + 1) = nthz l j.
Proof.
  intros H. unfold nthz. destruct (j + 1 <? 0) eqn:E1; [lia|]. destruct (j <? 0) eqn:E2; [lia|].
  replace (Z.to_nat (j + 1)) with (S (Z.to_nat j)) by lia. reflexivity.
Qed.

Lemma nthz_cons_zero {A} (x : A) l : nthz (x :: l) 0 = Some x.
Proof. reflexivity. Qed.

Lemma nthz_range {A} (l : list A) j x : nthz l j = Some x -> 0 <= j < zlen l.
Proof.
  unfold nthz, zlen. destruct (j <? 0) eqn:E; [discriminate|]. intros H.
  assert (nth_error l (Z.to_nat j) <> None) as H2 by congruence.
  apply nth_error_Some in H2. lia.
Qed.

Lemma nthz_In {A} (l : list A) j x : nthz l j = Some x -> In x l.
Proof. unfold nthz. destruct (j <? 0); [discriminate|]. apply nth_error_In. Qed.

Lemma nthz_map {A B} (f : A -> B) l j : nthz (map f l) j = option_map f (nthz l j).
Proof. unfold nthz. destruct (j <? 0); [reflexivity|]. apply nth_error_map. Qed.

Lemma nthz_repeat {A} (x : A) n j y : nthz (repeat x n) j = Some y -> y = x.
Proof. intros H. apply nthz_In in H. now apply repeat_spec in H. Qed.

(* ---------------- the insertion sort on pairs ---------------- *)
Lemma insert_pair_perm x l : Permutation (x :: l) (insert_pair x l).
Proof.
  induction l as [|y r IH]; cbn [insert_pair]; [apply Permutation_refl|].
  destruct (pair_leb x y); [apply Permutation_refl|].
  eapply perm_trans; [apply perm_swap|]. now apply perm_skip.
Qed.

Lemma sort_pairs_perm l : Permutation l (sort_pairs l).
Proof.
  induction l as [|x r IH]; cbn [sort_pairs]; [constructor|].
  eapply perm_trans; [apply perm_skip, IH|]. apply insert_pair_perm.
Qed.

(* ascending by weight: the head is a minimum *)
Fixpoint asc (l : list (Z * Z)) : Prop :=
  match l with
  | [] => True
  | x :: r => (forall y, In y r -> fst x <= fst y) /\ asc r
  end.

Lemma insert_pair_asc x l : asc l -> asc (insert_pair x l).
Proof.
  induction l as [|y r IH]; cbn [insert_pair asc].
  { intros _. split; [intros y []|exact I]. }
  intros [Hy Hr]. destruct (pair_leb x y) eqn:E; cbn [asc].
  - split; [|split; assumption].
    intros z [<-|Hz].
    + unfold pair_leb in E. lia.
    + specialize (Hy z Hz). unfold pair_leb in E. lia.
  - split; [|auto].
    intros z Hz. apply (Permutation_in _ (Permutation_sym (insert_pair_perm x r))) in Hz.
    destruct Hz as [<-|Hz]; [|auto]. unfold pair_leb in E. lia.
Qed.

Lemma sort_pairs_asc l : asc (sort_pairs l).
Proof. induction l; cbn [sort_pairs]; [exact I|]. now apply insert_pair_asc. Qed.

Lemma perm_zlen {A} (a b : list A) : Permutation a b -> zlen a = zlen b.
Proof. intros H. unfold zlen. now rewrite (Permutation_length H). Qed.
