(* C18 - the string theorems restated on the functions translated from the source. *)
From Coq Require Import ZArith List Bool Lia.
Import ListNotations.
From Urwid Require Import PyBase PyList ColourBase ColourStr colours_gen Colours
     ColoursTables ColoursBits ColoursSpec ColoursRound ColoursMore ColoursRgb ColoursStrFacts ColoursLex ColoursStrThm
     ColoursGenMeth.
Open Scope Z_scope.

(* parse (describe v) = v, with the translated constructor and describers *)
Theorem gen_roundtrip D fg bg v :
  attrspec_init_gen fg bg D = ROk v ->
  exists fs bs, foreground_gen v = Ok fs /\ background_gen v = Ok bs /\
    attrspec_init_gen fs bs D = ROk v /\ attrspec_init_gen fs bs (attr_colors v) = ROk v.
Proof.
  rewrite attrspec_init_gen_ok. intros E.
  destruct (string_roundtrip D fg bg v E) as [fs [bs [A [B [C1 C2]]]]].
  exists fs, bs. now rewrite foreground_gen_ok, background_gen_ok, !attrspec_init_gen_ok.
Qed.

(* copy_modified() with no argument is that rebuild: an equal specification *)
Theorem copy_modified_identity D fg bg v :
  attrspec_init_gen fg bg D = ROk v -> copy_modified_gen v None None None = ROk v.
Proof.
  intros E. destruct (gen_roundtrip D fg bg v E) as [fs [bs [A [B [_ C]]]]].
  unfold copy_modified_gen. now rewrite A, B.
Qed.

(* copy_modified(fg, bg, colors) is the constructor on the given / reported strings *)
Theorem copy_modified_spec v fg bg colors :
  copy_modified_gen v fg bg colors =
  match (match fg with Some s => Ok s | None => foreground_gen v end) with
  | Err e => RErr e 0
  | Ok f =>
      match (match bg with Some s => Ok s | None => background_gen v end) with
      | Err e => RErr e 0
      | Ok b => attrspec_init_gen f b (match colors with Some c => c | None => attr_colors v end)
      end
  end.
Proof.
  unfold copy_modified_gen. destruct fg, bg, colors; try reflexivity;
    repeat (match goal with |- context [match ?x with Ok _ => _ | Err _ => _ end] => destruct x end; try reflexivity).
Qed.

Theorem gen_reject fg bg D e w : attrspec_init_gen fg bg D = RErr e w -> e = AttrSpecError /\ 1 <= w <= 6.
Proof. rewrite attrspec_init_gen_ok. apply reject_on_strings. Qed.

(* get_rgb_values (six components) against the xterm tables, on the translated functions *)
Theorem gen_rgb D fg bg v :
  attrspec_init_gen fg bg D = ROk v ->
  exists fc bs,
    foreground_gen v = Ok (fc ++ settings_suffix v) /\ background_gen v = Ok bs /\
    get_rgb_values_gen v = Ok (flat3 (expected_rgb (attr_colors v) (lex_color (mode_of D) fc)) ++
                               flat3 (expected_rgb (attr_colors v) (lex_color (mode_of D) bs))).
Proof.
  rewrite attrspec_init_gen_ok. intros E. destruct (string_rgb D fg bg v E) as [fc [bs [A [B C]]]].
  exists fc, bs. rewrite foreground_gen_ok, background_gen_ok, get_rgb_values_gen_ok, C. repeat split; assumption.
Qed.
