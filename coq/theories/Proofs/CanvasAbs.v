(* C02: the shard machine refines a simpler machine over "remaining rows".
   An abstract cview [acv] is (width, rows still to be output); between two shards the state
   is a list of column slots: [Free w] (w columns to be filled by the cviews of the next
   shard) or [Busy a] (a cview that continues).  [content_abs]: on well-formed shards the
   Python algorithm (shard_body / shard_body_row / shard_body_tail with iterators) computes
   exactly [acontent_from]. *)
From Coq Require Import ZArith List Bool Lia ZifyBool.
From Urwid Require Import PyBase Canvas CanvasFacts.
Import ListNotations.
Open Scope Z_scope.
Arguments Z.add : simpl never.
Arguments Z.sub : simpl never.
Arguments Z.mul : simpl never.
Arguments Z.ltb : simpl never.
Arguments Z.leb : simpl never.
Arguments Z.eqb : simpl never.
Arguments Z.min : simpl never.
Arguments Z.max : simpl never.
Arguments Z.to_nat : simpl never.
Arguments Z.of_nat : simpl never.

Definition acv := (Z * list row)%type.
Inductive slot := Free (w : Z) | Busy (a : acv).
Definition ashard := (Z * list acv)%type.

Definition rmap {A B} (f : A -> B) (r : result A) : result B :=
  match r with Ok a => Ok (f a) | Err e => Err e end.

Fixpoint atake (cvs : list acv) (g : Z) : result (list acv * list acv) :=
  if g =? 0 then Ok ([], cvs)
  else
    match cvs with
    | [] => Ok ([], [])
    | a :: rest =>
        let g' := g - fst a in
        if g' <? 0 then Err CanvasError
        else match atake rest g' with
             | Ok (b, r) => Ok (a :: b, r)
             | Err e => Err e
             end
    end.

Fixpoint fill (sl : list slot) (cvs : list acv) (g : Z) : result (list acv) :=
  match sl with
  | [] => Ok cvs
  | Free w :: sl' => fill sl' cvs (g + w)
  | Busy a :: sl' =>
      match atake cvs g with
      | Err e => Err e
      | Ok (b, rest) =>
          match fill sl' rest 0 with
          | Err e => Err e
          | Ok b' => Ok (b ++ a :: b')
          end
      end
  end.

Definition slot_after (n : Z) (a : acv) : slot :=
  if n =? zlen (snd a) then Free (fst a) else Busy (fst a, dropz n (snd a)).
Definition slots_after (n : Z) (body : list acv) : list slot := map (slot_after n) body.

Definition arow (body : list acv) (k : Z) : row :=
  flat_map (fun a : acv => match nthz (snd a) k with Some r => r | None => [] end) body.
Fixpoint arows (body : list acv) (k : Z) (n : nat) : list row :=
  match n with O => [] | S n' => arow body k :: arows body (k + 1) n' end.

Fixpoint acontent_from (ss : list ashard) (sl : list slot) : list row :=
  match ss with
  | [] => []
  | (n, cvs) :: ss' =>
      match fill sl cvs 0 with
      | Err _ => []
      | Ok body => arows body 0 (Z.to_nat n) ++ acontent_from ss' (slots_after n body)
      end
  end.

(* slot lists are used only through [fill] *)
Definition sl_equiv (s1 s2 : list slot) : Prop := forall C g, fill s1 C g = fill s2 C g.
Definition closed (sl : list slot) : Prop := forall C g, fill sl C g = Ok C.

Definition acv_ok (a : acv) : Prop :=
  0 < fst a /\ Forall (fun r : row => zlen r = fst a /\ row_cleanb r = true) (snd a).
Definition body_width (b : list acv) : Z := fold_right (fun a acc => fst a + acc) 0 b.

Fixpoint AWF (w : Z) (ss : list ashard) (sl : list slot) : Prop :=
  match ss with
  | [] => closed sl
  | (n, cvs) :: ss' =>
      0 < n /\ Forall acv_ok cvs /\
      exists body, fill sl cvs 0 = Ok body /\ Forall acv_ok body /\ Forall (fun a : acv => n <= zlen (snd a)) body /\
                   body_width body = w /\ AWF w ss' (slots_after n body)
  end.

Lemma acontent_equiv ss s1 s2 : sl_equiv s1 s2 -> acontent_from ss s1 = acontent_from ss s2.
Proof. intros E. destruct ss as [|[n cvs] ss]; [reflexivity|]. cbn [acontent_from]. now rewrite E. Qed.
Lemma AWF_equiv w ss s1 s2 : sl_equiv s1 s2 -> AWF w ss s1 -> AWF w ss s2.
Proof.
  intros E. destruct ss as [|[n cvs] ss]; cbn [AWF].
  - intros H C g. rewrite <- E. apply H.
  - now rewrite E.
Qed.
Lemma sl_equiv_refl s : sl_equiv s s.
Proof. intros C g; reflexivity. Qed.
Lemma sl_equiv_sym s1 s2 : sl_equiv s1 s2 -> sl_equiv s2 s1.
Proof. intros E C g; now rewrite E. Qed.

(* ------------------------------------------------------------------ abstraction *)
Definition abs_cv (cv : cview) : acv := (ccols cv, rows_of cv).
Definition abs_e (e : body_entry cview) : acv := (ccols (snd e), dropz (fst e) (rows_of (snd e))).
Definition abs_sh (s : shard) : ashard := (fst s, map abs_cv (snd s)).
Definition slots_of_tail (tail : list (tail_entry cview)) : list slot :=
  flat_map (fun t : tail_entry cview => [Free (fst (fst t)); Busy (abs_e (snd (fst t), snd t))]) tail.

Lemma abs_e_0 cv : abs_e (0, cv) = abs_cv cv.
Proof. unfold abs_e, abs_cv; cbn [fst snd]. now rewrite dropz_le0 by lia. Qed.

Lemma atake_abs cvs g :
  atake (map abs_cv cvs) g =
  rmap (fun br : list (body_entry cview) * list cview => (map abs_e (fst br), map abs_cv (snd br))) (take_gap ccols cvs g).
Proof.
  revert g; induction cvs as [|cv cvs IH]; intros g; cbn [map atake take_gap].
  - destruct (g =? 0); reflexivity.
  - destruct (g =? 0); [reflexivity|]. cbn [abs_cv fst].
    destruct (g - ccols cv <? 0); [reflexivity|]. rewrite IH.
    destruct (take_gap ccols cvs (g - ccols cv)) as [[b r]|e]; cbn [rmap fst snd map]; [|reflexivity].
    now rewrite abs_e_0.
Qed.

Lemma fill_abs tail cvs :
  fill (slots_of_tail tail) (map abs_cv cvs) 0 = rmap (map abs_e) (sbody cvs tail).
Proof.
  unfold sbody. revert cvs; induction tail as [|[[g d] tcv] tail IH]; intros cvs; cbn [slots_of_tail flat_map fill shard_body app fst snd].
  - cbn [rmap]. f_equal. rewrite map_map. apply map_ext. intros cv. now rewrite abs_e_0.
  - rewrite Z.add_0_l. rewrite atake_abs. destruct (take_gap ccols cvs g) as [[b r]|e]; cbn [rmap fst snd]; [|reflexivity].
    fold (slots_of_tail tail). rewrite IH. destruct (shard_body ccols r tail) as [b'|e]; cbn [rmap]; [|reflexivity].
    now rewrite map_app.
Qed.

(* entries of a shard body: 0 <= done_rows < rows of a well-formed cview *)
Definition entry_ok (e : body_entry cview) : Prop := 0 <= fst e < crows (snd e) /\ cview_ok (snd e).
Definition tail_ok (tail : list (tail_entry cview)) : Prop :=
  Forall (fun t : tail_entry cview => entry_ok (snd (fst t), snd t)) tail.

Lemma take_gap_ok cvs g b r :
  Forall cview_ok cvs -> take_gap ccols cvs g = Ok (b, r) -> Forall entry_ok b /\ Forall cview_ok r.
Proof.
  revert g b r; induction cvs as [|cv cvs IH]; intros g b r F; cbn [take_gap].
  - destruct (g =? 0); intros [= <- <-]; auto.
  - destruct (g =? 0); [intros [= <- <-]; auto|].
    destruct (g - ccols cv <? 0); [discriminate|].
    destruct (take_gap ccols cvs (g - ccols cv)) as [[b0 r0]|e] eqn:E; [|discriminate].
    intros [= <- <-]. inversion F; subst. destruct (IH _ _ _ H2 E). split; [|assumption].
    constructor; [|assumption]. split; [|assumption]. cbn [fst snd]. destruct (cview_ok_pos _ H1). lia.
Qed.

Lemma sbody_ok cvs tail sb :
  Forall cview_ok cvs -> tail_ok tail -> sbody cvs tail = Ok sb -> Forall entry_ok sb.
Proof.
  unfold sbody. revert cvs sb; induction tail as [|[[g d] tcv] tail IH]; intros cvs sb F T; cbn [shard_body].
  - intros [= <-]. apply Forall_forall. intros e He. apply in_map_iff in He as (cv & <- & Hcv).
    rewrite Forall_forall in F. specialize (F _ Hcv). split; [|assumption]. cbn [fst snd]. destruct (cview_ok_pos _ F). lia.
  - destruct (take_gap ccols cvs g) as [[b r]|e] eqn:E; [|discriminate].
    destruct (shard_body ccols r tail) as [b'|e] eqn:E2; [|discriminate]. intros [= <-].
    destruct (take_gap_ok _ _ _ _ F E). inversion T; subst.
    apply Forall_app; split; [assumption|]. constructor; [assumption|]. eapply IH; eauto.
Qed.

Lemma stail_go_ok n sb gap :
  0 <= n -> Forall entry_ok sb -> Forall (fun e : body_entry cview => fst e + n <= crows (snd e)) sb ->
  tail_ok (shard_body_tail_go ccols crows n sb gap).
Proof.
  intros Hn. revert gap; induction sb as [|[d cv] sb IH]; intros gap F W; cbn [shard_body_tail_go]; [constructor|].
  inversion F; subst. inversion W; subst. cbn [fst snd] in *.
  destruct (d + n =? crows cv) eqn:E; [now apply IH|].
  constructor; [|now apply IH]. unfold entry_ok in *. cbn [fst snd] in *. destruct H1 as [? ?]. split; [lia|assumption].
Qed.

Lemma zlen_abs_e e : entry_ok e -> zlen (snd (abs_e e)) = crows (snd e) - fst e.
Proof.
  intros [? ?]. unfold abs_e; cbn [snd]. rewrite zlen_dropz_le; rewrite zlen_rows_of by assumption; lia.
Qed.

Lemma tail_abs n sb gap :
  0 <= n -> Forall entry_ok sb ->
  forall C g, fill (slots_of_tail (shard_body_tail_go ccols crows n sb gap)) C g
              = fill (slots_after n (map abs_e sb)) C (g + gap).
Proof.
  intros Hn. revert gap; induction sb as [|[d cv] sb IH]; intros gap F C g; cbn [shard_body_tail_go map slots_after]; [reflexivity|].
  inversion F; subst. fold (slots_after n (map abs_e sb)).
  unfold slot_after at 1. rewrite (zlen_abs_e _ H1). cbn [fst snd abs_e]. destruct H1 as [? ?]; cbn [fst snd] in *.
  destruct (d + n =? crows cv) eqn:E.
  - destruct (n =? crows cv - d) eqn:E'; [|lia]. cbn [fill]. rewrite IH by assumption. f_equal. lia.
  - destruct (n =? crows cv - d) eqn:E'; [lia|]. cbn [slots_of_tail flat_map fill app fst snd abs_e].
    fold (slots_of_tail (shard_body_tail_go ccols crows n sb 0)).
    rewrite dropz_dropz by lia. rewrite (Z.add_comm n d).
    destruct (atake C (g + gap)) as [[b r]|e]; [|reflexivity].
    rewrite IH by assumption. rewrite Z.add_0_l. reflexivity.
Qed.

Lemma stail_equiv n sb :
  0 <= n -> Forall entry_ok sb -> sl_equiv (slots_of_tail (stail n sb)) (slots_after n (map abs_e sb)).
Proof. intros Hn F C g. unfold stail, shard_body_tail. rewrite tail_abs by assumption. f_equal. lia. Qed.

(* rows *)
Lemma body_row_abs sb k :
  0 <= k -> Forall entry_ok sb -> Forall (fun e : body_entry cview => fst e + k < crows (snd e)) sb ->
  shard_body_row sb k = Ok (arow (map abs_e sb) k).
Proof.
  intros Hk. induction sb as [|[d cv] sb IH]; intros F W; cbn [shard_body_row map arow flat_map]; [reflexivity|].
  inversion F; subst. inversion W; subst. destruct H1 as [? ?]; cbn [fst snd] in *.
  destruct (nthz_lt_some (rows_of cv) (d + k)) as [r Hr]; [rewrite zlen_rows_of by assumption; lia|].
  rewrite (cview_next_ok _ _ _ H0 Hr). rewrite IH by assumption. f_equal. f_equal.
  cbn [abs_e fst snd]. rewrite nthz_dropz by lia. now rewrite Hr.
Qed.

Lemma shard_rows_abs sb k m :
  0 <= k -> Forall entry_ok sb -> Forall (fun e : body_entry cview => fst e + k + Z.of_nat m <= crows (snd e)) sb ->
  shard_rows sb k m = Ok (arows (map abs_e sb) k m).
Proof.
  revert k; induction m as [|m IH]; intros k Hk F W; cbn [shard_rows arows]; [reflexivity|].
  rewrite body_row_abs; [|assumption|assumption|].
  - rewrite IH; [reflexivity|lia|assumption|]. eapply Forall_impl; [|exact W]. cbn beta. intros; lia.
  - eapply Forall_impl; [|exact W]. cbn beta. intros; lia.
Qed.

Lemma body_cols_abs sb : body_cols sb = body_width (map abs_e sb).
Proof. induction sb as [|[d cv] sb IH]; cbn [body_cols body_width fold_right map abs_e fst snd]; [reflexivity|]. unfold body_cols, body_width in IH. now rewrite IH. Qed.

Lemma abs_cv_ok cv : cview_ok cv -> acv_ok (abs_cv cv).
Proof. intros H. split; cbn [abs_cv fst snd]; [apply (cview_ok_pos _ H)|apply Forall_and; [apply rows_of_width, H|apply rows_of_clean, H]]. Qed.

Lemma abs_e_ok e : entry_ok e -> acv_ok (abs_e e).
Proof.
  intros [? H]. split; cbn [abs_e fst snd]; [apply (cview_ok_pos _ H)|apply Forall_dropz, Forall_and; [apply rows_of_width, H|apply rows_of_clean, H]].
Qed.

Definition shards_ok (ss : shards) : Prop := Forall (fun s : shard => Forall cview_ok (snd s)) ss.

(* the main refinement lemma: WF (concrete, boolean) <-> AWF of the abstraction, and content *)
Lemma wf_abs w ss : forall tail sl,
  tail_ok tail -> sl_equiv sl (slots_of_tail tail) ->
  wf_fromb w ss tail = true ->
  shards_ok ss /\ AWF w (map abs_sh ss) sl /\ content_from ss tail = Ok (acontent_from (map abs_sh ss) sl).
Proof.
  induction ss as [|[n cvs] ss IH]; intros tail sl T E; cbn [wf_fromb map AWF content_from acontent_from abs_sh fst snd].
  - destruct tail; [|discriminate]. intros _. split; [constructor|]. split; [|reflexivity].
    intros C g. rewrite E. reflexivity.
  - intros H. apply andb_prop in H as [H H3]. apply andb_prop in H as [H1 H2].
    assert (Forall cview_ok cvs) as Fc by (apply Forall_forall; intros cv Hcv; rewrite forallb_forall in H2; exact (H2 _ Hcv)).
    destruct (sbody cvs tail) as [sb|e] eqn:Eb; [|discriminate].
    apply andb_prop in H3 as [H3 H6]. apply andb_prop in H3 as [H4 H5].
    assert (Forall entry_ok sb) as Fe by (eapply sbody_ok; eauto).
    assert (Forall (fun e : body_entry cview => fst e + n <= crows (snd e)) sb) as Fn.
    { apply Forall_forall; intros e He; rewrite forallb_forall in H4; specialize (H4 _ He); lia. }
    assert (fill sl (map abs_cv cvs) 0 = Ok (map abs_e sb)) as Ef by (rewrite E, fill_abs, Eb; reflexivity).
    destruct (IH (stail n sb) (slots_after n (map abs_e sb))) as (I1 & I2 & I3).
    { apply stail_go_ok; [lia|assumption|assumption]. }
    { apply sl_equiv_sym, stail_equiv; [lia|assumption]. }
    { exact H6. }
    split; [constructor; assumption|]. split.
    + split; [lia|]. split; [apply Forall_forall; intros a Ha; apply in_map_iff in Ha as (cv & <- & Hcv); apply abs_cv_ok; rewrite Forall_forall in Fc; auto|].
      exists (map abs_e sb). split; [assumption|]. split; [apply Forall_forall; intros a Ha; apply in_map_iff in Ha as (e & <- & He); rewrite Forall_forall in Fe; apply abs_e_ok; auto|]. split.
      * apply Forall_forall. intros a Ha. apply in_map_iff in Ha as (e & <- & He).
        rewrite Forall_forall in Fe, Fn. rewrite zlen_abs_e by auto. specialize (Fn _ He). lia.
      * split; [rewrite <- body_cols_abs; lia|assumption].
    + rewrite Ef. rewrite shard_rows_abs; [|lia|assumption|].
      * rewrite I3. reflexivity.
      * eapply Forall_impl; [|exact Fn]. cbn beta. intros; lia.
Qed.

(* and back: a concrete shard list whose abstraction is well-formed is well-formed *)
Lemma closed_tail_nil tail : closed (slots_of_tail tail) -> tail = [].
Proof.
  destruct tail as [|[[g d] cv] tail]; [reflexivity|]. intros H. specialize (H [] 0).
  cbn [slots_of_tail flat_map app fill fst snd] in H.
  assert (atake [] (0 + g) = Ok ([], [])) as EE by (cbn [atake]; destruct (0 + g =? 0); reflexivity).
  rewrite EE in H. destruct (fill _ [] 0) in H; discriminate.
Qed.

Lemma wf_of_abs w ss : forall tail sl,
  tail_ok tail -> sl_equiv sl (slots_of_tail tail) -> shards_ok ss ->
  AWF w (map abs_sh ss) sl -> wf_fromb w ss tail = true.
Proof.
  induction ss as [|[n cvs] ss IH]; intros tail sl T E S; cbn [wf_fromb map AWF abs_sh fst snd].
  - intros H. rewrite (closed_tail_nil tail); [reflexivity|]. intros C g. rewrite <- E. apply H.
  - intros (Hn & Fa & body & Ef & _ & Fb & Hw & Hr). inversion S; subst. cbn [snd] in *.
    assert (forallb cview_okb cvs = true) as -> by (apply forallb_forall; intros cv Hcv; rewrite Forall_forall in H1; exact (H1 _ Hcv)).
    rewrite E, fill_abs in Ef. destruct (sbody cvs tail) as [sb|e] eqn:Eb; [|discriminate]. cbn [rmap] in Ef. injection Ef as <-.
    assert (Forall entry_ok sb) as Fe by (eapply sbody_ok; eauto).
    assert (Forall (fun e : body_entry cview => fst e + n <= crows (snd e)) sb) as Fn.
    { apply Forall_forall. intros e He. rewrite Forall_forall in Fb, Fe.
      specialize (Fb (abs_e e) (in_map _ _ _ He)). rewrite zlen_abs_e in Fb by auto. lia. }
    assert (forallb (fun e : body_entry cview => fst e + n <=? crows (snd e)) sb = true) as ->.
    { apply forallb_forall. intros e He. rewrite Forall_forall in Fn. specialize (Fn _ He). lia. }
    rewrite body_cols_abs.
    rewrite (IH (stail n sb) (slots_after n (map abs_e sb))); [lia| | |assumption|assumption].
    + apply stail_go_ok; [lia|assumption|assumption].
    + apply sl_equiv_sym, stail_equiv; [lia|assumption].
Qed.
