(* C18 - the constructor and the describers of AttrSpec in terms of fields:
   depth marker, foreground number / kind / settings, background number / kind. *)
From Coq Require Import ZArith List Bool Lia ZifyBool.
Import ListNotations.
From Urwid Require Import PyBase PyList ColourBase colours_gen Colours ColoursTables ColoursBits.
Open Scope Z_scope.

(* ------------------------------------------------------------------ modes *)
Inductive mode := M88 | MTrue | M256.
Definition marker (md : mode) : Z :=
  match md with M88 => HIGH_88_COLOR | MTrue => HIGH_TRUE_COLOR | M256 => 0 end.
Definition mode_of (D : Z) : mode :=
  if D =? 88 then M88 else if D =? TRUE_DEPTH then MTrue else M256.

Lemma init_marker D : init_value D = marker (mode_of D).
Proof.
  unfold init_value, mode_of, TRUE_DEPTH.
  destruct (D =? 88) eqn:E1; destruct (D =? 16777216) eqn:E2; try reflexivity. lia.
Qed.
Lemma marker_sub md : sub (marker md) RM.
Proof. destruct md; vm_compute; reflexivity. Qed.
Lemma marker_88 md : (Z.land (marker md) HIGH_88_COLOR =? 0) = negb (match md with M88 => true | _ => false end).
Proof. destruct md; reflexivity. Qed.
Lemma marker_true md : (Z.land (marker md) HIGH_TRUE_COLOR =? 0) = negb (match md with MTrue => true | _ => false end).
Proof. destruct md; reflexivity. Qed.

(* the colour of one part, per mode *)
Definition parse_mode (md : mode) (d : desc) : result (option Z) :=
  match md with
  | M88 => parse_color_88 d
  | MTrue => parse_color_true d
  | M256 => bind (true_to_256 d) (fun t => parse_color_256 (match t with Some d' => d' | None => d end))
  end.
Definition high_kind (md : mode) : kind := match md with MTrue => KTrue | _ => KHigh end.
Definition part_kind (md : mode) (d : desc) : kind :=
  match d with DDefault => KNone | DBasic _ => KBasic | _ => high_kind md end.
Definition part_color (md : mode) (d : desc) : result (option Z) :=
  match d with DDefault => Ok (Some 0) | DBasic n => Ok (Some n) | _ => parse_mode md d end.
Definition kflag (fb fh ft : Z) (k : kind) : Z :=
  match k with KNone => 0 | KBasic => fb | KHigh => fh | KTrue => ft end.

Lemma parse_part_mode v md d fb fh ft :
  (forall M, sub M RM -> Z.land v M = Z.land (marker md) M) ->
  parse_part v d fb fh ft = bind (part_color md d) (fun c => Ok (c, kflag fb fh ft (part_kind md d))).
Proof.
  intros Hv. destruct masks_in_RM as [S88 STR].
  assert (G : forall d', (match d' with DDefault | DBasic _ => False | _ => True end) ->
            parse_part v d' fb fh ft = bind (parse_mode md d') (fun c => Ok (c, kflag fb fh ft (high_kind md)))).
  { intros d' Hd. assert (E : parse_part v d' fb fh ft =
        if negb (Z.land v HIGH_88_COLOR =? 0) then bind (parse_color_88 d') (fun c => Ok (c, fh))
        else if negb (Z.land v HIGH_TRUE_COLOR =? 0) then bind (parse_color_true d') (fun c => Ok (c, ft))
        else bind (true_to_256 d') (fun t =>
             bind (parse_color_256 (match t with Some d'' => d'' | None => d' end)) (fun c => Ok (c, fh))))
      by (destruct d'; try reflexivity; destruct Hd).
    rewrite E, (Hv _ S88), (Hv _ STR), marker_88, marker_true.
    destruct md; cbn [negb parse_mode high_kind kflag]; try reflexivity.
    destruct (true_to_256 d'); reflexivity. }
  destruct d; try (apply G; exact I); reflexivity.
Qed.

(* ------------------------------------------------------------------ what the lexer can produce *)
Definition wf_desc (md : mode) (d : desc) : Prop :=
  match d with
  | DBasic n => 0 <= n < 16
  | DCube rgb => rgb < 4096 /\ (md = MTrue -> 0 <= rgb)
  | DTrue n => n < 16777216
  | _ => True
  end.
Definition wf_part (md : mode) (p : part) : Prop :=
  match p with PCol d => wf_desc md d | PSet _ => True end.

Lemma wf_lexable md d : wf_desc md d -> lexable d.
Proof. destruct d; cbn; tauto. Qed.

(* the number a colour part yields, per mode *)
Definition num_bound (md : mode) : Z := match md with M88 => 88 | MTrue => 16777216 | M256 => 256 end.

Lemma parse_mode_total md d : wf_desc md d -> in_range (num_bound md) (parse_mode md d).
Proof.
  intros W. pose proof (wf_lexable md d W) as L. destruct md; cbn [parse_mode num_bound].
  - now apply parse_88_total.
  - apply parse_true_total; [assumption|]. destruct d; cbn in W |- *; tauto.
  - destruct (true_to_256_total d L) as [o [Eo Ro]]. rewrite Eo. cbn [bind].
    destruct o as [d'|].
    + destruct (Ro d' eq_refl) as [c [Hc [_ Ep]]]. rewrite Ep. now apply in_range_some.
    + now apply parse_256_total.
Qed.

Lemma part_color_total md d : wf_desc md d ->
  exists o, part_color md d = Ok o /\ forall c, o = Some c -> low24 c.
Proof.
  intros W. destruct d; try (destruct (parse_mode_total md _ W) as [o [Eo Ro]]; exists o; split; [exact Eo|];
    intros c E; specialize (Ro c E); unfold low24; destruct md; cbn in Ro; lia).
  - exists (Some 0). split; [reflexivity|]. intros c E; injection E as <-. unfold low24; lia.
  - exists (Some n). split; [reflexivity|]. intros c E; injection E as <-. cbn in W. unfold low24; lia.
Qed.

(* ------------------------------------------------------------------ the foreground loop on abstract state *)
Fixpoint fg_abs (md : mode) (parts : list part) (color : option Z) (ss : sset) (k : kind)
  : res (option Z * sset * kind) :=
  match parts with
  | [] => ROk (color, ss, k)
  | PSet s :: rest => if mem s ss then RErr AttrSpecError 1 else fg_abs md rest color (add s ss) k
  | PCol d :: rest =>
      match part_color md d with
      | Err e => RErr e 0
      | Ok None => RErr AttrSpecError 2
      | Ok (Some sc) =>
          match color with
          | Some _ => RErr AttrSpecError 3
          | None => fg_abs md rest (Some sc) ss (part_kind md d)
          end
      end
  end.

Lemma fg_loop_abs md v : (forall M, sub M RM -> Z.land v M = Z.land (marker md) M) ->
  forall parts color ss k, (color = None -> k = KNone) ->
  fg_loop v parts color (F ss k) =
  match fg_abs md parts color ss k with
  | ROk (c, ss', k') => ROk (c, F ss' k')
  | RErr e w => RErr e w
  end.
Proof.
  intros Hv. induction parts as [|p rest IH]; intros color ss k Hk; [reflexivity|].
  destruct p as [s|d]; cbn [fg_loop fg_abs].
  - rewrite enc_test, negb_involutive. destruct (mem s ss); [reflexivity|].
    rewrite enc_step. now apply IH.
  - rewrite (parse_part_mode v md d _ _ _ Hv).
    destruct (part_color md d) as [[sc|]|e]; cbn [bind]; try reflexivity.
    destruct color as [c0|]; [reflexivity|].
    rewrite (Hk eq_refl).
    change (kflag FG_BASIC_COLOR FG_HIGH_COLOR FG_TRUE_COLOR (part_kind md d)) with (fgflag (part_kind md d)).
    rewrite F_kind. apply IH. discriminate.
Qed.

Lemma fg_abs_range md : forall parts color ss k c' ss' k',
  Forall (wf_part md) parts -> (forall c, color = Some c -> low24 c) ->
  fg_abs md parts color ss k = ROk (c', ss', k') -> forall c, c' = Some c -> low24 c.
Proof.
  induction parts as [|p rest IH]; intros color ss k c' ss' k' W Hc E.
  - cbn in E. injection E as <- <- <-. exact Hc.
  - inversion W as [|? ? Wp Wr]; subst. destruct p as [s|d]; cbn [fg_abs] in E.
    + destruct (mem s ss); [discriminate|]. eapply IH; eauto.
    + destruct (part_color_total md d Wp) as [o [Eo Ro]]. rewrite Eo in E.
      destruct o as [sc|]; [|discriminate]. destruct color; [discriminate|].
      eapply IH; [exact Wr| |exact E]. intros c Ec. injection Ec as <-. now apply Ro.
Qed.

(* only AttrSpecError escapes from the loop *)
Lemma fg_abs_errors md : forall parts color ss k e w,
  Forall (wf_part md) parts -> fg_abs md parts color ss k = RErr e w -> e = AttrSpecError.
Proof.
  induction parts as [|p rest IH]; intros color ss k e w W E; [discriminate|].
  inversion W as [|? ? Wp Wr]; subst. destruct p as [s|d]; cbn [fg_abs] in E.
  - destruct (mem s ss); [now injection E as <- _|]. eapply IH; eauto.
  - destruct (part_color_total md d Wp) as [o [Eo _]]. rewrite Eo in E.
    destruct o as [sc|]; [|now injection E as <- _]. destruct color; [now injection E as <- _|].
    eapply IH; eauto.
Qed.

(* ------------------------------------------------------------------ the constructor in terms of fields *)
Definition dflt (o : option Z) : Z := match o with Some c => c | None => 0 end.

(* the depth marker that stays in the value: the true-colour marker is dropped when no true colour is used *)
Definition out_mode (md : mode) (k bk : kind) : mode :=
  match md with MTrue => if is_true k || is_true bk then MTrue else M256 | _ => md end.

Lemma drop_marker_pack md fn ss k bn bk : low24 fn -> low24 bn ->
  drop_marker (pack (marker md) fn (F ss k) bn (bgflag bk)) = pack (marker (out_mode md k bk)) fn (F ss k) bn (bgflag bk).
Proof.
  intros Hfn Hbn.
  assert (OK : PackOK (marker md) fn (F ss k) bn (bgflag bk))
    by (constructor; auto using marker_sub, F_sub, bgflag_sub).
  destruct masks_in_RF as [_ [_ [F3 _]]]. destruct masks_in_RB as [_ [_ B3]].
  destruct (F_val ss k) as [_ [_ V3]].
  unfold drop_marker. rewrite (Z.lor_comm FG_TRUE_COLOR BG_TRUE_COLOR).
  rewrite (acc_ff_bf _ _ _ _ _ OK _ _ F3 B3), V3.
  destruct (is_true k || is_true bk) eqn:T.
  - replace (Z.lor (Z.land (bgflag bk) BG_TRUE_COLOR) (bz (is_true k) FG_TRUE_COLOR) =? 0) with false
      by (destruct k, bk; try discriminate T; reflexivity).
    destruct md; cbn [out_mode]; rewrite ?T; reflexivity.
  - replace (Z.lor (Z.land (bgflag bk) BG_TRUE_COLOR) (bz (is_true k) FG_TRUE_COLOR) =? 0) with true
      by (destruct k, bk; try discriminate T; reflexivity).
    rewrite (pack_clear _ _ _ _ _ OK). destruct md; cbn [out_mode]; rewrite ?T; reflexivity.
Qed.

Definition build (md : mode) (fg : list part) (bg : desc) : res Z :=
  match fg_abs md fg None ss_empty KNone with
  | RErr e w => RErr e w
  | ROk (fcol, ss, k) =>
      match part_color md bg with
      | Err e => RErr e 0
      | Ok None => RErr AttrSpecError 4
      | Ok (Some bn) =>
          ROk (pack (marker (out_mode md k (part_kind md bg))) (dflt fcol) (F ss k) bn (bgflag (part_kind md bg)))
      end
  end.

Lemma attrspec_new_build D fg bg :
  Forall (wf_part (mode_of D)) fg -> wf_desc (mode_of D) bg ->
  attrspec_new fg bg D =
  if negb (valid_depth D) then RErr AttrSpecError 6
  else rbind (build (mode_of D) fg bg) (fun v => if D <? attr_colors v then RErr AttrSpecError 5 else ROk v).
Proof.
  intros W Wb. unfold attrspec_new. destruct (negb (valid_depth D)); [reflexivity|].
  rewrite init_marker. set (md := mode_of D) in *. unfold build, set_foreground.
  rewrite <- F_empty. rewrite (fg_loop_abs md (marker md)) by (auto; reflexivity).
  destruct (fg_abs md fg None ss_empty KNone) as [[[fcol ss] k]|e w] eqn:EF; cbn [rbind fst snd]; [|reflexivity].
  assert (Hfn : low24 (dflt fcol)).
  { destruct fcol as [c|]; cbn [dflt]; [|unfold low24; lia].
    eapply (fg_abs_range md fg None ss_empty KNone); eauto. discriminate. }
  fold (dflt fcol). fold (pack1 (marker md) (dflt fcol) (F ss k)).
  unfold set_background.
  rewrite (parse_part_mode _ md bg).
  2:{ intros M HM. apply pack1_marker; auto using marker_sub, F_sub. }
  destruct (part_color_total md bg Wb) as [o [Eo Ro]]. rewrite Eo.
  destruct o as [bn|]; cbn [bind lift rbind fst snd]; [|reflexivity].
  change (kflag BG_BASIC_COLOR BG_HIGH_COLOR BG_TRUE_COLOR (part_kind md bg)) with (bgflag (part_kind md bg)).
  pose proof (drop_marker_pack md (dflt fcol) ss k bn (part_kind md bg) Hfn (Ro bn eq_refl)) as DM.
  match goal with |- context [drop_marker ?x] =>
    replace (drop_marker x) with (pack (marker (out_mode md k (part_kind md bg))) (dflt fcol) (F ss k) bn (bgflag (part_kind md bg)))
      by (symmetry; exact DM) end.
  reflexivity.
Qed.

Lemma build_ok md fg bg v :
  Forall (wf_part md) fg -> wf_desc md bg -> build md fg bg = ROk v ->
  exists fcol ss k bn,
    fg_abs md fg None ss_empty KNone = ROk (fcol, ss, k) /\
    part_color md bg = Ok (Some bn) /\
    v = pack (marker (out_mode md k (part_kind md bg))) (dflt fcol) (F ss k) bn (bgflag (part_kind md bg)) /\
    low24 (dflt fcol) /\ low24 bn.
Proof.
  intros W Wb E. unfold build in E.
  destruct (fg_abs md fg None ss_empty KNone) as [[[fcol ss] k]|e w] eqn:EF; [|discriminate].
  destruct (part_color_total md bg Wb) as [o [Eo Ro]]. rewrite Eo in E.
  destruct o as [bn|]; [|discriminate]. injection E as <-.
  exists fcol, ss, k, bn. split; [reflexivity|]. split; [exact Eo|]. split; [reflexivity|]. split; [|now apply Ro].
  destruct fcol as [c|]; cbn [dflt]; [|unfold low24; lia].
  eapply (fg_abs_range md fg None ss_empty KNone); eauto. discriminate.
Qed.
