(* C01 - Overlay with a given or relative width (top widget rendered as a flow or box widget):
   contract lemma for box and flow sizing.  Relies on f18097d (packed height measured at the width the
   top widget is rendered with). *)
From Coq Require Import ZArith List Bool Lia ZifyBool.
Import ListNotations.
From Urwid Require Import WidgetDims WidgetDimsProofs.
Open Scope Z_scope.

Arguments Z.add : simpl never.
Arguments Z.sub : simpl never.
Arguments Z.mul : simpl never.
Arguments Z.quot : simpl never.
Arguments Z.ltb : simpl never.
Arguments Z.leb : simpl never.
Arguments Z.eqb : simpl never.
Arguments Z.max : simpl never.
Arguments Z.min : simpl never.

(* CanvasOverlay of a canvas that fits *)
Lemma overlay_place top_c bottom_c l t :
  0 <= l -> 0 <= t -> 1 <= cr top_c ->
  cc top_c + l <= cc bottom_c -> t + cr top_c <= cr bottom_c ->
  rect top_c = true -> rect bottom_c = true -> inside top_c -> inside bottom_c ->
  exists d, canvas_overlay top_c bottom_c l t = Ok d
            /\ cc d = cc bottom_c /\ cr d = cr bottom_c /\ rect d = true /\ inside d.
Proof.
  intros Hl Ht Hr Hw Hh R1 R2 I1 I2. unfold canvas_overlay.
  replace (cc bottom_c - l - cc top_c <? 0) with false by lia.
  replace (cr bottom_c - t - cr top_c <? 0) with false by lia.
  replace (t <? 0) with false by lia.
  replace ((0 <? t) && (cr bottom_c <=? t)) with false by lia.
  replace ((negb (cr bottom_c - t - cr top_c =? 0)) && (cr top_c <=? 0)) with false by lia.
  eexists. split; [reflexivity|]. cbn [cc cr rect cur].
  assert (M : (if (negb (l =? 0)) || (negb (cc bottom_c - l - cc top_c =? 0))
               then Z.max 0 l + cc top_c + Z.max 0 (cc bottom_c - l - cc top_c) else cc top_c) = cc bottom_c).
  { destruct ((negb (l =? 0)) || (negb (cc bottom_c - l - cc top_c =? 0))) eqn:E; lia. }
  rewrite M. repeat split.
  - destruct (0 <? t); reflexivity.
  - lia.
  - rewrite R1, R2, Z.eqb_refl. reflexivity.
  - unfold inside in *. cbn [cc cr cur].
    assert (C : (if 0 <? t then cc bottom_c else cc bottom_c) = cc bottom_c) by (destruct (0 <? t); reflexivity).
    rewrite C.
    destruct (cur top_c) as [[x y]|]; cbn.
    + lia.
    + destruct (cur bottom_c) as [[x y]|]; auto. lia.
Qed.

(* trimming the bottom of a canvas that is too tall (Overlay: flow top widget taller than the screen) *)
Lemma pad_tb_cut cv b :
  b < 0 -> 1 <= cr cv + b -> inside cv ->
  exists d, pad_trim_tb cv 0 b = Ok d /\ cc d = cc cv /\ cr d = cr cv + b /\ rect d = rect cv /\ inside d.
Proof.
  intros Hb Hr Hi.
  destruct (pad_tb_to cv (cr cv + b) Hr ltac:(lia) ltac:(lia) Hi) as [d [E [A [B [C D]]]]].
  replace (cr cv + b - cr cv) with b in E by lia. exists d. auto.
Qed.

(* everything of Overlay.render after real_size = self.pack(size, focus) *)
Definition overlay_body (t b : sem) (p : ovp) (maxcol maxrow : Z) (f : bool) : res canv :=
  let* pf := overlay_cpf t p maxcol maxrow f in
  let '(lft, rgt, top, bottom) := pf in
  let* bottom_c := m_render b (SBox maxcol maxrow) false in
  if (cc bottom_c =? 0) || (cr bottom_c =? 0) then Ok bottom_c else
  let tsize := match ov_wt p with
               | WPack => SFixed
               | _ => match ov_ht p with
                      | HPack => SFlow (maxcol - lft - rgt)
                      | _ => SBox (maxcol - lft - rgt) (maxrow - top - bottom)
                      end
               end in
  let* top_c := m_render t tsize f in
  if (cc top_c =? 0) || (cr top_c =? 0) then Ok bottom_c else
  let* top1 := (if (lft <? 0) || (rgt <? 0) then pad_trim_lr top_c (Z.min 0 lft) (Z.min 0 rgt) else Ok top_c) in
  let* top2 := (if (top <? 0) || (bottom <? 0) then pad_trim_tb top1 (Z.min 0 top) (Z.min 0 bottom) else Ok top1) in
  canvas_overlay top2 bottom_c (Z.max lft 0) top.

Lemma overlay_render_unfold t b p sp sz f :
  overlay_render t b p sp sz f = (let* real := sp sz f in overlay_body t b p (fst real) (snd real) f).
Proof.
  unfold overlay_render. destruct (sp sz f) as [[mc mr]|e]; reflexivity.
Qed.

(* the part of the Overlay options covered here *)
Definition overlay_given (p : ovp) : Prop :=
  (match ov_wt p with WGiven n => 1 <= n | WRelative pct => 1 <= pct | _ => False end)
  /\ 0 <= ov_left p /\ 0 <= ov_right p /\ 0 <= ov_top p /\ 0 <= ov_bottom p
  /\ match ov_ht p with
     | HRelative pct => pct <= 100 /\ match ov_minh p with Some m => 0 <= m | None => True end
     | _ => True
     end.

Lemma overlay_body_ok nt t b p c r f :
  0 <= nt -> GoodN nt t -> (exists nb, GoodN nb b) -> s_box (m_sizing b) = true -> overlay_given p ->
  overlay_top_ok (m_sizing t) p = true -> 1 <= c -> 1 <= r ->
  match overlay_body t b p c r f with
  | Ok d => cc d = c /\ cr d = r /\ rect d = true /\ inside d
  | Err e => soft e
  end.
Proof.
  intros Hnt Gt [nb Gb] Hb [Hw [Hl [Hrg [Htp [Hbt Hh]]]]] Hok Hc Hr.
  unfold overlay_body, overlay_cpf.
  assert (Hnc : ov_wt p <> WClip /\ ov_wt p <> WPack).
  { destruct (ov_wt p); try contradiction; split; discriminate. }
  destruct Hnc as [Hnc Hnp].
  pose proof (clrp_nonneg c (ov_align p) (ov_wt p) (wt_amount (ov_wt p)) (ov_minw p) (ov_left p) (ov_right p) Hnc) as [L1 L2].
  assert (E0 : (match ov_wt p with
                | WPack => let* wh := m_pack t SFixed f in
                           if snd wh =? 0 then Err EWidget
                           else Ok (clrp c (ov_align p) WClip (fst wh) None (ov_left p) (ov_right p), Some (snd wh))
                | _ => Ok (clrp c (ov_align p) (ov_wt p) (wt_amount (ov_wt p)) (ov_minw p) (ov_left p) (ov_right p), None)
                end)
               = Ok (clrp c (ov_align p) (ov_wt p) (wt_amount (ov_wt p)) (ov_minw p) (ov_left p) (ov_right p), @None Z)).
  { destruct (ov_wt p); try congruence; reflexivity. }
  rewrite E0. clear E0. cbn [bind].
  destruct (clrp c (ov_align p) (ov_wt p) (wt_amount (ov_wt p)) (ov_minw p) (ov_left p) (ov_right p)) as [lft rgt].
  cbn [fst snd] in L1, L2.
  (* the bottom widget *)
  pose proof (g_box b Gb c r false Hb Hc Hr) as B.
  (* top widget size selector *)
  assert (ET : forall top bottom,
             (match ov_wt p with
              | WPack => SFixed
              | _ => match ov_ht p with
                     | HPack => SFlow (c - lft - rgt)
                     | _ => SBox (c - lft - rgt) (r - top - bottom)
                     end
              end) = match ov_ht p with
                     | HPack => SFlow (c - lft - rgt)
                     | _ => SBox (c - lft - rgt) (r - top - bottom)
                     end).
  { intros. destruct (ov_wt p); try congruence; reflexivity. }
  unfold overlay_top_ok in Hok.
  assert (Hok' : match ov_ht p with HPack => s_flow (m_sizing t) = true
                                 | ht => 1 <= ht_amount ht /\ s_box (m_sizing t) = true end).
  { destruct (ov_wt p); try congruence; try contradiction; destruct (ov_ht p); cbn in *; lia. }
  clear Hok.
  destruct (ov_ht p) as [n| |pct] eqn:EH.
  - (* given height: box top *)
    pose proof (ctbf_nonneg r (ov_valign p) (HGiven n) (ht_amount (HGiven n)) (ov_minh p) (ov_top p) (ov_bottom p)) as [N1 N2].
    destruct (ctbf r (ov_valign p) (HGiven n) (ht_amount (HGiven n)) (ov_minh p) (ov_top p) (ov_bottom p)) as [top bottom].
    cbn [fst snd] in N1, N2. cbn [bind].
    destruct (m_render b (SBox c r) false) as [bc|e]; cbn [bind]; [|exact B].
    destruct B as [[B1 B2] [B3 B4]].
    replace ((cc bc =? 0) || (cr bc =? 0)) with false by lia.
    rewrite (ET top bottom).
    destruct (Z_le_gt_dec (c - lft - rgt) 0) as [Hz|Hz].
    { rewrite (g_deg_render t Gt); [cbn; auto|]. unfold degenerate. lia. }
    destruct (Z_le_gt_dec (r - top - bottom) 0) as [Hz2|Hz2].
    { rewrite (g_deg_render t Gt); [cbn; auto|]. unfold degenerate. lia. }
    pose proof (g_box t Gt (c - lft - rgt) (r - top - bottom) f (proj2 Hok') ltac:(lia) ltac:(lia)) as T.
    destruct (m_render t (SBox (c - lft - rgt) (r - top - bottom)) f) as [tc|e]; cbn [bind]; [|exact T].
    destruct T as [[T1 T2] [T3 T4]].
    replace ((cc tc =? 0) || (cr tc =? 0)) with false by lia.
    replace ((lft <? 0) || (rgt <? 0)) with false by lia. cbn [bind].
    replace ((top <? 0) || (bottom <? 0)) with false by lia. cbn [bind].
    replace (Z.max lft 0) with lft by lia.
    destruct (overlay_place tc bc lft top) as [d [E [D1 [D2 [D3 D4]]]]]; try lia; auto.
    rewrite E. fin.
  - (* packed height: flow top *)
    destruct (Z_le_gt_dec (c - lft - rgt) 0) as [Hz|Hz].
    { rewrite (g_deg_rows t Gt _ f Hz). cbn. auto. }
    pose proof (g_rows t Gt (c - lft - rgt) f Hok' ltac:(lia)) as R.
    pose proof (g_flow t Gt (c - lft - rgt) f Hok' ltac:(lia)) as T.
    destruct (m_rows t (c - lft - rgt) f) as [h|e] eqn:ER; cbn [bind]; [|exact R].
    destruct (Z_lt_ge_dec r h) as [Hov|Hfit].
    + rewrite ctbf_given_over by lia. replace (r <? h) with true by lia. cbn [bind].
      destruct (m_render b (SBox c r) false) as [bc|e]; cbn [bind]; [|exact B].
      destruct B as [[B1 B2] [B3 B4]].
      replace ((cc bc =? 0) || (cr bc =? 0)) with false by lia.
      rewrite (ET 0 0).
      destruct (m_render t (SFlow (c - lft - rgt)) f) as [tc|e]; cbn [bind]; [|exact T].
      destruct T as [[T1 T2] [T3 T4]]. assert (cr tc = h) by congruence.
      replace ((cc tc =? 0) || (cr tc =? 0)) with false by lia.
      replace ((lft <? 0) || (rgt <? 0)) with false by lia. cbn [bind].
      replace ((0 <? 0) || (r - h <? 0)) with true by lia.
      replace (Z.min 0 0) with 0 by lia. replace (Z.min 0 (r - h)) with (r - h) by lia.
      destruct (pad_tb_cut tc (r - h)) as [t2 [E2 [C1 [C2 [C3 C4]]]]]; try lia; auto.
      rewrite E2. cbn [bind]. replace (Z.max lft 0) with lft by lia.
      destruct (overlay_place t2 bc lft 0) as [d [E [D1 [D2 [D3 D4]]]]]; try lia; try congruence; auto.
      rewrite E. fin.
    + pose proof (ctbf_given_fit r (ov_valign p) h None (ov_top p) (ov_bottom p) ltac:(lia)) as S.
      pose proof (ctbf_nonneg r (ov_valign p) (HGiven h) h None (ov_top p) (ov_bottom p)) as [N1 N2].
      destruct (ctbf r (ov_valign p) (HGiven h) h None (ov_top p) (ov_bottom p)) as [top bottom].
      cbn [fst snd] in S, N1, N2. replace (r <? h) with false by lia. cbn [bind].
      destruct (m_render b (SBox c r) false) as [bc|e]; cbn [bind]; [|exact B].
      destruct B as [[B1 B2] [B3 B4]].
      replace ((cc bc =? 0) || (cr bc =? 0)) with false by lia.
      rewrite (ET 0 0).
      destruct (m_render t (SFlow (c - lft - rgt)) f) as [tc|e]; cbn [bind]; [|exact T].
      destruct T as [[T1 T2] [T3 T4]]. assert (cr tc = h) by congruence.
      destruct (Z.eq_dec h 0) as [Hh0|Hh0].
      { (* a top widget without rows: the bottom canvas alone (f9cf74e) *)
        replace ((cc tc =? 0) || (cr tc =? 0)) with true by lia. fin. }
      replace ((cc tc =? 0) || (cr tc =? 0)) with false by lia.
      replace ((lft <? 0) || (rgt <? 0)) with false by lia. cbn [bind].
      replace ((top <? 0) || (bottom <? 0)) with false by lia. cbn [bind].
      replace (Z.max lft 0) with lft by lia.
      destruct (overlay_place tc bc lft top) as [d [E [D1 [D2 [D3 D4]]]]]; try lia; auto.
      rewrite E. fin.
  - (* relative height: box top *)
    pose proof (ctbf_nonneg r (ov_valign p) (HRelative pct) (ht_amount (HRelative pct)) (ov_minh p) (ov_top p) (ov_bottom p)) as [N1 N2].
    destruct (ctbf r (ov_valign p) (HRelative pct) (ht_amount (HRelative pct)) (ov_minh p) (ov_top p) (ov_bottom p)) as [top bottom].
    cbn [fst snd] in N1, N2. cbn [bind].
    destruct (m_render b (SBox c r) false) as [bc|e]; cbn [bind]; [|exact B].
    destruct B as [[B1 B2] [B3 B4]].
    replace ((cc bc =? 0) || (cr bc =? 0)) with false by lia.
    rewrite (ET top bottom).
    destruct (Z_le_gt_dec (c - lft - rgt) 0) as [Hz|Hz].
    { rewrite (g_deg_render t Gt); [cbn; auto|]. unfold degenerate. lia. }
    destruct (Z_le_gt_dec (r - top - bottom) 0) as [Hz2|Hz2].
    { rewrite (g_deg_render t Gt); [cbn; auto|]. unfold degenerate. lia. }
    pose proof (g_box t Gt (c - lft - rgt) (r - top - bottom) f (proj2 Hok') ltac:(lia) ltac:(lia)) as T.
    destruct (m_render t (SBox (c - lft - rgt) (r - top - bottom)) f) as [tc|e]; cbn [bind]; [|exact T].
    destruct T as [[T1 T2] [T3 T4]].
    replace ((cc tc =? 0) || (cr tc =? 0)) with false by lia.
    replace ((lft <? 0) || (rgt <? 0)) with false by lia. cbn [bind].
    replace ((top <? 0) || (bottom <? 0)) with false by lia. cbn [bind].
    replace (Z.max lft 0) with lft by lia.
    destruct (overlay_place tc bc lft top) as [d [E [D1 [D2 [D3 D4]]]]]; try lia; auto.
    rewrite E. fin.
Qed.

(* a flow Overlay that has no rows at all (0-row top widget, height='pack', no margins) asks its bottom widget
   for 0 rows: the starvation marker *)
Lemma overlay_body_starved nt t b p c f :
  0 <= nt -> GoodN nt t -> (exists nb, GoodN nb b) -> overlay_given p ->
  overlay_top_ok (m_sizing t) p = true -> 1 <= c ->
  match overlay_body t b p c 0 f with Ok _ => False | Err e => soft e end.
Proof.
  intros Hnt Gt [nb Gb] [Hw [Hl [Hrg [Htp [Hbt Hh]]]]] Hok Hc.
  unfold overlay_body, overlay_cpf.
  assert (Hnp : ov_wt p <> WPack) by (destruct (ov_wt p); try contradiction; discriminate).
  assert (E0 : (match ov_wt p with
                | WPack => let* wh := m_pack t SFixed f in
                           if snd wh =? 0 then Err EWidget
                           else Ok (clrp c (ov_align p) WClip (fst wh) None (ov_left p) (ov_right p), Some (snd wh))
                | _ => Ok (clrp c (ov_align p) (ov_wt p) (wt_amount (ov_wt p)) (ov_minw p) (ov_left p) (ov_right p), None)
                end)
               = Ok (clrp c (ov_align p) (ov_wt p) (wt_amount (ov_wt p)) (ov_minw p) (ov_left p) (ov_right p), @None Z)).
  { destruct (ov_wt p); try congruence; reflexivity. }
  rewrite E0. clear E0. cbn [bind].
  destruct (clrp c (ov_align p) (ov_wt p) (wt_amount (ov_wt p)) (ov_minw p) (ov_left p) (ov_right p)) as [lft rgt].
  assert (D : m_render b (SBox c 0) false = Err EStarved).
  { apply (g_deg_render b Gb). unfold degenerate. lia. }
  unfold overlay_top_ok in Hok.
  destruct (ov_ht p) as [n| |pct] eqn:EH.
  - destruct (ctbf 0 (ov_valign p) (HGiven n) (ht_amount (HGiven n)) (ov_minh p) (ov_top p) (ov_bottom p)) as [top bottom].
    cbn [bind]. rewrite D. cbn. reflexivity.
  - assert (Hfl : s_flow (m_sizing t) = true).
    { destruct (ov_wt p); try congruence; try contradiction; cbn in *; lia. }
    destruct (Z_le_gt_dec (c - lft - rgt) 0) as [Hz|Hz].
    { rewrite (g_deg_rows t Gt _ f Hz). cbn. reflexivity. }
    pose proof (g_rows t Gt (c - lft - rgt) f Hfl ltac:(lia)) as R.
    destruct (m_rows t (c - lft - rgt) f) as [h|e]; cbn [bind]; [|exact R].
    destruct (ctbf 0 (ov_valign p) (HGiven h) h None (ov_top p) (ov_bottom p)) as [top bottom].
    cbn [bind]. rewrite D. cbn. reflexivity.
  - destruct (ctbf 0 (ov_valign p) (HRelative pct) (ht_amount (HRelative pct)) (ov_minh p) (ov_top p) (ov_bottom p)) as [top bottom].
    cbn [bind]. rewrite D. cbn. reflexivity.
Qed.

Lemma overlay_sem_as_node t b p :
  overlay_sem t b p =
  mk_node (overlay_sizing (m_sizing t) p) (overlay_rows t p) (overlay_pack_fixed t p)
          (overlay_render t b p (m_pack (overlay_sem t b p))).
Proof. reflexivity. Qed.

(* rows of a flow Overlay: at least one unless the height is packed from a top widget without rows *)
Definition overlay_min_rows (nt : Z) (p : ovp) : Z := match ov_ht p with HPack => nt | _ => 1 end.

Lemma overlay_rows_ok nt t p c f :
  nt <= 1 -> GoodN nt t -> overlay_given p -> overlay_top_ok (m_sizing t) p = true ->
  s_flow (overlay_sizing (m_sizing t) p) = true -> 1 <= c ->
  match overlay_rows t p c f with Ok h => overlay_min_rows nt p <= h | Err e => soft e end.
Proof.
  intros Hnt Gt [Hw [Hl [Hrg [Htp [Hbt Hh]]]]] Hok Hs Hc.
  unfold overlay_rows, overlay_sizing, overlay_top_ok, overlay_min_rows in *.
  destruct (ov_wt p) as [n| | |pct] eqn:EW; try contradiction.
  - (* given width *)
    destruct (ov_ht p) as [m| |hp] eqn:EH; cbn in *.
    + lia.
    + assert (Hfl : s_flow (m_sizing t) = true) by lia.
      replace (negb (n =? 0)) with true by lia.
      pose proof (g_rows t Gt n f Hfl Hw) as R. destruct (m_rows t n f); cbn; [lia|exact R].
    + destruct (osome (ov_minh p)) eqn:EO.
      * unfold osome in EO. destruct (ov_minh p) as [mh|]; [|discriminate]. cbn.
        assert (1 <= mh) by lia. replace (mh =? 0) with false by lia. unfold round_half.
        apply Z.quot_le_lower_bound; lia.
      * rewrite andb_false_r in Hs. discriminate.
  - (* relative width *)
    destruct (ov_ht p) as [m| |hp] eqn:EH; cbn in *.
    + lia.
    + assert (Hfl : s_flow (m_sizing t) = true) by lia.
      set (w := Z.max (round_half (c * pct) 100) (omin (ov_minw p) 0)).
      destruct (Z_le_gt_dec w 0) as [Hz|Hz].
      * rewrite (g_deg_rows t Gt w f Hz). cbn. auto.
      * pose proof (g_rows t Gt w f Hfl ltac:(lia)) as R. destruct (m_rows t w f); cbn; [lia|exact R].
    + destruct (osome (ov_minh p)) eqn:EO.
      * unfold osome in EO. destruct (ov_minh p) as [mh|]; [|discriminate]. cbn.
        assert (1 <= mh) by lia. replace (mh =? 0) with false by lia. unfold round_half.
        apply Z.quot_le_lower_bound; lia.
      * rewrite andb_false_r in Hs. discriminate.
Qed.

Lemma overlay_good nt t b p :
  0 <= nt <= 1 -> GoodN nt t -> (exists nb, GoodN nb b) -> s_box (m_sizing b) = true -> overlay_given p ->
  overlay_top_ok (m_sizing t) p = true -> GoodN (overlay_min_rows nt p) (overlay_sem t b p).
Proof.
  intros Hnt Gt Gb Hb Hg Hok. rewrite overlay_sem_as_node. apply mk_node_good.
  - intros c f Hs Hc. apply overlay_rows_ok; auto; lia.
  - intros c f Hs Hc. rewrite overlay_render_unfold.
    cbn [overlay_sem m_pack]. unfold degenerate. replace (c <=? 0) with false by lia.
    unfold default_pack. rewrite Hs. rewrite wrap_rows_valid by lia.
    pose proof (overlay_rows_ok nt t p c f ltac:(lia) Gt Hg Hok Hs Hc) as R.
    destruct (overlay_rows t p c f) as [r|e]; cbn [bind fst snd]; [|exact R].
    assert (R0 : 0 <= r) by (unfold overlay_min_rows in R; destruct (ov_ht p); lia).
    destruct (Z.eq_dec r 0) as [Hr0|Hr0].
    + subst r. pose proof (overlay_body_starved nt t b p c f ltac:(lia) Gt Gb Hg Hok Hc) as B.
      destruct (overlay_body t b p c 0 f) as [d|e]; [contradiction|exact B].
    + pose proof (overlay_body_ok nt t b p c r f ltac:(lia) Gt Gb Hb Hg Hok Hc ltac:(lia)) as B.
      destruct (overlay_body t b p c r f) as [d|e]; [|exact B].
      destruct B as [B1 [B2 [B3 B4]]]. fin.
  - intros c r f Hs Hc Hr. rewrite overlay_render_unfold.
    cbn [overlay_sem m_pack]. unfold degenerate. replace ((c <=? 0) || (r <=? 0)) with false by lia.
    cbn [default_pack bind fst snd].
    pose proof (overlay_body_ok nt t b p c r f ltac:(lia) Gt Gb Hb Hg Hok Hc Hr) as B.
    destruct (overlay_body t b p c r f) as [d|e]; [|exact B].
    destruct B as [B1 [B2 [B3 B4]]]. fin.
Qed.

(* the instance for a top widget that has a row *)
Lemma overlay_good1 t b p :
  Good t -> (exists nb, GoodN nb b) -> s_box (m_sizing b) = true -> overlay_given p ->
  overlay_top_ok (m_sizing t) p = true -> Good (overlay_sem t b p).
Proof.
  intros Gt Gb Hb Hg Hok.
  pose proof (overlay_good 1 t b p ltac:(lia) Gt Gb Hb Hg Hok) as G.
  replace (overlay_min_rows 1 p) with 1 in G; [exact G|].
  unfold overlay_min_rows. destruct (ov_ht p); reflexivity.
Qed.
